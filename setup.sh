#!/bin/sh
# Offline build of the checker (x/tools v0.29.0 and yaml.v3 come from the module cache).
cd "$(dirname "$0")/checker" || exit 2
export GOFLAGS=-mod=mod GOPROXY=off GOWORK=off GOTOOLCHAIN=auto
unset GOSUMDB
mkdir -p ../bin ../evidence
go build -o ../bin/sopverif . && echo "sopverif built"
