package main

import (
	"fmt"
	"go/types"
	"strings"

	"sopverif/eng"
)

// locksCmd lists every mutex field of product structs with the re-acquisitions found (cross-reference / discovery).
func locksCmd(repo string) int {
	p, err := eng.Load(repo, nil)
	if err != nil {
		fmt.Println(err)
		return 2
	}
	la := p.Locks()
	for _, pk := range p.All {
		sc := pk.Types.Scope()
		for _, name := range sc.Names() {
			tn, ok := sc.Lookup(name).(*types.TypeName)
			if !ok {
				continue
			}
			st, ok := tn.Type().Underlying().(*types.Struct)
			if !ok {
				continue
			}
			for i := 0; i < st.NumFields(); i++ {
				f := st.Field(i)
				ts := f.Type().String()
				if ts != "sync.Mutex" && ts != "sync.RWMutex" {
					continue
				}
				ra := la.Reacquisitions(f, 6)
				fmt.Printf("%s.%s.%s: %d re-acquisitions\n", strings.TrimPrefix(pk.PkgPath, eng.ModPath+"/"), name, f.Name(), len(ra))
				for _, x := range ra {
					fmt.Printf("    %s at %s via %v\n", x.Where, p.Rel(x.Pos), x.Via)
				}
			}
		}
	}
	return 0
}
