package rules

import (
	"go/ast"
	"go/types"

	"sopverif/eng"
)

// Must-effect summaries (the "wrapper" idea of lock summaries applied to writes): a method M of the receiver type
// is a *must-writer* for a direct-effect predicate D when every path from M's entry to an exit passes a node with D
// or a call, on M's own receiver, of another must-writer. A rule that asks "is the cache updated before X" then
// accepts, besides a direct store, a call `recv.helper(...)` of a must-writer on the caller's receiver. Extracting
// the body of a critical section into a helper is the most common refactoring of the code the rules look at; the
// summary keeps such an edit silent without accepting helpers that update only on some paths.
type mustEffect struct {
	p *eng.Prog
	// direct effect of one statement; key is nil for unkeyed effects, otherwise the object that must be the key
	// of the store/delete (e.g. `delete(recv.m, key)`)
	direct func(info *types.Info, n ast.Node, key types.Object) bool
	keyed  bool
	set    map[*eng.Func]int // must-writer -> index of the parameter used as the key (-1 for unkeyed effects)
}

// recvObj returns the receiver variable of f (nil for plain functions).
func recvObj(f *eng.Func) types.Object {
	if f == nil || f.Decl.Recv == nil || len(f.Decl.Recv.List) == 0 || len(f.Decl.Recv.List[0].Names) == 0 {
		return nil
	}
	return f.Pkg.TypesInfo.Defs[f.Decl.Recv.List[0].Names[0]]
}

func paramObjs(f *eng.Func) []types.Object {
	var out []types.Object
	for _, fl := range f.Decl.Type.Params.List {
		for _, nm := range fl.Names {
			out = append(out, f.Pkg.TypesInfo.Defs[nm])
		}
		if len(fl.Names) == 0 {
			out = append(out, nil)
		}
	}
	return out
}

// newMustEffect computes the must-writer set among the methods declared on the same receiver type as owner.
func newMustEffect(p *eng.Prog, owner *eng.Func, keyed bool, direct func(info *types.Info, n ast.Node, key types.Object) bool) *mustEffect {
	me := &mustEffect{p: p, direct: direct, keyed: keyed, set: map[*eng.Func]int{}}
	rn := eng.RecvNamed(owner.Obj)
	if rn == nil {
		return me
	}
	var cands []*eng.Func
	for _, f := range p.Funcs {
		if f != owner && f.Decl.Body != nil && f.Obj != nil && eng.RecvNamed(f.Obj) == rn && recvObj(f) != nil {
			cands = append(cands, f)
		}
	}
	for round := 0; round < 4; round++ {
		changed := false
		for _, f := range cands {
			if _, done := me.set[f]; done {
				continue
			}
			g := p.GraphOf(f)
			if g == nil {
				continue
			}
			if !keyed {
				if g.MustPassToExit(eng.Query{FromEntry: true}, me.Node(f, nil)) == nil {
					me.set[f] = -1
					changed = true
				}
				continue
			}
			for i, prm := range paramObjs(f) {
				if prm == nil || assignedInFunc(f, prm) {
					continue
				}
				if g.MustPassToExit(eng.Query{FromEntry: true}, me.Node(f, prm)) == nil {
					me.set[f] = i
					changed = true
					break
				}
			}
		}
		if !changed {
			break
		}
	}
	return me
}

func assignedInFunc(f *eng.Func, obj types.Object) bool {
	info := f.Pkg.TypesInfo
	found := false
	ast.Inspect(f.Decl.Body, func(n ast.Node) bool {
		switch t := n.(type) {
		case *ast.AssignStmt:
			for _, l := range t.Lhs {
				if id, ok := ast.Unparen(l).(*ast.Ident); ok && info.ObjectOf(id) == obj {
					found = true
				}
			}
		case *ast.IncDecStmt:
			if id, ok := ast.Unparen(t.X).(*ast.Ident); ok && info.ObjectOf(id) == obj {
				found = true
			}
		case *ast.UnaryExpr:
			if id, ok := ast.Unparen(t.X).(*ast.Ident); ok && t.Op.String() == "&" && info.ObjectOf(id) == obj {
				found = true
			}
		}
		return !found
	})
	return found
}

// Node returns the node predicate for code inside `in`: a direct effect (on key, for keyed effects), or a call of a
// must-writer on in's receiver (passing key in the must-writer's key parameter).
func (me *mustEffect) Node(in *eng.Func, key types.Object) func(*eng.GNode) bool {
	info := in.Pkg.TypesInfo
	recv := recvObj(in)
	return func(n *eng.GNode) bool {
		if n.Node == nil {
			return false
		}
		if me.direct(info, n.Node, key) {
			return true
		}
		if recv == nil || len(me.set) == 0 {
			return false
		}
		found := false
		eng.InspectNoLit(n.Node, func(m ast.Node) bool {
			c, ok := m.(*ast.CallExpr)
			if !ok || found {
				return !found
			}
			sel, ok := ast.Unparen(c.Fun).(*ast.SelectorExpr)
			if !ok {
				return true
			}
			if id, ok := ast.Unparen(sel.X).(*ast.Ident); !ok || info.ObjectOf(id) != recv {
				return true
			}
			fn, ok := eng.CalleeOf(info, c).(*types.Func)
			if !ok {
				return true
			}
			cf := me.p.FuncOf(fn)
			if cf == nil {
				return true
			}
			ix, isW := me.set[cf]
			if !isW {
				return true
			}
			if !me.keyed {
				found = true
			} else if ix >= 0 && ix < len(c.Args) && key != nil && eng.SelObj(info, c.Args[ix]) == key {
				if _, isIdent := ast.Unparen(c.Args[ix]).(*ast.Ident); isIdent {
					found = true
				}
			}
			return !found
		})
		return found
	}
}
