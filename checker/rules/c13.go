package rules

import (
	"fmt"
	"go/ast"
	"go/constant"
	"go/token"
	"go/types"
	"reflect"
	"sort"
	"strings"

	"gopkg.in/yaml.v3"

	"sopverif/eng"
)

func init() {
	register(&Property{
		ID:    "C13",
		Title: "Patch file: validated as a whole, applied in order, JSON and YAML agree",
		Explanation: "Decided on pkg/kube/object_patch and handleRunHook: (R1) ExecuteOperations runs only on the nil-error edge of " +
			"ParseOperations; in ParseOperations every decoded document is validated before it becomes an operation and a validation " +
			"error makes the returned error non-nil; (R2) documents are decoded into a fresh value each, appended in stream order by both " +
			"decoders, converted in ascending order, executed once each in ascending order with errors aggregated and returned; (R3) the " +
			"operation constants, the arms of NewFromOperationSpec and the enums of the schema are the same set, the execution type switch " +
			"covers every operation type; (R4) every OperationSpec field has equal json and yaml tags; (R5) option tables: delete " +
			"propagation modes, create flag pairs, the three patch arms pass subresource/ignoreMissingObject/ignoreHookError; (R6) errors " +
			"of the cluster calls are bound and returned; (R7) the YAML path normalises object/mergePatch/jsonPatch to JSON value types " +
			"before appending. Where the schema constrains `operation` by enum without requiring it, the key is always serialised (R3). NOT decided: the effect on a cluster, that the two decoders produce equal Go values for equal documents.",
		Run: runC13,
	})
}

func runC13(c *eng.Ctx) {
	p := c.P
	parse, _ := p.Object(pkgPatch, "ParseOperations").(*types.Func)
	validate, _ := p.Object(pkgPatch, "ValidateOperationSpec").(*types.Func)
	newFrom, _ := p.Object(pkgPatch, "NewFromOperationSpec").(*types.Func)

	// ---- R1
	r1 := c.Rule("C13.R1", "B:dominance", "all-or-nothing: ExecuteOperations only after ParseOperations returned a nil error; every decoded document is validated before it is converted; validation errors reach the returned error", 5)
	if f := r1.NeedFunc(pkgOp + ".(*ShellOperator).handleRunHook"); f != nil && parse != nil {
		info := f.Pkg.TypesInfo
		g := p.GraphOf(f)
		n := 0
		for _, call := range callsIn(info, f.Decl.Body, isObj(parse)) {
			n++
			v := errHandled(g, call, nil)
			// the operations executed are the parsed ones (possibly filtered by GetPatchStatusOperationsOnHookError)
			node := g.NodeOf(call)
			var opsVar types.Object
			if as, ok := node.Node.(*ast.AssignStmt); ok && len(as.Lhs) == 2 {
				opsVar = eng.SelObj(info, as.Lhs[0])
			}
			execOK := false
			for _, ex := range callsIn(info, f.Decl.Body, func(o types.Object, _ *ast.CallExpr) bool { return o != nil && nameOf(o) == "ExecuteOperations" }) {
				if len(ex.Args) == 1 && opsVar != nil && eng.UsesObj(info, ex.Args[0], opsVar, false) {
					en := g.NodeOf(ex)
					if en != nil && g.OnlyVia(en, func(m *eng.GNode) bool { return m == node }, nil) {
						execOK = true
					}
				}
			}
			r1.Check(v.OK && execOK, fmt.Sprintf("%s ParseOperations#%d", f.Key, n), call.Pos(), "parse error returned, only the parsed operations are executed", "operations can be executed although parsing/validation of the patch file failed: "+v.Detail)
		}
		if n == 0 {
			r1.Bad(f.Key+" parses", f.Decl.Pos(), "handleRunHook does not parse the patch file")
		}
	}
	if parse != nil && validate != nil && newFrom != nil {
		f := p.FuncOf(parse)
		c.Touch(f)
		info := f.Pkg.TypesInfo
		g := p.GraphOf(f)
		var el *eng.ElemLoop
		for _, call := range callsIn(info, f.Decl.Body, isObj(validate)) {
			el = elemLoopAt(info, f.Decl.Body, call.Pos())
		}
		if el == nil {
			r1.Bad(f.Key+" validates-each", f.Decl.Pos(), "documents are not validated in a loop over the decoded specs")
		} else {
			loop := el.Stmt
			isValidate := func(n *eng.GNode) bool {
				return len(g.CallsAt(n, func(o types.Object, call *ast.CallExpr) bool {
					return o == validate && len(call.Args) >= 1 && el.IsElem(call.Args[0])
				})) > 0
			}
			r1.Check(loopBodyMustPass(g, loop, isValidate), f.Key+" validates-each", loop.Pos(), "every decoded document passes ValidateOperationSpec", "a decoded document can be skipped without validation (e.g. when its `operation` is empty): a misspelled document is silently dropped and the rest of the file is applied")
			// conversion only after a nil validation error
			okConv := true
			nconv := 0
			for _, n := range g.Nodes {
				if len(g.CallsAt(n, func(o types.Object, call *ast.CallExpr) bool { return o == newFrom })) == 0 {
					continue
				}
				nconv++
				var vnode *eng.GNode
				for _, m := range g.Nodes {
					if isValidate(m) {
						vnode = m
					}
				}
				if vnode == nil || !g.OnlyVia(n, func(m *eng.GNode) bool { return m == vnode }, nil) {
					okConv = false
				}
				// not reachable on the error edge
				if vnode != nil {
					if as, ok := vnode.Node.(*ast.AssignStmt); ok && len(as.Lhs) == 1 {
						ev := eng.SelObj(info, as.Lhs[0])
						assumed := func(fc eng.Fact) bool {
							x, y, eq, isEq := eng.EqAtom(fc)
							return isEq && !eq && eng.SelObj(info, x) == ev && eng.IsNil(info, y)
						}
						reach := g.Reach(eng.Query{From: []*eng.GNode{vnode}, AvoidEdge: g.Infeasible(assumed), AvoidNode: isLoopHeadOf(loop)})
						if reach[n] {
							okConv = false
						}
					}
				}
			}
			r1.Check(okConv && nconv > 0, f.Key+" convert-only-valid", loop.Pos(), "a document becomes an operation only after it validated", "an invalid document can still be converted into an operation")
			// the returned error carries the validation errors: after a failed validation (err != nil assumed, up to the
			// next document) every return gives an error built from the validation error, directly or through an
			// accumulator that was extended with it on every path to that return; a path that goes on to the next
			// document must have extended the accumulator, and every return of the function then returns it
			retOK := false
			var vnode *eng.GNode
			for _, m := range g.Nodes {
				if isValidate(m) {
					vnode = m
				}
			}
			if vnode != nil {
				if as, ok := vnode.Node.(*ast.AssignStmt); ok && len(as.Lhs) == 1 {
					ev := eng.SelObj(info, as.Lhs[0])
					assumed := func(fc eng.Fact) bool {
						x, y, eq, isEq := eng.EqAtom(fc)
						return isEq && !eq && eng.SelObj(info, x) == ev && eng.IsNil(info, y)
					}
					// accumulation nodes: a := E(.. ev ..)
					accAt := map[*eng.GNode]types.Object{}
					for _, m := range g.Nodes {
						if as2, ok := m.Node.(*ast.AssignStmt); ok && m != vnode && len(as2.Lhs) == 1 && len(as2.Rhs) == 1 && ev != nil && eng.UsesObj(info, as2.Rhs[0], ev, false) {
							if a := eng.SelObj(info, as2.Lhs[0]); a != nil {
								accAt[m] = a
							}
						}
					}
					carries := func(e ast.Expr, from *eng.GNode, target *eng.GNode) bool {
						if eng.UsesObj(info, e, ev, false) {
							return true
						}
						for m, a := range accAt {
							_ = m
							if !eng.UsesObj(info, e, a, false) {
								continue
							}
							// target is reached from the failed validation only through an accumulation into a
							r := g.Reach(eng.Query{From: []*eng.GNode{from}, AvoidEdge: g.Infeasible(assumed), AvoidNode: func(x *eng.GNode) bool {
								return accAt[x] == a || isLoopHeadOf(loop)(x)
							}})
							if !r[target] {
								return true
							}
						}
						return false
					}
					reach := g.Reach(eng.Query{From: []*eng.GNode{vnode}, AvoidEdge: g.Infeasible(assumed), AvoidNode: isLoopHeadOf(loop)})
					retOK = true
					nret := 0
					var goesOn *eng.GNode
					for n := range reach {
						if isLoopHeadOf(loop)(n) {
							goesOn = n
						}
						if r, isR := eng.IsReturn(n); isR {
							nret++
							if len(r.Results) != 2 || !carries(r.Results[1], vnode, n) {
								retOK = false
							}
						}
					}
					if goesOn != nil {
						// the loop goes on after a failure: the error must have been accumulated, and every return carries the accumulator
						var theAcc types.Object
						for _, a := range accAt {
							r := g.Reach(eng.Query{From: []*eng.GNode{vnode}, AvoidEdge: g.Infeasible(assumed), AvoidNode: func(x *eng.GNode) bool {
								return accAt[x] == a
							}})
							if !r[goesOn] {
								theAcc = a
							}
						}
						if theAcc == nil {
							retOK = false
						} else {
							for _, n := range g.Nodes {
								if r, isR := eng.IsReturn(n); isR && r.Pos() > vnode.Node.Pos() {
									nret++
									if len(r.Results) != 2 || !eng.UsesObj(info, r.Results[1], theAcc, false) {
										retOK = false
									}
								}
							}
						}
					}
					retOK = retOK && nret > 0
				}
			}
			r1.Check(retOK, f.Key+" validation-errors-returned", f.Decl.Pos(), "the accumulated validation errors are returned", "ParseOperations can return a nil error although a document failed validation")
			// ascending conversion
			r2p := c.Rule("C13.R2", "B:order", "stream order: fresh decode target per document, one append per decoded document in both decoders, ascending conversion, one ExecuteOperation per element in ascending order with aggregated errors", 6)
			r2p.Check(!el.Desc, f.Key+" ascending-conversion", loop.Pos(), "ascending range over the decoded specs", "operations are not converted in document order")
			runC13R2(c, r2p)
			streamDecodedToEOF(c, r2p, pkgPatch+".unmarshalFromJson")
			streamDecodedToEOF(c, r2p, pkgPatch+".unmarshalFromYaml")
		}
	} else {
		r1.Unknown("anchor:ParseOperations/ValidateOperationSpec/NewFromOperationSpec", token.NoPos, "not found")
	}

	// ---- R3
	r3 := c.Rule("C13.R3", "F:exhaustiveness", "OperationType constants = arms of NewFromOperationSpec = enums of schema v0; ExecuteOperation's type switch covers createOperation, deleteOperation, patchOperation", 3)
	runC13R3(c, r3)

	// ---- R4
	r4 := c.Rule("C13.R4", "F:tag agreement", "every OperationSpec field has json and yaml tags with the same name and the same omitempty", 12)
	if named := p.Named(pkgPatch, "OperationSpec"); named == nil {
		r4.Unknown("anchor:OperationSpec", token.NoPos, "not found")
	} else {
		st := named.Underlying().(*types.Struct)
		for i := 0; i < st.NumFields(); i++ {
			tag := reflect.StructTag(st.Tag(i))
			j, y := tag.Get("json"), tag.Get("yaml")
			r4.Check(j != "" && j == y, "OperationSpec."+st.Field(i).Name(), st.Field(i).Pos(), "json:"+j, fmt.Sprintf("json tag %q and yaml tag %q differ: the field is read from a JSON document but not from the same document written as YAML (or vice versa)", j, y))
		}
	}

	// ---- R5
	r5 := c.Rule("C13.R5", "D:option tables", "Delete/DeleteInBackground/DeleteNonCascading -> Foreground/Background/Orphan; Create/CreateOrUpdate/CreateIfNotExists -> flag pairs; patch arms pass subresource, ignoreMissingObject, ignoreHookError; coordinates are passed in order", 12)
	runC13R5(c, r5)

	// ---- R6
	r6 := c.Rule("C13.R6", "I:error binding", "in the execute* functions the error of every cluster call (GroupVersionResource, Create, Get, Update, Patch, Delete) is bound to a variable that reaches a return", 8)
	for _, name := range []string{"executeCreateOperation", "executePatchOperation", "executeFilterOperation", "executeDeleteOperation"} {
		f := r6.NeedFunc(pkgPatch + ".(*ObjectPatcher)." + name)
		if f == nil {
			continue
		}
		info := f.Pkg.TypesInfo
		verbs := map[string]bool{"GroupVersionResource": true, "Create": true, "Get": true, "Update": true, "Patch": true, "Delete": true}
		n := 0
		ast.Inspect(f.Decl.Body, func(m ast.Node) bool {
			as, ok := m.(*ast.AssignStmt)
			es, isES := m.(*ast.ExprStmt)
			var call *ast.CallExpr
			var lhs []ast.Expr
			if ok && len(as.Rhs) == 1 {
				call, _ = ast.Unparen(as.Rhs[0]).(*ast.CallExpr)
				lhs = as.Lhs
			} else if isES {
				call, _ = ast.Unparen(es.X).(*ast.CallExpr)
			}
			if call == nil {
				return true
			}
			o := eng.CalleeOf(info, call)
			if o == nil || !verbs[o.Name()] {
				return true
			}
			fn, isF := o.(*types.Func)
			if !isF || fn.Pkg() == nil || !(strings.Contains(fn.Pkg().Path(), "client-go/dynamic") || strings.Contains(fn.Pkg().Path(), "object_patch") || strings.Contains(fn.Pkg().Path(), "kube-client")) {
				return true
			}
			n++
			construct := fmt.Sprintf("%s -> %s#%d", f.Key, o.Name(), n)
			if len(lhs) == 0 {
				r6.Bad(construct, call.Pos(), "the result of the cluster call is discarded")
				return true
			}
			ev := eng.SelObj(info, lhs[len(lhs)-1])
			if id, isI := ast.Unparen(lhs[len(lhs)-1]).(*ast.Ident); isI && id.Name == "_" {
				r6.Bad(construct, call.Pos(), "the error of the cluster call is assigned to _")
				return true
			}
			// the variable, or a variable it is handed over to (t = err, t = wrap(err)), reaches a return
			carriers := map[types.Object]bool{ev: true}
			for changed := true; changed; {
				changed = false
				ast.Inspect(f.Decl.Body, func(x ast.Node) bool {
					as2, isA := x.(*ast.AssignStmt)
					if !isA || as2.Pos() < call.Pos() || len(as2.Lhs) != len(as2.Rhs) {
						return true
					}
					for i, l := range as2.Lhs {
						lo := eng.SelObj(info, l)
						if lo == nil || carriers[lo] {
							continue
						}
						if _, isId := ast.Unparen(l).(*ast.Ident); !isId {
							continue
						}
						for co := range carriers {
							if eng.UsesObj(info, as2.Rhs[i], co, true) {
								carriers[lo] = true
								changed = true
								break
							}
						}
					}
					return true
				})
			}
			returned := false
			ast.Inspect(f.Decl.Body, func(x ast.Node) bool {
				if r, isR := x.(*ast.ReturnStmt); isR && r.Pos() > call.Pos() {
					for _, res := range r.Results {
						for co := range carriers {
							if eng.UsesObj(info, res, co, true) {
								returned = true
							}
						}
					}
				}
				return true
			})
			r6.Check(returned, construct, call.Pos(), "error bound and returned", "the error of the cluster call never reaches a return")
			return true
		})
		if n == 0 {
			r6.Unknown(f.Key+" cluster calls", f.Decl.Pos(), "no cluster call found")
		}
	}

	// ---- R7
	r7 := c.Rule("C13.R7", "B+D", "unmarshalFromYaml: object, mergePatch and jsonPatch pass a JSON normalisation before the document is appended", 3)
	if fo, _ := p.Object(pkgPatch, "unmarshalFromYaml").(*types.Func); fo == nil {
		r7.Unknown("anchor:unmarshalFromYaml", token.NoPos, "not found")
	} else {
		f := p.FuncOf(fo)
		c.Touch(f)
		info := f.Pkg.TypesInfo
		g := p.GraphOf(f)
		var app *eng.GNode
		for _, n := range g.Nodes {
			if as, ok := n.Node.(*ast.AssignStmt); ok && len(as.Rhs) == 1 && builtinCall(info, as.Rhs[0], "append") != nil {
				app = n
			}
		}
		for _, fldName := range []string{"Object", "MergePatch", "JSONPatch"} {
			fld := p.Field(pkgPatch, "OperationSpec", fldName)
			normalises := func(n *eng.GNode) bool {
				as, ok := n.Node.(*ast.AssignStmt)
				if !ok || len(as.Rhs) != 1 || len(as.Lhs) < 1 || !eng.IsField(info, as.Lhs[0], fld) {
					return false
				}
				cl, isC := ast.Unparen(as.Rhs[0]).(*ast.CallExpr)
				if !isC || len(cl.Args) < 1 || !eng.IsField(info, cl.Args[0], fld) {
					return false
				}
				fn, isF := eng.CalleeOf(info, cl).(*types.Func)
				return isF && reachesJSONDecode(p, fn, 2)
			}
			// the same conversion written once for a list of field addresses:
			//   for _, pf := range []*any{&doc.Object, ...} { v, err := conv(*pf); ...; *pf = v }
			var ptrLoopHeads []func(*eng.GNode) bool
			for _, el := range elemLoopsOver(info, f.Decl.Body, func(ast.Expr) bool { return true }) {
				lit, isLit := ast.Unparen(resolveLocal(info, f.Decl.Body, el.Base)).(*ast.CompositeLit)
				if !isLit {
					continue
				}
				has := false
				for _, e := range lit.Elts {
					if u, isU := ast.Unparen(e).(*ast.UnaryExpr); isU && u.Op == token.AND && eng.IsField(info, u.X, fld) {
						has = true
					}
				}
				if !has {
					continue
				}
				el := el
				deref := func(e ast.Expr) bool {
					st, isStar := ast.Unparen(e).(*ast.StarExpr)
					return isStar && el.IsElem(st.X)
				}
				storesConverted := func(n *eng.GNode) bool {
					as, ok := n.Node.(*ast.AssignStmt)
					if !ok || len(as.Lhs) < 1 || len(as.Rhs) != 1 || !deref(as.Lhs[0]) {
						return false
					}
					// `*pf = v` with v from the converter, or `*pf, err = conv(*pf)`
					cl, isC := ast.Unparen(resolveLocal(info, el.Body, as.Rhs[0])).(*ast.CallExpr)
					if !isC || len(cl.Args) < 1 || !deref(cl.Args[0]) {
						return false
					}
					fn, isF := eng.CalleeOf(info, cl).(*types.Func)
					return isF && reachesJSONDecode(p, fn, 2)
				}
				if loopIterMustPassBefore(g, el.Stmt, storesConverted, func(n *eng.GNode) bool { return n == app }) {
					ptrLoopHeads = append(ptrLoopHeads, isLoopHeadOf(el.Stmt))
				}
			}
			direct := normalises
			normalises = func(n *eng.GNode) bool {
				if direct(n) {
					return true
				}
				for _, h := range ptrLoopHeads {
					if h(n) {
						return true
					}
				}
				return false
			}
			r7.Check(app != nil && g.OnlyVia(app, normalises, nil), f.Key+" "+fldName, f.Decl.Pos(), "normalised to JSON value types before the append", "the YAML decoder's value for `"+strings.ToLower(fldName[:1])+fldName[1:]+"` is appended as yaml.v3 produced it (integers are int): unstructured objects cannot deep-copy them, CreateOrUpdate of an existing object panics for the YAML spelling of a document that works as JSON")
		}
	}
}

// reachesJSONDecode: the function (transitively, depth-bounded) calls encoding/json.Unmarshal or sigs.k8s.io/yaml.YAMLToJSON.
func reachesJSONDecode(p *eng.Prog, fn *types.Func, depth int) bool {
	f := p.FuncOf(fn)
	if f == nil || f.Decl.Body == nil || depth < 0 {
		return false
	}
	info := f.Pkg.TypesInfo
	found := false
	ast.Inspect(f.Decl.Body, func(n ast.Node) bool {
		cl, ok := n.(*ast.CallExpr)
		if !ok || found {
			return !found
		}
		o := eng.CalleeOf(info, cl)
		if eng.IsPkgFunc(o, "encoding/json", "Unmarshal") || eng.IsPkgFunc(o, "sigs.k8s.io/yaml", "YAMLToJSON") || eng.IsPkgFunc(o, "sigs.k8s.io/yaml", "Unmarshal") {
			found = true
		}
		if cf, isF := o.(*types.Func); isF && reachesJSONDecode(p, cf, depth-1) {
			found = true
		}
		return true
	})
	return found
}

func runC13R2(c *eng.Ctx, r *eng.RuleCtx) {
	p := c.P
	for _, name := range []string{"unmarshalFromJson", "unmarshalFromYaml"} {
		fo, _ := p.Object(pkgPatch, name).(*types.Func)
		if fo == nil {
			r.Unknown("anchor:"+name, token.NoPos, "not found")
			continue
		}
		f := p.FuncOf(fo)
		c.Touch(f)
		info := f.Pkg.TypesInfo
		g := p.GraphOf(f)
		var loop *ast.ForStmt
		var decode *ast.CallExpr
		for _, call := range callsIn(info, f.Decl.Body, func(o types.Object, _ *ast.CallExpr) bool { return o != nil && nameOf(o) == "Decode" }) {
			decode = call
			loop, _ = eng.LoopOf(f.Decl.Body, call.Pos()).(*ast.ForStmt)
		}
		if decode == nil || loop == nil {
			r.Bad(f.Key+" decode-loop", f.Decl.Pos(), "no decode loop")
			continue
		}
		// decode target: &doc with doc declared inside the loop body
		fresh := false
		var doc types.Object
		if u, ok := ast.Unparen(decode.Args[0]).(*ast.UnaryExpr); ok && u.Op == token.AND {
			doc = eng.SelObj(info, u.X)
			if doc != nil && loop.Body.Pos() <= doc.Pos() && doc.Pos() < loop.Body.End() {
				fresh = true
			}
		}
		r.Check(fresh, f.Key+" fresh-target", decode.Pos(), "each document is decoded into a value declared inside the loop", "one OperationSpec value is reused for all documents: the decoder only assigns the keys that are present, so a later document inherits every key it omits (namespace, name, subresource, ignoreMissingObject, ...) from earlier documents")
		// one append of doc per decoded document
		isApp := func(n *eng.GNode) bool {
			as, ok := n.Node.(*ast.AssignStmt)
			if !ok || len(as.Rhs) != 1 {
				return false
			}
			ap := builtinCall(info, as.Rhs[0], "append")
			return ap != nil && len(ap.Args) == 2 && eng.SelObj(info, ap.Args[0]) == eng.SelObj(info, as.Lhs[0]) && eng.SelObj(info, ap.Args[1]) == doc
		}
		// iterations end with the append, a break (EOF) or an error return
		var bodyEntry *eng.GNode
		for _, gn := range g.Nodes {
			if gn.Node == nil && gn.Block.Stmt == ast.Stmt(loop) && gn.Block.Kind.String() == "ForBody" {
				bodyEntry = gn
			}
		}
		ok := bodyEntry != nil
		if ok {
			reach := g.Reach(eng.Query{From: []*eng.GNode{bodyEntry}, AvoidNode: isApp})
			n := 0
			for m := range reach {
				if isApp(m) {
					n++
				}
				if m.Node == nil && m.Block.Stmt == ast.Stmt(loop) && (m.Block.Kind.String() == "ForBody" || m.Block.Kind.String() == "ForLoop" || m.Block.Kind.String() == "ForPost") {
					ok = false // next iteration reached without appending
				}
			}
			if n == 0 {
				ok = false
			}
		}
		r.Check(ok, f.Key+" append-per-document", loop.Pos(), "every decoded document is appended, in stream order", "a decoded document can be dropped (the loop continues without appending it)")
	}
	if f := r.NeedFunc(pkgPatch + ".(*ObjectPatcher).ExecuteOperations"); f != nil {
		info := f.Pkg.TypesInfo
		g := p.GraphOf(f)
		prm := f.Obj.Type().(*types.Signature).Params().At(0)
		ok := false
		for _, el := range elemLoopsOver(info, f.Decl.Body, func(x ast.Expr) bool { return eng.SelObj(info, x) == prm }) {
			if el.Desc {
				continue
			}
			calls := callsIn(info, el.Body, func(o types.Object, call *ast.CallExpr) bool {
				return o != nil && nameOf(o) == "ExecuteOperation" && len(call.Args) == 1 && el.IsElem(call.Args[0])
			})
			if len(calls) == 1 {
				n := g.NodeOf(calls[0])
				accum := func(m *eng.GNode) bool {
					if len(g.CallsAt(m, func(o types.Object, _ *ast.CallExpr) bool { return o != nil && nameOf(o) == "Append" })) == 0 {
						return false
					}
					as, isA := m.Node.(*ast.AssignStmt)
					return isA && len(as.Rhs) == 1 && isCallNamed(info, as.Rhs[0], "Append")
				}
				v := errHandled(g, calls[0], accum)
				ok = loopNoEarlyExit(g, el.Stmt) && loopBodyMustPass(g, el.Stmt, func(m *eng.GNode) bool { return m == n }) && v.OK
			}
		}
		// aggregated errors returned
		retOK := false
		eng.InspectNoLit(f.Decl.Body, func(n ast.Node) bool {
			if r, isR := n.(*ast.ReturnStmt); isR && len(r.Results) == 1 && isCallNamed(info, r.Results[0], "ErrorOrNil") {
				retOK = true
			}
			return true
		})
		r.Check(ok && retOK, f.Key, f.Decl.Pos(), "one ExecuteOperation per element, ascending, errors aggregated and returned", "operations are not `executed once each in document order with every error reported`")
	}
}

func runC13R3(c *eng.Ctx, r *eng.RuleCtx) {
	p := c.P
	pk := p.Pkg(pkgPatch)
	opT := p.Named(pkgPatch, "OperationType")
	if pk == nil || opT == nil {
		r.Unknown("anchor:OperationType", token.NoPos, "not found")
		return
	}
	consts := map[string]bool{}
	for _, name := range pk.Types.Scope().Names() {
		if cn, ok := pk.Types.Scope().Lookup(name).(*types.Const); ok && types.Identical(cn.Type(), opT) {
			consts[constant.StringVal(cn.Val())] = true
		}
	}
	arms := map[string]bool{}
	if fo, _ := p.Object(pkgPatch, "NewFromOperationSpec").(*types.Func); fo != nil {
		f := p.FuncOf(fo)
		c.Touch(f)
		info := f.Pkg.TypesInfo
		eng.InspectNoLit(f.Decl.Body, func(n ast.Node) bool {
			if sw, ok := n.(*ast.SwitchStmt); ok {
				for _, cl := range sw.Body.List {
					for _, e := range cl.(*ast.CaseClause).List {
						if s, isS := eng.ConstStr(info, e); isS {
							arms[s] = true
						}
					}
				}
			}
			return true
		})
	}
	enums := map[string]bool{}
	// schema v0 of the package
	var src string
	var pos token.Pos
	for _, file := range pk.Syntax {
		ast.Inspect(file, func(n ast.Node) bool {
			vs, ok := n.(*ast.ValueSpec)
			if !ok || len(vs.Names) != 1 || vs.Names[0].Name != "Schemas" || len(vs.Values) != 1 {
				return true
			}
			if cl, isC := vs.Values[0].(*ast.CompositeLit); isC {
				for _, el := range cl.Elts {
					if kv, isKV := el.(*ast.KeyValueExpr); isKV {
						if tv, has := pk.TypesInfo.Types[kv.Value]; has && tv.Value != nil && tv.Value.Kind() == constant.String {
							src = constant.StringVal(tv.Value)
							pos = kv.Pos()
						}
					}
				}
			}
			return true
		})
	}
	var doc any
	if err := yaml.Unmarshal([]byte(src), &doc); err != nil || src == "" {
		r.Unknown(pkgPatch+" schema", pos, "operation schema not found or not parseable")
		return
	}
	var walk func(n any)
	walk = func(n any) {
		switch t := n.(type) {
		case map[string]any:
			if op, ok := t["operation"].(map[string]any); ok {
				if lst, isL := op["enum"].([]any); isL {
					for _, v := range lst {
						if s, isS := v.(string); isS {
							enums[s] = true
						}
					}
				}
			}
			for _, v := range t {
				walk(v)
			}
		case []any:
			for _, v := range t {
				walk(v)
			}
		}
	}
	walk(doc)
	list := func(m map[string]bool) string {
		var out []string
		for k := range m {
			out = append(out, k)
		}
		sort.Strings(out)
		return strings.Join(out, ",")
	}
	r.Check(list(consts) == list(arms), "constants = NewFromOperationSpec arms", pos, list(consts), fmt.Sprintf("operation constants {%s} and the arms of NewFromOperationSpec {%s} differ: an operation accepted by the schema would be converted to nil and silently not executed", list(consts), list(arms)))
	r.Check(list(consts) == list(enums), "constants = schema enums", pos, list(enums), fmt.Sprintf("operation constants {%s} and the schema enums {%s} differ", list(consts), list(enums)))
	// the enum only constrains a key that is present: wherever the schema does not also require `operation`, the
	// document handed to the validator must always carry the key, i.e. the struct field is serialised without omitempty
	notRequired := 0
	var walkReq func(n any)
	walkReq = func(n any) {
		switch t := n.(type) {
		case map[string]any:
			if props, ok := t["properties"].(map[string]any); ok {
				if op, ok := props["operation"].(map[string]any); ok {
					if _, hasEnum := op["enum"]; hasEnum {
						req := false
						if lst, isL := t["required"].([]any); isL {
							for _, v := range lst {
								if v == "operation" {
									req = true
								}
							}
						}
						if !req {
							notRequired++
						}
					}
				}
			}
			for _, v := range t {
				walkReq(v)
			}
		case []any:
			for _, v := range t {
				walkReq(v)
			}
		}
	}
	walkReq(doc)
	if opFld := p.Field(pkgPatch, "OperationSpec", "Operation"); opFld == nil {
		r.Unknown("anchor:OperationSpec.Operation", token.NoPos, "field not found")
	} else {
		tagOK := true
		if st, ok := p.Named(pkgPatch, "OperationSpec").Underlying().(*types.Struct); ok {
			for i := 0; i < st.NumFields(); i++ {
				if st.Field(i) == opFld {
					jt := reflect.StructTag(st.Tag(i)).Get("json")
					if strings.Contains(jt, "omitempty") || jt == "-" {
						tagOK = false
					}
				}
			}
		}
		r.Check(notRequired == 0 || tagOK, "operation key always present for the enum check", opFld.Pos(),
			"the `operation` key is always serialised (or required in every schema branch)",
			fmt.Sprintf("%d schema branch(es) constrain `operation` by enum without requiring it, and OperationSpec.Operation is serialised with omitempty: a document without (or with a misspelled) `operation` key passes validation, is converted to a nil operation and makes the execution panic after earlier documents were applied", notRequired))
	}
	// type switch of ExecuteOperation
	if f := r.NeedFunc(pkgPatch + ".(*ObjectPatcher).ExecuteOperation"); f != nil {
		info := f.Pkg.TypesInfo
		covered := map[string]bool{}
		eng.InspectNoLit(f.Decl.Body, func(n ast.Node) bool {
			if ts, ok := n.(*ast.TypeSwitchStmt); ok {
				for _, cl := range ts.Body.List {
					for _, e := range cl.(*ast.CaseClause).List {
						if tv, has := info.Types[e]; has {
							t := tv.Type
							if pt, isP := t.(*types.Pointer); isP {
								t = pt.Elem()
							}
							if nm, isN := t.(*types.Named); isN {
								covered[nm.Obj().Name()] = true
							}
						}
					}
				}
			}
			return true
		})
		want := []string{"createOperation", "deleteOperation", "patchOperation"}
		ok := true
		for _, w := range want {
			if !covered[w] {
				ok = false
			}
		}
		r.Check(ok, f.Key+" type-switch", f.Decl.Pos(), "covers create, delete and patch operations", fmt.Sprintf("the execution type switch covers %v: an operation type without an arm is silently skipped", covered))
	}
}

func runC13R5(c *eng.Ctx, r *eng.RuleCtx) {
	p := c.P
	// delete propagation
	for ctor, want := range map[string]string{"NewDeleteOperation": "DeletePropagationForeground", "NewDeleteInBackgroundOperation": "DeletePropagationBackground", "NewDeleteNonCascadingOperation": "DeletePropagationOrphan"} {
		fo, _ := p.Object(pkgPatch, ctor).(*types.Func)
		if fo == nil {
			r.Unknown("anchor:"+ctor, token.NoPos, "not found")
			continue
		}
		f := p.FuncOf(fo)
		c.Touch(f)
		info := f.Pkg.TypesInfo
		ok := false
		sig := fo.Type().(*types.Signature)
		eng.InspectNoLit(f.Decl.Body, func(n ast.Node) bool {
			if ret, isR := n.(*ast.ReturnStmt); isR && len(ret.Results) == 1 {
				if cl, isC := ast.Unparen(ret.Results[0]).(*ast.CallExpr); isC && len(cl.Args) == 5 {
					o := eng.SelObj(info, cl.Args[0])
					coords := true
					for i := 0; i < 4; i++ {
						if eng.SelObj(info, cl.Args[i+1]) != sig.Params().At(i) {
							coords = false
						}
					}
					ok = o != nil && o.Name() == want && coords
				}
			}
			return true
		})
		r.Check(ok, ctor, f.Decl.Pos(), want, ctor+" does not use "+want+" with the given coordinates in order")
	}
	// the three Delete arms of NewFromOperationSpec map to their constructors
	if fo, _ := p.Object(pkgPatch, "NewFromOperationSpec").(*types.Func); fo != nil {
		f := p.FuncOf(fo)
		info := f.Pkg.TypesInfo
		table := map[string]string{"Create": "NewCreateOperation", "CreateIfNotExists": "NewCreateIfNotExistsOperation", "CreateOrUpdate": "NewCreateOrUpdateOperation",
			"Delete": "NewDeleteOperation", "DeleteInBackground": "NewDeleteInBackgroundOperation", "DeleteNonCascading": "NewDeleteNonCascadingOperation",
			"JQPatch": "NewPatchWithJQOperation", "MergePatch": "NewMergePatchOperation", "JSONPatch": "NewJSONPatchOperation"}
		eng.InspectNoLit(f.Decl.Body, func(n ast.Node) bool {
			sw, ok := n.(*ast.SwitchStmt)
			if !ok {
				return true
			}
			for _, cl := range sw.Body.List {
				cc := cl.(*ast.CaseClause)
				for _, e := range cc.List {
					name, isS := eng.ConstStr(info, e)
					if !isS {
						continue
					}
					okArm := false
					var call *ast.CallExpr
					for _, st := range cc.Body {
						if ret, isR := st.(*ast.ReturnStmt); isR && len(ret.Results) == 1 {
							if c2, isC := ast.Unparen(ret.Results[0]).(*ast.CallExpr); isC {
								call = c2
								if o := eng.CalleeOf(info, c2); o != nil && o.Name() == table[name] {
									okArm = true
								}
							}
						}
					}
					if okArm && strings.HasSuffix(name, "Patch") && call != nil {
						// options: WithSubresource(spec.Subresource), withIgnoreMissingObject(spec.IgnoreMissingObject), withIgnoreHookError(spec.IgnoreHookError)
						opts := map[string]string{}
						for _, a := range expandVariadic(info, f.Decl.Body, call) {
							if oc, isC := ast.Unparen(a).(*ast.CallExpr); isC && len(oc.Args) == 1 {
								if o := eng.CalleeOf(info, oc); o != nil {
									if s, isSel := ast.Unparen(oc.Args[0]).(*ast.SelectorExpr); isSel {
										opts[strings.ToLower(o.Name())] = s.Sel.Name
									}
								}
							}
						}
						okArm = opts["withsubresource"] == "Subresource" && opts["withignoremissingobject"] == "IgnoreMissingObject" && opts["withignorehookerror"] == "IgnoreHookError"
						// coordinates in order
						var names []string
						for _, a := range call.Args {
							if s, isSel := ast.Unparen(a).(*ast.SelectorExpr); isSel {
								names = append(names, s.Sel.Name)
							}
						}
						if !strings.HasSuffix(strings.Join(names, ","), "ApiVersion,Kind,Namespace,Name") {
							okArm = false
						}
					}
					if okArm && strings.HasPrefix(name, "Delete") && call != nil {
						var names []string
						for _, a := range call.Args {
							if s, isSel := ast.Unparen(a).(*ast.SelectorExpr); isSel {
								names = append(names, s.Sel.Name)
							}
						}
						okArm = strings.Join(names, ",") == "ApiVersion,Kind,Namespace,Name"
					}
					r.Check(okArm, "NewFromOperationSpec arm "+name, cc.Pos(), "-> "+table[name], "operation `"+name+"` is not converted by "+table[name]+" with its documented arguments and options")
				}
			}
			return true
		})
	}
	// create flags
	if fo, _ := p.Object(pkgPatch, "newCreateOperation").(*types.Func); fo != nil {
		f := p.FuncOf(fo)
		c.Touch(f)
		info := f.Pkg.TypesInfo
		g := p.GraphOf(f)
		flagOf := map[string]string{"updateIfExists": "CreateOrUpdate", "ignoreIfExists": "CreateIfNotExists"}
		for fl, want := range flagOf {
			fld := p.Field(pkgPatch, "createOperation", fl)
			ok := false
			n := 0
			for _, st := range storesOfField(info, f.Decl.Body, fld) {
				if b, isC := constBool(info, st.Val); isC && !b {
					continue // an explicit false
				}
				n++
				if b, isC := constBool(info, st.Val); isC && b {
					// `flag = true` under the case of the wanted operation
					if gn := g.NodeOf(st.Stmt); gn != nil {
						ok = g.OnlyVia(gn, nil, g.FactEdge(func(fc eng.Fact) bool {
							x, y, eq, isEq := eng.EqAtom(fc)
							if !isEq || !eq {
								return false
							}
							sx, isX := eng.ConstStr(info, x)
							sy, isY := eng.ConstStr(info, y)
							return (isX && sx == want) || (isY && sy == want)
						}))
					}
					continue
				}
				// `flag: operation == Wanted`
				if be, isB := ast.Unparen(st.Val).(*ast.BinaryExpr); isB && be.Op == token.EQL {
					sx, isX := eng.ConstStr(info, be.X)
					sy, isY := eng.ConstStr(info, be.Y)
					other := be.X
					if isX {
						other = be.Y
					}
					if ((isX && sx == want) || (isY && sy == want)) && isParamOfFunc(f, eng.SelObj(info, other)) {
						ok = true
					}
				}
			}
			r.Check(ok && n == 1, "newCreateOperation "+fl, f.Decl.Pos(), "set only for "+want, fl+" is not set exactly for "+want)
		}
	}
}
