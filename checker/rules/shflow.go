package rules

import (
	"fmt"
	"go/token"
	"strconv"
	"strings"

	"sopverif/eng"
)

// shflow.go - paths through structured bash code. The C19 rules used to read the three dispatch functions by
// shape (one `if` in the loop body, an if/elif chain around the case, a straight-line loop body); a guard written
// as `continue`, an early `return`, a helper variable or an extracted function changed the shape but not the
// behaviour. The enumerator below walks a command list the way bash does - and-or lists, `!`, if/elif/else, case,
// groups, subshells, continue/break/return/exit, assignments with a symbolic environment, calls of functions that
// are not part of the reference tree (stepped into with their positional parameters bound) - and returns every
// path with the decisions taken on it. The status of a command comes from an oracle supplied by the rule (a
// scenario such as "the candidate is defined"); an unknown status forks the path where it is consumed. Nothing is
// executed: a path is a list of commands with the words evaluated symbolically (symEval).

type shStatus int // +1 success, -1 failure, 0 unknown

type shEvent struct {
	Cmd        *eng.ShCmd
	Kind       string   // "run", "assign", "case"
	Tested     bool     // the status of the command decided where the path goes (see OK)
	OK         bool     // tested: the status assumed for the command itself
	Known      bool     // tested: the status came from the oracle (false: both outcomes are explored)
	Words      []symVal // simple / cond: the words under the environment of that moment
	Sub        bool     // inside a subshell or a pipeline element
	Cond       bool     // in a context where errexit is ignored (condition, `!`, non-final operand of && ||)
	Decl       string   // assign: the declaration builtin ("export", "local", ...), "" for a plain assignment
	Names      []string // assign: the variables, in order
	Vals       []symVal // assign: their values
	Raw        []*eng.ShWord
	Pattern    string // case: the literal pattern taken ("" when no arm is taken)
	Subject    symVal // case: the subject
	SubjectRaw *eng.ShWord
	Depth      int // nesting of stepped-into functions
}

type shPath struct {
	Events []shEvent
	Out    string // "" (falls off the end), "continue", "break", "return", "exit"
	OutCmd *eng.ShCmd
	OutArg symVal // operand of return / exit (nil: none)
	Status shStatus
	Env    map[string]symVal
}

type shFlow struct {
	funcs    map[string]*eng.ShCmd
	stepInto func(name string) bool                                            // functions to step into
	oracle   func(ev *shEvent) shStatus                                        // status of a command (0: unknown)
	value    func(a *eng.ShAssign, env map[string]symVal) (symVal, bool)       // custom value of an assignment
	arms     func(c *eng.ShCmd, subject symVal) (take []int, none, known bool) // case: arms to explore
	probs    []string
	ppos     []token.Pos
	limit    int
}

type shState struct {
	events []shEvent
	env    map[string]symVal
	sub    int
	cond   int
	depth  int
}

type shResult struct {
	st     shState
	status shStatus
	ev     int // index of the event whose status this is (-1: none)
	out    string
	outCmd *eng.ShCmd
	outArg symVal
}

func (f *shFlow) problem(pos token.Pos, msg string) {
	for i, m := range f.probs {
		if m == msg && f.ppos[i] == pos {
			return
		}
	}
	f.probs, f.ppos = append(f.probs, msg), append(f.ppos, pos)
}

// Paths enumerates the paths through l starting with env.
func (f *shFlow) Paths(l *eng.ShList, env map[string]symVal) []shPath {
	if f.limit == 0 {
		f.limit = 4096
	}
	e := map[string]symVal{}
	for k, v := range env {
		e[k] = v
	}
	var out []shPath
	for _, r := range f.list(l, shState{env: e}) {
		out = append(out, shPath{Events: r.st.events, Out: r.out, OutCmd: r.outCmd, OutArg: r.outArg, Status: r.status, Env: r.st.env})
	}
	return out
}

func (st shState) with(ev shEvent) shState {
	ev.Sub = st.sub > 0
	ev.Cond = st.cond > 0
	ev.Depth = st.depth
	st.events = append(st.events[:len(st.events):len(st.events)], ev)
	return st
}

func (st shState) set(name string, v symVal, has bool) shState {
	e := make(map[string]symVal, len(st.env)+1)
	for k, x := range st.env {
		e[k] = x
	}
	if has {
		e[name] = v
	} else {
		delete(e, name)
	}
	st.env = e
	return st
}

func (f *shFlow) list(l *eng.ShList, st shState) []shResult {
	results := []shResult{{st: st, status: 1, ev: -1}}
	if l == nil {
		return results
	}
	for _, ao := range l.Items {
		var next []shResult
		for _, r := range results {
			if r.out != "" {
				next = append(next, r)
				continue
			}
			next = append(next, f.andOr(ao, r.st)...)
		}
		results = next
		if len(results) > f.limit {
			f.problem(token.NoPos, "too many paths")
			return results[:f.limit]
		}
	}
	return results
}

// decide turns an unknown status into the two definite ones, marking the command that produced it.
func (f *shFlow) decide(r shResult) []shResult {
	if r.status != 0 || r.out != "" {
		return []shResult{r}
	}
	mk := func(ok bool) shResult {
		st := r.st
		if r.ev >= 0 && r.ev < len(st.events) {
			evs := append([]shEvent{}, st.events...)
			evs[r.ev].Tested, evs[r.ev].OK, evs[r.ev].Known = true, ok, false
			st.events = evs
		}
		s := shStatus(-1)
		if ok {
			s = 1
		}
		return shResult{st: st, status: s, ev: r.ev}
	}
	return []shResult{mk(true), mk(false)}
}

func (f *shFlow) andOr(ao *eng.ShAndOr, st shState) []shResult {
	if ao.Sep == "&" {
		f.problem(token.NoPos, "background command: "+shRenderList(&eng.ShList{Items: []*eng.ShAndOr{ao}}))
	}
	inner := st
	if len(ao.Ops) > 0 {
		inner.cond++
	}
	cur := f.pipe(ao.Pipes[0], inner)
	for i, op := range ao.Ops {
		last := i == len(ao.Ops)-1
		var next []shResult
		for _, r := range cur {
			if r.out != "" {
				next = append(next, r)
				continue
			}
			for _, d := range f.decide(r) {
				if (op == "&&") == (d.status > 0) {
					s2 := d.st
					if last {
						s2.cond = st.cond
					}
					next = append(next, f.pipe(ao.Pipes[i+1], s2)...)
				} else {
					next = append(next, d)
				}
			}
		}
		cur = next
	}
	for i := range cur {
		cur[i].st.cond = st.cond
	}
	return cur
}

func (f *shFlow) pipe(p *eng.ShPipe, st shState) []shResult {
	var results []shResult
	if len(p.Cmds) == 1 {
		inner := st
		if p.Neg {
			inner.cond++
		}
		results = f.cmd(p.Cmds[0], inner)
	} else {
		// every element runs in its own subshell; the status is that of the last one
		results = []shResult{{st: st, status: 1, ev: -1}}
		for _, c := range p.Cmds {
			var next []shResult
			for _, r := range results {
				s2 := r.st
				s2.sub++
				for _, x := range f.cmd(c, s2) {
					x.st.sub = st.sub
					x.st.env = r.st.env
					x.out, x.outCmd, x.outArg = "", nil, nil
					next = append(next, x)
				}
			}
			results = next
		}
	}
	if !p.Neg {
		return results
	}
	var out []shResult
	for _, r := range results {
		for _, d := range f.decide(r) {
			if d.out == "" {
				d.status = -d.status
			}
			d.st.cond = st.cond
			out = append(out, d)
		}
	}
	return out
}

func (f *shFlow) evalWords(ws []*eng.ShWord, env map[string]symVal) []symVal {
	var out []symVal
	for _, w := range ws {
		out = append(out, symEval(w.Parts, env))
	}
	return out
}

func (f *shFlow) assignVal(a *eng.ShAssign, env map[string]symVal) symVal {
	if f.value != nil {
		if v, ok := f.value(a, env); ok {
			return v
		}
	}
	v := symEval(a.Value.Parts, env)
	if a.Append {
		v = append(append(symVal{}, env[a.Name]...), v...)
	}
	return v
}

var shPositional = []string{"1", "2", "3", "4", "5", "6", "7", "8", "9", "@", "*", "#"}

func (f *shFlow) cmd(c *eng.ShCmd, st shState) []shResult {
	one := func(st shState, status shStatus, ev int) []shResult {
		return []shResult{{st: st, status: status, ev: ev}}
	}
	switch c.Kind {
	case "simple":
		words := f.evalWords(c.Words, st.env)
		name := c.CmdName()
		// assignments (plain, or through a declaration builtin)
		if len(c.Words) == 0 || c19Decl[name] {
			ev := shEvent{Cmd: c, Kind: "assign", Words: words}
			as := c.Assigns
			if len(c.Words) > 0 {
				ev.Decl = name
				for _, w := range c.Words[1:] {
					if a := eng.ShSplitAssign(w); a != nil {
						as = append(as, a)
					} else if s, ok := w.Lit(); ok {
						if len(s) > 0 && s[0] != '-' && name != "export" && name != "readonly" {
							st = st.set(s, nil, false) // `local name`: unset
						}
					} else {
						f.problem(c.Pos, "computed argument of `"+name+"`")
					}
				}
			}
			for _, a := range as {
				v := f.assignVal(a, st.env)
				st = st.set(a.Name, v, true)
				ev.Names, ev.Vals, ev.Raw = append(ev.Names, a.Name), append(ev.Vals, v), append(ev.Raw, a.Value)
			}
			st = st.with(ev)
			status := shStatus(1)
			// the status of a plain assignment is that of its last command substitution
			if len(c.Words) == 0 && len(as) > 0 {
				hasSub := false
				eng.ShExpansions(as[len(as)-1].Value.Parts, false, func(p *eng.ShPart, _ bool) { hasSub = hasSub || p.Kind == eng.ShCmdSub })
				if hasSub {
					status = 0
					if f.oracle != nil {
						e := st.events[len(st.events)-1]
						if s := f.oracle(&e); s != 0 {
							st.events[len(st.events)-1].Tested, st.events[len(st.events)-1].OK, st.events[len(st.events)-1].Known = true, s > 0, true
							status = s
						}
					}
				}
			}
			return one(st, status, len(st.events)-1)
		}
		// `shift [n]` inside a function that was stepped into: its positional parameters are the bound arguments
		if name == "shift" && st.depth > 0 && len(words) <= 2 && len(c.Assigns) == 0 {
			n := 1
			okN := true
			if len(words) == 2 {
				if lit, isLit := shLitOf(words[1]); isLit {
					if k, err := strconv.Atoi(lit); err == nil && k >= 0 {
						n = k
					} else {
						okN = false
					}
				} else {
					okN = false
				}
			}
			if okN {
				have := 0
				for k := 1; k <= 9; k++ {
					if _, has := st.env[strconv.Itoa(k)]; has {
						have = k
					}
				}
				if n <= have {
					ns := st
					for k := 1; k <= 9; k++ {
						if v, has := st.env[strconv.Itoa(k+n)]; has && k+n <= 9 {
							ns = ns.set(strconv.Itoa(k), v, true)
						} else {
							ns = ns.set(strconv.Itoa(k), nil, false)
						}
					}
					return one(ns, 1, -1)
				}
			}
		}
		switch name {
		case "continue", "break", "return", "exit":
			r := shResult{st: st, status: 0, ev: -1, out: name, outCmd: c}
			if len(words) > 1 {
				r.outArg = words[1]
			}
			return []shResult{r}
		}
		if fn := f.funcs[name]; fn != nil && f.stepInto != nil && f.stepInto(name) && shFuncBody(fn) != nil && len(c.Assigns) == 0 && st.depth < 3 {
			inner := st
			inner.depth++
			saved := map[string]symVal{}
			has := map[string]bool{}
			for _, k := range shPositional {
				saved[k], has[k] = st.env[k]
				inner = inner.set(k, nil, false)
			}
			for i, w := range words[1:] {
				if i < 9 {
					inner = inner.set(strconv.Itoa(i+1), w, true)
				} else {
					f.problem(c.Pos, "more than nine arguments for a function that is stepped into")
				}
			}
			var out []shResult
			for _, r := range f.list(shFuncBody(fn), inner) {
				switch r.out {
				case "return":
					r.out, r.outCmd = "", nil
					r.status = 0
					if len(r.outArg) == 1 && r.outArg[0].expr == "" {
						if k, err := strconv.Atoi(r.outArg[0].lit); err == nil {
							r.status = 1
							if k != 0 {
								r.status = -1
							}
						}
					}
					r.outArg = nil
					r.ev = -1
				case "continue", "break":
					f.problem(r.outCmd.Pos, "`"+r.out+"` inside a function that is stepped into")
				}
				for _, k := range shPositional {
					r.st = r.st.set(k, saved[k], has[k])
				}
				r.st.depth = st.depth
				out = append(out, r)
			}
			return out
		}
		ev := shEvent{Cmd: c, Kind: "run", Words: words}
		st = st.with(ev)
		status := shStatus(0)
		if f.oracle != nil {
			e := st.events[len(st.events)-1]
			if s := f.oracle(&e); s != 0 {
				st.events[len(st.events)-1].Tested, st.events[len(st.events)-1].OK, st.events[len(st.events)-1].Known = true, s > 0, true
				status = s
			}
		}
		return one(st, status, len(st.events)-1)
	case "cond":
		ev := shEvent{Cmd: c, Kind: "run", Words: f.evalWords(c.Words, st.env)}
		st = st.with(ev)
		status := shStatus(0)
		if f.oracle != nil {
			e := st.events[len(st.events)-1]
			if s := f.oracle(&e); s != 0 {
				st.events[len(st.events)-1].Tested, st.events[len(st.events)-1].OK, st.events[len(st.events)-1].Known = true, s > 0, true
				status = s
			}
		}
		return one(st, status, len(st.events)-1)
	case "if":
		branches := append([]*eng.ShCmd{c}, c.Elifs...)
		var try func(i int, st shState) []shResult
		try = func(i int, st shState) []shResult {
			if i == len(branches) {
				if c.Else != nil {
					return f.list(c.Else, st)
				}
				return one(st, 1, -1)
			}
			inner := st
			inner.cond++
			var out []shResult
			for _, r := range f.list(branches[i].Cond, inner) {
				if r.out != "" {
					r.st.cond = st.cond
					out = append(out, r)
					continue
				}
				for _, d := range f.decide(r) {
					d.st.cond = st.cond
					if d.status > 0 {
						out = append(out, f.list(branches[i].Body, d.st)...)
					} else {
						out = append(out, try(i+1, d.st)...)
					}
				}
			}
			return out
		}
		return try(0, st)
	case "case":
		subject := symEval(c.Words[0].Parts, st.env)
		var take []int
		none := true
		if f.arms != nil {
			var known bool
			take, none, known = f.arms(c, subject)
			if !known {
				take = nil
				for i := range c.Arms {
					take = append(take, i)
				}
				none = true
			}
		} else {
			for i := range c.Arms {
				take = append(take, i)
			}
		}
		var out []shResult
		for _, i := range take {
			arm := c.Arms[i]
			for _, pw := range arm.Patterns {
				lit, ok := pw.Lit()
				if !ok {
					f.problem(arm.Pos, "computed case pattern "+shRender(pw))
					continue
				}
				s2 := st.with(shEvent{Cmd: c, Kind: "case", Pattern: lit, Subject: subject, SubjectRaw: c.Words[0]})
				// inside the arm the subject equals the pattern: a subject that is one plain variable holds that
				// literal there (patterns with glob characters say less)
				if name, isVar := shSoleVar(c.Words[0]); isVar && !strings.ContainsAny(lit, "*?[") {
					s2 = s2.set(name, symVal{{lit: lit}}, true)
				}
				out = append(out, f.list(arm.Body, s2)...)
			}
		}
		if none {
			out = append(out, one(st.with(shEvent{Cmd: c, Kind: "case", Subject: subject, SubjectRaw: c.Words[0]}), 1, -1)...)
		}
		return out
	case "group":
		return f.list(c.Body, st)
	case "subshell":
		inner := st
		inner.sub++
		var out []shResult
		for _, r := range f.list(c.Body, inner) {
			r.st.sub = st.sub
			r.st.env = st.env
			if r.out == "exit" || r.out == "return" {
				r.status = 0
			}
			r.out, r.outCmd, r.outArg = "", nil, nil
			out = append(out, r)
		}
		return out
	case "for":
		// a loop over a list that is known completely - literal words, or "$@" inside a function that was stepped
		// into (its positional parameters are the bound arguments) - is unrolled
		if vals, ok := f.forList(c, st); ok && c.Body != nil {
			cur := []shResult{{st: st, status: 1, ev: -1}}
			var done []shResult
			for _, v := range vals {
				var next []shResult
				for _, s := range cur {
					s2 := s.st.set(c.Name, v, true)
					for _, r := range f.list(c.Body, s2) {
						switch r.out {
						case "continue":
							r.out, r.outCmd, r.outArg = "", nil, nil
							next = append(next, r)
						case "break":
							r.out, r.outCmd, r.outArg = "", nil, nil
							done = append(done, r)
						case "":
							next = append(next, r)
						default:
							done = append(done, r)
						}
					}
				}
				cur = next
				if len(cur)+len(done) > 256 {
					f.problem(c.Pos, "too many paths through an unrolled `for`")
					break
				}
			}
			return append(done, cur...)
		}
		f.problem(c.Pos, fmt.Sprintf("compound command `%s` is not followed (its effects are unknown)", c.Kind))
		for _, n := range assignedDeep(c) {
			st = st.set(n, symVal{{expr: "<assigned in a " + c.Kind + ">"}}, true)
		}
		return one(st.with(shEvent{Cmd: c, Kind: "run"}), 0, len(st.events))
	case "func":
		f.problem(c.Pos, "function definition inside the analysed code")
		return one(st, 1, -1)
	default:
		f.problem(c.Pos, fmt.Sprintf("compound command `%s` is not followed (its effects are unknown)", c.Kind))
		for _, n := range assignedDeep(c) {
			st = st.set(n, symVal{{expr: "<assigned in a " + c.Kind + ">"}}, true)
		}
		return one(st.with(shEvent{Cmd: c, Kind: "run"}), 0, len(st.events))
	}
}

// shLitOf returns the literal value of an evaluated word.
func shLitOf(v symVal) (string, bool) {
	switch {
	case len(v) == 0:
		return "", true
	case len(v) == 1 && v[0].expr == "":
		return v[0].lit, true
	}
	return "", false
}

// shSoleVar: the word is exactly one expansion of a variable ($x, ${x}, "$x", "${x}") without an operator.
func shSoleVar(w *eng.ShWord) (string, bool) {
	ps := w.Parts
	if len(ps) == 1 && ps[0].Kind == eng.ShDQ {
		ps = ps[0].Parts
	}
	if len(ps) != 1 || ps[0].Kind != eng.ShParam || ps[0].Text != "" || ps[0].Prefix != "" || ps[0].Index != "" {
		return "", false
	}
	return ps[0].Name, true
}

// forList expands the word list of a `for` when every word is known: a literal (after evaluation in the current
// environment, without unknown expansions), or "$@" / "${@}" inside a stepped-into function.
func (f *shFlow) forList(c *eng.ShCmd, st shState) ([]symVal, bool) {
	var out []symVal
	for _, w := range c.Words {
		if name, ok := shSoleVar(w); ok && name == "@" {
			quoted := len(w.Parts) == 1 && w.Parts[0].Kind == eng.ShDQ
			if st.depth == 0 || !quoted {
				return nil, false
			}
			for k := 1; k <= 9; k++ {
				v, has := st.env[strconv.Itoa(k)]
				if !has {
					break
				}
				out = append(out, v)
			}
			continue
		}
		v := symEval(w.Parts, st.env)
		if _, isLit := shLitOf(v); !isLit {
			return nil, false
		}
		out = append(out, v)
	}
	return out, true
}
