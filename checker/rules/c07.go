package rules

import (
	"fmt"
	"go/ast"
	"go/token"
	"go/types"
	"strings"

	"sopverif/eng"
)

func init() {
	register(&Property{
		ID:    "C07",
		Title: "Combining adjacent tasks keeps every binding context, in order",
		Explanation: "Decided on combineBindingContextForHook, its exported twin, taskHandleHookRun and TaskQueue.Filter: (R1) the exported " +
			"twin equals the unexported function up to logging and the declared receiver substitution (typed AST canonical form); (R2) a " +
			"task is merged only when its hook name and task type equal the head's; whenever a task other than the head is not merged " +
			"the sticky stop flag is set, and the flag is tested first (the merged run is contiguous); (R3) contexts and monitor ids are " +
			"concatenated head first, then the merged tasks in ascending order; (R4) the Filter callback drops exactly the merged tasks " +
			"(head kept, unknown ids kept); (R5) compaction drops a context only when it has a non-empty group equal to the next " +
			"context's group; (R6) an un-grouped Synchronization is never combined, everything else is; (R7) Filter reads, decides and " +
			"publishes in one exclusive critical section (tasks appended concurrently survive). (R8) the combined contexts are written back to the surviving task before the hook runs. NOT decided: exact sequence equality for " +
			"every queue layout (functional), interleavings beyond R4/R7 and the lock discipline of C05.",
		Run: runC07,
	})
}

func runC07(c *eng.Ctx) {
	p := c.P
	a := p.Func(pkgOp + ".(*ShellOperator).combineBindingContextForHook")
	b := p.Func(pkgOp + ".(*ShellOperator).CombineBindingContextForHook")
	r1 := c.Rule("C07.R1", "G:twin comparison (note only)", "the operator runs the unexported combineBindingContextForHook; the exported copy (addon-operator, test generator) is compared with it for information", 1)
	if a == nil || b == nil {
		r1.Unknown("anchor:combine twins", token.NoPos, "one of the twins was not found")
	} else {
		c.Touch(a)
		c.Touch(b)
		// The exported copy is not on the operator's own execution path (taskHandleHookRun calls the unexported one): it
		// serves addon-operator and the test generator. Whether the copies are still textually alike is reported as a
		// note only - a behaviour-preserving edit of one copy must not raise an alarm, and R2..R5 decide the property
		// on the copy the operator runs.
		fa, sa := canonTwin(p, a, "tqs")
		fb, sb := canonTwin(p, b, "")
		if fa == fb {
			r1.Ok(a.Key+" ~ "+b.Key, b.Decl.Pos(), fmt.Sprintf("canonical forms are equal (%d statements)", len(sa)))
		} else {
			i := 0
			for i < len(sa) && i < len(sb) && sa[i].fp == sb[i].fp {
				i++
			}
			r1.Ok(a.Key+" ~ "+b.Key, b.Decl.Pos(), fmt.Sprintf("note: the copies differ from statement %d on (not a violation: only the unexported copy is executed by the operator)", i+1))
		}
	}

	if a == nil {
		return
	}
	info := a.Pkg.TypesInfo
	g := p.GraphOf(a)
	iterate := p.Method(pkgQueue, "TaskQueue", "Iterate")
	filter := p.Method(pkgQueue, "TaskQueue", "Filter")
	getHookName := func(e ast.Expr) bool { return isCallNamed(info, e, "GetHookName") }
	taskPrm := paramLike(a.Obj.Type().(*types.Signature), 2, typeNamed("pkg/task", "Task"))

	// ---- R2
	r2 := c.Rule("C07.R2", "D+B:flags", "merge predicate: append only under equal hook name and equal task type; every non-merged task (other than the head itself) leaves the sticky stop flag set; the flag is tested first", 3)
	var itLit *eng.Lit
	for _, l := range litsPassedTo(a, info, iterate) {
		itLit = l
	}
	var others types.Object
	if itLit == nil {
		r2.Unknown(a.Key+" iterate callback", a.Decl.Pos(), "literal passed to q.Iterate not found")
	} else {
		lg := p.GraphOfLit(itLit)
		var appendNode *eng.GNode
		for _, n := range lg.Nodes {
			as, ok := n.Node.(*ast.AssignStmt)
			if ok && len(as.Rhs) == 1 && builtinCall(info, as.Rhs[0], "append") != nil {
				appendNode = n
				others = eng.SelObj(info, as.Lhs[0])
			}
		}
		var tsk types.Object
		if itLit.Lit.Type.Params != nil && len(itLit.Lit.Type.Params.List) == 1 {
			tsk = info.Defs[itLit.Lit.Type.Params.List[0].Names[0]]
		}
		if appendNode == nil || tsk == nil {
			r2.Unknown(a.Key+" iterate callback", itLit.Lit.Pos(), "append of the candidate task not found")
		} else {
			derivedHookName := func(e ast.Expr) bool {
				if getHookName(e) {
					return true
				}
				if v, ok := eng.SelObj(info, e).(*types.Var); ok && !v.IsField() {
					for _, x := range eng.AssignedExprs(info, a.Decl, v) {
						if getHookName(x) {
							return true
						}
					}
				}
				return false
			}
			nameEq := lg.FactEdge(func(fc eng.Fact) bool {
				x, y, eq, ok := eng.EqAtom(fc)
				return ok && eq && derivedHookName(x) && derivedHookName(y)
			})
			typeEq := lg.FactEdge(func(fc eng.Fact) bool {
				x, y, eq, ok := eng.EqAtom(fc)
				return ok && eq && isCallNamed(info, x, "GetType") && isCallNamed(info, y, "GetType")
			})
			okPred := lg.OnlyVia(appendNode, nil, nameEq) && lg.OnlyVia(appendNode, nil, typeEq)
			// appended value is the callback's task
			as := appendNode.Node.(*ast.AssignStmt)
			ap := builtinCall(info, as.Rhs[0], "append")
			okArg := len(ap.Args) == 2 && eng.SelObj(info, ap.Args[1]) == tsk
			r2.Check(okPred && okArg, a.Key+" merge-predicate", appendNode.Node.Pos(), "append(otherTasks, tsk) only under equal hook name and equal task type", "a task can be merged although its hook name or task type differs from the head's (contexts of another hook would be delivered to this hook)")
			// sticky flag
			var stopFlag *types.Var
			for _, fl := range lg.Flags {
				if fl.Name() != "" {
					// the flag tested by the first condition
				}
			}
			// first condition of the callback
			var firstCond *eng.GNode
			for n := lg.Entry; n != nil; {
				if len(n.Succ) == 2 && n.Succ[0].Cond != nil {
					firstCond = n
					break
				}
				if len(n.Succ) != 1 {
					break
				}
				n = n.Succ[0].To
			}
			if firstCond != nil {
				if v, ok := eng.SelObj(info, firstCond.Succ[0].Cond).(*types.Var); ok {
					stopFlag = v
				}
			}
			if stopFlag == nil {
				r2.Bad(a.Key+" stop-flag-first", itLit.Lit.Pos(), "the callback does not start by testing a sticky stop flag: tasks behind a non-combinable task can be merged over it")
			} else {
				// true edge returns immediately
				retOK := false
				for _, e := range firstCond.Succ {
					if e.Taken {
						retOK = true
						for m := range reachFromEdge(lg, e) {
							if m == appendNode {
								retOK = false
							}
						}
					}
				}
				r2.Check(retOK, a.Key+" stop-flag-first", firstCond.Node.Pos(), "once the stop flag is set nothing is merged any more", "with the stop flag set the callback can still merge a task")
				// every non-merging exit (other than "this is the head itself" and "already stopped") has the flag set
				headSkip := lg.FactEdge(func(fc eng.Fact) bool {
					x, y, eq, ok := eng.EqAtom(fc)
					return ok && eq && isCallNamed(info, x, "GetId") && isCallNamed(info, y, "GetId")
				})
				alreadyStopped := func(e *eng.GEdge) bool { return e.From == firstCond && e.Taken }
				vals := lg.ReachVals(eng.Query{FromEntry: true, AvoidEdge: func(e *eng.GEdge) bool { return headSkip(e) || alreadyStopped(e) }, AvoidNode: func(n *eng.GNode) bool { return n == appendNode }})
				okSticky := true
				where := ""
				for n, vs := range vals {
					if !n.Exit || n == appendNode {
						continue
					}
					for v := range vs {
						// the valuation before the exit node runs; a return does not change flags
						if lg.FlagIs(v, stopFlag) != 1 {
							okSticky = false
							where = lg.Describe(n)
						}
					}
				}
				r2.Check(okSticky, a.Key+" stop-is-sticky", itLit.Lit.Pos(), "a task that is not merged always leaves the stop flag set", "the callback can return for a task that is not merged without setting the stop flag ("+where+"): the scan continues past a non-combinable task and merges tasks from behind it, out of queue order")
			}
		}
	}

	// ---- R3 concatenation order
	r3 := c.Rule("C07.R3", "B:order", "contexts: head first, then an ascending range over the merged tasks appending each task's contexts; monitor ids likewise", 2)
	bcAcc := func(e ast.Expr) bool { return isCallNamed(info, e, "GetBindingContext") }
	// variables connected by plain copies name the same slice (an inlined helper hands its result over that way)
	sameObj := copyAliases(info, a.Decl.Body)
	var combined types.Object
	var headAppend *eng.GNode
	var loop *eng.ElemLoop
	for _, n := range g.Nodes {
		as, ok := n.Node.(*ast.AssignStmt)
		if !ok || len(as.Rhs) != 1 {
			continue
		}
		ap := builtinCall(info, as.Rhs[0], "append")
		if ap == nil || len(ap.Args) != 2 || !ap.Ellipsis.IsValid() || !bcAcc(ap.Args[1]) {
			continue
		}
		if eng.LoopOf(a.Decl.Body, as.Pos()) != nil {
			loop = elemLoopAt(info, a.Decl.Body, as.Pos())
		} else {
			headAppend = n
			combined = eng.SelObj(info, as.Lhs[0])
		}
	}
	okOrder := false
	if headAppend != nil && loop != nil && others != nil && eng.SelObj(info, loop.Base) == others && !loop.Desc && loopNoEarlyExit(g, loop.Stmt) {
		// head append uses the head task's metadata; loop append uses the loop element's
		head := loopBodyEntryOf(g, loop.Stmt)
		okOrder = head != nil && g.OnlyVia(head, func(n *eng.GNode) bool { return n == headAppend }, nil)
		inLoop := false
		eng.InspectNoLit(loop.Body, func(n ast.Node) bool {
			if as, ok := n.(*ast.AssignStmt); ok && len(as.Rhs) == 1 {
				if ap := builtinCall(info, as.Rhs[0], "append"); ap != nil && len(ap.Args) == 2 && eng.SelObj(info, ap.Args[0]) == combined && bcAcc(ap.Args[1]) && usesElemVia(info, loop, ap.Args[1]) {
					inLoop = true
				}
			}
			return true
		})
		okOrder = okOrder && inLoop
	}
	r3.Check(okOrder, a.Key+" context-order", a.Decl.Pos(), "head contexts, then merged tasks ascending", "binding contexts are not concatenated as `head task first, then the merged tasks in queue order`")
	okMon := false
	if loop != nil {
		var mon types.Object
		for _, n := range g.Nodes {
			as, ok := n.Node.(*ast.AssignStmt)
			if ok && len(as.Rhs) == 1 && isCallNamed(info, as.Rhs[0], "GetMonitorIDs") && eng.LoopOf(a.Decl.Body, as.Pos()) == nil {
				mon = eng.SelObj(info, as.Lhs[0])
			}
		}
		res := p.Field(pkgOp, "CombineResult", "MonitorIDs")
		appended := false
		eng.InspectNoLit(loop.Body, func(n ast.Node) bool {
			if as, ok := n.(*ast.AssignStmt); ok && len(as.Rhs) == 1 && mon != nil && eng.SelObj(info, as.Lhs[0]) == mon {
				if ap := builtinCall(info, as.Rhs[0], "append"); ap != nil && eng.SelObj(info, ap.Args[0]) == mon {
					appended = true
				}
			}
			return true
		})
		stored := false
		eng.InspectNoLit(a.Decl.Body, func(n ast.Node) bool {
			if as, ok := n.(*ast.AssignStmt); ok && len(as.Lhs) == 1 && eng.IsField(info, as.Lhs[0], res) && sameObj(eng.SelObj(info, as.Rhs[0]), mon) {
				stored = true
			}
			return true
		})
		if mon != nil && mon == types.Object(res) {
			stored = true // accumulated in the result itself
		}
		okMon = mon != nil && appended && stored
	}
	r3.Check(okMon, a.Key+" monitor-ids", a.Decl.Pos(), "monitor ids of the head plus those of every merged task are returned", "the monitor ids of merged tasks are not collected: merged Synchronizations never unlock their monitors")

	// ---- R4 filter callback
	r4 := c.Rule("C07.R4", "D:provenance", "Filter callback returns the recorded verdict for known ids (head true, merged false) and true for unknown ids", 2)
	var fLit *eng.Lit
	for _, l := range litsPassedTo(a, info, filter) {
		fLit = l
	}
	if fLit == nil {
		r4.Bad(a.Key+" filter", a.Decl.Pos(), "merged tasks are not removed through TaskQueue.Filter")
	} else {
		var fmap types.Object
		okDefault, okKnown := false, false
		fg := p.GraphOfLit(fLit)
		// the callback looks the task up with `verdict, known := m[task.GetId()]`; its result is evaluated abstractly for
		// the three possible outcomes of that lookup (whatever the shape: if/return, one boolean expression, ...)
		var vObj, okObj types.Object
		ast.Inspect(fLit.Lit.Body, func(m ast.Node) bool {
			if as, isA := m.(*ast.AssignStmt); isA && len(as.Lhs) == 2 && len(as.Rhs) == 1 {
				if ix, isIx := ast.Unparen(as.Rhs[0]).(*ast.IndexExpr); isIx && isCallNamed(info, ix.Index, "GetId") {
					if tv, has := info.Types[ix.X]; has {
						if _, isMap := tv.Type.Underlying().(*types.Map); isMap {
							fmap = eng.SelObj(info, ix.X)
							vObj, okObj = eng.SelObj(info, as.Lhs[0]), eng.SelObj(info, as.Lhs[1])
						}
					}
				}
			}
			return true
		})
		// the collection may be a verdict map (id -> keep?) or a set of the ids to drop (id -> struct{}{} / true)
		isSet := false
		if fmap != nil {
			if mt, isMap := fmap.Type().Underlying().(*types.Map); isMap {
				if _, isStruct := mt.Elem().Underlying().(*types.Struct); isStruct {
					isSet = true
				}
			}
		}
		if isSet && okObj != nil {
			// `_, dropped := set[id]`: unknown id -> keep, listed id -> drop
			unknown, ok1 := fg.EvalBoolResult(map[types.Object]bool{okObj: false})
			listed, ok2 := fg.EvalBoolResult(map[types.Object]bool{okObj: true})
			okDefault = ok1 && unknown
			okKnown = ok2 && !listed
		}
		if !isSet && fmap != nil && vObj != nil && okObj != nil {
			unknown, ok1 := fg.EvalBoolResult(map[types.Object]bool{okObj: false, vObj: false})
			keep, ok2 := fg.EvalBoolResult(map[types.Object]bool{okObj: true, vObj: true})
			drop, ok3 := fg.EvalBoolResult(map[types.Object]bool{okObj: true, vObj: false})
			okDefault = ok1 && unknown
			okKnown = ok2 && ok3 && keep && !drop
		}
		r4.Check(okDefault && okKnown, a.Key+" filter-callback", fLit.Lit.Pos(), "known id -> recorded verdict, unknown id -> keep", "the Filter callback does not keep tasks it does not know (tasks appended while combining would be dropped) or does not return the recorded verdict")
		// verdicts: head true, merged false
		headTrue, mergedFalse, headListed := false, false, false
		eng.InspectNoLit(a.Decl.Body, func(n ast.Node) bool {
			as, ok := n.(*ast.AssignStmt)
			if !ok || len(as.Lhs) != 1 {
				return true
			}
			ix, isIx := ast.Unparen(as.Lhs[0]).(*ast.IndexExpr)
			if !isIx || fmap == nil || eng.SelObj(info, ix.X) != fmap {
				return true
			}
			bv, isC := constBool(info, as.Rhs[0])
			if isSet {
				bv, isC = false, true // an entry of the drop set is the verdict "drop"
			}
			if !isC {
				return true
			}
			cl, _ := ast.Unparen(ix.Index).(*ast.CallExpr)
			if cl == nil {
				return true
			}
			s, _ := ast.Unparen(cl.Fun).(*ast.SelectorExpr)
			if s == nil {
				return true
			}
			if eng.SelObj(info, s.X) == taskPrm && bv {
				headTrue = true
			}
			if eng.SelObj(info, s.X) == taskPrm && isSet {
				headListed = true
			}
			if loop != nil && eng.LoopOf(a.Decl.Body, as.Pos()) == loop.Stmt && !bv && loop.IsElem(s.X) {
				mergedFalse = true
			}
			return true
		})
		if isSet {
			headTrue = !headListed // the head is kept because it is never listed
		}
		r4.Check(headTrue && mergedFalse, a.Key+" filter-verdicts", a.Decl.Pos(), "head -> true, every merged task -> false", "the verdict map is not `head kept, exactly the merged tasks dropped`")
	}

	// ---- R5 compaction
	r5 := c.Rule("C07.R5", "E-lite:flags", "compaction: a context is left out only when its group is non-empty and equals the next context's group; kept contexts are appended in order", 2)
	var cEl *eng.ElemLoop
	if combined != nil {
		for _, l := range elemLoopsOver(info, a.Decl.Body, func(x ast.Expr) bool { return sameObj(eng.SelObj(info, x), combined) }) {
			cEl = l
		}
	}
	if cEl == nil {
		r5.Unknown(a.Key+" compaction", a.Decl.Pos(), "compaction loop (a loop over every combined context) not found")
	} else {
		cLoop := cEl.Stmt
		var capp *eng.GNode
		for _, n := range g.Nodes {
			as, ok := n.Node.(*ast.AssignStmt)
			if ok && len(as.Rhs) == 1 && eng.LoopOf(a.Decl.Body, as.Pos()) == cLoop {
				if ap := builtinCall(info, as.Rhs[0], "append"); ap != nil && len(ap.Args) == 2 && cEl.IsElem(ap.Args[1]) {
					capp = n
				}
			}
		}
		if capp == nil {
			r5.Bad(a.Key+" compaction-append", cLoop.Pos(), "no append of combinedContext[i] in the compaction loop")
		} else {
			groupNonEmpty := g.FactEdge(func(fc eng.Fact) bool {
				x, y, eq, ok := eng.EqAtom(fc)
				v, isC := eng.ConstStr(info, y)
				if !ok || eq || !isC || v != "" {
					return false
				}
				return mentionsGroup(info, a, x)
			})
			sameAsNext := g.FactEdge(func(fc eng.Fact) bool {
				x, y, eq, ok := eng.EqAtom(fc)
				return ok && eq && mentionsGroup(info, a, x) && mentionsGroup(info, a, y)
			})
			// skipping: from the body entry, reaching the loop post/head without the append requires both facts
			bodyEntry := loopBodyEntryOf(g, cLoop)
			okSkip := false
			if bodyEntry != nil {
				isNext := isLoopHeadOf(cLoop)
				okSkip = true
				for _, avoid := range []func(*eng.GEdge) bool{groupNonEmpty, sameAsNext} {
					reach := g.Reach(eng.Query{From: []*eng.GNode{bodyEntry}, AvoidEdge: avoid, AvoidNode: func(m *eng.GNode) bool { return m == capp || isNext(m) }})
					for m := range reach {
						if isNext(m) {
							okSkip = false
						}
					}
				}
			}
			r5.Check(okSkip && loopNoEarlyExit(g, cLoop) && !cEl.Desc, a.Key+" compaction-skip", capp.Node.Pos(), "skip requires Group != \"\" and next.Group == Group", "a binding context can be left out of the combined list although it is not a grouped context followed by a context of the same group")
			// the next element is i+1
			nextOK := false
			eng.InspectNoLit(cEl.Body, func(n ast.Node) bool {
				if ix, ok := n.(*ast.IndexExpr); ok {
					if d, isOff := cEl.Offset(ix); isOff && d == 1 {
						nextOK = true
					}
				}
				return true
			})
			r5.Check(nextOK, a.Key+" compaction-compares-next", cLoop.Pos(), "the group is compared with element i+1 (the last of a run survives)", "compaction does not compare with the immediately following context")
		}
	}

	// ---- R6 no combine for ungrouped Synchronization
	r6 := c.Rule("C07.R6", "B:flags", "taskHandleHookRun: combining is switched off only for an un-grouped kubernetes Synchronization, and runs otherwise (v1, hook is executed)", 3)
	if f := r6.NeedFunc(pkgOp + ".(*ShellOperator).taskHandleHookRun"); f != nil {
		finfo := f.Pkg.TypesInfo
		fg := p.GraphOf(f)
		combine := p.Method(pkgOp, "ShellOperator", "combineBindingContextForHook")
		var cnode *eng.GNode
		for _, n := range fg.NodesCalling(combine) {
			cnode = n
		}
		handleRun := p.Method(pkgOp, "ShellOperator", "handleRunHook")
		var runNode *eng.GNode
		for _, n := range fg.NodesCalling(handleRun) {
			runNode = n
		}
		if cnode == nil {
			r6.Bad(f.Key+" combines", f.Decl.Pos(), "taskHandleHookRun does not combine tasks at all")
		} else if runNode == nil {
			r6.Unknown(f.Key+" handleRunHook", f.Decl.Pos(), "call of handleRunHook not found")
		} else {
			// Decided by assumption (three-valued evaluation of every condition, flags and named conditions included),
			// whatever the shape of the switch: a flag, a named condition or a direct test.
			syncT := p.Object(pkgKemT, "TypeSynchronization")
			kube := p.Object(pkgHTypes, "OnKubernetesEvent")
			version := p.Field(pkgCfg, "HookConfig", "Version")
			// classify an (in)equality atom: which of the three tests it is, and whether it states equality
			classify := func(fc eng.Fact) (string, bool) {
				x, y, eq, ok := eng.EqAtom(fc)
				if !ok {
					return "", false
				}
				for i := 0; i < 2; i++ {
					if s, isS := ast.Unparen(x).(*ast.SelectorExpr); isS {
						if s.Sel.Name == "Type" && eng.SelObj(finfo, y) == syncT {
							return "type", eq
						}
						if v, isC := eng.ConstStr(finfo, y); s.Sel.Name == "Group" && isC && v == "" {
							return "group", eq
						}
						if s.Sel.Name == "BindingType" && eng.SelObj(finfo, y) == kube {
							return "binding", eq
						}
						if v, isC := eng.ConstStr(finfo, y); isC && v == "v1" && eng.IsField(finfo, x, version) {
							return "v1", eq
						}
					}
					x, y = y, x
				}
				return "", false
			}
			assume := func(want map[string]bool) func(eng.Fact) bool {
				return func(fc eng.Fact) bool {
					k, eq := classify(fc)
					w, has := want[k]
					return k != "" && has && w == eq
				}
			}
			// (a) an un-grouped kubernetes Synchronization never reaches the combine call
			a1 := assume(map[string]bool{"type": true, "group": true, "binding": true})
			reach := fg.Reach(eng.Query{FromEntry: true, Assume: a1, AvoidEdge: fg.Infeasible(a1)})
			r6.Check(!reach[cnode], f.Key+" never-combine-ungrouped-sync", cnode.Node.Pos(), "an un-grouped kubernetes Synchronization never reaches the combine call", "an un-grouped Synchronization can reach the combine call: Synchronizations of different bindings would be merged into one execution")
			// (b) every other v1 task that is executed is combined first: the hook run is not reachable around the combine call
			okOther := true
			for _, w := range []map[string]bool{{"v1": true, "group": false}, {"v1": true, "type": false}, {"v1": true, "binding": false}} {
				r2 := fg.Reach(eng.Query{FromEntry: true, Assume: assume(w), AvoidEdge: fg.Infeasible(assume(w)), AvoidNode: func(n *eng.GNode) bool { return n == cnode }})
				if r2[runNode] {
					okOther = false
				}
			}
			r6.Check(okOther, f.Key+" combine-switch", cnode.Node.Pos(), "a v1 task that is grouped, or not a Synchronization, or not a kubernetes task is always combined before the hook runs", "combining is switched off for tasks other than un-grouped kubernetes Synchronizations: their following tasks are not merged into the execution")
			r6.Ok(f.Key+" combine-otherwise", cnode.Node.Pos(), "covered by the two reachability checks")
		}
	}

	// ---- R7 Filter atomicity (shared with C05.R5)
	r7 := c.Rule("C07.R7", "B+A", "TaskQueue.Filter scans, decides and publishes inside one withLock section (a task appended during the combination is not overwritten by a stale snapshot)", 2)
	runC05R5(c, r7)

	// ---- R8 (shared with C04.R5 / C06.R9): the merged tasks are deleted from the queue when they are combined, so
	// the combined contexts must be stored in the surviving task before the hook runs - a failed run is retried from it
	r8 := c.Rule("C07.R8", "B:must-pass", "after combining, t.UpdateMetadata(hookMeta) with the combined contexts is passed on every path to the hook run (the retried task still carries every merged context)", 1)
	if f := r8.NeedFunc(pkgOp + ".(*ShellOperator).taskHandleHookRun"); f != nil {
		combinedWrittenBack(c, r8, f, true)
	}
}

func mentionsGroup(info *types.Info, f *eng.Func, e ast.Expr) bool {
	found := false
	ast.Inspect(e, func(n ast.Node) bool {
		if s, ok := n.(*ast.SelectorExpr); ok && s.Sel.Name == "Group" {
			found = true
		}
		return true
	})
	if found {
		return true
	}
	if v, ok := eng.SelObj(info, e).(*types.Var); ok && !v.IsField() {
		for _, x := range eng.AssignedExprs(info, f.Decl, v) {
			inner := false
			ast.Inspect(x, func(n ast.Node) bool {
				if s, ok := n.(*ast.SelectorExpr); ok && s.Sel.Name == "Group" {
					inner = true
				}
				return true
			})
			if inner {
				return true
			}
		}
	}
	return false
}

type stmtFP struct {
	fp   string
	pos  token.Pos
	node ast.Node
}

// canonTwin renders the body of f as a canonical string: locals by first-use index, package-level objects by full
// name, logging statements dropped, and (when tqsParam != "") the parameter of that name printed like recv.TaskQueues.
func canonTwin(p *eng.Prog, f *eng.Func, tqsParam string) (string, []stmtFP) {
	info := f.Pkg.TypesInfo
	locals := map[types.Object]int{}
	var recv types.Object
	if f.Decl.Recv != nil && len(f.Decl.Recv.List) == 1 && len(f.Decl.Recv.List[0].Names) == 1 {
		recv = info.Defs[f.Decl.Recv.List[0].Names[0]]
	}
	var tqs types.Object
	if f.Decl.Type.Params != nil {
		for _, fl := range f.Decl.Type.Params.List {
			for _, nm := range fl.Names {
				if tqsParam != "" && nm.Name == tqsParam {
					tqs = info.Defs[nm]
				}
			}
		}
	}
	isLogCall := func(e ast.Expr) bool {
		cl, ok := ast.Unparen(e).(*ast.CallExpr)
		if !ok {
			return false
		}
		fn, ok := eng.CalleeOf(info, cl).(*types.Func)
		if !ok || fn.Pkg() == nil {
			return false
		}
		return strings.HasSuffix(fn.Pkg().Path(), "deckhouse/pkg/log") || fn.Pkg().Path() == "log/slog"
	}
	name := func(o types.Object) string {
		if o == nil {
			return "?"
		}
		if o == recv {
			return "recv"
		}
		if o == tqs {
			return "recv.TaskQueues"
		}
		if v, ok := o.(*types.Var); ok && v.IsField() {
			return "field:" + v.Name()
		}
		if o.Pkg() != nil && o.Parent() == o.Pkg().Scope() {
			return o.Pkg().Path() + "." + o.Name()
		}
		if fn, ok := o.(*types.Func); ok {
			return "method:" + fn.Name()
		}
		if o.Pkg() == nil {
			return "universe:" + o.Name()
		}
		if _, ok := locals[o]; !ok {
			locals[o] = len(locals) + 1
		}
		return fmt.Sprintf("v%d", locals[o])
	}
	var render func(n ast.Node) string
	render = func(root ast.Node) string {
		var sb strings.Builder
		ast.Inspect(root, func(m ast.Node) bool {
			if m == nil {
				sb.WriteString(")")
				return false
			}
			switch t := m.(type) {
			case *ast.ExprStmt:
				if isLogCall(t.X) {
					return false
				}
			case *ast.CommentGroup, *ast.Comment:
				return false
			case *ast.SelectorExpr:
				// recv.TaskQueues of the exported twin ~ the tqs parameter of the unexported one
				if id, ok := ast.Unparen(t.X).(*ast.Ident); ok && (info.Uses[id] == recv) && t.Sel.Name == "TaskQueues" {
					sb.WriteString("(Ident:recv.TaskQueues)")
					return false
				}
				// package-qualified identifier
				if id, ok := ast.Unparen(t.X).(*ast.Ident); ok {
					if _, isPkg := info.Uses[id].(*types.PkgName); isPkg {
						sb.WriteString("(Ident:" + name(info.Uses[t.Sel]) + ")")
						return false
					}
				}
			case *ast.Ident:
				o := info.Uses[t]
				if o == nil {
					o = info.Defs[t]
				}
				if t.Name == "_" {
					sb.WriteString("(Ident:_)")
					return false
				}
				sb.WriteString("(Ident:" + name(o) + ")")
				return false
			case *ast.BasicLit:
				sb.WriteString("(Lit:" + t.Value + ")")
				return false
			}
			sb.WriteString("(" + fmt.Sprintf("%T", m))
			switch t := m.(type) {
			case *ast.BinaryExpr:
				sb.WriteString(":" + t.Op.String())
			case *ast.UnaryExpr:
				sb.WriteString(":" + t.Op.String())
			case *ast.AssignStmt:
				sb.WriteString(":" + t.Tok.String())
			case *ast.IncDecStmt:
				sb.WriteString(":" + t.Tok.String())
			case *ast.BranchStmt:
				sb.WriteString(":" + t.Tok.String())
			case *ast.RangeStmt:
				sb.WriteString(":" + t.Tok.String())
			case *ast.CallExpr:
				if t.Ellipsis.IsValid() {
					sb.WriteString(":...")
				}
			}
			return true
		})
		return sb.String()
	}
	var stmts []stmtFP
	var whole strings.Builder
	for _, st := range f.Decl.Body.List {
		if es, ok := st.(*ast.ExprStmt); ok && isLogCall(es.X) {
			continue
		}
		// the nil check of the queue parameter differs in name only; rendered like any other statement
		fp := render(st)
		stmts = append(stmts, stmtFP{fp: fp, pos: st.Pos(), node: st})
		whole.WriteString(fp)
		whole.WriteString(";")
	}
	return whole.String(), stmts
}
