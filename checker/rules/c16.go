package rules

import (
	"fmt"
	"go/ast"
	"go/token"
	"go/types"
	"sort"

	"sopverif/eng"
)

func init() {
	register(&Property{
		ID:    "C16",
		Title: "Hook metrics: validated as a batch; grouped metrics replaced, not accumulated",
		Explanation: "Decided on pkg/metric_storage, its vault and pkg/metric: (R1) in SendBatch nothing is applied unless " +
			"ValidateOperations returned nil; (R2) applyGroupOperations expires the group before the apply loop, the vault expires in " +
			"*all* collectors, a collector deletes exactly the entries whose Group equals the argument; (R3) on no path through one " +
			"operation two mutating vault/storage calls execute (each operation is applied at most once); (R4) no float->integer " +
			"conversion on the way from the operation value to the stored sample, sample fields are float64; (R5) the key that indexes " +
			"a collector's collection depends on the group; (R6) MergeLabels(op.Labels, common) with the common labels last and the " +
			"`hook` label supplied by the operator; (R7) collection/collectors only under their mutex. NOT decided: equivalence with a " +
			"reference registry over batch histories, behaviour of the Prometheus client.",
		Run: runC16,
	})
}

var metricMutators = map[string]bool{"CounterAdd": true, "GaugeSet": true, "GaugeAdd": true, "HistogramObserve": true}

func isMetricMutator(o types.Object) bool {
	fn, ok := o.(*types.Func)
	if !ok || !metricMutators[fn.Name()] {
		return false
	}
	rn := eng.RecvNamed(fn)
	if rn == nil || rn.Obj().Pkg() == nil {
		return false
	}
	pp := rn.Obj().Pkg().Path()
	return pp == full(pkgMStor) || pp == full(pkgVault) || pp == full(pkgMetric)
}

func runC16(c *eng.Ctx) {
	p := c.P
	// ---- R1
	r1 := c.Rule("C16.R1", "B:must-pass", "SendBatch: every mutating call is reachable only after ValidateOperations and only on its nil-error edge", 2)
	if f := r1.NeedFunc(pkgMStor + ".(*MetricStorage).SendBatch"); f != nil {
		info := f.Pkg.TypesInfo
		g := p.GraphOf(f)
		validate, _ := p.Object(pkgMOp, "ValidateOperations").(*types.Func)
		apply := p.Method(pkgMStor, "MetricStorage", "applyGroupOperations")
		sendV0 := p.Method(pkgMStor, "MetricStorage", "sendBatchV0")
		applyOp := p.Method(pkgMStor, "MetricStorage", "ApplyOperation")
		isMut := func(n *eng.GNode) bool {
			return len(g.CallsAt(n, func(o types.Object, _ *ast.CallExpr) bool {
				return o != nil && (o == apply || o == sendV0 || o == applyOp || isMetricMutator(o) || nameOf(o) == "ExpireGroupMetrics")
			})) > 0
		}
		var vnode *eng.GNode
		for _, n := range g.NodesCalling(validate) {
			vnode = n
		}
		if vnode == nil {
			r1.Bad(f.Key+" validates", f.Decl.Pos(), "SendBatch does not call ValidateOperations: an invalid operation in the batch no longer prevents the others from being applied")
		} else {
			errT := types.Universe.Lookup("error").Type()
			okEdge := g.FactEdge(func(fc eng.Fact) bool {
				x, y, eq, ok := eng.EqAtom(fc)
				if !ok {
					return false
				}
				if tv, has := info.Types[x]; has && types.Identical(tv.Type, errT) && eng.IsNil(info, y) {
					return eq // err == nil holds
				}
				return false
			})
			n := 0
			for _, m := range g.Nodes {
				if !isMut(m) {
					continue
				}
				n++
				construct := fmt.Sprintf("%s mutating call `%s`", f.Key, eng.Short(p.Fset, m.Node))
				after := g.OnlyVia(m, func(x *eng.GNode) bool { return x == vnode }, nil)
				reachErr := g.Reach(eng.Query{From: []*eng.GNode{vnode}, AvoidEdge: okEdge})
				r1.Check(after && !reachErr[m], construct, m.Node.Pos(), "only after validation succeeded", fmt.Sprintf("a metric operation can be applied although the batch was not validated or validation failed (afterValidate=%v reachableOnError=%v)", after, reachErr[m]))
			}
			if n == 0 {
				r1.Unknown(f.Key+" mutating calls", f.Decl.Pos(), "no applying call found in SendBatch")
			}
		}
	}

	// an invalid batch is one whose file cannot be decoded to its end, too
	streamDecodedToEOF(c, r1, pkgMOp+".MetricOperationsFromReader")

	// ---- R2
	r2 := c.Rule("C16.R2", "B:order+control-dependence", "replace semantics: expire(group) dominates the apply loop; the vault expires in every collector; collectors delete exactly entries with Group == group", 4)
	if f := r2.NeedFunc(pkgMStor + ".(*MetricStorage).applyGroupOperations"); f != nil {
		info := f.Pkg.TypesInfo
		g := p.GraphOf(f)
		expire := p.Method(pkgVault, "GroupedVault", "ExpireGroupMetrics")
		group := f.Obj.Type().(*types.Signature).Params().At(0)
		opsPrm := f.Obj.Type().(*types.Signature).Params().At(1)
		var loop ast.Stmt
		for _, el := range elemLoopsOver(info, f.Decl.Body, func(x ast.Expr) bool { return eng.SelObj(info, x) == opsPrm }) {
			if loop == nil {
				loop = el.Stmt
			}
		}
		isExpire := func(n *eng.GNode) bool {
			return len(g.CallsAt(n, func(o types.Object, call *ast.CallExpr) bool {
				return o == expire && len(call.Args) == 1 && eng.SelObj(info, call.Args[0]) == group
			})) > 0
		}
		ok := false
		if loop != nil {
			if head := loopBodyEntryOf(g, loop); head != nil {
				ok = g.OnlyVia(head, isExpire, nil)
			}
		}
		r2.Check(ok, f.Key+" expire-before-apply", f.Decl.Pos(), "ExpireGroupMetrics(group) dominates the apply loop", "the operations of a group are applied without expiring the group first: series reported earlier under the group accumulate instead of being replaced")
	}
	if f := r2.NeedFunc(pkgVault + ".(*GroupedVault).ExpireGroupMetrics"); f != nil {
		info := f.Pkg.TypesInfo
		g := p.GraphOf(f)
		collectors := p.Field(pkgVault, "GroupedVault", "collectors")
		group := f.Obj.Type().(*types.Signature).Params().At(0)
		var loop *ast.RangeStmt
		eng.InspectNoLit(f.Decl.Body, func(n ast.Node) bool {
			if rs, ok := n.(*ast.RangeStmt); ok && eng.IsField(info, rs.X, collectors) {
				loop = rs
			}
			return true
		})
		ok := false
		if loop != nil && loop.Value != nil {
			elem := eng.SelObj(info, loop.Value)
			ok = loopNoEarlyExit(g, loop) && loopBodyMustPass(g, loop, func(n *eng.GNode) bool {
				return len(g.CallsAt(n, func(o types.Object, call *ast.CallExpr) bool {
					s, isS := ast.Unparen(call.Fun).(*ast.SelectorExpr)
					return o != nil && nameOf(o) == "ExpireGroupMetrics" && isS && eng.SelObj(info, s.X) == elem && len(call.Args) == 1 && eng.SelObj(info, call.Args[0]) == group
				})) > 0
			})
			if ok {
				ex := g.MustPassToExit(eng.Query{FromEntry: true}, func(n *eng.GNode) bool {
					return n.Node == nil && n.Block.Stmt == ast.Stmt(loop) && n.Block.Kind.String() == "RangeLoop"
				})
				ok = ex == nil
			}
		}
		r2.Check(ok, f.Key+" all-collectors", f.Decl.Pos(), "every collector is asked to expire the group", "the vault does not expire the group in every collector: series of the group survive in some metric names")
	}
	for _, typ := range []string{"ConstCounterCollector", "ConstGaugeCollector"} {
		f := r2.NeedFunc(pkgMetric + ".(*" + typ + ").ExpireGroupMetrics")
		if f == nil {
			continue
		}
		info := f.Pkg.TypesInfo
		g := p.GraphOf(f)
		collection := p.Field(pkgMetric, typ, "collection")
		group := f.Obj.Type().(*types.Signature).Params().At(0)
		var loop *ast.RangeStmt
		eng.InspectNoLit(f.Decl.Body, func(n ast.Node) bool {
			if rs, ok := n.(*ast.RangeStmt); ok && eng.IsField(info, rs.X, collection) {
				loop = rs
			}
			return true
		})
		ok := false
		if loop != nil && loop.Key != nil && loop.Value != nil {
			key, val := eng.SelObj(info, loop.Key), eng.SelObj(info, loop.Value)
			sameGroup := func(pos bool) func(fc eng.Fact) bool {
				return func(fc eng.Fact) bool {
					x, y, eq, isEq := eng.EqAtom(fc)
					if !isEq || eq != pos {
						return false
					}
					isG := func(e ast.Expr) bool {
						s, isS := ast.Unparen(e).(*ast.SelectorExpr)
						return isS && s.Sel.Name == "Group" && eng.SelObj(info, s.X) == val
					}
					return (isG(x) && eng.SelObj(info, y) == group) || (isG(y) && eng.SelObj(info, x) == group)
				}
			}
			var del *eng.GNode
			n := 0
			for _, gn := range g.Nodes {
				es, isE := gn.Node.(*ast.ExprStmt)
				if !isE {
					continue
				}
				if d := builtinCall(info, es.X, "delete"); d != nil && eng.IsField(info, d.Args[0], collection) {
					n++
					if eng.SelObj(info, d.Args[1]) == key {
						del = gn
					}
				}
			}
			if del != nil && n == 1 {
				only := g.OnlyVia(del, nil, g.FactEdge(sameGroup(true)))
				// every entry with the group is deleted: within an iteration, avoiding the "different group" edge, the delete is passed
				always := loopNoEarlyExit(g, loop)
				if always {
					var bodyEntry *eng.GNode
					for _, gn := range g.Nodes {
						if gn.Node == nil && gn.Block.Stmt == ast.Stmt(loop) && gn.Block.Kind.String() == "RangeBody" {
							bodyEntry = gn
						}
					}
					reach := g.Reach(eng.Query{From: []*eng.GNode{bodyEntry}, AvoidEdge: g.FactEdge(sameGroup(false)), AvoidNode: func(m *eng.GNode) bool { return m == del }})
					for m := range reach {
						if m != del && m.Node == nil && m.Block.Stmt == ast.Stmt(loop) && m.Block.Kind.String() == "RangeLoop" {
							always = false
						}
					}
				}
				ok = only && always
			}
		}
		// the library form: maps.DeleteFunc(collection, func(_, entry) bool { return entry.Group == group }) on every path
		if loop == nil {
			var pred *ast.FuncLit
			isDeleteFunc := func(gn *eng.GNode) bool {
				return len(g.CallsAt(gn, func(o types.Object, call *ast.CallExpr) bool {
					if !eng.IsPkgFunc(o, "maps", "DeleteFunc") || len(call.Args) != 2 || !eng.IsField(info, call.Args[0], collection) {
						return false
					}
					if fl, isL := ast.Unparen(call.Args[1]).(*ast.FuncLit); isL {
						pred = fl
						return true
					}
					return false
				})) > 0
			}
			if g.MustPassToExit(eng.Query{FromEntry: true}, isDeleteFunc) == nil && pred != nil && pred.Type.Params.NumFields() == 2 {
				var entry types.Object
				if last := pred.Type.Params.List[len(pred.Type.Params.List)-1]; len(last.Names) > 0 {
					entry = info.Defs[last.Names[len(last.Names)-1]]
				}
				if l := p.LitOf(pred); l != nil && entry != nil {
					lg := p.GraphOfLit(l)
					groupsEqual := func(holds bool) func(fc eng.Fact) bool {
						return func(fc eng.Fact) bool {
							x, y, eq, isEq := eng.EqAtom(fc)
							if !isEq {
								return false
							}
							isG := func(e ast.Expr) bool {
								s, isS := ast.Unparen(e).(*ast.SelectorExpr)
								return isS && s.Sel.Name == "Group" && eng.SelObj(info, s.X) == entry
							}
							if (isG(x) && eng.SelObj(info, y) == group) || (isG(y) && eng.SelObj(info, x) == group) {
								return eq == holds
							}
							return false
						}
					}
					t1, f1 := lg.BoolResultUnder(groupsEqual(true))
					t2, f2 := lg.BoolResultUnder(groupsEqual(false))
					ok = t1 && !f1 && !t2 && f2
				}
			}
		}
		r2.Check(ok, f.Key+" deletes-exactly-the-group", f.Decl.Pos(), "delete(collection, key) iff entry.Group == group, for every entry", "the collector does not delete exactly the entries whose Group equals the expired group (series of other groups disappear, or series of this group survive)")
	}

	// ---- R3
	r3 := c.Rule("C16.R3", "B:path", "each operation is applied at most once: no path through one operation passes two mutating calls", 3)
	for _, key := range []string{pkgMStor + ".(*MetricStorage).applyGroupOperations", pkgMStor + ".(*MetricStorage).sendBatchV0", pkgMStor + ".(*MetricStorage).ApplyOperation"} {
		f := r3.NeedFunc(key)
		if f == nil {
			continue
		}
		g := p.GraphOf(f)
		var muts []*eng.GNode
		for _, n := range g.Nodes {
			if len(g.CallsAt(n, func(o types.Object, _ *ast.CallExpr) bool { return isMetricMutator(o) })) > 0 {
				muts = append(muts, n)
			}
		}
		if len(muts) == 0 {
			r3.Unknown(f.Key, f.Decl.Pos(), "no mutating call found")
			continue
		}
		isHead := func(n *eng.GNode) bool {
			return n.Node == nil && (n.Block.Kind.String() == "RangeLoop" || n.Block.Kind.String() == "ForLoop" || n.Block.Kind.String() == "ForPost")
		}
		bad := ""
		var badPos token.Pos
		for _, a := range muts {
			reach := g.Reach(eng.Query{From: []*eng.GNode{a}, AvoidNode: isHead})
			for _, b := range muts {
				if reach[b] {
					bad = fmt.Sprintf("after `%s` the same operation can also execute `%s`", eng.Short(p.Fset, a.Node), eng.Short(p.Fset, b.Node))
					badPos = b.Node.Pos()
				}
			}
		}
		r3.Check(bad == "", f.Key, badPos, fmt.Sprintf("%d mutating calls, pairwise exclusive within one operation", len(muts)), "one metric operation is applied twice: "+bad+" (an `add` shortcut parsed from a file has both Action/Value and Add set: the counter is doubled)")
	}

	// ---- R4
	r4 := c.Rule("C16.R4", "D3:lossy conversion", "no float->integer conversion in pkg/metric, the vault and the batch code; sample value fields are float64", 3)
	nconv := 0
	for _, pkg := range []string{pkgMetric, pkgVault, pkgMStor} {
		for _, f := range funcsOfPkg(p, pkg) {
			if f.Decl.Body == nil {
				continue
			}
			info := f.Pkg.TypesInfo
			ast.Inspect(f.Decl.Body, func(n ast.Node) bool {
				call, ok := n.(*ast.CallExpr)
				if !ok || len(call.Args) != 1 {
					return true
				}
				tv, ok := info.Types[call.Fun]
				if !ok || !tv.IsType() {
					return true
				}
				to, ok1 := tv.Type.Underlying().(*types.Basic)
				at, ok2 := info.Types[call.Args[0]]
				if !ok1 || !ok2 {
					return true
				}
				from, ok3 := at.Type.Underlying().(*types.Basic)
				if !ok3 {
					return true
				}
				if from.Info()&types.IsFloat != 0 && to.Info()&types.IsInteger != 0 && at.Value == nil {
					nconv++
					c.Touch(f)
					r4.Bad(f.Key+" float-to-int", call.Pos(), fmt.Sprintf("`%s` truncates a metric value: fractional counter values become 0", eng.Short(p.Fset, call)))
				}
				return true
			})
		}
	}
	if nconv == 0 {
		r4.Ok("no float->int conversion", token.NoPos, "pkg/metric, vault, metric_storage contain no float->integer conversion of a non-constant value")
	}
	for _, tf := range [][2]string{{"GroupedCounterMetric", "Value"}, {"GroupedGaugeMetric", "Value"}} {
		fld := p.Field(pkgMetric, tf[0], tf[1])
		if fld == nil {
			r4.Unknown("anchor:"+tf[0]+"."+tf[1], token.NoPos, "field not found")
			continue
		}
		b, ok := fld.Type().Underlying().(*types.Basic)
		r4.Check(ok && b.Kind() == types.Float64, tf[0]+"."+tf[1]+" type", fld.Pos(), "float64", "the stored sample is not a float64: fractional values given by hooks are lost")
	}

	// ---- R5
	r5 := c.Rule("C16.R5", "D2:derived-from", "the key that indexes a collector's collection is derived from the group (series of different groups must not share an entry)", 2)
	for _, tm := range [][2]string{{"ConstCounterCollector", "Add"}, {"ConstGaugeCollector", "Set"}} {
		f := r5.NeedFunc(pkgMetric + ".(*" + tm[0] + ")." + tm[1])
		if f == nil {
			continue
		}
		info := f.Pkg.TypesInfo
		collection := p.Field(pkgMetric, tm[0], "collection")
		group := f.Obj.Type().(*types.Signature).Params().At(0)
		ok := true
		n := 0
		var pos token.Pos = f.Decl.Pos()
		eng.InspectNoLit(f.Decl.Body, func(m ast.Node) bool {
			ix, isIx := m.(*ast.IndexExpr)
			if !isIx || !eng.IsField(info, ix.X, collection) {
				return true
			}
			n++
			or := p.Origins(f, ix.Index, 1)
			if !or.Has(group) {
				ok = false
				pos = ix.Pos()
			}
			return true
		})
		r5.Check(ok && n > 0, f.Key, pos, "collection key depends on group", "the collection is indexed by the label hash alone: two groups that report the same metric name and labels overwrite each other, and expiring one group removes (or keeps) the other's series")
	}

	// ---- R6
	r6 := c.Rule("C16.R6", "D:provenance", "labels = MergeLabels(op.Labels, commonLabels) with the common labels last (they win); the operator passes {hook: <hook name>}", 4)
	mergeLabels := p.ExtObject(full("pkg/utils/labels"), "MergeLabels")
	opLabels := p.Field(pkgMOp, "MetricOperation", "Labels")
	for _, key := range []string{pkgMStor + ".(*MetricStorage).applyGroupOperations", pkgMStor + ".(*MetricStorage).sendBatchV0", pkgMStor + ".(*MetricStorage).ApplyOperation"} {
		f := r6.NeedFunc(key)
		if f == nil {
			continue
		}
		info := f.Pkg.TypesInfo
		sig := f.Obj.Type().(*types.Signature)
		common := sig.Params().At(sig.Params().Len() - 1)
		calls := callsIn(info, f.Decl.Body, isObj(mergeLabels))
		// every merge in the function (one, or one per kind of operation) has the common labels last
		ok := len(calls) >= 1
		var pos token.Pos = f.Decl.Pos()
		for _, call := range calls {
			if !(len(call.Args) == 2 && eng.IsField(info, call.Args[0], opLabels) && eng.SelObj(info, call.Args[1]) == common) {
				ok = false
				pos = call.Pos()
			}
		}
		r6.Check(ok, f.Key+" merge-order", pos, "MergeLabels(op.Labels, common)", "labels are not merged as MergeLabels(op.Labels, commonLabels): the hook label can be overridden by the hook or is missing")
		// every mutating call uses the merged labels
		if ok {
			var merged types.Object
			eng.InspectNoLit(f.Decl.Body, func(n ast.Node) bool {
				if as, isA := n.(*ast.AssignStmt); isA && len(as.Rhs) == 1 && ast.Unparen(as.Rhs[0]) == ast.Expr(calls[0]) {
					merged = eng.SelObj(info, as.Lhs[0])
				}
				return true
			})
			isMerge := map[ast.Expr]bool{}
			for _, mcall := range calls {
				isMerge[mcall] = true
			}
			all := true
			for _, mc := range callsIn(info, f.Decl.Body, func(o types.Object, _ *ast.CallExpr) bool { return isMetricMutator(o) }) {
				uses := false
				for _, a := range mc.Args {
					// the merged set through a local, or the merge written in place as the argument
					if (merged != nil && eng.SelObj(info, a) == merged) || isMerge[ast.Unparen(a)] {
						uses = true
					}
				}
				if !uses {
					all = false
				}
			}
			r6.Check(all, f.Key+" merged-labels-used", pos, "every applying call receives the merged labels", "an applying call does not receive the merged label set")
		}
	}
	if f := r6.NeedFunc(pkgOp + ".(*ShellOperator).handleRunHook"); f != nil {
		info := f.Pkg.TypesInfo
		hookName := p.Field(pkgMeta, "HookMetadata", "HookName")
		ok := false
		var pos token.Pos = f.Decl.Pos()
		for _, call := range callsIn(info, f.Decl.Body, func(o types.Object, _ *ast.CallExpr) bool { return o != nil && nameOf(o) == "SendBatch" }) {
			pos = call.Pos()
			if len(call.Args) == 2 {
				if cl, isC := ast.Unparen(call.Args[1]).(*ast.CompositeLit); isC {
					for _, el := range cl.Elts {
						if kv, isKV := el.(*ast.KeyValueExpr); isKV {
							if k, isS := eng.ConstStr(info, kv.Key); isS && k == "hook" && eng.IsField(info, kv.Value, hookName) {
								ok = true
							}
						}
					}
				}
			}
		}
		r6.Check(ok, f.Key+" hook-label", pos, `SendBatch(..., {"hook": hookMeta.HookName})`, "the batch is not sent with the `hook` label set to the hook's name")
	}

	// ---- R8 series identity
	r8 := c.Rule("C16.R8", "B:must-pass", "HashLabelValues: every label value and a separator are written to the hash in every iteration (distinct label vectors must not collide into one series)", 1)
	if hf, _ := p.Object(pkgMetric, "HashLabelValues").(*types.Func); hf == nil {
		r8.Unknown("anchor:HashLabelValues", token.NoPos, "function not found")
	} else if f := p.FuncOf(hf); f != nil {
		c.Touch(f)
		info := f.Pkg.TypesInfo
		g := p.GraphOf(f)
		prm := hf.Type().(*types.Signature).Params().At(0)
		ok := false
		for _, el := range elemLoopsOver(info, f.Decl.Body, func(x ast.Expr) bool { return eng.SelObj(info, x) == prm }) {
			el := el
			writesElem := func(n *eng.GNode) bool {
				return len(g.CallsAt(n, func(o types.Object, call *ast.CallExpr) bool {
					return o != nil && (nameOf(o) == "Write" || nameOf(o) == "WriteString") && len(call.Args) == 1 && usesElem(el, call.Args[0])
				})) > 0
			}
			writesSep := func(n *eng.GNode) bool {
				return len(g.CallsAt(n, func(o types.Object, call *ast.CallExpr) bool {
					if o == nil || (nameOf(o) != "Write" && nameOf(o) != "WriteByte" && nameOf(o) != "WriteString") || len(call.Args) != 1 {
						return false
					}
					return !usesElem(el, call.Args[0])
				})) > 0
			}
			ok = loopNoEarlyExit(g, el.Stmt) && loopBodyMustPass(g, el.Stmt, writesElem) && loopBodyMustPass(g, el.Stmt, writesSep)
		}
		// the hash state belongs to the call: HashLabelValues is called under the lock of one collector, and collectors
		// of different metric names are used concurrently, so anything kept at package level is shared without a lock
		var pkgVar *ast.Ident
		ast.Inspect(f.Decl.Body, func(n ast.Node) bool {
			if id, isId := n.(*ast.Ident); isId {
				if v, isV := info.Uses[id].(*types.Var); isV && !v.IsField() && v.Pkg() != nil && v.Parent() == v.Pkg().Scope() {
					pkgVar = id
				}
			}
			return true
		})
		if pkgVar != nil {
			r8.Bad(f.Key+" call-local state", pkgVar.Pos(), "HashLabelValues works on the package-level variable `"+pkgVar.Name+"`: collectors of different metrics hash at the same time under different locks, the hashes get mixed and one series is stored under two keys")
		} else {
			r8.Ok(f.Key+" call-local state", f.Decl.Pos(), "no package-level variable is used")
		}
		r8.Check(ok, f.Key, f.Decl.Pos(), "value and separator hashed for every label", "some label values (or their separators) can be left out of the hash: label vectors that differ only in which label carries a value collide, two distinct series of one batch are merged into one")
	}

	// ---- R9 validator / applier agreement
	r9 := c.Rule("C16.R9", "F:table agreement", "every (action, required non-nil field) that an applying arm depends on is enforced by ValidateMetricOperation: an operation that passes validation is applied by some arm (no error or silent skip after part of the batch was applied)", 6)
	runC16R9(c, r9)
	runC16R9Actions(c, r9)

	// ---- R7
	r7 := c.Rule("C16.R7", "A:lockset", "guarded-by: Const{Counter,Gauge}Collector.collection (mtx), GroupedVault.collectors (mtx)", 15)
	guardedBy(r7, pkgMetric, "ConstCounterCollector", "collection", "mtx")
	guardedBy(r7, pkgMetric, "ConstGaugeCollector", "collection", "mtx")
	guardedBy(r7, pkgVault, "GroupedVault", "collectors", "mtx")
}

// actionMembership decides the atom slices.Contains(L, op.Action) for the assumed action a: L is a constant list
// (literal, local, package variable that is never written), or a local whose value at the node of the test - under
// the same scenario - is one of several such lists that agree on a. ok is false when the atom is something else or
// cannot be decided.
func actionMembership(p *eng.Prog, g *eng.Graph, info *types.Info, body ast.Node, action *types.Var, a string, fc eng.Fact, scenario func(eng.Fact) bool, busy map[ast.Expr]bool) (member bool, ok bool) {
	if fc.Y != nil {
		return false, false
	}
	cl, isC := ast.Unparen(fc.X).(*ast.CallExpr)
	if !isC || len(cl.Args) != 2 || !eng.IsPkgFunc(eng.CalleeOf(info, cl), "slices", "Contains") || !eng.IsField(info, cl.Args[1], action) {
		return false, false
	}
	in := func(set []string) bool {
		for _, x := range set {
			if x == a {
				return true
			}
		}
		return false
	}
	if set, isSet := constStringSet(p, info, body, cl.Args[0]); isSet {
		return in(set), true
	}
	if fc.At == nil || busy[cl.Args[0]] {
		return false, false
	}
	busy[cl.Args[0]] = true
	defer delete(busy, cl.Args[0])
	vals, reachable, okVals := reachingValues(g, info, body, fc.At, cl.Args[0], scenario)
	if !reachable || !okVals || len(vals) == 0 {
		return false, false
	}
	first := true
	for _, v := range vals {
		if v == nil {
			return false, false
		}
		set, isSet := constStringSet(p, info, body, v)
		if !isSet {
			return false, false
		}
		if m := in(set); first {
			member, first = m, false
		} else if m != member {
			return false, false
		}
	}
	return member, true
}

type actionField struct{ action, field string }

// condPairs extracts (action constant, field) pairs from the facts that must hold to reach node n:
// wantNil=false: Action == k && field != nil ; wantNil=true: Action == k && field == nil.
func condPairs(g *eng.Graph, info *types.Info, n *eng.GNode, action *types.Var, opType *types.Named, wantNil bool) []actionField {
	// collect facts of edges that dominate n: an edge fact dominates n if removing edges with that fact makes n unreachable
	var acts []string
	var flds []string
	seenA, seenF := map[string]bool{}, map[string]bool{}
	for _, m := range g.Nodes {
		for _, e := range m.Succ {
			for _, fc := range g.EdgeFacts(e) {
				x, y, eq, ok := eng.EqAtom(fc)
				if !ok {
					continue
				}
				if eng.IsField(info, x, action) && eq {
					if k, isC := eng.ConstStr(info, y); isC && !seenA[k] {
						fcK := k
						if g.OnlyVia(n, nil, g.FactEdge(fieldEqConst(info, action, fcK, true))) {
							seenA[k] = true
							acts = append(acts, k)
						}
					}
				}
				if eng.IsNil(info, y) && eq == wantNil {
					if s, isS := ast.Unparen(x).(*ast.SelectorExpr); isS {
						if fv, isV := info.Uses[s.Sel].(*types.Var); isV && fv.IsField() && !seenF[fv.Name()] {
							name := fv.Name()
							match := func(f2 eng.Fact) bool {
								x2, y2, eq2, ok2 := eng.EqAtom(f2)
								if !ok2 || eq2 != wantNil || !eng.IsNil(info, y2) {
									return false
								}
								s2, isS2 := ast.Unparen(x2).(*ast.SelectorExpr)
								return isS2 && info.Uses[s2.Sel] == fv
							}
							if g.OnlyVia(n, nil, g.FactEdge(match)) {
								seenF[name] = true
								flds = append(flds, name)
							}
						}
					}
				}
			}
		}
	}
	var out []actionField
	for _, a := range acts {
		for _, f := range flds {
			out = append(out, actionField{a, f})
		}
	}
	return out
}

func runC16R9(c *eng.Ctx, r *eng.RuleCtx) {
	p := c.P
	action := p.Field(pkgMOp, "MetricOperation", "Action")
	vf, _ := p.Object(pkgMOp, "ValidateMetricOperation").(*types.Func)
	if action == nil || vf == nil {
		r.Unknown("anchor:ValidateMetricOperation", token.NoPos, "not found")
		return
	}
	v := p.FuncOf(vf)
	c.Touch(v)
	vinfo := v.Pkg.TypesInfo
	vg := p.GraphOf(v)
	// enforced(action a, field F): assuming Action == a and F == nil (everything else unknown), every path through the
	// validator records an error
	isAppend := func(n *eng.GNode) bool {
		as, ok := n.Node.(*ast.AssignStmt)
		if !ok || len(as.Rhs) != 1 {
			return false
		}
		cl, isC := ast.Unparen(as.Rhs[0]).(*ast.CallExpr)
		if !isC {
			return false
		}
		o := eng.CalleeOf(vinfo, cl)
		return o != nil && nameOf(o) == "Append"
	}
	nAppend := 0
	for _, n := range vg.Nodes {
		if isAppend(n) {
			nAppend++
		}
	}
	if nAppend == 0 {
		r.Unknown(v.Key+" enforced pairs", v.Decl.Pos(), "the validator records no error (no multierror.Append found)")
		return
	}
	memo := map[actionField]bool{}
	enforcedFn := func(pr actionField) bool {
		if got, has := memo[pr]; has {
			return got
		}
		busy := map[ast.Expr]bool{}
		var assumed func(fc eng.Fact) bool
		assumed = func(fc eng.Fact) bool {
			if m, known := actionMembership(p, vg, vinfo, v.Decl.Body, action, pr.action, fc, assumed, busy); known {
				return m == fc.Pos
			}
			x, y, eq, ok := eng.EqAtom(fc)
			if !ok {
				return false
			}
			for i := 0; i < 2; i++ {
				if eng.IsField(vinfo, x, action) {
					if k, isC := eng.ConstStr(vinfo, y); isC {
						return (k == pr.action) == eq
					}
				}
				if s, isS := ast.Unparen(x).(*ast.SelectorExpr); isS && eng.IsNil(vinfo, y) {
					if fv, isV := vinfo.Uses[s.Sel].(*types.Var); isV && fv.IsField() && fv.Name() == pr.field {
						return eq
					}
				}
				x, y = y, x
			}
			return false
		}
		bad := vg.MustPassToExit(eng.Query{FromEntry: true, Assume: assumed, AvoidEdge: vg.Infeasible(assumed)}, isAppend)
		memo[pr] = bad == nil
		return memo[pr]
	}
	enforced := enforcedFn
	for _, key := range []string{pkgMStor + ".(*MetricStorage).sendBatchV0", pkgMStor + ".(*MetricStorage).applyGroupOperations", pkgMStor + ".(*MetricStorage).ApplyOperation"} {
		f := r.NeedFunc(key)
		if f == nil {
			continue
		}
		info := f.Pkg.TypesInfo
		g := p.GraphOf(f)
		for _, n := range g.Nodes {
			if len(g.CallsAt(n, func(o types.Object, _ *ast.CallExpr) bool { return isMetricMutator(o) })) == 0 {
				continue
			}
			for _, pr := range condPairs(g, info, n, action, nil, false) {
				construct := fmt.Sprintf("%s action=%s requires %s", f.Key, pr.action, pr.field)
				r.Check(enforced(pr), construct, n.Node.Pos(), "enforced by ValidateMetricOperation",
					fmt.Sprintf("the arm that applies action '%s' runs only when %s is set, but ValidateMetricOperation accepts the operation without it: the batch passes validation, is partly applied and then fails (or the operation is silently skipped)", pr.action, pr.field))
			}
		}
	}
}

// runC16R9Actions: the action table. Which actions an applier (ungrouped: sendBatchV0, grouped:
// applyGroupOperations) performs is read from the applier: assuming Action == a, the deprecated set/add shortcuts
// absent and value/buckets present, does an iteration of its loop over the operations reach a mutation of the
// metrics? Every (group kind, action) that the applier does not perform must be rejected by the validator: assuming
// that action and that group kind, every path through ValidateMetricOperation records an error. Otherwise the batch
// passes validation and the operation is dropped silently (grouped) or fails after part of the batch was applied.
func runC16R9Actions(c *eng.Ctx, r *eng.RuleCtx) {
	p := c.P
	action := p.Field(pkgMOp, "MetricOperation", "Action")
	group := p.Field(pkgMOp, "MetricOperation", "Group")
	vf, _ := p.Object(pkgMOp, "ValidateMetricOperation").(*types.Func)
	if action == nil || group == nil || vf == nil {
		return
	}
	v := p.FuncOf(vf)
	vinfo := v.Pkg.TypesInfo
	vg := p.GraphOf(v)
	// the universe of actions: every constant compared with Action anywhere in the validator or the appliers, "" and
	// one string nobody mentions
	universe := map[string]bool{"": true, "<another>": true}
	collect := func(f *eng.Func) {
		g := p.GraphOf(f)
		info := f.Pkg.TypesInfo
		for _, n := range g.Nodes {
			for _, e := range n.Succ {
				for _, fc := range g.EdgeFacts(e) {
					x, y, _, ok := eng.EqAtom(fc)
					if !ok {
						continue
					}
					if !eng.IsField(info, x, action) {
						x, y = y, x
					}
					if eng.IsField(info, x, action) {
						if k, isC := eng.ConstStr(info, y); isC {
							universe[k] = true
						}
					}
				}
			}
		}
	}
	collect(v)
	scenario := func(info *types.Info, a string, grp int, forApplier bool) func(eng.Fact) bool {
		busy := map[ast.Expr]bool{}
		var self func(fc eng.Fact) bool
		self = func(fc eng.Fact) bool {
			if !forApplier {
				if m, known := actionMembership(p, vg, vinfo, v.Decl.Body, action, a, fc, self, busy); known {
					return m == fc.Pos
				}
			}
			x, y, eq, ok := eng.EqAtom(fc)
			if !ok {
				return false
			}
			for i := 0; i < 2; i++ {
				if eng.IsField(info, x, action) {
					if k, isC := eng.ConstStr(info, y); isC {
						return (k == a) == eq
					}
				}
				if grp != 0 && eng.IsField(info, x, group) {
					if k, isC := eng.ConstStr(info, y); isC && k == "" {
						return (grp > 0) == !eq // grp > 0: a group is set
					}
				}
				if forApplier && eng.IsNil(info, y) {
					if s, isS := ast.Unparen(x).(*ast.SelectorExpr); isS {
						switch s.Sel.Name {
						case "Set", "Add":
							return eq // the shortcuts are absent
						case "Value", "Buckets":
							return !eq // what the action needs is present
						}
					}
				}
				x, y = y, x
			}
			return false
		}
		return self
	}
	isAppend := func(n *eng.GNode) bool {
		as, ok := n.Node.(*ast.AssignStmt)
		if !ok || len(as.Rhs) != 1 {
			return false
		}
		cl, isC := ast.Unparen(as.Rhs[0]).(*ast.CallExpr)
		if !isC {
			return false
		}
		o := eng.CalleeOf(vinfo, cl)
		return o != nil && nameOf(o) == "Append"
	}
	for _, ap := range []struct {
		key  string
		grp  int
		name string
	}{{pkgMStor + ".(*MetricStorage).sendBatchV0", -1, "without a group"}, {pkgMStor + ".(*MetricStorage).applyGroupOperations", 1, "in a group"}} {
		f := r.NeedFunc(ap.key)
		if f == nil {
			continue
		}
		collect(f)
		info := f.Pkg.TypesInfo
		g := p.GraphOf(f)
		var loop ast.Stmt
		sigF := f.Obj.Type().(*types.Signature)
		isPrm := func(x ast.Expr) bool {
			o := eng.SelObj(info, x)
			for i := 0; i < sigF.Params().Len(); i++ {
				if o == types.Object(sigF.Params().At(i)) {
					return true
				}
			}
			return false
		}
		for _, el := range elemLoopsOver(info, f.Decl.Body, isPrm) {
			loop = el.Stmt
		}
		entry := (*eng.GNode)(nil)
		if loop != nil {
			entry = loopBodyEntryOf(g, loop)
		}
		if entry == nil {
			r.Unknown(f.Key+" action table", f.Decl.Pos(), "no loop over the operations found")
			continue
		}
		isApply := func(n *eng.GNode) bool {
			return len(g.CallsAt(n, func(o types.Object, _ *ast.CallExpr) bool {
				return isMetricMutator(o) || (o != nil && nameOf(o) == "ExpireGroupMetrics")
			})) > 0
		}
		var acts []string
		for a := range universe {
			acts = append(acts, a)
		}
		sort.Strings(acts)
		for _, a := range acts {
			as := scenario(info, a, 0, true)
			performed := false
			for n := range g.Reach(eng.Query{From: []*eng.GNode{entry}, Assume: as, AvoidEdge: g.Infeasible(as), AvoidNode: isLoopHeadOf(loop)}) {
				if isApply(n) {
					performed = true
				}
			}
			if performed {
				continue
			}
			vs := scenario(vinfo, a, ap.grp, false)
			bad := vg.MustPassToExit(eng.Query{FromEntry: true, Assume: vs, AvoidEdge: vg.Infeasible(vs)}, isAppend)
			r.Check(bad == nil, fmt.Sprintf("validator rejects action=%q %s", a, ap.name), v.Decl.Pos(), "not applied by "+f.Key+", rejected by ValidateMetricOperation",
				fmt.Sprintf("action %q %s is not applied by %s but ValidateMetricOperation can accept it: the batch passes validation and the operation is dropped, or fails after part of the batch was applied", a, ap.name, f.Key))
		}
	}
}

func countConjuncts(e ast.Expr) int {
	e = ast.Unparen(e)
	if b, ok := e.(*ast.BinaryExpr); ok && b.Op == token.LAND {
		return countConjuncts(b.X) + countConjuncts(b.Y)
	}
	return 1
}
