package rules

import (
	"go/ast"
	"go/constant"
	"go/token"
	"go/types"
	"math"

	"sopverif/eng"
)

func init() {
	register(&Property{
		ID:    "C18",
		Title: "The execution rate limit from `settings` is respected",
		Explanation: "Decided on taskHandleHookRun, Hook and CreateRateLimiter: (R1) every path to handleRunHook passes RateLimitWait, and its " +
			"error edge returns Status=Repeat without running the hook; (R2) hooks are executed only through handleRunHook <- " +
			"taskHandleHookRun (so queued and webhook executions all pass R1), RateLimitWait waits on the hook's own limiter; (R3) the " +
			"limiter is rate.NewLimiter(limit, burst) with limit = rate.Every(ExecutionMinInterval) when non-zero (else rate.Inf) and " +
			"burst = ExecutionBurst when non-zero (else 1), created once per hook in LoadConfig from the parsed settings; (R4) settings are " +
			"parsed with ParseDuration/ParseInt and errors are returned. NOT decided: the bound B + T/I itself (contract of " +
			"golang.org/x/time/rate, a timing statement).",
		Run: runC18,
	})
}

func runC18(c *eng.Ctx) {
	p := c.P
	r1 := c.Rule("C18.R1", "B:dominance", "taskHandleHookRun: RateLimitWait dominates handleRunHook; on its error the task result is Repeat and the hook is not run", 2)
	if f := r1.NeedFunc(pkgOp + ".(*ShellOperator).taskHandleHookRun"); f != nil {
		info := f.Pkg.TypesInfo
		g := p.GraphOf(f)
		wait := p.Method(pkgHook, "Hook", "RateLimitWait")
		handleRun := p.Method(pkgOp, "ShellOperator", "handleRunHook")
		status := p.Field(pkgQueue, "TaskResult", "Status")
		var waitNode, runNode *eng.GNode
		for _, n := range g.NodesCalling(wait) {
			waitNode = n
		}
		for _, n := range g.NodesCalling(handleRun) {
			runNode = n
		}
		if waitNode == nil {
			r1.Bad(f.Key+" waits", f.Decl.Pos(), "taskHandleHookRun never calls RateLimitWait: executions are not throttled at all")
		} else if runNode == nil {
			r1.Unknown(f.Key+" runs", f.Decl.Pos(), "handleRunHook call not found")
		} else {
			r1.Check(g.OnlyVia(runNode, func(n *eng.GNode) bool { return n == waitNode }, nil), f.Key+" wait-before-run", runNode.Node.Pos(), "every path to handleRunHook passes RateLimitWait", "a path reaches handleRunHook without waiting on the rate limiter")
			isRepeat := func(n *eng.GNode) bool {
				ret, ok := n.Node.(*ast.ReturnStmt)
				if !ok || len(ret.Results) != 1 {
					return false
				}
				v := litKeyValue(info, ret.Results[0], status)
				if v == nil {
					return false
				}
				s, isC := eng.ConstStr(info, v)
				return isC && s == "Repeat"
			}
			call := g.CallsAt(waitNode, isObj(wait))[0].Call
			v := errHandled(g, call, func(n *eng.GNode) bool { return isRepeat(n) })
			okNoRun := true
			// on the error edge handleRunHook is unreachable
			if as, ok := waitNode.Node.(*ast.AssignStmt); ok && len(as.Lhs) == 1 {
				ev := eng.SelObj(info, as.Lhs[0])
				okEdge := g.FactEdge(func(fc eng.Fact) bool {
					x, y, eq, isEq := eng.EqAtom(fc)
					return isEq && eq && eng.SelObj(info, x) == ev && eng.IsNil(info, y)
				})
				nilTest := false
				for _, n := range g.Nodes {
					for _, e := range n.Succ {
						if okEdge(e) {
							nilTest = true
						}
					}
				}
				_ = nilTest
				reach := g.Reach(eng.Query{From: []*eng.GNode{waitNode}, NonNil: []types.Object{ev}, AvoidEdge: func(e *eng.GEdge) bool {
					// take only the err != nil outcome of the first test of this variable
					for _, fc := range g.EdgeFacts(e) {
						x, y, eq, isEq := eng.EqAtom(fc)
						if isEq && eng.SelObj(info, x) == ev && eng.IsNil(info, y) && eq {
							return true
						}
					}
					return false
				}})
				if reach[runNode] {
					okNoRun = false
				}
			}
			r1.Check(v.OK && okNoRun, f.Key+" wait-error-repeats", waitNode.Node.Pos(), "the error edge returns Status=Repeat and never runs the hook", "an error of RateLimitWait is not turned into `Repeat without running the hook`: "+v.Detail)
		}
	}

	r2 := c.Rule("C18.R2", "C:who-calls", "Hook.Run <- handleRunHook <- taskHandleHookRun only; RateLimitWait waits on the hook's own RateLimiter", 3)
	whoCalls(c, r2, p.Method(pkgHook, "Hook", "Run"), "Hook.Run", map[string]string{pkgOp + ".(*ShellOperator).handleRunHook": "single executor of hooks"}, "a hook is executed without passing the rate limiter")
	whoCalls(c, r2, p.Method(pkgOp, "ShellOperator", "handleRunHook"), "handleRunHook", map[string]string{pkgOp + ".(*ShellOperator).taskHandleHookRun": "the rate-limited task handler"}, "handleRunHook is called from a path that does not wait on the rate limiter")
	if f := r2.NeedFunc(pkgHook + ".(*Hook).RateLimitWait"); f != nil {
		info := f.Pkg.TypesInfo
		limiter := p.Field(pkgHook, "Hook", "RateLimiter")
		ok := false
		eng.InspectNoLit(f.Decl.Body, func(n ast.Node) bool {
			if r, isR := n.(*ast.ReturnStmt); isR && len(r.Results) == 1 {
				if cl, isC := ast.Unparen(r.Results[0]).(*ast.CallExpr); isC && isCallNamed(info, cl, "Wait") {
					if s, isS := ast.Unparen(cl.Fun).(*ast.SelectorExpr); isS && eng.IsField(info, resolveLocal(info, f.Decl.Body, s.X), limiter) {
						ok = true
					}
				}
			}
			return true
		})
		r2.Check(ok, f.Key, f.Decl.Pos(), "returns h.RateLimiter.Wait(ctx)", "RateLimitWait does not wait on the hook's rate limiter (or drops its error)")
	}

	r3 := c.Rule("C18.R3", "D:provenance", "CreateRateLimiter: limit = rate.Every(ExecutionMinInterval) iff non-zero else rate.Inf; burst = ExecutionBurst iff non-zero else 1; one limiter per hook, stored only in LoadConfig", 4)
	if fo, _ := p.Object(pkgHook, "CreateRateLimiter").(*types.Func); fo == nil {
		r3.Unknown("anchor:CreateRateLimiter", token.NoPos, "not found")
	} else {
		f := p.FuncOf(fo)
		c.Touch(f)
		info := f.Pkg.TypesInfo
		g := p.GraphOf(f)
		minInt := p.Field(pkgHTypes, "Settings", "ExecutionMinInterval")
		burstF := p.Field(pkgHTypes, "Settings", "ExecutionBurst")
		settings := p.Field(pkgCfg, "HookConfig", "Settings")
		isNewLimiter := func(o types.Object, _ *ast.CallExpr) bool {
			return eng.IsPkgFunc(o, "golang.org/x/time/rate", "NewLimiter")
		}
		// every return gives a limiter made by rate.NewLimiter(limit, burst)
		type site struct {
			n    *eng.GNode
			call *ast.CallExpr
		}
		var sites []site
		okRet := true
		for _, n := range g.Nodes {
			if ms := g.CallsAt(n, isNewLimiter); len(ms) == 1 && len(ms[0].Call.Args) == 2 {
				sites = append(sites, site{n, ms[0].Call})
			}
			if ret, isR := eng.IsReturn(n); isR {
				if len(ret.Results) != 1 {
					okRet = false
					continue
				}
				cl, isC := ast.Unparen(resolveLocal(info, f.Decl.Body, ret.Results[0])).(*ast.CallExpr)
				if !isC || !isNewLimiter(eng.CalleeOf(info, cl), cl) {
					okRet = false
				}
			}
		}
		if len(sites) == 0 || !okRet {
			r3.Bad(f.Key+" NewLimiter", f.Decl.Pos(), "the limiter is not created with rate.NewLimiter(limit, burst) on every path")
		} else {
			// a scenario fixes whether settings are present and whether the configured value is zero; the argument
			// handed to NewLimiter in that scenario must be the documented one at every reachable creation
			scenario := func(hasSettings bool, fld *types.Var, nonZero bool) func(eng.Fact) bool {
				return func(fc eng.Fact) bool {
					x, y, eq, isEq := eng.EqAtom(fc)
					if !isEq {
						return false
					}
					isSettings := func(e ast.Expr) bool {
						if eng.IsField(info, e, settings) {
							return true
						}
						// the settings handed in as a parameter, or held in a local
						if tv, has := info.Types[e]; has && typeNamed("pkg/hook/types", "Settings")(tv.Type) {
							if _, isPtr := tv.Type.(*types.Pointer); isPtr {
								_, isId := ast.Unparen(e).(*ast.Ident)
								return isId
							}
						}
						return false
					}
					for i := 0; i < 2; i++ {
						if isSettings(x) && eng.IsNil(info, y) {
							return eq == !hasSettings
						}
						if hasSettings && eng.IsField(info, x, fld) {
							if k, isK := eng.ConstInt(info, y); isK && k == 0 {
								return eq == !nonZero
							}
						}
						x, y = y, x
					}
					return false
				}
			}
			isInf := func(e ast.Expr) bool {
				if e == nil {
					return false
				}
				tv, has := info.Types[e]
				if !has || tv.Value == nil {
					return false
				}
				fv, _ := constant.Float64Val(constant.ToFloat(tv.Value))
				return fv == math.MaxFloat64
			}
			isOne := func(e ast.Expr) bool {
				if e == nil {
					return false
				}
				k, isK := eng.ConstInt(info, e)
				return isK && k == 1
			}
			// the wanted values are judged on the expression that produced the argument on the paths of the scenario
			// (copies of locals followed backwards), evaluated where it was produced
			type judge func(e ast.Expr, at *eng.GNode, assumed func(eng.Fact) bool) bool
			constJ := func(f func(ast.Expr) bool) judge {
				return func(e ast.Expr, _ *eng.GNode, _ func(eng.Fact) bool) bool { return f(e) }
			}
			fieldAt := func(e ast.Expr, at *eng.GNode, assumed func(eng.Fact) bool, fld *types.Var) bool {
				src, _, tup, uniq := valueAt(g, info, f.Decl.Body, at, e, assumed)
				return uniq && tup < 0 && src != nil && eng.IsField(info, src, fld)
			}
			isEvery := func(e ast.Expr, at *eng.GNode, assumed func(eng.Fact) bool) bool {
				if e == nil {
					return false
				}
				cl, isC := ast.Unparen(e).(*ast.CallExpr)
				return isC && len(cl.Args) == 1 && eng.IsPkgFunc(eng.CalleeOf(info, cl), "golang.org/x/time/rate", "Every") && fieldAt(cl.Args[0], at, assumed, minInt)
			}
			isBurstField := func(e ast.Expr, at *eng.GNode, assumed func(eng.Fact) bool) bool {
				return e != nil && fieldAt(e, at, assumed, burstF)
			}
			decide := func(arg int, fld *types.Var, dflt, configured judge) bool {
				okAll := true
				for _, sc := range []struct {
					hasSettings, nonZero bool
					want                 judge
				}{{false, false, dflt}, {true, false, dflt}, {true, true, configured}} {
					assumed := liftLocals(g, info, f.Decl.Body, scenario(sc.hasSettings, fld, sc.nonZero))
					feasible := g.Reach(eng.Query{FromEntry: true, Assume: assumed, AvoidEdge: g.Infeasible(assumed)})
					created := false
					for _, st := range sites {
						if !feasible[st.n] {
							continue
						}
						created = true
						src, at, tup, uniq := valueAt(g, info, f.Decl.Body, st.n, st.call.Args[arg], assumed)
						if !uniq || tup >= 0 || !sc.want(src, at, assumed) {
							okAll = false
						}
					}
					if !created {
						okAll = false
					}
				}
				return okAll
			}
			r3.Check(decide(0, minInt, constJ(isInf), isEvery), f.Key+" limit", f.Decl.Pos(), "rate.Inf by default, rate.Every(ExecutionMinInterval) when non-zero", "the limit is not `rate.Every(executionMinInterval)` exactly when an interval is configured (and unlimited otherwise)")
			r3.Check(decide(1, burstF, constJ(isOne), isBurstField), f.Key+" burst", f.Decl.Pos(), "1 by default, ExecutionBurst when non-zero", "the burst is not `executionBurst` exactly when configured (and 1 otherwise)")
		}
		// who stores RateLimiter
		limiter := p.Field(pkgHook, "Hook", "RateLimiter")
		n := 0
		for _, ref := range p.Refs(limiter) {
			if !ref.Write {
				continue
			}
			n++
			okW := ref.In != nil && ref.In.Key == pkgHook+".(*Hook).LoadConfig"
			if okW {
				val := storedValue(ref)
				if val != nil {
					val = resolveLocal(ref.Pkg.TypesInfo, ref.In.Decl.Body, val)
				}
				okW = val != nil && isCallTo(ref.Pkg.TypesInfo, val, fo)
			}
			r3.Check(okW, "RateLimiter store in "+ref.Where(), ref.Node.Pos(), "set once from CreateRateLimiter(h.Config) in LoadConfig", "the hook's rate limiter is replaced outside LoadConfig (or not from the hook's settings): its token state is lost or the settings are ignored")
		}
		if n == 0 {
			r3.Bad("RateLimiter never stored", token.NoPos, "no hook gets a rate limiter")
		}
		// one limiter per call
		r3.Check(len(p.Sites(fo)) >= 1, "CreateRateLimiter used", token.NoPos, "called from LoadConfig", "CreateRateLimiter is not used")
	}

	r4 := c.Rule("C18.R4", "I+D", "settings parsing: executionMinInterval via time.ParseDuration, executionBurst via strconv.ParseInt, errors returned, values stored in Settings", 3)
	if f := r4.NeedFunc(pkgCfg + ".(*HookConfigV1).CheckAndConvertSettings"); f != nil {
		info := f.Pkg.TypesInfo
		minInt := p.Field(pkgHTypes, "Settings", "ExecutionMinInterval")
		burstF := p.Field(pkgHTypes, "Settings", "ExecutionBurst")
		// the stored values come from the parsers (through locals and conversions), or are constants
		fromParser := func(e ast.Expr, isParser func(types.Object) bool) bool {
			n := 0
			for _, src := range valueSources(info, f.Decl.Body, e, 6) {
				if tv, has := info.Types[src]; has && tv.Value != nil {
					continue
				}
				cl, isC := ast.Unparen(src).(*ast.CallExpr)
				if !isC || !isParser(eng.CalleeOf(info, cl)) {
					return false
				}
				n++
			}
			return n > 0
		}
		stored := false
		ast.Inspect(f.Decl.Body, func(n ast.Node) bool {
			if cl, ok := n.(*ast.CompositeLit); ok {
				a, b := litKeyValue(info, cl, minInt), litKeyValue(info, cl, burstF)
				if a != nil && b != nil &&
					fromParser(a, func(o types.Object) bool { return eng.IsPkgFunc(o, "time", "ParseDuration") }) &&
					fromParser(b, func(o types.Object) bool {
						return eng.IsPkgFunc(o, "strconv", "ParseInt") || eng.IsPkgFunc(o, "strconv", "Atoi")
					}) {
					stored = true
				}
			}
			return true
		})
		r4.Check(stored, f.Key+" values", f.Decl.Pos(), "Settings{ExecutionMinInterval: parsed duration, ExecutionBurst: parsed int}", "the parsed interval/burst are not what is stored in the effective settings")
		// errors: accumulate + return non-nil when any
		g := p.GraphOf(f)
		accum := func(gr *eng.Graph) func(*eng.GNode) bool {
			return func(n *eng.GNode) bool {
				as, ok := n.Node.(*ast.AssignStmt)
				if !ok || len(as.Rhs) != 1 {
					return false
				}
				cl, isC := ast.Unparen(as.Rhs[0]).(*ast.CallExpr)
				return isC && isCallNamed(info, cl, "Append")
			}
		}
		_ = g
		checkErrSites(r4, f, func(o types.Object) bool {
			return nameOf(o) == "ParseDuration" || nameOf(o) == "ParseInt" || nameOf(o) == "Atoi"
		}, accum, nil)
	}
}
