package rules

import (
	"fmt"
	"go/ast"
	"go/token"
	"go/types"
	"sort"
	"strings"

	"sopverif/eng"
)

func init() {
	register(&Property{
		ID:    "C20",
		Title: "Hook discovery: exactly the executable files outside lib/ and hidden paths",
		Explanation: "Decided on pkg/utils/file, Manager.Init and loadHook: (R1) the constants of the selection are the documented ones: " +
			"excluded extensions {.yaml,.json,.md,.txt}, hidden test HasPrefix(name, \".\"), any-execute-bit mask 0o111, excluded directory " +
			"\"lib\"; (R2) the walk callback returns SkipDir exactly for hidden/excluded directories, appends a file iff " +
			"checkExecutableHookFile is nil, and returns walk errors; (R3) Init sorts before loading, calls loadHook exactly once per path, " +
			"returns its error, the hook name is filepath.Rel(workingDir, path); (R4) --config is run by exactly one call in loadHook, " +
			"outside any loop, with the constant argument list [\"--config\"]; (R5) errors of the --config run and of LoadConfig are " +
			"returned wrapped with the hook's path/name. NOT decided: file-system semantics (symlinks, a hooks root that is itself hidden " +
			"or named lib), the OS exec.",
		Run: runC20,
	})
}

func runC20(c *eng.Ctx) {
	p := c.P
	// ---- R1 constants
	r1 := c.Rule("C20.R1", "F:constant tables", "excluded extensions, hidden prefix, execute mask, excluded directory", 4)
	if f := r1.NeedFunc(pkgFile + ".checkExecutableHookFile"); f != nil {
		info := f.Pkg.TypesInfo
		g := p.GraphOf(f)
		// the excluded extensions: the constants K for which a test `filepath.Ext(name) == K` (a switch arm or a
		// comparison, possibly through a local assigned just before) leads to `return ErrFileHasWrongExtension` on
		// every path
		var exts []string
		wrongExt := p.Object(pkgFile, "ErrFileHasWrongExtension")
		hiddenErr := p.Object(pkgFile, "ErrFileIsHidden")
		isExtCall := func(x ast.Expr) bool {
			cl, isC := ast.Unparen(x).(*ast.CallExpr)
			return isC && eng.IsPkgFunc(eng.CalleeOf(info, cl), "path/filepath", "Ext")
		}
		isWrongRet := func(n *eng.GNode) bool {
			r, isR := n.Node.(*ast.ReturnStmt)
			return isR && len(r.Results) == 1 && eng.SelObj(info, r.Results[0]) == wrongExt
		}
		okSwitch := false
		seenExt := map[string]bool{}
		for _, n := range g.Nodes {
			for _, e := range n.Succ {
				// every alternative under which the edge is taken must be `Ext == K`
				var ks []string
				all := true
				for _, fc := range g.EdgeDisjuncts(e) {
					// slices.Contains(<constant list>, Ext(name))
					if cl, isC := ast.Unparen(fc.X).(*ast.CallExpr); isC && fc.Y == nil && fc.Pos && len(cl.Args) == 2 && eng.IsPkgFunc(eng.CalleeOf(info, cl), "slices", "Contains") && isExtCall(resolveLocal(info, f.Decl.Body, cl.Args[1])) {
						if set, isSet := constStringSet(p, info, f.Decl.Body, cl.Args[0]); isSet {
							ks = append(ks, set...)
							continue
						}
					}
					x, y, eq, isEq := eng.EqAtom(fc)
					if !isEq || !eq {
						all = false
						break
					}
					x, y = resolveLocal(info, f.Decl.Body, x), resolveLocal(info, f.Decl.Body, y)
					if !isExtCall(x) {
						x, y = y, x
					}
					k, isK := eng.ConstStr(info, y)
					if !isExtCall(x) || !isK {
						all = false
						break
					}
					ks = append(ks, k)
				}
				if !all || len(ks) == 0 {
					continue
				}
				okSwitch = true
				if g.MustPassToExit(eng.Query{From: []*eng.GNode{e.To}}, isWrongRet) == nil {
					for _, k := range ks {
						if !seenExt[k] {
							seenExt[k] = true
							exts = append(exts, k)
						}
					}
				}
			}
		}
		sort.Strings(exts)
		want := []string{".json", ".md", ".txt", ".yaml"}
		r1.Check(okSwitch && strings.Join(exts, ",") == strings.Join(want, ","), f.Key+" excluded-extensions", f.Decl.Pos(), "rejects exactly .yaml .json .md .txt", fmt.Sprintf("the excluded extensions are %v, documented: %v", exts, want))
		// hidden: return ErrFileIsHidden only under HasPrefix(f.Name(), ".")
		hiddenOK := false
		for _, n := range g.Nodes {
			r, isR := n.Node.(*ast.ReturnStmt)
			if !isR || len(r.Results) != 1 || eng.SelObj(info, r.Results[0]) != hiddenErr {
				continue
			}
			hiddenOK = g.OnlyVia(n, nil, g.FactEdge(func(fc eng.Fact) bool { return fc.Pos && fc.Y == nil && isHiddenTestIn(info, f.Decl.Body, fc.X) }))
		}
		// and a hidden name cannot pass: avoiding every edge on which the name is known NOT to be hidden, only the
		// rejecting return is reachable
		if hiddenOK {
			notHidden := g.FactEdge(func(fc eng.Fact) bool { return !fc.Pos && fc.Y == nil && isHiddenTestIn(info, f.Decl.Body, fc.X) })
			reach := g.Reach(eng.Query{FromEntry: true, AvoidEdge: notHidden})
			for m := range reach {
				if r, isR := m.Node.(*ast.ReturnStmt); isR && len(r.Results) == 1 && eng.SelObj(info, r.Results[0]) != hiddenErr {
					hiddenOK = false
				}
			}
		}
		r1.Check(hiddenOK, f.Key+" hidden-files", f.Decl.Pos(), "names starting with a dot are rejected", "files whose name starts with a dot are not rejected (or another test decides hidden-ness)")
		// final verdict comes from the permission check
		perm, _ := p.Object(pkgFile, "CheckExecutablePermissions").(*types.Func)
		last := false
		eng.InspectNoLit(f.Decl.Body, func(n ast.Node) bool {
			if r, isR := n.(*ast.ReturnStmt); isR && len(r.Results) == 1 {
				last = isCallTo(info, r.Results[0], perm)
			}
			return true
		})
		nilRet := false
		eng.InspectNoLit(f.Decl.Body, func(n ast.Node) bool {
			if r, isR := n.(*ast.ReturnStmt); isR && len(r.Results) == 1 && eng.IsNil(info, r.Results[0]) {
				nilRet = true
			}
			return true
		})
		r1.Check(last && !nilRet, f.Key+" mode-decides", f.Decl.Pos(), "a file is accepted only through CheckExecutablePermissions", "a file can be accepted without the execute-bit check")
	}
	if f := r1.NeedFunc(pkgFile + ".CheckExecutablePermissions"); f != nil {
		info := f.Pkg.TypesInfo
		ok := false
		eng.InspectNoLit(f.Decl.Body, func(n ast.Node) bool {
			if b, isB := n.(*ast.BinaryExpr); isB && b.Op == token.AND {
				if v, isC := eng.ConstInt(info, b.Y); isC && v == 0o111 && isCallNamed(info, b.X, "Mode") {
					ok = true
				}
				if v, isC := eng.ConstInt(info, b.X); isC && v == 0o111 && isCallNamed(info, b.Y, "Mode") {
					ok = true
				}
			}
			return true
		})
		r1.Check(ok, f.Key+" mask", f.Decl.Pos(), "Mode() & 0o111 (any execute bit)", "the execute test is not `mode & 0o111`: files executable only for group/other (or only for the owner) are treated differently")
	}

	// ---- R2 walk callback
	r2 := c.Rule("C20.R2", "B:control-dependence", "RecursiveGetExecutablePaths: SkipDir exactly for hidden or excluded (lib) directories, a path is appended iff checkExecutableHookFile returned nil, walk errors are returned", 5)
	if f := r2.NeedFunc(pkgFile + ".RecursiveGetExecutablePaths"); f != nil {
		info := f.Pkg.TypesInfo
		// "lib" appended to the exclusion list
		libOK := false
		excl := f.Obj.Type().(*types.Signature).Params().At(1)
		eng.InspectNoLit(f.Decl.Body, func(n ast.Node) bool {
			if as, ok := n.(*ast.AssignStmt); ok && len(as.Rhs) == 1 && eng.SelObj(info, as.Lhs[0]) == excl {
				if ap := builtinCall(info, as.Rhs[0], "append"); ap != nil && eng.SelObj(info, ap.Args[0]) == excl {
					for _, a := range ap.Args[1:] {
						if s, isS := eng.ConstStr(info, a); isS && s == "lib" {
							libOK = true
						}
					}
				}
			}
			return true
		})
		// the callers name no further directories: the documented exclusions are `lib` and hidden directories only (a name
		// passed here is matched against every directory at every depth)
		for _, s := range p.Sites(f.Obj) {
			if s.In == nil {
				continue
			}
			r2.Check(len(s.Call.Args) == 1 && !s.Call.Ellipsis.IsValid(), "call:"+s.Where()+"->RecursiveGetExecutablePaths", s.Call.Pos(), "called with the hooks directory only", "hook discovery is asked to exclude further directory names: every sub-directory of that name, at any depth, silently disappears from the hook set")
		}
		r2.Check(libOK, f.Key+" lib-excluded", f.Decl.Pos(), `"lib" is always in the exclusion list`, "the lib directory is not excluded from hook discovery")
		var lit *eng.Lit
		for _, l := range f.Lits {
			if l.ArgOf != nil {
				if o := eng.CalleeOf(info, l.ArgOf); eng.IsPkgFunc(o, "path/filepath", "Walk") || eng.IsPkgFunc(o, "path/filepath", "WalkDir") {
					lit = l
				}
			}
		}
		if lit == nil {
			r2.Unknown(f.Key+" walk", f.Decl.Pos(), "filepath.Walk callback not found")
		} else {
			g := p.GraphOfLit(lit)
			check, _ := p.Object(pkgFile, "checkExecutableHookFile").(*types.Func)
			skipDir := p.ExtObject("path/filepath", "SkipDir")
			isDirFact := func(fc eng.Fact) bool { return fc.Pos && fc.Y == nil && isCallNamed(info, fc.X, "IsDir") }
			// SkipDir returns
			nskip := 0
			for _, n := range g.Nodes {
				r, isR := n.Node.(*ast.ReturnStmt)
				if !isR || len(r.Results) != 1 || eng.SelObj(info, r.Results[0]) != skipDir {
					continue
				}
				nskip++
				r2.Check(g.OnlyVia(n, nil, g.FactEdge(isDirFact)), fmt.Sprintf("%s$walk SkipDir#%d", f.Key, nskip), r.Pos(), "SkipDir only for directories", "SkipDir can be returned for a file (the rest of its directory would be skipped)")
			}
			// the skip condition, decided on the graph: (1) SkipDir is reachable only through a test every alternative
			// of which is `hidden` or `excluded` (one `||` condition or separate ifs); (2) assuming a directory that is
			// hidden, respectively excluded, every path returns SkipDir
			// the base name of the visited entry, possibly held in a local
			isName := func(x ast.Expr) bool { return isCallNamed(info, resolveLocal(info, lit.Lit.Body, x), "Name") }
			isHid := func(x ast.Expr) bool {
				cl, isC := ast.Unparen(x).(*ast.CallExpr)
				if !isC || !eng.IsPkgFunc(eng.CalleeOf(info, cl), "strings", "HasPrefix") || len(cl.Args) != 2 {
					return false
				}
				s, isS := eng.ConstStr(info, cl.Args[1])
				return isS && s == "." && isName(cl.Args[0])
			}
			isExc := func(x ast.Expr) bool {
				cl, isC := ast.Unparen(x).(*ast.CallExpr)
				return isC && eng.IsPkgFunc(eng.CalleeOf(info, cl), "slices", "Contains") && len(cl.Args) == 2 && eng.SelObj(info, cl.Args[0]) == excl && isName(cl.Args[1])
			}
			isSkipRet := func(n *eng.GNode) bool {
				r, isR := n.Node.(*ast.ReturnStmt)
				return isR && len(r.Results) == 1 && eng.SelObj(info, r.Results[0]) == skipDir
			}
			// decided per scenario: a directory that is hidden (or excluded) is always skipped, one that is neither is
			// never skipped; h, x: +1 assumed true, -1 assumed false, 0 unknown
			scenario := func(h, x int) func(eng.Fact) bool {
				return func(fc eng.Fact) bool {
					if fc.Y != nil {
						return false
					}
					if isHid(fc.X) && h != 0 {
						return (h > 0) == fc.Pos
					}
					if isExc(fc.X) && x != 0 {
						return (x > 0) == fc.Pos
					}
					return false
				}
			}
			condOK := nskip > 0
			var dirEdges []*eng.GEdge
			for _, n := range g.Nodes {
				for _, e := range n.Succ {
					if g.FactEdge(isDirFact)(e) {
						dirEdges = append(dirEdges, e)
					}
				}
			}
			if len(dirEdges) == 0 {
				condOK = false
			}
			for _, e := range dirEdges {
				for _, sc := range [][2]int{{1, 0}, {0, 1}} {
					a := scenario(sc[0], sc[1])
					if g.MustPassToExit(eng.Query{From: []*eng.GNode{e.To}, Assume: a, AvoidEdge: g.Infeasible(a)}, isSkipRet) != nil {
						condOK = false
					}
				}
				a := scenario(-1, -1)
				for n := range g.Reach(eng.Query{From: []*eng.GNode{e.To}, Assume: a, AvoidEdge: g.Infeasible(a)}) {
					if isSkipRet(n) {
						condOK = false
					}
				}
			}
			r2.Check(condOK && nskip > 0, f.Key+"$walk skip-condition", lit.Lit.Pos(), "directories are skipped iff hidden or in the exclusion list", "directories are not skipped exactly when `hidden || excluded`")
			// append iff check == nil
			var pathsVar types.Object
			var appendNode *eng.GNode
			for _, n := range g.Nodes {
				as, ok := n.Node.(*ast.AssignStmt)
				if ok && len(as.Rhs) == 1 && builtinCall(info, as.Rhs[0], "append") != nil {
					pathsVar = eng.SelObj(info, as.Lhs[0])
					appendNode = n
				}
			}
			okAppend := false
			if appendNode != nil {
				errVar := types.Object(nil)
				for _, n := range g.Nodes {
					if as, ok := n.Node.(*ast.AssignStmt); ok && len(as.Rhs) == 1 && isCallTo(info, as.Rhs[0], check) {
						errVar = eng.SelObj(info, as.Lhs[0])
					}
					// `var e error = check(f)`: the form a parameter binding of an inlined callback takes
					if n.Node != nil {
						ast.Inspect(n.Node, func(x ast.Node) bool {
							if vs, ok := x.(*ast.ValueSpec); ok && len(vs.Names) == 1 && len(vs.Values) == 1 && isCallTo(info, vs.Values[0], check) {
								errVar = info.Defs[vs.Names[0]]
							}
							_, isLit := x.(*ast.FuncLit)
							return !isLit
						})
					}
				}
				nilEdge := g.FactEdge(func(fc eng.Fact) bool {
					x, y, eq, isEq := eng.EqAtom(fc)
					return isEq && eq && errVar != nil && eng.SelObj(info, x) == errVar && eng.IsNil(info, y)
				})
				nonNilEdge := g.FactEdge(func(fc eng.Fact) bool {
					x, y, eq, isEq := eng.EqAtom(fc)
					return isEq && !eq && errVar != nil && eng.SelObj(info, x) == errVar && eng.IsNil(info, y)
				})
				notDir := g.FactEdge(func(fc eng.Fact) bool { return !fc.Pos && fc.Y == nil && isCallNamed(info, fc.X, "IsDir") })
				only := g.OnlyVia(appendNode, nil, nilEdge) && g.OnlyVia(appendNode, nil, notDir)
				// always: avoiding the err != nil edge and the directory edge, every exit passes the append
				errT := errorType
				walkErr := g.FactEdge(func(fc eng.Fact) bool {
					x, y, eq, isEq := eng.EqAtom(fc)
					if !isEq || eq || !eng.IsNil(info, y) {
						return false
					}
					o := eng.SelObj(info, x)
					if o == errVar || o == nil {
						return false
					}
					tv, has := info.Types[x]
					return has && types.Identical(tv.Type, errT)
				})
				ex := g.MustPassToExit(eng.Query{FromEntry: true, AvoidEdge: func(e *eng.GEdge) bool {
					return nonNilEdge(e) || g.FactEdge(isDirFact)(e) || walkErr(e)
				}}, func(n *eng.GNode) bool { return n == appendNode })
				okAppend = only && ex == nil
			}
			r2.Check(okAppend, f.Key+"$walk append-iff-accepted", lit.Lit.Pos(), "a file is appended iff checkExecutableHookFile returned nil", "the list of hooks is not `exactly the files accepted by checkExecutableHookFile`")
			// walk errors returned: the callback's err parameter is returned when non-nil, and Walk's error is returned by the function
			okErr := false
			if lit.Lit.Type.Params != nil && len(lit.Lit.Type.Params.List) == 3 {
				ep := info.Defs[lit.Lit.Type.Params.List[2].Names[0]]
				for _, n := range g.Nodes {
					if r, isR := n.Node.(*ast.ReturnStmt); isR && len(r.Results) == 1 && eng.SelObj(info, r.Results[0]) == ep {
						okErr = g.OnlyVia(n, nil, g.FactEdge(func(fc eng.Fact) bool {
							x, y, eq, isEq := eng.EqAtom(fc)
							return isEq && !eq && eng.SelObj(info, x) == ep && eng.IsNil(info, y)
						}))
					}
				}
			}
			fg := p.GraphOf(f)
			v := errHandled(fg, lit.ArgOf, nil)
			r2.Check(okErr && v.OK, f.Key+" walk-errors", lit.ArgOf.Pos(), "walk errors are returned", "an error of the directory walk is swallowed: "+v.Detail)
			// the function returns the collected paths
			retOK := false
			eng.InspectNoLit(f.Decl.Body, func(n ast.Node) bool {
				if r, isR := n.(*ast.ReturnStmt); isR && len(r.Results) == 2 && eng.IsNil(info, r.Results[1]) {
					retOK = eng.SelObj(info, r.Results[0]) == pathsVar && pathsVar != nil
				}
				return true
			})
			r2.Check(retOK, f.Key+" returns-collected", f.Decl.Pos(), "returns the collected paths", "the collected paths are not what is returned")
		}
	}

	// ---- R3 Init
	r3 := c.Rule("C20.R3", "B+D", "Init: sort before load, exactly one loadHook per path with its error returned (no continue), hooks indexed by name; name = filepath.Rel(workingDir, path)", 4)
	if f := r3.NeedFunc(pkgHook + ".(*Manager).Init"); f != nil {
		info := f.Pkg.TypesInfo
		g := p.GraphOf(f)
		loadHook := p.Method(pkgHook, "Manager", "loadHook")
		getPaths := p.ExtObject(full(pkgFile), "RecursiveGetExecutablePaths")
		calls := callsIn(info, f.Decl.Body, isObj(loadHook))
		if len(calls) != 1 {
			r3.Bad(f.Key+" loadHook-once", f.Decl.Pos(), fmt.Sprintf("expected exactly one loadHook call site, found %d", len(calls)))
		} else {
			call := calls[0]
			el := elemLoopAt(info, f.Decl.Body, call.Pos())
			ok := el != nil && !el.Desc && len(call.Args) == 1 && el.IsElem(call.Args[0])
			src := false
			sorted := false
			if ok {
				pv, _ := eng.SelObj(info, el.Base).(*types.Var)
				if pv != nil {
					for _, e := range eng.AssignedExprs(info, f.Decl.Body, pv) {
						if isCallTo(info, e, getPaths) {
							src = true
						}
					}
					head := loopBodyEntryOf(g, el.Stmt)
					sorted = head != nil && g.OnlyVia(head, func(n *eng.GNode) bool {
						return len(g.CallsAt(n, func(o types.Object, cl *ast.CallExpr) bool {
							return (eng.IsPkgFunc(o, "sort", "Strings") || eng.IsPkgFunc(o, "slices", "Sort")) && eng.SelObj(info, cl.Args[0]) == pv
						})) > 0
					}, nil)
				}
				// one call per iteration, not inside a nested loop
				ok = eng.LoopOf(el.Body, call.Pos()) == nil && loopBodyMustPass(g, el.Stmt, func(n *eng.GNode) bool { return n == g.NodeOf(call) })
			}
			r3.Check(ok && src, f.Key+" loadHook-per-path", call.Pos(), "loadHook(path) once for every path returned by RecursiveGetExecutablePaths", "hooks are not loaded exactly once for every discovered path")
			r3.Check(sorted, f.Key+" lexical-order", call.Pos(), "paths sorted before the load loop", "hooks are not loaded in lexical order of their paths")
			v := errHandled(g, call, nil)
			r3.Check(v.OK, f.Key+" loadHook-error-fatal", call.Pos(), "a loadHook error makes Init fail", "a hook whose --config run fails or is invalid does not make initialization fail: "+v.Detail)
		}
	}
	if f := r3.NeedFunc(pkgHook + ".(*Manager).loadHook"); f != nil {
		info := f.Pkg.TypesInfo
		workingDir := p.Field(pkgHook, "Manager", "workingDir")
		prm := f.Obj.Type().(*types.Signature).Params().At(0)
		newHook, _ := p.Object(pkgHook, "NewHook").(*types.Func)
		ok := false
		var nameVar types.Object
		eng.InspectNoLit(f.Decl.Body, func(n ast.Node) bool {
			if as, isA := n.(*ast.AssignStmt); isA && len(as.Rhs) == 1 {
				if cl, isC := ast.Unparen(as.Rhs[0]).(*ast.CallExpr); isC && eng.IsPkgFunc(eng.CalleeOf(info, cl), "path/filepath", "Rel") && len(cl.Args) == 2 && eng.IsField(info, cl.Args[0], workingDir) && eng.SelObj(info, cl.Args[1]) == prm {
					nameVar = eng.SelObj(info, as.Lhs[0])
				}
			}
			return true
		})
		for _, call := range callsIn(info, f.Decl.Body, isObj(newHook)) {
			if len(call.Args) >= 2 && nameVar != nil && eng.SelObj(info, call.Args[0]) == nameVar && eng.SelObj(info, call.Args[1]) == prm {
				ok = true
			}
		}
		r3.Check(ok, f.Key+" hook-name", f.Decl.Pos(), "NewHook(filepath.Rel(workingDir, path), path, ...)", "the hook is not named by its path relative to the hooks directory")
	}

	// ---- R4/R5 --config
	r4 := c.Rule("C20.R4", "C+D", "--config is run exactly once per hook: one call of execCommandOutput, in loadHook, outside any loop, with the constant arguments [\"--config\"]", 2)
	r5 := c.Rule("C20.R5", "I+D", "errors of the --config run and of LoadConfig are returned and name the hook", 2)
	exec := p.Method(pkgHook, "Manager", "execCommandOutput")
	lh := p.Func(pkgHook + ".(*Manager).loadHook")
	if exec == nil || lh == nil {
		r4.Unknown("anchor:execCommandOutput/loadHook", token.NoPos, "not found")
		r5.Unknown("anchor:execCommandOutput/loadHook", token.NoPos, "not found")
		return
	}
	c.Touch(lh)
	info := lh.Pkg.TypesInfo
	sites := p.SitesDyn(exec)
	okOne := len(sites) == 1 && sites[0].In == lh && sites[0].InLit == nil && len(p.Refs(exec)) == 0
	r4.Check(okOne, "call sites of execCommandOutput", token.NoPos, "exactly one, in loadHook", fmt.Sprintf("the hook executable is started from %d places for configuration (expected: once, in loadHook)", len(sites)))
	if okOne {
		call := sites[0].Call
		inLoop := eng.LoopOf(lh.Decl.Body, call.Pos()) != nil
		// what the helper starts: the entrypoint and the argument list it hands to executor.NewExecutor, expressed at the
		// call site (a parameter of the helper stands for the argument of the call, a field of its receiver for that
		// field of the receiver expression of the call)
		var entryAt, argsAt ast.Expr
		var entryRecvField *types.Var
		if ef := p.FuncOf(exec); ef != nil && ef.Decl.Body != nil {
			einfo := ef.Pkg.TypesInfo
			esig := ef.Obj.Type().(*types.Signature)
			atSite := func(e ast.Expr) (ast.Expr, *types.Var) {
				e = ast.Unparen(resolveLocal(einfo, ef.Decl.Body, e))
				if id, isId := e.(*ast.Ident); isId {
					for i := 0; i < esig.Params().Len(); i++ {
						if einfo.ObjectOf(id) == types.Object(esig.Params().At(i)) && i < len(call.Args) {
							return call.Args[i], nil
						}
					}
				}
				if sel, isS := e.(*ast.SelectorExpr); isS && esig.Recv() != nil {
					if id, isId := ast.Unparen(sel.X).(*ast.Ident); isId && einfo.ObjectOf(id) == types.Object(esig.Recv()) {
						if fv, isF := einfo.Uses[sel.Sel].(*types.Var); isF && fv.IsField() {
							if cs, isCS := ast.Unparen(call.Fun).(*ast.SelectorExpr); isCS {
								return cs.X, fv
							}
						}
					}
				}
				return nil, nil
			}
			for _, cl := range callsIn(einfo, ef.Decl.Body, func(o types.Object, _ *ast.CallExpr) bool {
				return eng.IsPkgFunc(o, full("pkg/executor"), "NewExecutor")
			}) {
				if len(cl.Args) == 4 {
					entryAt, entryRecvField = atSite(cl.Args[1])
					argsAt, _ = atSite(cl.Args[2])
				}
			}
		}
		argOK := false
		if argsAt != nil {
			if cl, isC := ast.Unparen(resolveLocal(info, lh.Decl.Body, argsAt)).(*ast.CompositeLit); isC && len(cl.Elts) == 1 {
				if s, isS := eng.ConstStr(info, cl.Elts[0]); isS && s == "--config" {
					argOK = true
				}
			}
		}
		g := p.GraphOf(lh)
		hookPath := lh.Obj.Type().(*types.Signature).Params().At(0)
		entryOK := entryAt != nil && entryRecvField == nil && eng.SelObj(info, entryAt) == hookPath
		if !entryOK && entryAt != nil {
			// hook.Path of the hook that was just made by NewHook(name, hookPath, ...): NewHook stores its second
			// parameter in Path and nothing else writes that field
			pathFld := p.Field(pkgHook, "Hook", "Path")
			newHook, _ := p.Object(pkgHook, "NewHook").(*types.Func)
			var hookExpr ast.Expr
			if entryRecvField != nil && entryRecvField == pathFld {
				hookExpr = entryAt // the helper reads Path of its receiver: the receiver of the call is the hook
			} else if sel, isS := ast.Unparen(entryAt).(*ast.SelectorExpr); isS && entryRecvField == nil && pathFld != nil && eng.IsField(info, sel, pathFld) {
				hookExpr = sel.X
			}
			if hookExpr != nil && pathFld != nil && newHook != nil {
				mk, isC := ast.Unparen(resolveLocal(info, lh.Decl.Body, hookExpr)).(*ast.CallExpr)
				stored := false
				if nh := p.FuncOf(newHook); nh != nil && nh.Obj.Type().(*types.Signature).Params().Len() >= 2 {
					prm2 := nh.Obj.Type().(*types.Signature).Params().At(1)
					ast.Inspect(nh.Decl.Body, func(n ast.Node) bool {
						if cl, isL := n.(*ast.CompositeLit); isL {
							if v := litKeyValue(nh.Pkg.TypesInfo, cl, pathFld); v != nil && eng.SelObj(nh.Pkg.TypesInfo, v) == types.Object(prm2) {
								stored = true
							}
						}
						return true
					})
					for _, ref := range p.Refs(pathFld) {
						if ref.Write && (ref.In == nil || ref.In != nh) {
							stored = false
						}
					}
				}
				entryOK = isC && stored && isCallTo(info, mk, newHook) && len(mk.Args) >= 2 && eng.SelObj(info, mk.Args[1]) == hookPath
			}
		}
		r4.Check(!inLoop && argOK && entryOK, lh.Key+" --config-call", call.Pos(), "one call outside loops with [\"--config\"] on the hook's path", fmt.Sprintf("the --config run is not `once, with exactly [\"--config\"], on the hook's own path` (inLoop=%v args=%v entrypoint=%v)", inLoop, argOK, entryOK))
		// R5
		namesHook := func(ret *ast.ReturnStmt) bool {
			if len(ret.Results) != 2 {
				return false
			}
			found := false
			ast.Inspect(ret.Results[1], func(n ast.Node) bool {
				if id, ok := n.(*ast.Ident); ok {
					if o := info.Uses[id]; o == hookPath || (o != nil && (nameOf(o) == "hookName")) {
						found = true
					}
				}
				if s, ok := n.(*ast.SelectorExpr); ok && s.Sel.Name == "Name" {
					found = true
				}
				return true
			})
			return found
		}
		// the naming may also happen in the callee: every error that execCommandOutput returns is built with one of
		// its parameters that receives the hook's path or name at this call; then returning the call's error as it is
		// names the hook too
		namesAtCall := func(e ast.Expr) bool {
			found := false
			ast.Inspect(e, func(n ast.Node) bool {
				if id, ok := n.(*ast.Ident); ok {
					if o := info.Uses[id]; o == hookPath || (o != nil && nameOf(o) == "hookName") {
						found = true
					}
				}
				if sx, ok := n.(*ast.SelectorExpr); ok && (sx.Sel.Name == "Name" || sx.Sel.Name == "Path") {
					found = true
				}
				return true
			})
			return found
		}
		calleeWraps := false
		if cf := p.FuncOf(exec); cf != nil && cf.Decl.Body != nil {
			cinfo := cf.Pkg.TypesInfo
			csig := cf.Obj.Type().(*types.Signature)
			naming := map[types.Object]bool{}
			for i := 0; i < csig.Params().Len() && i < len(call.Args); i++ {
				if namesAtCall(call.Args[i]) {
					naming[csig.Params().At(i)] = true
				}
			}
			nerr, okAll := 0, true
			eng.InspectNoLit(cf.Decl.Body, func(n ast.Node) bool {
				ret, isR := n.(*ast.ReturnStmt)
				if !isR || !returnsNonNilError(cinfo, csig, ret) {
					return true
				}
				nerr++
				uses := false
				ast.Inspect(ret.Results[len(ret.Results)-1], func(m ast.Node) bool {
					if id, isId := m.(*ast.Ident); isId && naming[cinfo.Uses[id]] {
						uses = true
					}
					return true
				})
				if !uses {
					okAll = false
				}
				return true
			})
			calleeWraps = nerr > 0 && okAll
		}
		var callErr types.Object
		if n := g.NodeOf(call); n != nil {
			if as, isA := n.Node.(*ast.AssignStmt); isA && len(as.Lhs) >= 1 {
				callErr = eng.SelObj(info, as.Lhs[len(as.Lhs)-1])
			}
		}
		namesHookDirect := namesHook
		namesHook = func(ret *ast.ReturnStmt) bool {
			if namesHookDirect(ret) {
				return true
			}
			return calleeWraps && callErr != nil && len(ret.Results) == 2 && eng.SelObj(info, ret.Results[1]) == callErr
		}
		fail := func(n *eng.GNode) bool {
			ret, ok := n.Node.(*ast.ReturnStmt)
			return ok && returnsNonNilError(info, lh.Obj.Type().(*types.Signature), ret) && namesHook(ret)
		}
		v := errHandled(g, call, fail)
		// errHandled accepts any non-nil error return; require the naming as well: on the error edge no non-naming return
		r5.Check(v.OK && onErrorOnlyNaming(g, info, call, lh, namesHook), lh.Key+" --config-error", call.Pos(), "returned, wrapped with the hook path", "a failing --config run is not reported with an error that names the hook: "+v.Detail)
		loadConfig := p.Method(pkgHook, "Hook", "LoadConfig")
		for _, lc := range callsIn(info, lh.Decl.Body, isObj(loadConfig)) {
			v2 := errHandled(g, lc, fail)
			r5.Check(v2.OK && onErrorOnlyNaming(g, info, lc, lh, namesHook), lh.Key+" LoadConfig-error", lc.Pos(), "returned, wrapped with the hook name", "an invalid configuration is not reported with an error that names the hook: "+v2.Detail)
		}
	}
}

// onErrorOnlyNaming: every error return reachable right after the call (before the next statement of the function
// body at the same level) names the hook.
func onErrorOnlyNaming(g *eng.Graph, info *types.Info, call *ast.CallExpr, f *eng.Func, names func(*ast.ReturnStmt) bool) bool {
	// the if statement that tests the error follows the call: inspect its body
	ok := true
	found := false
	eng.InspectNoLit(f.Decl.Body, func(n ast.Node) bool {
		is, isIf := n.(*ast.IfStmt)
		if !isIf {
			return true
		}
		inInit := is.Init != nil && is.Init.Pos() <= call.Pos() && call.End() <= is.Init.End()
		follows := false
		if !inInit {
			// the call is in the statement right before this if
			chain := eng.EnclosingStmts(f.Decl.Body, call.Pos())
			if len(chain) > 0 {
				if st, isSt := chain[len(chain)-1].(ast.Stmt); isSt && st.End() < is.Pos() && is.Pos()-st.End() < 8 {
					follows = true
				}
			}
		}
		if !inInit && !follows {
			return true
		}
		found = true
		ast.Inspect(is.Body, func(m ast.Node) bool {
			if r, isR := m.(*ast.ReturnStmt); isR && !names(r) {
				ok = false
			}
			return true
		})
		return true
	})
	return ok && found
}

// isHiddenTestIn is isHiddenTest with the name possibly held in a local of body.
func isHiddenTestIn(info *types.Info, body ast.Node, e ast.Expr) bool {
	cl, ok := ast.Unparen(e).(*ast.CallExpr)
	if !ok || !eng.IsPkgFunc(eng.CalleeOf(info, cl), "strings", "HasPrefix") || len(cl.Args) != 2 {
		return false
	}
	s, isS := eng.ConstStr(info, cl.Args[1])
	return isS && s == "." && isCallNamed(info, resolveLocal(info, body, cl.Args[0]), "Name")
}

func isHiddenTest(info *types.Info, e ast.Expr) bool {
	cl, ok := ast.Unparen(e).(*ast.CallExpr)
	if !ok || !eng.IsPkgFunc(eng.CalleeOf(info, cl), "strings", "HasPrefix") || len(cl.Args) != 2 {
		return false
	}
	s, isS := eng.ConstStr(info, cl.Args[1])
	return isS && s == "." && isCallNamed(info, cl.Args[0], "Name")
}
