package rules

import (
	"fmt"
	"go/ast"
	"go/constant"
	"go/token"
	"go/types"
	"reflect"
	"sort"
	"strings"

	"gopkg.in/yaml.v3"

	"sopverif/eng"
)

func init() {
	register(&Property{
		ID:    "C10",
		Title: "Hook config: valid configs load faithfully, invalid ones are rejected, no crash",
		Explanation: "Decided on pkg/hook/config: (R1) no error produced on the load path is dropped (error-flow over every call that returns " +
			"an error in the loading/converting/checking functions; multierror accumulation accepted); (R2) a single decoder family: every " +
			"Unmarshal on the load path is sigs.k8s.io/yaml.Unmarshal (YAML and JSON spellings take the same code); (R3) defaults: queue " +
			"\"main\" iff the raw queue is empty, default binding names, executeHookOnSynchronization / keepFullObjectsInMemory true unless " +
			"the raw value is \"false\", allowFailure copied, event types (C08.R3); (R4) v1 schema <-> struct agreement: every object node " +
			"that declares properties forbids additional properties, property names equal the json tags of the corresponding struct; (R4b) " +
			"every list of binding names stored into includeSnapshotsFrom passed CheckIncludeSnapshots, including the per-group lists, which " +
			"are built from the *effective* binding names; (R5) every json-tagged raw field is consumed by the converter; (R6) effective " +
			"slices are built by appends in ascending ranges over the raw slices; (R7) no single-result type assertion / explicit panic on " +
			"the load path; (R8) every label selector of a raw binding is checked with FormatLabelSelector in its Check function. NOT " +
			"decided: 'any byte string' / 'never panics' inside go-openapi, yaml and k8s validation libraries, completeness of rejection for " +
			"every single-fault mutation, semantic YAML/JSON equivalence inside sigs.k8s.io/yaml. (R9) a converter reports `not declared` only under a nil test; the label-selector validator delegates to the library on every success path (R8).",
		Run: runC10,
	})
}

var c10LoadPath = []string{
	".(*HookConfig).LoadAndValidate", ".(*HookConfig).ConvertAndCheck", ".(*HookConfig).ConvertOnStartup",
	".(*HookConfigV1).ConvertAndCheck", ".(*HookConfigV1).ConvertSchedule", ".(*HookConfigV1).CheckSchedule", ".(*HookConfigV1).CheckOnKubernetesEvent",
	".(*HookConfigV1).CheckAdmission", ".(*HookConfigV1).CheckConversion", ".(*HookConfigV1).ConvertConversion", ".(*HookConfigV1).CheckAndConvertSettings",
	".convertValidating", ".convertMutating",
	".(*HookConfigV0).ConvertAndCheck", ".(*HookConfigV0).ConvertSchedule", ".(*HookConfigV0).CheckSchedule", ".(*HookConfigV0).CheckOnKubernetesEvent",
	".(*VersionedUntyped).Load", ".(*VersionedUntyped).LoadConfigVersion", ".(*VersionedUntyped).GetString",
	".ValidateConfig", ".CheckIncludeSnapshots", ".ConvertFloatForBinding",
}

func runC10(c *eng.Ctx) {
	p := c.P
	// ---- R1
	r1 := c.Rule("C10.R1", "I:error-flow", "every error-returning call on the config load path is bound, tested and returned (or accumulated in a multierror that is returned)", 30)
	for _, suf := range c10LoadPath {
		f := p.Func(pkgCfg + suf)
		if f == nil {
			r1.Unknown("anchor:"+pkgCfg+suf, token.NoPos, "load-path function not found")
			continue
		}
		c.Touch(f)
		info := f.Pkg.TypesInfo
		sameObj := copyAliases(info, f.Decl.Body)
		accum := func(g *eng.Graph) func(*eng.GNode) bool {
			return func(n *eng.GNode) bool {
				as, ok := n.Node.(*ast.AssignStmt)
				if !ok || len(as.Rhs) != 1 {
					return false
				}
				cl, isC := ast.Unparen(as.Rhs[0]).(*ast.CallExpr)
				if !isC || !isCallNamed(info, cl, "Append") {
					return false
				}
				// the accumulated error must be what the function returns
				acc := eng.SelObj(info, as.Lhs[0])
				ret := false
				eng.InspectNoLit(f.Decl.Body, func(x ast.Node) bool {
					if r, isR := x.(*ast.ReturnStmt); isR && len(r.Results) > 0 {
						last := r.Results[len(r.Results)-1]
						// returned directly, or through the copies an inlined helper hands its result over with
						if eng.UsesObj(info, last, acc, false) || sameObj(eng.SelObj(info, last), acc) {
							ret = true
						}
					}
					return true
				})
				return ret
			}
		}
		checkErrSites(r1, f, func(o types.Object) bool {
			switch o.Name() {
			case "Errorf", "New", "Append", "ErrorOrNil", "Wrap", "Wrapf", "Join":
				return false // error constructors / accumulators, not sources
			}
			return true
		}, accum, map[string]string{})
	}
	if f := r1.NeedFunc(pkgHook + ".(*Hook).LoadConfig"); f != nil {
		checkErrSites(r1, f, func(o types.Object) bool { return nameOf(o) == "LoadAndValidate" }, nil, nil)
	}
	// the one allow-listed discard: GetSchema drops LoadSchema's error, a nil schema makes ValidateConfig fail closed
	if f := r1.NeedFunc(pkgCfg + ".ValidateConfig"); f != nil {
		info := f.Pkg.TypesInfo
		g := p.GraphOf(f)
		prm := f.Obj.Type().(*types.Signature).Params().At(1)
		ok := false
		for _, n := range g.Nodes {
			for _, e := range n.Succ {
				for _, fc := range g.EdgeFacts(e) {
					x, y, eq, isEq := eng.EqAtom(fc)
					if isEq && eq && eng.SelObj(info, x) == prm && eng.IsNil(info, y) {
						ok = true
						for m := range reachFromEdge(g, e) {
							if r, isR := m.Node.(*ast.ReturnStmt); isR && len(r.Results) == 1 && eng.IsNil(info, r.Results[0]) {
								ok = false
							}
						}
					}
				}
			}
		}
		r1.Check(ok, f.Key+" nil-schema-fails-closed", f.Decl.Pos(), "a nil schema is an error", "ValidateConfig accepts a config when the schema could not be loaded")
	}

	// ---- R2
	r2 := c.Rule("C10.R2", "C:who-calls", "the only decoders in pkg/hook/config are sigs.k8s.io/yaml.Unmarshal calls", 3)
	n := 0
	for _, f := range funcsOfPkg(p, pkgCfg) {
		if f.Decl.Body == nil {
			continue
		}
		info := f.Pkg.TypesInfo
		for _, call := range callsDeep(info, f.Decl.Body, func(o types.Object, _ *ast.CallExpr) bool {
			fn, ok := o.(*types.Func)
			return ok && (strings.HasPrefix(fn.Name(), "Unmarshal") || nameOf(fn) == "Decode" || nameOf(fn) == "NewDecoder")
		}) {
			fn := eng.CalleeOf(info, call).(*types.Func)
			if f.Key == pkgCfg+".LoadSchema" || f.Key == pkgCfg+".GetSchema" {
				continue // decodes the embedded schema, not the hook's config
			}
			n++
			ok := fn.Pkg() != nil && fn.Pkg().Path() == "sigs.k8s.io/yaml" && nameOf(fn) == "Unmarshal"
			r2.Check(ok, fmt.Sprintf("%s -> %s.%s", f.Key, fn.Pkg().Name(), fn.Name()), call.Pos(), "sigs.k8s.io/yaml.Unmarshal", "the config is decoded with "+fn.FullName()+": YAML and JSON spellings of one document no longer take the same path (types of numbers, duplicate keys, unknown fields differ)")
		}
	}
	if n == 0 {
		r2.Unknown(pkgCfg+" decoders", token.NoPos, "no decoder call found")
	}

	// ---- R3 defaults
	r3 := c.Rule("C10.R3", "D:provenance", "defaults: Queue, BindingName, ExecuteHookOnSynchronization, KeepFullObjectsInMemory, AllowFailure", 9)
	runC10R3(c, r3)

	// ---- R4 schema
	r4 := c.Rule("C10.R4", "F:schema/struct agreement", "v1 schema: every object node with properties has additionalProperties:false; property names equal json tags of the raw structs", 20)
	runC10R4(c, r4)

	// ---- R4b group lists
	r4b := c.Rule("C10.R4b", "B+D", "the per-group snapshot lists are built from the effective binding names and pass CheckIncludeSnapshots (error returned) before they are merged", 2)
	if f := r4b.NeedFunc(pkgCfg + ".(*HookConfigV1).ConvertAndCheck"); f != nil {
		info := f.Pkg.TypesInfo
		g := p.GraphOf(f)
		check, _ := p.Object(pkgCfg, "CheckIncludeSnapshots").(*types.Func)
		merge, _ := p.Object(pkgCfg, "MergeArrays").(*types.Func)
		bindingName := p.Field(pkgHTypes, "CommonBindingConfig", "BindingName")
		// the group map: map[string][]string appended with names
		var groupMap types.Object
		okName := false
		eng.InspectNoLit(f.Decl.Body, func(n ast.Node) bool {
			as, ok := n.(*ast.AssignStmt)
			if !ok || len(as.Lhs) != 1 || len(as.Rhs) != 1 {
				return true
			}
			ix, isIx := ast.Unparen(as.Lhs[0]).(*ast.IndexExpr)
			ap := builtinCall(info, as.Rhs[0], "append")
			if !isIx || ap == nil || len(ap.Args) != 2 {
				return true
			}
			if tv, has := info.Types[ix.X]; has {
				if mt, isM := tv.Type.Underlying().(*types.Map); isM {
					if sl, isS := mt.Elem().Underlying().(*types.Slice); isS && types.Identical(sl.Elem(), types.Typ[types.String]) {
						groupMap = eng.SelObj(info, ix.X)
						okName = eng.IsField(info, ap.Args[1], bindingName)
					}
				}
			}
			return true
		})
		if groupMap == nil {
			r4b.Unknown(f.Key+" group-lists", f.Decl.Pos(), "the per-group list of snapshot names was not found")
		} else {
			r4b.Check(okName, f.Key+" group-lists-use-effective-names", f.Decl.Pos(), "group lists hold OnKubernetesEventConfig.BindingName", "the per-group snapshot list is not built from the effective binding names (a binding without `name` is effectively called `kubernetes`): group members get an unknown or empty snapshot key, or the whole config is rejected")
			// a CheckIncludeSnapshots over the values of the map precedes every MergeArrays
			var checkNode *eng.GNode
			for _, call := range callsIn(info, f.Decl.Body, isObj(check)) {
				if rs, isR := eng.LoopOf(f.Decl.Body, call.Pos()).(*ast.RangeStmt); isR && eng.SelObj(info, rs.X) == groupMap {
					if v := errHandled(g, call, nil); v.OK {
						checkNode = g.NodeOf(rs.X)
					}
				}
			}
			ok := checkNode != nil
			if ok {
				for _, mn := range g.NodesCalling(merge) {
					if !g.OnlyVia(mn, func(x *eng.GNode) bool { return x == checkNode }, nil) {
						ok = false
					}
				}
			}
			// the declared includeSnapshotsFrom of the kubernetes bindings are checked against the *effective* bindings
			// (an unnamed binding is called "kubernetes" there, not ""): CheckIncludeSnapshots(c.OnKubernetesEvents,
			// <effective binding>.IncludeSnapshotsFrom...) on every path to a successful return, error returned
			effList := p.Field(pkgCfg, "HookConfig", "OnKubernetesEvents")
			var inclCall *ast.CallExpr
			for _, call := range callsDeep(info, f.Decl.Body, isObj(check)) {
				if len(call.Args) == 2 && call.Ellipsis.IsValid() && eng.IsField(info, call.Args[0], effList) {
					if sx, isS := ast.Unparen(call.Args[1]).(*ast.SelectorExpr); isS && sx.Sel.Name == "IncludeSnapshotsFrom" {
						if el := elemLoopAt(info, f.Decl.Body, call.Pos()); el != nil && eng.IsField(info, el.Base, effList) && el.IsElem(sx.X) {
							inclCall = call
						}
					}
				}
			}
			okIncl := false
			detail := "no CheckIncludeSnapshots(c.OnKubernetesEvents, binding.IncludeSnapshotsFrom...) over the effective bindings"
			pos := f.Decl.Pos()
			if inclCall != nil {
				pos = inclCall.Pos()
				v := errHandled(g, inclCall, nil)
				okIncl, detail = v.OK, v.Detail
			}
			r4b.Check(okIncl, f.Key+" declared-includes-checked", pos, "every kubernetes binding's includeSnapshotsFrom is checked against the effective binding names, error returned", "the includeSnapshotsFrom lists declared for kubernetes bindings are not checked against the effective binding names (after defaults were applied): a reference to an unnamed binding by its default name is rejected, an unknown or ambiguous name is accepted: "+detail)
			r4b.Check(ok, f.Key+" group-lists-checked", f.Decl.Pos(), "CheckIncludeSnapshots on every group's list before the merge", "the names added for a group are not checked to exist and be unambiguous: two kubernetes bindings of one group with the same (or no) name collapse into a single snapshots key")
		}
	}

	// ---- R5 consumed fields
	r5 := c.Rule("C10.R5", "D1:propagation completeness", "every json-tagged field of the raw v1 structs is read by the converters (an option that is parsed but never consumed is silently dropped)", 40)
	ignored := map[string]string{
		"HookConfigV1.ConfigVersion":                        "read through VersionedUntyped",
		"OnKubernetesEventConfigV1.ResynchronizationPeriod": "documented as not implemented (accepted for compatibility)",
	}
	for _, tn := range []string{"HookConfigV1", "ScheduleConfigV1", "OnKubernetesEventConfigV1", "KubernetesAdmissionConfigV1", "KubernetesConversionConfigV1", "SettingsV1"} {
		named := p.Named(pkgCfg, tn)
		if named == nil {
			r5.Unknown("anchor:"+tn, token.NoPos, "raw struct not found")
			continue
		}
		st := named.Underlying().(*types.Struct)
		for i := 0; i < st.NumFields(); i++ {
			fld := st.Field(i)
			tag := reflect.StructTag(st.Tag(i)).Get("json")
			if tag == "" || tag == "-" {
				continue
			}
			construct := tn + "." + fld.Name()
			if why, ok := ignored[construct]; ok {
				r5.Ok(construct, fld.Pos(), "deliberately not consumed: "+why)
				continue
			}
			read := false
			for _, ref := range p.Refs(fld) {
				if !ref.Write && !ref.Lit && ref.In != nil {
					read = true
				}
			}
			r5.Check(read, construct, fld.Pos(), "read by the converter", "the option `"+strings.Split(tag, ",")[0]+"` is parsed but never read: the user's setting is silently ignored")
		}
	}

	// ---- R6 order
	r6 := c.Rule("C10.R6", "B+F", "effective binding lists are built by one append per raw element inside ascending ranges over the raw lists (declared order is kept)", 5)
	if f := r6.NeedFunc(pkgCfg + ".(*HookConfigV1).ConvertAndCheck"); f != nil {
		info := f.Pkg.TypesInfo
		g := p.GraphOf(f)
		for _, pr := range [][2]string{{"OnKubernetesEvent", "OnKubernetesEvents"}, {"Schedule", "Schedules"}, {"KubernetesValidating", "KubernetesValidating"}, {"KubernetesMutating", "KubernetesMutating"}, {"KubernetesConversion", "KubernetesConversion"}} {
			raw := p.Field(pkgCfg, "HookConfigV1", pr[0])
			eff := p.Field(pkgCfg, "HookConfig", pr[1])
			ok := false
			for _, el := range elemLoopsOver(info, f.Decl.Body, func(x ast.Expr) bool { return eng.IsField(info, x, raw) }) {
				isApp := func(m *eng.GNode) bool {
					as, isA := m.Node.(*ast.AssignStmt)
					if !isA || len(as.Lhs) != 1 || !eng.IsField(info, as.Lhs[0], eff) {
						return false
					}
					ap := builtinCall(info, as.Rhs[0], "append")
					return ap != nil && len(ap.Args) == 2 && eng.IsField(info, ap.Args[0], eff)
				}
				// only error returns may skip the append
				bodyEntry := loopBodyEntryOf(g, el.Stmt)
				if bodyEntry == nil || el.Desc {
					continue
				}
				ok = true
				isHead := isLoopHeadOf(el.Stmt)
				reach := g.Reach(eng.Query{From: []*eng.GNode{bodyEntry}, AvoidNode: isApp})
				for m := range reach {
					if isHead(m) {
						ok = false
					}
				}
			}
			r6.Check(ok, f.Key+" "+pr[0]+" -> "+pr[1], f.Decl.Pos(), "one append per declared binding, in declared order", "the effective "+pr[1]+" list is not `one element per declared binding, in declared order`")
		}
	}

	// ---- R7 panic sources
	r7 := c.Rule("C10.R7", "H5:panic sources", "no single-result type assertion, explicit panic or Must* (other than uuid.Must) in pkg/hook/config", 1)
	bad := 0
	for _, f := range funcsOfPkg(p, pkgCfg) {
		if f.Decl.Body == nil {
			continue
		}
		info := f.Pkg.TypesInfo
		commaOK := map[*ast.TypeAssertExpr]bool{}
		ast.Inspect(f.Decl.Body, func(n ast.Node) bool {
			switch t := n.(type) {
			case *ast.AssignStmt:
				if len(t.Lhs) == 2 && len(t.Rhs) == 1 {
					if ta, ok := ast.Unparen(t.Rhs[0]).(*ast.TypeAssertExpr); ok {
						commaOK[ta] = true
					}
				}
			case *ast.ValueSpec:
				if len(t.Names) == 2 && len(t.Values) == 1 {
					if ta, ok := ast.Unparen(t.Values[0]).(*ast.TypeAssertExpr); ok {
						commaOK[ta] = true
					}
				}
			case *ast.TypeSwitchStmt:
				ast.Inspect(t.Assign, func(x ast.Node) bool {
					if ta, ok := x.(*ast.TypeAssertExpr); ok {
						commaOK[ta] = true
					}
					return true
				})
			}
			return true
		})
		ast.Inspect(f.Decl.Body, func(n ast.Node) bool {
			switch t := n.(type) {
			case *ast.TypeAssertExpr:
				if t.Type != nil && !commaOK[t] {
					bad++
					r7.Bad(f.Key+" type-assertion", t.Pos(), fmt.Sprintf("`%s` panics when the loaded value has another type", eng.Short(p.Fset, t)))
				}
			case *ast.CallExpr:
				if id, ok := ast.Unparen(t.Fun).(*ast.Ident); ok && id.Name == "panic" {
					if _, isB := info.Uses[id].(*types.Builtin); isB {
						bad++
						r7.Bad(f.Key+" panic", t.Pos(), "explicit panic on the config load path")
					}
				}
				if fn, ok := eng.CalleeOf(info, t).(*types.Func); ok && strings.HasPrefix(fn.Name(), "Must") && fn.Pkg() != nil && !strings.Contains(fn.Pkg().Path(), "uuid") {
					bad++
					r7.Bad(f.Key+" "+fn.Name(), t.Pos(), fn.FullName()+" panics on error")
				}
			}
			return true
		})
	}
	if bad == 0 {
		r7.Ok(pkgCfg+" panic sources", token.NoPos, "none")
	}

	// ---- R8 selectors
	// ---- R9 absence is absence
	r9 := c.Rule("C10.R9", "H:sentinel conflation", "a binding converter reports `not declared` (nil result without error) only under a nil test of the raw value or of the converted pointer, never under a comparison with a legal value such as 0", 2)
	for _, key := range []string{pkgCfg + ".(*HookConfig).ConvertOnStartup", pkgCfg + ".ConvertFloatForBinding"} {
		f := r9.NeedFunc(key)
		if f == nil {
			continue
		}
		info := f.Pkg.TypesInfo
		g := p.GraphOf(f)
		sig := f.Obj.Type().(*types.Signature)
		if sig.Results().Len() != 2 {
			r9.Bad(f.Key+" signature", f.Decl.Pos(), "the converter no longer returns (pointer, error): absence cannot be told from a declared zero value")
			continue
		}
		if _, isPtr := sig.Results().At(0).Type().(*types.Pointer); !isPtr {
			r9.Bad(f.Key+" signature", f.Decl.Pos(), "the converter returns a plain value instead of a pointer: `not declared` and a declared zero value (e.g. onStartup: 0) are indistinguishable")
			continue
		}
		absentOrError := func(e *eng.GEdge) bool {
			for _, cl := range g.EdgeClauses(e) {
				all := len(cl) > 0
				for _, a := range cl {
					x, y, eq, isEq := eng.EqAtom(a)
					okAtom := false
					if isEq && (eng.IsNil(info, y) || eng.IsNil(info, x)) {
						// v == nil (absent) or err != nil (failure)
						other := x
						if eng.IsNil(info, x) {
							other = y
						}
						if tv, has := info.Types[other]; has {
							if isErrorType(tv.Type) {
								okAtom = !eq
							} else {
								okAtom = eq
							}
						}
					}
					if !okAtom {
						all = false
					}
				}
				if all {
					return true
				}
			}
			return false
		}
		nret, okAll := 0, true
		var pos token.Pos = f.Decl.Pos()
		for _, n := range g.Nodes {
			ret, isR := n.Node.(*ast.ReturnStmt)
			if !isR || len(ret.Results) != 2 || !eng.IsNil(info, ret.Results[0]) {
				continue
			}
			// an explicit error value (fmt.Errorf(...)) is a failure return, not "absent"
			if cl, isC := ast.Unparen(ret.Results[1]).(*ast.CallExpr); isC && cl != nil {
				continue
			}
			nret++
			if !g.OnlyVia(n, nil, absentOrError) {
				okAll = false
				pos = ret.Pos()
			}
		}
		r9.Check(okAll && nret > 0, f.Key+" nil result only when absent", pos, "the nil result is returned only when the raw value is nil (or on error)",
			"the converter returns `no binding` under a condition other than a nil test: a declared value that equals the sentinel (onStartup: 0) is silently treated as not declared and the binding disappears from the effective configuration")
	}

	r8 := c.Rule("C10.R8", "F:sibling agreement", "every *metav1.LabelSelector reachable from a raw binding struct (directly or through `namespace`) is passed to FormatLabelSelector in the Check function of that binding kind, with the error handled", 4)
	runC10R8(c, r8)
}

func runC10R3(c *eng.Ctx, r *eng.RuleCtx) {
	p := c.P
	type spec struct {
		fn, effType, field, rawField, constVal string
	}
	// Queue / BindingName defaults: store of const under raw == "" and of the raw value otherwise
	specs := []spec{
		{pkgCfg + ".(*HookConfigV1).ConvertAndCheck", "OnKubernetesEventConfig", "Queue", "Queue", "main"},
		{pkgCfg + ".(*HookConfigV1).ConvertSchedule", "ScheduleConfig", "Queue", "Queue", "main"},
		{pkgCfg + ".(*HookConfigV1).ConvertAndCheck", "OnKubernetesEventConfig", "BindingName", "Name", "kubernetes"},
		{pkgCfg + ".(*HookConfigV1).ConvertSchedule", "ScheduleConfig", "BindingName", "Name", "schedule"},
		// the v0 siblings have their own documented names
		{pkgCfg + ".(*HookConfigV0).ConvertAndCheck", "OnKubernetesEventConfig", "BindingName", "Name", "onKubernetesEvent"},
		{pkgCfg + ".(*HookConfigV0).ConvertSchedule", "ScheduleConfig", "BindingName", "Name", "schedule"},
	}
	for _, s := range specs {
		f := r.NeedFunc(s.fn)
		if f == nil {
			continue
		}
		info := f.Pkg.TypesInfo
		g := p.GraphOf(f)
		eff := p.Field(pkgHTypes, s.effType, s.field)
		if eff == nil {
			eff = p.Field(pkgHTypes, "CommonBindingConfig", s.field)
		}
		rawEmpty := func(pos bool) func(*eng.GEdge) bool {
			return g.FactEdge(func(fc eng.Fact) bool {
				x, y, eq, ok := eng.EqAtom(fc)
				v, isC := eng.ConstStr(info, y)
				sx, isS := ast.Unparen(x).(*ast.SelectorExpr)
				return ok && isC && v == "" && isS && sx.Sel.Name == s.rawField && eq == pos && !eng.IsField(info, x, eff)
			})
		}
		// two accepted shapes: (A) `if raw == "" { eff = const } else { eff = raw }` (either order of the arms);
		// (B) `eff = raw; if eff == "" { eff = const }`. Every store to the field must be one of these.
		effEmpty := g.FactEdge(func(fc eng.Fact) bool {
			x, y, eq, ok := eng.EqAtom(fc)
			v, isC := eng.ConstStr(info, y)
			return ok && eq && isC && v == "" && eng.IsField(info, x, eff)
		})
		var constNode, rawNode *eng.GNode
		other := false
		for _, n := range g.Nodes {
			as, ok := n.Node.(*ast.AssignStmt)
			if !ok || len(as.Lhs) != 1 || !eng.IsField(info, as.Lhs[0], eff) {
				continue
			}
			if v, isC := eng.ConstStr(info, as.Rhs[0]); isC && v == s.constVal && constNode == nil {
				constNode = n
			} else if sx, isS := ast.Unparen(as.Rhs[0]).(*ast.SelectorExpr); isS && sx.Sel.Name == s.rawField && rawNode == nil {
				rawNode = n
			} else {
				other = true
			}
		}
		okConst, okRaw := false, false
		if constNode != nil && rawNode != nil && !other {
			if g.OnlyVia(constNode, nil, rawEmpty(true)) {
				okConst = true
				okRaw = g.OnlyVia(rawNode, nil, rawEmpty(false))
			} else if g.OnlyVia(constNode, nil, effEmpty) && g.OnlyVia(constNode, func(m *eng.GNode) bool { return m == rawNode }, nil) {
				okConst, okRaw = true, true
			}
		}
		if !(okConst && okRaw) {
			// (C) one store whose value is decided per scenario: with the raw value assumed empty everything that can
			// reach the store is the constant, with it assumed non-empty everything is the raw value
			stores := storesOfField(info, f.Decl.Body, eff)
			isRaw := func(x ast.Expr) bool {
				sx, isS := ast.Unparen(x).(*ast.SelectorExpr)
				return isS && sx.Sel.Name == s.rawField && !eng.IsField(info, x, eff)
			}
			scenario := func(empty bool) func(eng.Fact) bool {
				return func(fc eng.Fact) bool {
					x, y, eq, ok := eng.EqAtom(fc)
					if !ok {
						return false
					}
					for i := 0; i < 2; i++ {
						if v, isC := eng.ConstStr(info, y); isC && v == "" && isRaw(x) {
							return eq == empty
						}
						x, y = y, x
					}
					return false
				}
			}
			if len(stores) == 1 && g.NodeOf(stores[0].Stmt) != nil {
				st := g.NodeOf(stores[0].Stmt)
				rhs := stores[0].Val
				all := func(empty bool, want func(ast.Expr) bool) bool {
					vals, reachable, ok := reachingValues(g, info, f.Decl.Body, st, rhs, scenario(empty))
					if !reachable || !ok || len(vals) == 0 {
						return false
					}
					for _, v := range vals {
						if v == nil || !want(v) {
							return false
						}
					}
					return true
				}
				okConst = all(true, func(e ast.Expr) bool { v, isC := eng.ConstStr(info, e); return isC && v == s.constVal })
				okRaw = all(false, isRaw)
			}
		}
		if !(okConst && okRaw) {
			// (D) the library form of the same thing: `eff = cmp.Or(raw, const)` (the first non-zero argument)
			stores := storesOfField(info, f.Decl.Body, eff)
			if len(stores) == 1 {
				if cl, isC := ast.Unparen(resolveLocal(info, f.Decl.Body, stores[0].Val)).(*ast.CallExpr); isC && eng.IsPkgFunc(eng.CalleeOf(info, cl), "cmp", "Or") && len(cl.Args) == 2 {
					sx, isS := ast.Unparen(cl.Args[0]).(*ast.SelectorExpr)
					v, isK := eng.ConstStr(info, cl.Args[1])
					if isS && sx.Sel.Name == s.rawField && !eng.IsField(info, cl.Args[0], eff) && isK && v == s.constVal {
						okConst, okRaw = true, true
					}
				}
			}
		}
		r.Check(okConst && okRaw, fmt.Sprintf("%s %s.%s", f.Key, s.effType, s.field), f.Decl.Pos(), fmt.Sprintf("%q when the raw %s is empty, the raw value otherwise", s.constVal, s.rawField), fmt.Sprintf("the default of %s.%s is not %q-iff-empty", s.effType, s.field, s.constVal))
	}
	// boolean flags
	if f := r.NeedFunc(pkgCfg + ".(*HookConfigV1).ConvertAndCheck"); f != nil {
		info := f.Pkg.TypesInfo
		g := p.GraphOf(f)
		effLocal := map[string]types.Object{} // the local that holds a flag's effective value, when there is one
		for _, fl := range []string{"ExecuteHookOnSynchronization", "KeepFullObjectsInMemory"} {
			eff := p.Field(pkgHTypes, "OnKubernetesEventConfig", fl)
			isFalseRaw := g.FactEdge(func(fc eng.Fact) bool {
				x, y, eq, ok := eng.EqAtom(fc)
				v, isC := eng.ConstStr(info, y)
				sx, isS := ast.Unparen(x).(*ast.SelectorExpr)
				return ok && eq && isC && v == "false" && isS && sx.Sel.Name == fl
			})
			// accepted shapes: `eff = true; if raw == "false" { eff = false }` or the single store `eff = raw != "false"`
			okTrue, okFalse := false, false
			var trueNode *eng.GNode
			nStores := 0
			for _, n := range g.Nodes {
				as, ok := n.Node.(*ast.AssignStmt)
				if !ok || len(as.Lhs) != 1 || !eng.IsField(info, as.Lhs[0], eff) {
					continue
				}
				nStores++
				if b, isC := constBool(info, as.Rhs[0]); isC {
					if b {
						okTrue = true
						trueNode = n
					} else {
						okFalse = g.OnlyVia(n, nil, isFalseRaw) && trueNode != nil && g.OnlyVia(n, func(m *eng.GNode) bool { return m == trueNode }, nil)
					}
					continue
				}
				if lv := eng.SelObj(info, as.Rhs[0]); lv != nil {
					effLocal[fl] = lv
				}
				x, y, eq, isEq := eng.EqAtom(eng.Fact{X: resolveLocal(info, f.Decl.Body, as.Rhs[0]), Pos: true})
				v, isStr := eng.ConstStr(info, y)
				sx, isS := ast.Unparen(x).(*ast.SelectorExpr)
				if isEq && !eq && isStr && v == "false" && isS && sx.Sel.Name == fl && nStores == 1 {
					okTrue, okFalse = true, true
				} else {
					okTrue = false
				}
			}
			r.Check(okTrue && okFalse, f.Key+" OnKubernetesEventConfig."+fl, f.Decl.Pos(), "true unless the raw value is \"false\"", fl+" is not `true by default, false only for the raw value \"false\"`")
		}
		// AllowFailure copied
		for _, et := range []string{"OnKubernetesEventConfig"} {
			eff := p.Field(pkgHTypes, "CommonBindingConfig", "AllowFailure")
			_ = et
			ok := false
			for _, st := range storesOfField(info, f.Decl.Body, eff) {
				if sx, isS := ast.Unparen(st.Val).(*ast.SelectorExpr); isS && sx.Sel.Name == "AllowFailure" {
					ok = true
				}
			}
			r.Check(ok, f.Key+" "+et+".AllowFailure", f.Decl.Pos(), "copied from the raw binding", "allowFailure of a kubernetes binding is not copied from the declared value")
		}
		// monitor keeps KeepFullObjectsInMemory in sync
		mon := p.Field(pkgKem, "MonitorConfig", "KeepFullObjectsInMemory")
		ok := false
		eng.InspectNoLit(f.Decl.Body, func(n ast.Node) bool {
			if as, isA := n.(*ast.AssignStmt); isA && len(as.Lhs) == 1 && eng.IsField(info, as.Lhs[0], mon) {
				if sx, isS := ast.Unparen(as.Rhs[0]).(*ast.SelectorExpr); isS && sx.Sel.Name == "KeepFullObjectsInMemory" {
					ok = true
				}
				if lv := eng.SelObj(info, as.Rhs[0]); lv != nil && lv == effLocal["KeepFullObjectsInMemory"] {
					ok = true // the same local that is stored as the binding's effective value
				}
			}
			return true
		})
		r.Check(ok, f.Key+" Monitor.KeepFullObjectsInMemory", f.Decl.Pos(), "the monitor gets the binding's effective value", "the monitor's KeepFullObjectsInMemory is not set from the binding's effective value")
	}
	if f := r.NeedFunc(pkgCfg + ".(*HookConfigV1).ConvertSchedule"); f != nil {
		info := f.Pkg.TypesInfo
		eff := p.Field(pkgHTypes, "CommonBindingConfig", "AllowFailure")
		ok := false
		for _, st := range storesOfField(info, f.Decl.Body, eff) {
			if sx, isS := ast.Unparen(st.Val).(*ast.SelectorExpr); isS && sx.Sel.Name == "AllowFailure" {
				ok = true
			}
		}
		r.Check(ok, f.Key+" ScheduleConfig.AllowFailure", f.Decl.Pos(), "copied from the raw binding", "allowFailure of a schedule binding is not copied from the declared value")
	}
}

// schemaOf returns the parsed YAML of Schemas[version].
func schemaOf(p *eng.Prog, version string) (map[string]any, token.Pos, error) {
	pk := p.Pkg(pkgCfg)
	if pk == nil {
		return nil, token.NoPos, fmt.Errorf("package not loaded")
	}
	var src string
	var pos token.Pos
	for _, file := range pk.Syntax {
		ast.Inspect(file, func(n ast.Node) bool {
			vs, ok := n.(*ast.ValueSpec)
			if !ok || len(vs.Names) != 1 || vs.Names[0].Name != "Schemas" || len(vs.Values) != 1 {
				return true
			}
			cl, isC := vs.Values[0].(*ast.CompositeLit)
			if !isC {
				return true
			}
			for _, el := range cl.Elts {
				kv, isKV := el.(*ast.KeyValueExpr)
				if !isKV {
					continue
				}
				if k, isS := eng.ConstStr(pk.TypesInfo, kv.Key); isS && k == version {
					if tv, has := pk.TypesInfo.Types[kv.Value]; has && tv.Value != nil && tv.Value.Kind() == constant.String {
						src = constant.StringVal(tv.Value)
						pos = kv.Value.Pos()
					}
				}
			}
			return true
		})
	}
	if src == "" {
		return nil, token.NoPos, fmt.Errorf("Schemas[%q] not found or not a constant string", version)
	}
	var out map[string]any
	if err := yaml.Unmarshal([]byte(src), &out); err != nil {
		return nil, pos, err
	}
	return out, pos, nil
}

func runC10R4(c *eng.Ctx, r *eng.RuleCtx) {
	p := c.P
	schema, pos, err := schemaOf(p, "v1")
	if err != nil {
		r.Unknown("schema v1", pos, err.Error())
		return
	}
	defs, _ := schema["definitions"].(map[string]any)
	resolve := func(n map[string]any) map[string]any {
		if ref, ok := n["$ref"].(string); ok {
			name := strings.TrimPrefix(ref, "#/definitions/")
			if d, has := defs[name].(map[string]any); has {
				return d
			}
		}
		return n
	}
	// (a) additionalProperties: false wherever properties are declared
	var walk func(path string, n map[string]any)
	walk = func(path string, n map[string]any) {
		n = resolve(n)
		if props, ok := n["properties"].(map[string]any); ok {
			ap, has := n["additionalProperties"]
			b, isB := ap.(bool)
			r.Check(has && isB && !b, "schema v1 "+path+" additionalProperties", pos, "false", "the object at `"+path+"` declares properties but does not forbid additional ones: an unknown or misspelled key there is accepted and silently dropped")
			keys := make([]string, 0, len(props))
			for k := range props {
				keys = append(keys, k)
			}
			sort.Strings(keys)
			for _, k := range keys {
				if m, isM := props[k].(map[string]any); isM {
					walk(path+"."+k, m)
				}
			}
		}
		if items, ok := n["items"].(map[string]any); ok {
			walk(path+"[]", items)
		}
		for _, comb := range []string{"oneOf", "anyOf", "allOf"} {
			if lst, ok := n[comb].([]any); ok {
				for i, it := range lst {
					if m, isM := it.(map[string]any); isM {
						walk(fmt.Sprintf("%s.%s[%d]", path, comb, i), m)
					}
				}
			}
		}
	}
	walk("$", schema)
	for name, d := range defs {
		if m, ok := d.(map[string]any); ok {
			walk("definitions."+name, m)
		}
	}
	// (b) property names == json tags for the product structs
	var cmp func(path string, n map[string]any, t types.Type, depth int)
	cmp = func(path string, n map[string]any, t types.Type, depth int) {
		n = resolve(n)
		for {
			if pt, ok := t.(*types.Pointer); ok {
				t = pt.Elem()
				continue
			}
			break
		}
		if sl, ok := t.Underlying().(*types.Slice); ok {
			if items, has := n["items"].(map[string]any); has {
				cmp(path+"[]", items, sl.Elem(), depth)
			}
			return
		}
		named, isN := t.(*types.Named)
		st, isS := t.Underlying().(*types.Struct)
		props, hasProps := n["properties"].(map[string]any)
		if !isS || !hasProps || !isN || named.Obj().Pkg() == nil || !strings.HasPrefix(named.Obj().Pkg().Path(), eng.ModPath) {
			return
		}
		tags := map[string]types.Type{}
		for i := 0; i < st.NumFields(); i++ {
			tag := strings.Split(reflect.StructTag(st.Tag(i)).Get("json"), ",")[0]
			if tag != "" && tag != "-" {
				tags[tag] = st.Field(i).Type()
			}
		}
		var missing, extra []string
		for k := range props {
			if _, ok := tags[k]; !ok {
				missing = append(missing, k)
			}
		}
		for k := range tags {
			if _, ok := props[k]; !ok {
				extra = append(extra, k)
			}
		}
		sort.Strings(missing)
		sort.Strings(extra)
		// fields without a schema property are always rejected by additionalProperties:false (a shared struct may be
		// wider than one use of it); a schema property without a field is accepted and then silently dropped
		_ = extra
		r.Check(len(missing) == 0, "schema v1 "+path+" ~ "+named.Obj().Name(), pos, "every schema property has a field with that json tag", fmt.Sprintf("schema properties %v at `%s` have no field with that json tag in %s: the option is accepted by validation and then silently dropped by the decoder", missing, path, named.Obj().Name()))
		if depth > 4 {
			return
		}
		for k, sub := range props {
			if m, isM := sub.(map[string]any); isM {
				if ft, ok := tags[k]; ok {
					cmp(path+"."+k, m, ft, depth+1)
				}
			}
		}
	}
	if named := p.Named(pkgCfg, "HookConfigV1"); named != nil {
		cmp("$", schema, named, 0)
	}
}

func runC10R8(c *eng.Ctx, r *eng.RuleCtx) {
	p := c.P
	format := p.ExtObject(full(pkgKem), "FormatLabelSelector")
	for _, pr := range [][2]string{{"CheckOnKubernetesEvent", "OnKubernetesEventConfigV1"}, {"CheckAdmission", "KubernetesAdmissionConfigV1"}} {
		f := r.NeedFunc(pkgCfg + ".(*HookConfigV1)." + pr[0])
		named := p.Named(pkgCfg, pr[1])
		if f == nil || named == nil {
			continue
		}
		info := f.Pkg.TypesInfo
		g := p.GraphOf(f)
		// selector paths: field names leading to *metav1.LabelSelector (depth <= 2)
		var paths [][]string
		var find func(t types.Type, prefix []string, depth int)
		find = func(t types.Type, prefix []string, depth int) {
			for {
				if pt, ok := t.(*types.Pointer); ok {
					t = pt.Elem()
					continue
				}
				break
			}
			if n, ok := t.(*types.Named); ok && n.Obj().Name() == "LabelSelector" && n.Obj().Pkg() != nil && strings.HasSuffix(n.Obj().Pkg().Path(), "apis/meta/v1") {
				paths = append(paths, append([]string{}, prefix...))
				return
			}
			st, ok := t.Underlying().(*types.Struct)
			if !ok || depth >= 2 {
				return
			}
			for i := 0; i < st.NumFields(); i++ {
				find(st.Field(i).Type(), append(prefix, st.Field(i).Name()), depth+1)
			}
		}
		find(named, nil, 0)
		for _, path := range paths {
			construct := fmt.Sprintf("%s %s", f.Key, strings.Join(path, "."))
			ok := false
			detail := "no FormatLabelSelector call on this selector"
			for _, call := range callsIn(info, f.Decl.Body, isObj(format)) {
				if len(call.Args) != 1 {
					continue
				}
				// selector chain of the argument
				var chain []string
				e := ast.Unparen(call.Args[0])
				for {
					s, isS := e.(*ast.SelectorExpr)
					if !isS {
						break
					}
					chain = append([]string{s.Sel.Name}, chain...)
					e = ast.Unparen(s.X)
				}
				if strings.Join(chain, ".") == strings.Join(path, ".") {
					accum := func(n *eng.GNode) bool {
						as, isA := n.Node.(*ast.AssignStmt)
						if !isA || len(as.Rhs) != 1 {
							return false
						}
						cl, isC := ast.Unparen(as.Rhs[0]).(*ast.CallExpr)
						return isC && isCallNamed(info, cl, "Append")
					}
					v := errHandled(g, call, accum)
					ok = v.OK
					detail = v.Detail
				}
			}
			r.Check(ok, construct, f.Decl.Pos(), "validated with FormatLabelSelector", "the label selector `"+strings.Join(path, ".")+"` of this binding kind is not validated at load time ("+detail+"): an invalid selector (e.g. operator In without values) loads without error and fails later at run time")
		}
		if len(paths) == 0 {
			r.Unknown(f.Key+" selectors", f.Decl.Pos(), "no label selector field found in "+pr[1])
		}
	}
	// the validator itself: the config loader has no label syntax check of its own and relies on FormatLabelSelector
	// returning the library's error, so every success return of it must come after metav1.LabelSelectorAsSelector
	// (a fast path that formats the selector without building the requirements validates nothing)
	if fo, _ := format.(*types.Func); fo == nil {
		r.Unknown("anchor:FormatLabelSelector", token.NoPos, "function not found")
	} else if vf := p.FuncOf(fo); vf != nil && vf.Decl.Body != nil {
		c.Touch(vf)
		vinfo := vf.Pkg.TypesInfo
		vg := p.GraphOf(vf)
		isLib := func(n *eng.GNode) bool {
			return len(vg.CallsAt(n, func(o types.Object, _ *ast.CallExpr) bool {
				fn, ok := o.(*types.Func)
				return ok && nameOf(fn) == "LabelSelectorAsSelector" && fn.Pkg() != nil && strings.HasSuffix(fn.Pkg().Path(), "apis/meta/v1")
			})) > 0
		}
		okAll, nret := true, 0
		var lib *ast.CallExpr
		for _, n := range vg.Nodes {
			for _, m := range vg.CallsAt(n, func(o types.Object, _ *ast.CallExpr) bool { return o != nil && nameOf(o) == "LabelSelectorAsSelector" }) {
				lib = m.Call
			}
			ret, isR := n.Node.(*ast.ReturnStmt)
			if !isR || len(ret.Results) != 2 || !eng.IsNil(vinfo, ret.Results[1]) {
				continue
			}
			nret++
			if !vg.OnlyVia(n, isLib, nil) {
				okAll = false
			}
		}
		libHandled := lib != nil && errHandled(vg, lib, nil).OK
		r.Check(okAll && nret > 0 && libHandled, vf.Key+" delegates to LabelSelectorAsSelector", vf.Decl.Pos(), "every success return follows metav1.LabelSelectorAsSelector, whose error is returned",
			"FormatLabelSelector can report success without having passed the selector to metav1.LabelSelectorAsSelector (or drops its error): invalid label keys/values are accepted at load time")
	}
}
