package rules

import (
	"fmt"
	"go/ast"
	"go/token"
	"go/types"
	"sort"
	"strings"

	"sopverif/eng"
)

func init() {
	register(&Property{
		ID:    "C05",
		Title: "The task queue is a faithful list: nothing lost, duplicated or invented",
		Explanation: "Decided for every path/site of pkg/task/queue: (R1) every access to TaskQueue.items happens under TaskQueue.m " +
			"(exclusive for writes), with caller-holds propagation through the unexported helpers and lock wrappers; (R2) a function that " +
			"receives a task and publishes a slice to items has put that task into the slice on every flag-feasible path to the " +
			"publication (no nil slot, nothing dropped), and positive-length make() reaches items only in such functions; (R3) the worker " +
			"applies a handler result in one critical section: AfterTasks by a descending loop of addAfter(current id), remove(current id) " +
			"exactly once and only under Status==Success, HeadTasks by a descending loop of addFirst, TailTasks by an ascending loop of " +
			"addLast, all only for Success/Keep; (R4) Length/IsEmpty report len(items); (R5) Filter keeps exactly the tasks for which the " +
			"predicate returned true, in order, and publishes once; (R6) element-level shape of addFirst/addLast/removeFirst/removeLast/" +
			"remove/get. NOT decided: equivalence with a list model for all operation sequences (functional correctness), the behaviour " +
			"of append/copy themselves.",
		Run: runC05,
	})
}

func runC05(c *eng.Ctx) {
	p := c.P
	items := p.Field(pkgQueue, "TaskQueue", "items")
	taskIface := p.Named(pkgTask, "Task")
	isTask := func(t types.Type) bool { return taskIface != nil && types.Identical(t, taskIface) }

	// ---- R1 guarded-by
	r1 := c.Rule("C05.R1", "A:lockset", "every access to TaskQueue.items is under TaskQueue.m (write: exclusive), caller-holds through helpers and withLock/withRLock", 30)
	guardedBy(r1, pkgQueue, "TaskQueue", "items", "m")

	// ---- R2 inserted task is in the published slice
	r2 := c.Rule("C05.R2", "B:path+flags", "a function that takes a task and stores a slice into items has put the task into that slice on every flag-feasible path to the store; positive-length make() flows into items only there; each public insertion API reaches such a checked store with its task", 5)
	if items == nil || taskIface == nil {
		r2.Unknown("anchor:TaskQueue.items", token.NoPos, "field or task.Task not found")
	} else {
		for _, f := range funcsOfPkg(p, pkgQueue) {
			if f.Decl.Body == nil {
				continue
			}
			info := f.Pkg.TypesInfo
			stores := fieldStores(info, f.Decl.Body, items, false)
			if len(stores) == 0 {
				continue
			}
			c.Touch(f)
			prm := paramOfType(f, isTask)
			g := p.GraphOf(f)
			for _, as := range stores {
				rhs := rhsFor(info, as, items)
				construct := f.Key
				if rhs == nil {
					r2.Unknown(construct, as.Pos(), "multi-value store to items")
					continue
				}
				or := p.Origins(f, rhs, 0)
				hasPosMake := false
				for range or.Objs {
				}
				// positive-length make reaching the stored value
				ast.Inspect(f.Decl.Body, func(n ast.Node) bool {
					mk := asMake(info, n)
					if mk == nil {
						return true
					}
					if len(mk.Args) >= 2 {
						if v, ok := eng.ConstInt(info, mk.Args[1]); ok && v == 0 {
							return true
						}
						// is this make assigned to a variable that reaches rhs, or rhs itself?
						if reaches(info, f, mk, rhs, or) {
							hasPosMake = true
						}
					}
					return true
				})
				if prm == nil {
					if hasPosMake {
						r2.Bad(construct, as.Pos(), "a slice made with a positive length is published to items in a function that inserts no task: its slots are nil tasks")
					}
					continue
				}
				// direct mention of the parameter in the stored expression
				if eng.UsesObj(info, rhs, prm, false) {
					r2.Ok(construct, as.Pos(), fmt.Sprintf("stored expression `%s` contains the task parameter %s", eng.Short(p.Fset, rhs), prm.Name()))
					continue
				}
				// the stored value is a local slice: the task must have been put into it on every path
				lv, _ := eng.SelObj(info, rhs).(*types.Var)
				if lv == nil {
					r2.Unknown(construct, as.Pos(), "stored expression is neither an expression over the task parameter nor a local slice variable")
					continue
				}
				target := g.NodeOf(as)
				putsTask := func(n *eng.GNode) bool {
					if n.Node == nil {
						return false
					}
					st, ok := n.Node.(*ast.AssignStmt)
					if !ok {
						return false
					}
					for i, l := range st.Lhs {
						// X[i] = task
						if ix, ok := ast.Unparen(l).(*ast.IndexExpr); ok && eng.SelObj(info, ix.X) == lv && len(st.Lhs) == len(st.Rhs) {
							if eng.SelObj(info, st.Rhs[i]) == prm {
								return true
							}
						}
						// X = append(X, ..., task, ...) / slices.Insert(X, i, task)
						if eng.SelObj(info, l) == lv && len(st.Lhs) == len(st.Rhs) {
							if call, ok := ast.Unparen(st.Rhs[i]).(*ast.CallExpr); ok {
								for _, a := range call.Args[1:] {
									if eng.UsesObj(info, a, prm, false) {
										return true
									}
								}
							}
						}
					}
					return false
				}
				if target == nil {
					r2.Unknown(construct, as.Pos(), "store not found in the control-flow graph")
					continue
				}
				if g.OnlyVia(target, putsTask, nil) {
					r2.Ok(construct, as.Pos(), fmt.Sprintf("every flag-feasible path to `%s` stores %s into %s (flags tracked: %s)", eng.Short(p.Fset, as), prm.Name(), lv.Name(), flagNames(g)))
				} else {
					r2.Bad(construct, as.Pos(), fmt.Sprintf("a path reaches `%s` without having stored the task %s into %s: the published slice has a nil slot / the task is lost (e.g. id not found)", eng.Short(p.Fset, as), prm.Name(), lv.Name()))
				}
			}
		}
	}

	// R2 vacuity guard by anchors (robust to refactoring): every public insertion API hands its task, through calls
	// that pass the parameter along, to a function whose store to items was checked above.
	if items != nil && taskIface != nil {
		checked := map[*eng.Func]bool{}
		for _, o := range r2.Obs {
			if f := p.Func(o.Construct); f != nil && o.Status == eng.Discharged {
				checked[f] = true
			}
		}
		for _, name := range []string{"AddFirst", "AddLast", "AddAfter", "AddBefore"} {
			f := r2.NeedFunc(pkgQueue + ".(*TaskQueue)." + name)
			if f == nil {
				continue
			}
			ok := taskReachesStore(p, f, paramOfType(f, isTask), checked, 4, map[*eng.Func]bool{})
			r2.Check(ok, f.Key+" reaches a checked store", f.Decl.Pos(), "the task parameter is passed on to a function whose store to items was checked", "the inserted task is not handed to any function that stores it into items: the insertion is lost")
		}
	}

	// ---- R7 sentinel arithmetic
	r7 := c.Rule("C05.R7", "H:idiom+control-dependence", "a 'not found' index (-1 from slices.Index*/an index search, or a -1 initialised local) is tested before arithmetic is applied to it (AddAfter/AddBefore/Remove with an absent id must leave the queue unchanged)", 1)
	runSentinelRule(c, r7, pkgQueue)

	// ---- R3 result application
	r3 := c.Rule("C05.R3", "B:order+control-dependence", "worker applies handler results in one withLock section: addAfter desc, remove once under Status==Success, addFirst desc, addLast asc; only for Success/Keep", 5)
	runC05R3(c, r3)

	// ---- R4 length
	r4 := c.Rule("C05.R4", "D:provenance", "Length returns len(items); IsEmpty/isEmpty decide on len(items)==0", 2)
	if f := r4.NeedFunc(pkgQueue + ".(*TaskQueue).Length"); f != nil {
		info := f.Pkg.TypesInfo
		ok := false
		var pos token.Pos
		eng.InspectNoLit(f.Decl.Body, func(n ast.Node) bool {
			if r, isR := n.(*ast.ReturnStmt); isR && len(r.Results) == 1 {
				pos = r.Pos()
				srcs := valueSources(info, f.Decl.Body, r.Results[0], 3)
				ok = len(srcs) > 0
				for _, src := range srcs {
					if c := builtinCall(info, src, "len"); c == nil || !eng.IsField(info, c.Args[0], items) {
						ok = false
					}
				}
			}
			return true
		})
		r4.Check(ok, f.Key, pos, "returns len(q.items)", "Length() does not return len(q.items)")
	}
	// emptiness is decided on len(items) == 0, in IsEmpty itself or in the unexported isEmpty it returns (which may
	// have been inlined away by a maintainer)
	isLenZero := func(info *types.Info, e ast.Expr) bool {
		b, isB := ast.Unparen(e).(*ast.BinaryExpr)
		if !isB || b.Op != token.EQL {
			return false
		}
		x, y := b.X, b.Y
		if _, isC := eng.ConstInt(info, x); isC {
			x, y = y, x
		}
		cl := builtinCall(info, x, "len")
		v, isC := eng.ConstInt(info, y)
		return cl != nil && eng.IsField(info, cl.Args[0], items) && isC && v == 0
	}
	returnsLenZero := func(f *eng.Func) (bool, token.Pos) {
		ok := false
		var pos token.Pos = f.Decl.Pos()
		eng.InspectNoLit(f.Decl.Body, func(n ast.Node) bool {
			if r, isR := n.(*ast.ReturnStmt); isR && len(r.Results) == 1 {
				pos = r.Pos()
				ok = isLenZero(f.Pkg.TypesInfo, resolveLocal(f.Pkg.TypesInfo, f.Decl.Body, r.Results[0]))
			}
			return true
		})
		return ok, pos
	}
	inner := p.Func(pkgQueue + ".(*TaskQueue).isEmpty")
	if inner != nil {
		c.Touch(inner)
		ok, pos := returnsLenZero(inner)
		r4.Check(ok, inner.Key, pos, "returns len(q.items) == 0", "isEmpty() is not `len(q.items) == 0`")
	}
	if f := r4.NeedFunc(pkgQueue + ".(*TaskQueue).IsEmpty"); f != nil {
		info := f.Pkg.TypesInfo
		ok := false
		var pos token.Pos = f.Decl.Pos()
		eng.InspectNoLit(f.Decl.Body, func(n ast.Node) bool {
			if r, isR := n.(*ast.ReturnStmt); isR && len(r.Results) == 1 {
				pos = r.Pos()
				srcs := valueSources(info, f.Decl.Body, r.Results[0], 3)
				ok = len(srcs) > 0
				for _, src := range srcs {
					if !(inner != nil && isCallTo(info, src, inner.Obj)) && !isLenZero(info, src) {
						ok = false
					}
				}
			}
			return true
		})
		r4.Check(ok, f.Key, pos, "returns q.isEmpty() / len(q.items) == 0", "IsEmpty() does not return isEmpty()")
	}

	// ---- R5 Filter
	r5 := c.Rule("C05.R5", "B:control-dependence", "Filter appends a task iff filterFn(task) is true, inside an ascending range over items, and publishes the new slice once after the loop", 2)
	runC05R5(c, r5)

	// ---- R6 primitive shapes
	r6 := c.Rule("C05.R6", "H:idiom", "element-level shape of addFirst/addLast/removeFirst/removeLast/remove/get", 6)
	runC05R6(c, r6)

	// ---- R8: a position is only as good as the lock under which it was found
	r8 := c.Rule("C05.R8", "A:lockset", "a local that is used as an index or slice bound of TaskQueue.items was assigned in the same critical section of TaskQueue.m (a position found under one lock acquisition and used under another names a different task, or none)", 1)
	runC05R8(c, r8)
}

func flagNames(g *eng.Graph) string {
	s := ""
	for i, f := range g.Flags {
		if i > 0 {
			s += ","
		}
		s += f.Name()
	}
	if s == "" {
		return "none"
	}
	return s
}

func asMake(info *types.Info, n ast.Node) *ast.CallExpr {
	e, ok := n.(ast.Expr)
	if !ok {
		return nil
	}
	return builtinCall(info, e, "make")
}

// reaches: the make call is the stored expression itself or is assigned to a variable among its origins.
func reaches(info *types.Info, f *eng.Func, mk *ast.CallExpr, rhs ast.Expr, or *eng.OriginSet) bool {
	if ast.Unparen(rhs) == ast.Expr(mk) {
		return true
	}
	found := false
	ast.Inspect(f.Decl.Body, func(n ast.Node) bool {
		as, ok := n.(*ast.AssignStmt)
		if !ok || len(as.Lhs) != len(as.Rhs) {
			return true
		}
		for i, r := range as.Rhs {
			if ast.Unparen(r) == ast.Expr(mk) {
				if o := eng.SelObj(info, as.Lhs[i]); o != nil && or.Has(o) {
					if v, ok := o.(*types.Var); ok && !v.IsField() {
						found = true
					}
				}
			}
		}
		return true
	})
	return found
}

func runC05R3(c *eng.Ctx, r *eng.RuleCtx) {
	p := c.P
	f := r.NeedFunc(pkgQueue + ".(*TaskQueue).Start")
	if f == nil {
		return
	}
	info := f.Pkg.TypesInfo
	handler := p.Field(pkgQueue, "TaskQueue", "Handler")
	status := p.Field(pkgQueue, "TaskResult", "Status")
	after := p.Field(pkgQueue, "TaskResult", "AfterTasks")
	head := p.Field(pkgQueue, "TaskResult", "HeadTasks")
	tail := p.Field(pkgQueue, "TaskResult", "TailTasks")
	addAfter := p.Method(pkgQueue, "TaskQueue", "addAfter")
	addFirst := p.Method(pkgQueue, "TaskQueue", "addFirst")
	addLast := p.Method(pkgQueue, "TaskQueue", "addLast")
	remove := p.Method(pkgQueue, "TaskQueue", "remove")
	withLock := p.Method(pkgQueue, "TaskQueue", "withLock")
	getID := p.Method(pkgTask, "Task", "GetId")
	for _, o := range []any{handler, status, after, head, tail} {
		if o.(*types.Var) == nil {
			r.Unknown("anchor:TaskResult fields", token.NoPos, "field not found")
			return
		}
	}
	for _, o := range []*types.Func{addAfter, addFirst, addLast, remove, withLock, getID} {
		if o == nil {
			r.Unknown("anchor:queue helpers", token.NoPos, "helper method not found")
			return
		}
	}
	gl := goLits(f)
	if len(gl) != 1 {
		r.Unknown(f.Key, f.Decl.Pos(), fmt.Sprintf("expected exactly one goroutine literal in Start, found %d", len(gl)))
		return
	}
	worker := gl[0]
	wg := p.GraphOfLit(worker)
	// the handled task variable: argument of the Handler call
	var taskVar types.Object
	var handlerCall *ast.CallExpr
	for _, s := range p.Sites(handler) {
		if s.InLit == worker {
			handlerCall = s.Call
			if len(s.Call.Args) == 1 {
				taskVar = eng.SelObj(info, s.Call.Args[0])
			}
		}
	}
	if handlerCall == nil || taskVar == nil {
		r.Unknown(f.Key+"$worker", worker.Lit.Pos(), "Handler call with a task variable not found in the worker literal")
		return
	}
	isCurID := func(e ast.Expr) bool {
		cl, ok := ast.Unparen(e).(*ast.CallExpr)
		if !ok || eng.CalleeOf(info, cl) != getID {
			return false
		}
		s, ok := ast.Unparen(cl.Fun).(*ast.SelectorExpr)
		return ok && eng.SelObj(info, s.X) == taskVar
	}
	// the apply literal: passed to withLock inside the worker, contains remove()
	var apply *eng.Lit
	for _, l := range f.Lits {
		if l.Parent == worker && l.ArgOf != nil && eng.CalleeOf(info, l.ArgOf) == withLock {
			if len(callsIn(info, l.Lit.Body, isObj(remove))) > 0 || len(callsIn(info, l.Lit.Body, isObj(addAfter))) > 0 {
				apply = l
			}
		}
	}
	// all calls of the mutators inside the worker must be inside the apply literal
	for _, m := range []*types.Func{addAfter, addFirst, addLast, remove} {
		for _, s := range p.Sites(m) {
			if s.In == f && s.InLit != apply {
				r.Bad(f.Key+" mutator outside the apply section: "+m.Name(), s.Call.Pos(), "queue mutation by the worker outside the single withLock section that applies the handler result")
			}
		}
	}
	if apply == nil {
		r.Bad(f.Key+"$apply", worker.Lit.Pos(), "no withLock literal applying the handler result (remove/addAfter) found in the worker")
		return
	}
	ag := p.GraphOfLit(apply)
	// (a) reachable only for Success/Keep
	applyNode := wg.NodeOf(apply.ArgOf)
	okStatus := wg.FactEdge(func(fc eng.Fact) bool {
		return fieldEqConst(info, status, "Success", true)(fc) || fieldEqConst(info, status, "Keep", true)(fc)
	})
	if applyNode == nil {
		r.Unknown(f.Key+"$apply reachability", apply.Lit.Pos(), "apply call not in graph")
	} else {
		// scenario form: assume the status is neither Success nor Keep - the section is unreachable (covers a guard
		// written as `if status != Success && status != Keep { skip }`, whose false edge carries no single fact)
		other := func(fc eng.Fact) bool {
			return fieldEqConst(info, status, "Success", false)(fc) || fieldEqConst(info, status, "Keep", false)(fc)
		}
		unreachableOtherwise := !wg.Reach(eng.Query{FromEntry: true, Assume: other, AvoidEdge: wg.Infeasible(other)})[applyNode]
		r.Check(wg.OnlyVia(applyNode, nil, okStatus) || unreachableOtherwise, f.Key+"$apply only for Success/Keep", apply.ArgOf.Pos(),
			"the result-application section is reachable only on Status==Success or Status==Keep", "the result-application section is reachable for a status other than Success/Keep (failed or repeated tasks must keep the queue untouched)")
	}
	// (b) remove: exactly one call, not in a loop, only under Status==Success, argument = current id
	rm := callsIn(info, apply.Lit.Body, isObj(remove))
	if len(rm) != 1 {
		r.Bad(f.Key+"$apply remove", apply.Lit.Pos(), fmt.Sprintf("expected exactly one remove() of the handled task, found %d", len(rm)))
	} else {
		call := rm[0]
		n := ag.NodeOf(call)
		onlySuccess := n != nil && ag.OnlyVia(n, nil, ag.FactEdge(fieldEqConst(info, status, "Success", true)))
		notLoop := eng.LoopOf(apply.Lit.Body, call.Pos()) == nil
		argOK := len(call.Args) == 1 && isCurID(call.Args[0])
		mustReach := false
		if n != nil {
			// on Success the remove must happen: no path to the exit on the Status==Success edge avoids it.
			// (equivalently: the only way around the call is the false edge of the Success test)
			notSuccess := ag.FactEdge(fieldEqConst(info, status, "Success", false))
			ex := ag.MustPassToExit(eng.Query{FromEntry: true, AvoidEdge: notSuccess}, func(m *eng.GNode) bool { return m == n })
			mustReach = ex == nil
		}
		r.Check(onlySuccess && notLoop && argOK && mustReach, f.Key+"$apply remove", call.Pos(),
			"remove(t.GetId()) occurs once, outside loops, exactly under Status==Success",
			fmt.Sprintf("remove of the handled task is not `exactly once, iff Status==Success, by the current id` (onlyUnderSuccess=%v outsideLoop=%v currentId=%v alwaysOnSuccess=%v)", onlySuccess, notLoop, argOK, mustReach))
	}
	// (c) loops
	type loopSpec struct {
		fn    *types.Func
		field *types.Var
		desc  bool
		name  string
	}
	for _, ls := range []loopSpec{{addAfter, after, true, "AfterTasks"}, {addFirst, head, true, "HeadTasks"}, {addLast, tail, false, "TailTasks"}} {
		calls := callsIn(info, apply.Lit.Body, isObj(ls.fn))
		construct := fmt.Sprintf("%s$apply %s->%s", f.Key, ls.name, ls.fn.Name())
		if len(calls) != 1 {
			r.Bad(construct, apply.Lit.Pos(), fmt.Sprintf("expected exactly one %s call inserting %s, found %d", ls.fn.Name(), ls.name, len(calls)))
			continue
		}
		call := calls[0]
		loop := eng.LoopOf(apply.Lit.Body, call.Pos())
		if loop == nil {
			r.Bad(construct, call.Pos(), ls.fn.Name()+" is not inside a loop over "+ls.name)
			continue
		}
		el, isEl := eng.ElemLoopOf(info, loop)
		dirOK := isEl && el.Desc == ls.desc
		overOK := isEl && eng.IsField(info, el.Base, ls.field)
		// the arguments are told apart by what they are, not by their position: one is the loop element (the task),
		// for addAfter the other one is the id of the handled task
		elemOK, idOK := false, ls.fn != addAfter
		for _, a := range call.Args {
			if isEl && el.IsElem(a) {
				elemOK = true
			} else if ls.fn == addAfter && len(call.Args) == 2 && isCurID(a) {
				idOK = true
			}
		}
		dir := "ascending"
		if ls.desc {
			dir = "descending"
		}
		r.Check(dirOK && overOK && elemOK && idOK, construct, call.Pos(),
			fmt.Sprintf("%s(%s[i]) in a %s loop over taskRes.%s", ls.fn.Name(), ls.name, dir, ls.name),
			fmt.Sprintf("%s insertion is not `%s loop over %s calling %s on the loop element%s` (direction=%v over=%v element=%v id=%v): the relative order of the inserted tasks would change", ls.name, dir, ls.name, ls.fn.Name(), map[bool]string{true: " after the current id", false: ""}[ls.fn == addAfter], dirOK, overOK, elemOK, idOK))
	}
}

func runC05R5(c *eng.Ctx, r *eng.RuleCtx) {
	p := c.P
	f := r.NeedFunc(pkgQueue + ".(*TaskQueue).Filter")
	if f == nil {
		return
	}
	info := f.Pkg.TypesInfo
	items := p.Field(pkgQueue, "TaskQueue", "items")
	withLock := p.Method(pkgQueue, "TaskQueue", "withLock")
	sig := f.Obj.Type().(*types.Signature)
	if sig.Params().Len() != 1 {
		r.Unknown(f.Key, f.Decl.Pos(), "unexpected signature")
		return
	}
	fn := sig.Params().At(0)
	_ = withLock
	// the single store that publishes the filtered slice, wherever it is written (function body, or the literal
	// handed to withLock); the scan and the publication must lie in one write-locked critical section of `m`
	var allStores []*ast.AssignStmt
	ast.Inspect(f.Decl.Body, func(n ast.Node) bool {
		if as, ok := n.(*ast.AssignStmt); ok {
			for _, l := range as.Lhs {
				if eng.IsField(info, l, items) {
					allStores = append(allStores, as)
				}
			}
		}
		return true
	})
	if len(allStores) != 1 {
		r.Bad(f.Key+" publish", f.Decl.Pos(), fmt.Sprintf("expected one store to items, found %d", len(allStores)))
		return
	}
	var bodyLit *eng.Lit
	for _, l := range f.Lits {
		if l.Lit.Pos() <= allStores[0].Pos() && allStores[0].Pos() < l.Lit.End() {
			bodyLit = l // innermost: literals are listed outer first
		}
	}
	g := p.GraphOf(f)
	bodyBlock := f.Decl.Body
	if bodyLit != nil {
		g = p.GraphOfLit(bodyLit)
		bodyBlock = bodyLit.Lit.Body
	}
	body := struct{ Lit struct{ Body *ast.BlockStmt } }{}
	body.Lit.Body = bodyBlock
	stores := allStores
	mu := p.Field(pkgQueue, "TaskQueue", "m")
	la := p.Locks()
	lockedSame := func(a, b *eng.GNode) bool {
		if a == nil || b == nil || mu == nil {
			return false
		}
		ha, oka := la.StateAtNode(a)[mu]
		hb, okb := la.StateAtNode(b)[mu]
		if !oka || !okb || ha.Mode != eng.ModeW || hb.Mode != eng.ModeW || len(ha.Acq) != len(hb.Acq) {
			return false
		}
		for k := range ha.Acq {
			if !hb.Acq[k] {
				return false
			}
		}
		return true
	}
	pub := stores[0]
	nv, _ := eng.SelObj(info, rhsFor(info, pub, items)).(*types.Var)
	r.Check(nv != nil && eng.LoopOf(body.Lit.Body, pub.Pos()) == nil, f.Key+" publish", pub.Pos(), "new slice published once, after the loop", "the filtered slice is not published exactly once after the loop")
	scanLocked := false
	for _, el := range elemLoopsOver(info, body.Lit.Body, func(x ast.Expr) bool { return eng.IsField(info, x, items) }) {
		if entry := loopBodyEntryOf(g, el.Stmt); entry != nil && lockedSame(entry, g.NodeOf(pub)) {
			scanLocked = true
		}
	}
	r.Check(scanLocked, f.Key+" one-critical-section", pub.Pos(), "the scan of items and the publication of the filtered slice happen in one write-locked section of TaskQueue.m", "Filter does not scan and publish inside one write-locked critical section: a task appended in between is overwritten by the stale filtered copy")
	if nv == nil {
		return
	}
	// appends to nv
	n := 0
	eng.InspectNoLit(body.Lit.Body, func(m ast.Node) bool {
		as, ok := m.(*ast.AssignStmt)
		if !ok || len(as.Lhs) != 1 || eng.SelObj(info, as.Lhs[0]) != nv {
			return true
		}
		ap := builtinCall(info, as.Rhs[0], "append")
		if ap == nil {
			return true
		}
		n++
		el := elemLoopAt(info, body.Lit.Body, as.Pos())
		loopOK := el != nil && !el.Desc && eng.IsField(info, el.Base, items)
		isElem := func(x ast.Expr) bool { return loopOK && el.IsElem(x) }
		var loop ast.Stmt
		if loopOK {
			loop = el.Stmt
		}
		argOK := len(ap.Args) == 2 && eng.SelObj(info, ap.Args[0]) == nv && isElem(ap.Args[1]) && !ap.Ellipsis.IsValid()
		node := g.NodeOf(as)
		// control dependence: only via the true edge of filterFn(elem)
		isPred := func(fc eng.Fact) bool {
			if !fc.Pos || fc.Y != nil {
				return false
			}
			cl, ok := ast.Unparen(fc.X).(*ast.CallExpr)
			if !ok || eng.CalleeOf(info, cl) != fn || len(cl.Args) != 1 {
				return false
			}
			return isElem(cl.Args[0])
		}
		cd := node != nil && g.OnlyVia(node, nil, g.FactEdge(isPred))
		// and every true outcome appends: from the true edge no path reaches the next iteration/exit without the append
		mustAppend := false
		if node != nil {
			negPred := func(fc eng.Fact) bool {
				if fc.Pos || fc.Y != nil {
					return false
				}
				cl, ok := ast.Unparen(fc.X).(*ast.CallExpr)
				return ok && eng.CalleeOf(info, cl) == fn
			}
			// paths that never take the false edge of the predicate and never append must not exist through the loop body:
			// check: starting at loop body entry, avoiding false-edges and the append node, the loop head is not reachable again.
			var bodyEntry *eng.GNode
			isHead := func(*eng.GNode) bool { return false }
			if loop != nil {
				bodyEntry = loopBodyEntryOf(g, loop)
				isHead = isLoopHeadOf(loop)
			}
			if bodyEntry != nil {
				reach := g.Reach(eng.Query{From: []*eng.GNode{bodyEntry}, AvoidNode: func(m *eng.GNode) bool { return m == node }, AvoidEdge: g.FactEdge(negPred)})
				back := false
				for gn := range reach {
					if isHead(gn) || gn.Exit {
						back = true
					}
				}
				mustAppend = !back
			}
		}
		r.Check(loopOK && argOK && cd && mustAppend, f.Key+" keep-iff-true", as.Pos(),
			"append(new, t) exactly on the true edge of filterFn(t), ascending range over items",
			fmt.Sprintf("Filter does not keep `exactly the tasks for which filterFn is true, in order` (ascendingRangeOverItems=%v appendOfElement=%v onlyOnTrue=%v alwaysOnTrue=%v)", loopOK, argOK, cd, mustAppend))
		return true
	})
	if n != 1 {
		r.Bad(f.Key+" appends", body.Lit.Body.Pos(), fmt.Sprintf("expected exactly one append into the new slice, found %d", n))
	}
}

// runC05R6 checks the element-level shape of the primitive mutators.
func runC05R6(c *eng.Ctx, r *eng.RuleCtx) {
	p := c.P
	items := p.Field(pkgQueue, "TaskQueue", "items")
	getID := p.Method(pkgTask, "Task", "GetId")
	isItems := func(info *types.Info, e ast.Expr) bool { return eng.IsField(info, e, items) }
	lenItems := func(info *types.Info, e ast.Expr) bool {
		c := builtinCall(info, e, "len")
		return c != nil && isItems(info, c.Args[0])
	}
	// lenPlus: e denotes len(items)+k; single-assignment locals (lastIdx := len(q.items) - 1) are looked through
	var cur *eng.Func
	var lenPlus func(info *types.Info, e ast.Expr, depth int) (int64, bool)
	lenPlus = func(info *types.Info, e ast.Expr, depth int) (int64, bool) {
		e = ast.Unparen(e)
		if lenItems(info, e) {
			return 0, true
		}
		if depth > 3 {
			return 0, false
		}
		if b, ok := e.(*ast.BinaryExpr); ok && (b.Op == token.SUB || b.Op == token.ADD) {
			if v, isC := eng.ConstInt(info, b.Y); isC {
				if k, ok := lenPlus(info, b.X, depth+1); ok {
					if b.Op == token.SUB {
						return k - v, true
					}
					return k + v, true
				}
			}
		}
		if lv, isV := eng.SelObj(info, e).(*types.Var); isV && !lv.IsField() && cur != nil {
			if _, isIdent := e.(*ast.Ident); isIdent {
				if es := eng.AssignedExprs(info, cur.Decl.Body, lv); len(es) == 1 {
					return lenPlus(info, es[0], depth+1)
				}
			}
		}
		return 0, false
	}
	lenMinus1 := func(info *types.Info, e ast.Expr) bool {
		k, ok := lenPlus(info, e, 0)
		return ok && k == -1
	}
	// atMostOne: the fact implies len(items) <= 1 (written with any comparison of len(items)+k with a constant)
	atMostOne := func(info *types.Info, fc eng.Fact) bool {
		if fc.Y != nil {
			return false
		}
		b, ok := ast.Unparen(fc.X).(*ast.BinaryExpr)
		if !ok {
			return false
		}
		k, okL := lenPlus(info, b.X, 0)
		d, isC := eng.ConstInt(info, b.Y)
		if !okL || !isC {
			return false
		}
		c := d - k // len OP c
		op := b.Op
		if !fc.Pos {
			switch op {
			case token.EQL:
				op = token.NEQ
			case token.NEQ:
				op = token.EQL
			case token.LSS:
				op = token.GEQ
			case token.LEQ:
				op = token.GTR
			case token.GTR:
				op = token.LEQ
			case token.GEQ:
				op = token.LSS
			}
		}
		switch op {
		case token.EQL:
			return c <= 1
		case token.LEQ:
			return c <= 1
		case token.LSS:
			return c <= 2
		}
		return false
	}
	single := func(f *eng.Func) (*ast.AssignStmt, ast.Expr, bool) {
		st := fieldStores(f.Pkg.TypesInfo, f.Decl.Body, items, false)
		if len(st) != 1 {
			return nil, nil, false
		}
		return st[0], rhsFor(f.Pkg.TypesInfo, st[0], items), true
	}
	if f := r.NeedFunc(pkgQueue + ".(*TaskQueue).addFirst"); f != nil {
		info := f.Pkg.TypesInfo
		prm := f.Obj.Type().(*types.Signature).Params().At(0)
		as, rhs, ok := single(f)
		good := false
		if ok {
			if ap := builtinCall(info, rhs, "append"); ap != nil && len(ap.Args) == 2 && ap.Ellipsis.IsValid() && isItems(info, ap.Args[1]) {
				if cl, ok := ast.Unparen(ap.Args[0]).(*ast.CompositeLit); ok && len(cl.Elts) == 1 && eng.SelObj(info, cl.Elts[0]) == prm {
					good = true
				}
			}
			if cl, ok := ast.Unparen(rhs).(*ast.CallExpr); ok && eng.IsPkgFunc(eng.CalleeOf(info, cl), "slices", "Insert") && len(cl.Args) == 3 {
				if v, isC := eng.ConstInt(info, cl.Args[1]); isC && v == 0 && isItems(info, cl.Args[0]) && eng.SelObj(info, cl.Args[2]) == prm {
					good = true
				}
			}
		}
		r.Check(good, f.Key, posOf(as), "items = [t] ++ items", "addFirst does not publish [t] followed by the old items")
	}
	if f := r.NeedFunc(pkgQueue + ".(*TaskQueue).addLast"); f != nil {
		info := f.Pkg.TypesInfo
		prm := f.Obj.Type().(*types.Signature).Params().At(0)
		as, rhs, ok := single(f)
		good := false
		if ok {
			if ap := builtinCall(info, rhs, "append"); ap != nil && len(ap.Args) == 2 && !ap.Ellipsis.IsValid() && isItems(info, ap.Args[0]) && eng.SelObj(info, ap.Args[1]) == prm {
				good = true
			}
		}
		r.Check(good, f.Key, posOf(as), "items = items ++ [t]", "addLast does not publish the old items followed by t")
	}
	if f := r.NeedFunc(pkgQueue + ".(*TaskQueue).removeFirst"); f != nil {
		info := f.Pkg.TypesInfo
		as, rhs, ok := single(f)
		good := false
		if ok {
			if sl, ok := ast.Unparen(rhs).(*ast.SliceExpr); ok && isItems(info, sl.X) && sl.High == nil && sl.Low != nil {
				if v, isC := eng.ConstInt(info, sl.Low); isC && v == 1 {
					good = true
				}
			}
		}
		// returned value: items[0] captured before the store
		retOK := returnsElem(p, f, items, func(ix ast.Expr) bool { v, ok := eng.ConstInt(info, ix); return ok && v == 0 }, as)
		r.Check(good && retOK, f.Key, posOf(as), "returns items[0], items = items[1:]", fmt.Sprintf("removeFirst is not `return items[0]; items = items[1:]` (slice=%v returned=%v)", good, retOK))
	}
	if f := r.NeedFunc(pkgQueue + ".(*TaskQueue).removeLast"); f != nil {
		info := f.Pkg.TypesInfo
		cur = f
		st := fieldStores(info, f.Decl.Body, items, false)
		good := len(st) >= 1
		var first *ast.AssignStmt
		for _, as := range st {
			if first == nil {
				first = as
			}
			rhs := rhsFor(info, as, items)
			okOne := false
			if sl, ok := ast.Unparen(rhs).(*ast.SliceExpr); ok && isItems(info, sl.X) && sl.Low == nil && sl.High != nil && lenMinus1(info, sl.High) {
				okOne = true
			}
			if mk := builtinCall(info, rhs, "make"); mk != nil && len(mk.Args) >= 2 {
				if v, isC := eng.ConstInt(info, mk.Args[1]); isC && v == 0 {
					// only under len(items)==1
					g := p.GraphOf(f)
					n := g.NodeOf(as)
					isLen1 := func(fc eng.Fact) bool { return atMostOne(info, fc) }
					okOne = n != nil && g.OnlyVia(n, nil, g.FactEdge(isLen1))
				}
			}
			if !okOne {
				good = false
			}
		}
		retOK := returnsElem(p, f, items, func(ix ast.Expr) bool { return lenMinus1(info, ix) }, first)
		r.Check(good && retOK, f.Key, posOf(first), "returns items[len-1], items = items[:len-1]", fmt.Sprintf("removeLast is not `return items[len-1]; items = items[:len-1]` (slice=%v returned=%v)", good, retOK))
	}
	if f := r.NeedFunc(pkgQueue + ".(*TaskQueue).remove"); f != nil {
		info := f.Pkg.TypesInfo
		as, rhs, ok := single(f)
		good := false
		var idx types.Object
		if ok {
			// append(items[:i], items[i+1:]...) or slices.Delete(items, i, i+1)
			if ap := builtinCall(info, rhs, "append"); ap != nil && len(ap.Args) == 2 && ap.Ellipsis.IsValid() {
				a, aok := ast.Unparen(ap.Args[0]).(*ast.SliceExpr)
				b, bok := ast.Unparen(ap.Args[1]).(*ast.SliceExpr)
				if aok && bok && isItems(info, a.X) && isItems(info, b.X) && a.Low == nil && a.High != nil && b.High == nil && b.Low != nil {
					idx = eng.SelObj(info, a.High)
					if be, ok := ast.Unparen(b.Low).(*ast.BinaryExpr); ok && be.Op == token.ADD && idx != nil && eng.SelObj(info, be.X) == idx {
						if v, isC := eng.ConstInt(info, be.Y); isC && v == 1 {
							good = true
						}
					}
				}
			}
			if cl, ok := ast.Unparen(rhs).(*ast.CallExpr); ok && eng.IsPkgFunc(eng.CalleeOf(info, cl), "slices", "Delete") && len(cl.Args) == 3 && isItems(info, cl.Args[0]) {
				idx = eng.SelObj(info, cl.Args[1])
				if be, ok := ast.Unparen(cl.Args[2]).(*ast.BinaryExpr); ok && be.Op == token.ADD && idx != nil && eng.SelObj(info, be.X) == idx {
					good = true
				}
			}
		}
		// the index is set only where GetId() == id: every assignment of the index variable other than its
		// initialisation is control-dependent on the id comparison; when the initial value is a valid position
		// (not a negative sentinel) the splice itself must be reachable only through such an assignment (a found
		// flag, tracked by the flag-sensitive graph, guards it)
		idOK := false
		if idx != nil {
			prm := f.Obj.Type().(*types.Signature).Params().At(0)
			g := p.GraphOf(f)
			idOK = true
			cnt := 0
			needGuard := false
			searchIdx := false
			matched := map[*eng.GNode]bool{}
			match := func(fc eng.Fact) bool {
				x, y, eq, ok := eng.EqAtom(fc)
				if !ok || !eq {
					return false
				}
				return (isCallTo(info, x, getID) && eng.SelObj(info, y) == prm) || (isCallTo(info, y, getID) && eng.SelObj(info, x) == prm)
			}
			for _, n := range g.Nodes {
				st, ok := n.Node.(*ast.AssignStmt)
				if !ok {
					continue
				}
				for i, l := range st.Lhs {
					if eng.SelObj(info, l) != idx {
						continue
					}
					if _, isIdent := ast.Unparen(l).(*ast.Ident); !isIdent {
						continue
					}
					if len(st.Lhs) != len(st.Rhs) {
						idOK = false
						continue
					}
					if v, isC := eng.ConstInt(info, st.Rhs[i]); isC {
						if v >= 0 {
							needGuard = true
						}
						continue
					}
					// the library search: idx = slices.IndexFunc(items, func(t) bool { return t.GetId() == id }), -1 when absent
					if cl, isCl := ast.Unparen(st.Rhs[i]).(*ast.CallExpr); isCl && eng.IsPkgFunc(eng.CalleeOf(info, cl), "slices", "IndexFunc") && len(cl.Args) == 2 && isItems(info, cl.Args[0]) {
						if fl, isL := ast.Unparen(resolveLocal(info, f.Decl.Body, cl.Args[1])).(*ast.FuncLit); isL && fl.Type.Params != nil && len(fl.Type.Params.List) == 1 && len(fl.Type.Params.List[0].Names) == 1 && len(fl.Body.List) == 1 {
							elemObj := info.Defs[fl.Type.Params.List[0].Names[0]]
							if ret, isR := fl.Body.List[0].(*ast.ReturnStmt); isR && len(ret.Results) == 1 {
								x, y, eq, isEq := eng.EqAtom(eng.Fact{X: ret.Results[0], Pos: true})
								byID := func(a, b ast.Expr) bool {
									c2, isC2 := ast.Unparen(a).(*ast.CallExpr)
									if !isC2 || eng.CalleeOf(info, c2) != types.Object(getID) {
										return false
									}
									sel, isS := ast.Unparen(c2.Fun).(*ast.SelectorExpr)
									return isS && eng.SelObj(info, sel.X) == elemObj && eng.SelObj(info, b) == types.Object(prm)
								}
								if isEq && eq && (byID(x, y) || byID(y, x)) {
									cnt++
									matched[n] = true
									searchIdx = true
									continue
								}
							}
						}
					}
					cnt++
					if g.OnlyVia(n, nil, g.FactEdge(match)) {
						matched[n] = true
					} else {
						idOK = false
					}
				}
			}
			if cnt == 0 {
				idOK = false
			}
			if idOK && needGuard {
				sp := g.NodeOf(as)
				idOK = sp != nil && g.OnlyVia(sp, func(m *eng.GNode) bool { return matched[m] }, nil)
			}
			if idOK && searchIdx {
				// the search answers -1 for an absent id: the splice must be guarded by a test that excludes it
				sp := g.NodeOf(as)
				nonNeg := g.FactEdge(func(fc eng.Fact) bool {
					if fc.Y != nil {
						return false
					}
					b, ok := ast.Unparen(fc.X).(*ast.BinaryExpr)
					if !ok || eng.SelObj(info, b.X) != idx {
						return false
					}
					k, isK := eng.ConstInt(info, b.Y)
					if !isK {
						return false
					}
					switch b.Op {
					case token.LSS: // !(idx < 0)
						return !fc.Pos && k == 0
					case token.GEQ: // idx >= 0
						return fc.Pos && k == 0
					case token.EQL: // !(idx == -1)
						return !fc.Pos && k == -1
					case token.NEQ: // idx != -1
						return fc.Pos && k == -1
					case token.GTR: // idx > -1
						return fc.Pos && k == -1
					case token.LEQ: // !(idx <= -1)
						return !fc.Pos && k == -1
					}
					return false
				})
				idOK = sp != nil && g.OnlyVia(sp, nil, nonNeg)
			}
		}
		r.Check(good && idOK, f.Key, posOf(as), "items = items[:i] ++ items[i+1:], i chosen by GetId()==id", fmt.Sprintf("remove is not `delete the element whose id matches` (splice=%v indexByIdEquality=%v)", good, idOK))
	}
	if f := r.NeedFunc(pkgQueue + ".(*TaskQueue).GetFirst"); f != nil {
		info := f.Pkg.TypesInfo
		retOK := returnsElem(p, f, items, func(ix ast.Expr) bool { v, ok := eng.ConstInt(info, ix); return ok && v == 0 }, nil)
		r.Check(retOK, f.Key, f.Decl.Pos(), "returns items[0] (or nil when empty)", "GetFirst does not return items[0]")
	}
}

// returnsElem: every non-nil return of f yields items[ix] (directly or through a local variable assigned from it
// before the store `before`).
func returnsElem(p *eng.Prog, f *eng.Func, items *types.Var, ixOK func(ast.Expr) bool, before *ast.AssignStmt) bool {
	info := f.Pkg.TypesInfo
	isElem := func(e ast.Expr) bool {
		ix, ok := ast.Unparen(e).(*ast.IndexExpr)
		return ok && eng.IsField(info, ix.X, items) && ixOK(ix.Index)
	}
	ok := true
	n := 0
	eng.InspectNoLit(f.Decl.Body, func(m ast.Node) bool {
		r, isR := m.(*ast.ReturnStmt)
		if !isR || len(r.Results) != 1 {
			return true
		}
		res := r.Results[0]
		if eng.IsNil(info, res) {
			return true
		}
		n++
		if isElem(res) {
			if before != nil && r.Pos() > before.Pos() {
				ok = false // element read after the slice was modified
			}
			return true
		}
		if _, isV := eng.SelObj(info, res).(*types.Var); !isV {
			ok = false
			return true
		}
		// a local (possibly filled inside a lock-wrapper literal, possibly through another local): every value it
		// can hold is the element or nil
		nElem := 0
		for _, src := range valueSources(info, f.Decl.Body, res, 4) {
			if eng.IsNil(info, src) {
				continue
			}
			if !isElem(src) {
				ok = false
				continue
			}
			nElem++
			if before != nil && src.Pos() > before.Pos() {
				ok = false
			}
		}
		if nElem == 0 {
			ok = false
		}
		return true
	})
	return ok && n > 0
}

// taskReachesStore: parameter prm of f flows, through calls that pass it along (also from inside literals), to a
// function in checked.
func taskReachesStore(p *eng.Prog, f *eng.Func, prm *types.Var, checked map[*eng.Func]bool, depth int, seen map[*eng.Func]bool) bool {
	if f == nil || prm == nil || depth < 0 || seen[f] {
		return false
	}
	seen[f] = true
	if checked[f] {
		return true
	}
	info := f.Pkg.TypesInfo
	found := false
	ast.Inspect(f.Decl.Body, func(n ast.Node) bool {
		call, ok := n.(*ast.CallExpr)
		if !ok || found {
			return !found
		}
		fn, ok := eng.CalleeOf(info, call).(*types.Func)
		if !ok {
			return true
		}
		cf := p.FuncOf(fn)
		if cf == nil {
			return true
		}
		for i, a := range call.Args {
			if eng.SelObj(info, a) == prm {
				sig := fn.Type().(*types.Signature)
				if i < sig.Params().Len() {
					if taskReachesStore(p, cf, sig.Params().At(i), checked, depth-1, seen) {
						found = true
					}
				}
			}
		}
		return true
	})
	return found
}

var sentinelFuncs = map[string]bool{
	"slices.Index": true, "slices.IndexFunc": true, "strings.Index": true, "strings.IndexByte": true, "strings.IndexRune": true,
	"strings.LastIndex": true, "strings.IndexAny": true, "strings.IndexFunc": true, "bytes.Index": true, "bytes.IndexByte": true,
}

// isSentinelCall: the call may return -1 for "not found": a library index search, or a repository function all of
// whose returns are such calls, sentinel variables or the constant -1.
func isSentinelCall(p *eng.Prog, info *types.Info, e ast.Expr, depth int) bool {
	call, ok := ast.Unparen(e).(*ast.CallExpr)
	if !ok {
		return false
	}
	fn, ok := eng.CalleeOf(info, call).(*types.Func)
	if !ok {
		return false
	}
	if sentinelFuncs[fn.FullName()] {
		return true
	}
	cf := p.FuncOf(fn)
	if cf == nil || cf.Decl.Body == nil || depth <= 0 {
		return false
	}
	sig := fn.Type().(*types.Signature)
	if sig.Results().Len() != 1 {
		return false
	}
	if b, ok := sig.Results().At(0).Type().Underlying().(*types.Basic); !ok || b.Info()&types.IsInteger == 0 {
		return false
	}
	any := false
	cinfo := cf.Pkg.TypesInfo
	eng.InspectNoLit(cf.Decl.Body, func(n ast.Node) bool {
		r, isR := n.(*ast.ReturnStmt)
		if !isR || len(r.Results) != 1 {
			return true
		}
		if v, isC := eng.ConstInt(cinfo, r.Results[0]); isC && v == -1 {
			any = true
		}
		if isSentinelCall(p, cinfo, r.Results[0], depth-1) {
			any = true
		}
		return true
	})
	return any
}

func runSentinelRule(c *eng.Ctx, r *eng.RuleCtx, pkg string) {
	p := c.P
	n := 0
	for _, f := range funcsOfPkg(p, pkg) {
		if f.Decl.Body == nil {
			continue
		}
		info := f.Pkg.TypesInfo
		// sentinel variables: assigned from a sentinel call or from the constant -1
		sent := map[*types.Var]bool{}
		ast.Inspect(f.Decl.Body, func(m ast.Node) bool {
			as, ok := m.(*ast.AssignStmt)
			if !ok || len(as.Lhs) != len(as.Rhs) {
				return true
			}
			for i, rhs := range as.Rhs {
				v, isV := eng.SelObj(info, as.Lhs[i]).(*types.Var)
				if !isV || v.IsField() {
					continue
				}
				if cv, isC := eng.ConstInt(info, rhs); (isC && cv == -1) || isSentinelCall(p, info, rhs, 2) {
					sent[v] = true
				}
			}
			return true
		})
		bodies := []struct {
			g    *eng.Graph
			body *ast.BlockStmt
		}{{p.GraphOf(f), f.Decl.Body}}
		for _, l := range f.Lits {
			bodies = append(bodies, struct {
				g    *eng.Graph
				body *ast.BlockStmt
			}{p.GraphOfLit(l), l.Lit.Body})
		}
		for _, b := range bodies {
			g := b.g
			eng.InspectNoLit(b.body, func(m ast.Node) bool {
				be, ok := m.(*ast.BinaryExpr)
				if !ok || (be.Op != token.ADD && be.Op != token.SUB && be.Op != token.MUL) {
					return true
				}
				for _, opd := range []ast.Expr{be.X, be.Y} {
					if isSentinelCall(p, info, opd, 2) {
						n++
						c.Touch(f)
						r.Bad(f.Key+" arithmetic on a search result", be.Pos(), fmt.Sprintf("`%s` applies arithmetic to an index search result before testing it for -1: for an absent element the position becomes valid again (e.g. -1+1 = 0) and the operation is carried out at the wrong place instead of being a no-op", eng.Short(p.Fset, be)))
						continue
					}
					v, isV := eng.SelObj(info, opd).(*types.Var)
					if !isV || !sent[v] {
						continue
					}
					n++
					c.Touch(f)
					node := g.NodeOf(be)
					guard := g.FactEdge(func(fc eng.Fact) bool {
						if fc.Y != nil {
							return false
						}
						cmp, isB := ast.Unparen(fc.X).(*ast.BinaryExpr)
						if !isB {
							return false
						}
						x, y := cmp.X, cmp.Y
						op := cmp.Op
						if eng.SelObj(info, y) == v { // constant on the left: flip
							x, y = y, x
							switch op {
							case token.LSS:
								op = token.GTR
							case token.GTR:
								op = token.LSS
							case token.LEQ:
								op = token.GEQ
							case token.GEQ:
								op = token.LEQ
							}
						}
						if eng.SelObj(info, x) != v {
							return false
						}
						cv, isC := eng.ConstInt(info, y)
						if !isC {
							return false
						}
						switch {
						case op == token.NEQ && cv == -1:
							return fc.Pos
						case op == token.EQL && cv == -1:
							return !fc.Pos
						case op == token.GEQ && cv == 0, op == token.GTR && cv == -1:
							return fc.Pos
						case op == token.LSS && cv == 0, op == token.LEQ && cv == -1:
							return !fc.Pos
						}
						return false
					})
					if node != nil && g.OnlyVia(node, nil, guard) {
						r.Ok(f.Key+" "+v.Name()+" tested before arithmetic", be.Pos(), fmt.Sprintf("`%s` is reachable only after %s was tested against -1", eng.Short(p.Fset, be), v.Name()))
					} else {
						r.Bad(f.Key+" "+v.Name()+" arithmetic before test", be.Pos(), fmt.Sprintf("`%s` uses the 'not found' index %s in arithmetic without a dominating test against -1", eng.Short(p.Fset, be), v.Name()))
					}
				}
				return true
			})
		}
	}
	if n == 0 {
		r.Ok(pkg+" no index-search arithmetic", token.NoPos, "no arithmetic on an index search result in the package")
	}
}

// runC05R8: for every index / slice expression on `items` whose index mentions a local variable, every non-constant
// assignment of that variable (also the key of a range loop) lies in the same critical section: the lock state at both
// nodes holds TaskQueue.m with the same acquire sites (or both inherit it from the caller).
func runC05R8(c *eng.Ctx, r *eng.RuleCtx) {
	p := c.P
	items := p.Field(pkgQueue, "TaskQueue", "items")
	mu := p.Field(pkgQueue, "TaskQueue", "m")
	if items == nil || mu == nil {
		r.Unknown("anchor:TaskQueue.items/m", token.NoPos, "not found")
		return
	}
	la := p.Locks()
	for _, f := range funcsOfPkg(p, pkgQueue) {
		if f.Decl.Body == nil {
			continue
		}
		info := f.Pkg.TypesInfo
		graphAt := func(pos token.Pos) *eng.Graph {
			var best *eng.Lit
			for _, l := range f.Lits {
				if l.Lit.Body.Pos() <= pos && pos < l.Lit.Body.End() {
					best = l // literals are listed outer first: the last match is the innermost
				}
			}
			if best != nil {
				return p.GraphOfLit(best)
			}
			return p.GraphOf(f)
		}
		// a literal handed to one of the queue's own lock wrappers is one critical section per call of the wrapper:
		// the acquire site (inside the wrapper) is the same for all of them, the literal tells them apart
		wrapperLit := func(pos token.Pos) string {
			for _, l := range f.Lits {
				if l.Lit.Body.Pos() <= pos && pos < l.Lit.Body.End() && l.ArgOf != nil {
					if fn, isF := eng.CalleeOf(info, l.ArgOf).(*types.Func); isF && fn.Pkg() != nil && fn.Pkg().Path() == full(pkgQueue) {
						return "@" + p.Rel(l.Lit.Pos())
					}
				}
			}
			return ""
		}
		section := func(n *eng.GNode) (string, bool) {
			if n == nil {
				return "", false
			}
			h, held := la.StateAtNode(n)[mu]
			if !held {
				return "", false
			}
			var sites []string
			for k := range h.Acq {
				sites = append(sites, p.Rel(k.Pos()))
			}
			sort.Strings(sites)
			at := n.Block.Stmt
			pos := token.NoPos
			if n.Node != nil {
				pos = n.Node.Pos()
			} else if at != nil {
				pos = at.Pos()
			}
			return strings.Join(sites, ",") + wrapperLit(pos), true
		}
		type use struct {
			v   *types.Var
			pos token.Pos
		}
		var uses []use
		seen := map[*types.Var]bool{}
		note := func(e ast.Expr, at token.Pos) {
			if e == nil {
				return
			}
			ast.Inspect(e, func(n ast.Node) bool {
				if id, isId := n.(*ast.Ident); isId {
					if v, isV := info.Uses[id].(*types.Var); isV && !v.IsField() && isDeclaredIn(info, f.Decl.Body, v) {
						uses = append(uses, use{v, at})
						seen[v] = true
					}
				}
				return true
			})
		}
		ast.Inspect(f.Decl.Body, func(n ast.Node) bool {
			switch t := n.(type) {
			case *ast.IndexExpr:
				if eng.IsField(info, t.X, items) {
					note(t.Index, t.Pos())
				}
			case *ast.SliceExpr:
				if eng.IsField(info, t.X, items) {
					note(t.Low, t.Pos())
					note(t.High, t.Pos())
					note(t.Max, t.Pos())
				}
			}
			return true
		})
		if len(uses) == 0 {
			continue
		}
		c.Touch(f)
		// definitions of the index variables: assignments with a non-constant value, range keys
		type def struct {
			v    *types.Var
			node ast.Node // the statement (assignment) or the range statement
		}
		var defs []def
		ast.Inspect(f.Decl.Body, func(n ast.Node) bool {
			switch t := n.(type) {
			case *ast.AssignStmt:
				for i, l := range t.Lhs {
					id, isId := ast.Unparen(l).(*ast.Ident)
					if !isId {
						continue
					}
					v, _ := info.ObjectOf(id).(*types.Var)
					if v == nil || !seen[v] {
						continue
					}
					if len(t.Lhs) == len(t.Rhs) {
						if tv, has := info.Types[t.Rhs[i]]; has && tv.Value != nil {
							continue // a constant (the not-found sentinel, a start value)
						}
					}
					defs = append(defs, def{v, t})
				}
			case *ast.RangeStmt:
				if id, isId := t.Key.(*ast.Ident); isId {
					if v, _ := info.ObjectOf(id).(*types.Var); v != nil && seen[v] {
						defs = append(defs, def{v, t})
					}
				}
			case *ast.IncDecStmt:
				if id, isId := ast.Unparen(t.X).(*ast.Ident); isId {
					if v, _ := info.ObjectOf(id).(*types.Var); v != nil && seen[v] {
						defs = append(defs, def{v, t})
					}
				}
			}
			return true
		})
		bad := ""
		var badPos token.Pos
		n := 0
		for _, u := range uses {
			ug := graphAt(u.pos)
			useNode := nodeContaining(ug, u.pos)
			us, uHeld := section(useNode)
			for _, d := range defs {
				if d.v != u.v {
					continue
				}
				n++
				dg := graphAt(d.node.Pos())
				var dn *eng.GNode
				if rs, isR := d.node.(*ast.RangeStmt); isR {
					dn = loopBodyEntryOf(dg, rs)
				} else {
					dn = nodeContaining(dg, d.node.Pos())
				}
				ds, dHeld := section(dn)
				// neither node holds the lock itself: both run in the caller's critical section (R1 makes the callers
				// hold the lock around the whole function)
				if uHeld != dHeld || us != ds {
					bad = fmt.Sprintf("`%s` is assigned at %s (lock section %q) and used as a position in items at %s (lock section %q)", u.v.Name(), p.Rel(d.node.Pos()), ds, p.Rel(u.pos), us)
					badPos = u.pos
				}
			}
		}
		if bad != "" {
			r.Bad(f.Key+" positions", badPos, "a position in the queue is found under one acquisition of the queue lock and used under another: "+bad+"; a concurrent AddFirst/Remove in between makes it name another task (a wrong task is removed, or the slice bounds are stale)")
		} else if n > 0 {
			r.Ok(f.Key+" positions", f.Decl.Pos(), fmt.Sprintf("%d definition/use pairs of item positions, each within one critical section", n))
		}
	}
}

// nodeContaining returns the node of g with the smallest source span that contains pos.
func nodeContaining(g *eng.Graph, pos token.Pos) *eng.GNode {
	var best *eng.GNode
	for _, n := range g.Nodes {
		if n.Node == nil || !(n.Node.Pos() <= pos && pos < n.Node.End()) {
			continue
		}
		if best == nil || n.Node.End()-n.Node.Pos() < best.Node.End()-best.Node.Pos() {
			best = n
		}
	}
	return best
}
