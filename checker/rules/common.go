package rules

import (
	"fmt"
	"go/ast"
	"go/constant"
	"go/token"
	"go/types"
	"os"
	"reflect"
	"strconv"
	"strings"

	"sopverif/eng"
)

const (
	pkgQueue   = "pkg/task/queue"
	pkgTask    = "pkg/task"
	pkgOp      = "pkg/shell-operator"
	pkgKem     = "pkg/kube_events_manager"
	pkgKemT    = "pkg/kube_events_manager/types"
	pkgHook    = "pkg/hook"
	pkgCtrl    = "pkg/hook/controller"
	pkgCfg     = "pkg/hook/config"
	pkgHTypes  = "pkg/hook/types"
	pkgBctx    = "pkg/hook/binding_context"
	pkgMeta    = "pkg/hook/task_metadata"
	pkgSched   = "pkg/schedule_manager"
	pkgPatch   = "pkg/kube/object_patch"
	pkgAdm     = "pkg/webhook/admission"
	pkgConv    = "pkg/webhook/conversion"
	pkgMetric  = "pkg/metric"
	pkgMStor   = "pkg/metric_storage"
	pkgVault   = "pkg/metric_storage/vault"
	pkgMOp     = "pkg/metric_storage/operation"
	pkgExec    = "pkg/executor"
	pkgFile    = "pkg/utils/file"
	pkgJq      = "pkg/filter/jq"
	pkgBackoff = "pkg/utils/exponential_backoff"
)

func full(short string) string { return eng.ModPath + "/" + short }

// guardedBy runs the lock-set rule for one field and records one obligation per access.
func guardedBy(r *eng.RuleCtx, pkg, typ, field, mutex string) int {
	p := r.C.P
	fld := p.Field(pkg, typ, field)
	mu := p.Field(pkg, typ, mutex)
	if fld == nil || mu == nil {
		r.Unknown(fmt.Sprintf("anchor:%s.%s.%s/%s", pkg, typ, field, mutex), token.NoPos, "guarded field or its mutex not found")
		return 0
	}
	depth := 3
	if r.C.Tier == "thorough" {
		depth = 12
	}
	acc := p.Locks().CheckGuarded(fld, mu, depth)
	for _, a := range acc {
		mode := "read"
		if a.Write {
			mode = "write"
		}
		construct := fmt.Sprintf("%s.%s %s in %s", typ, field, mode, a.Ref.Where())
		if a.Ref.In != nil {
			r.C.Touch(a.Ref.In)
		}
		if a.OK {
			r.Ok(construct, a.Ref.Node.Pos(), a.Via)
		} else {
			r.Bad(construct, a.Ref.Node.Pos(), fmt.Sprintf("%s of %s.%s without %s held: %s %s", mode, typ, field, mutex, a.Via, strings.Join(a.Chain, " <- ")))
		}
	}
	return len(acc)
}

// litOfCall returns the literal of function f passed as argument to the call of callee (first match).
func litsPassedTo(f *eng.Func, info *types.Info, callee types.Object) []*eng.Lit {
	var out []*eng.Lit
	for _, l := range f.Lits {
		if l.ArgOf != nil && eng.CalleeOf(info, l.ArgOf) == callee {
			out = append(out, l)
		}
	}
	return out
}

// goLits returns the literals of f started with a go statement.
func goLits(f *eng.Func) []*eng.Lit {
	var out []*eng.Lit
	for _, l := range f.Lits {
		if l.Go {
			out = append(out, l)
		}
	}
	return out
}

// callsIn returns calls (not inside nested literals) in body whose callee satisfies pred.
func callsIn(info *types.Info, body ast.Node, pred func(types.Object, *ast.CallExpr) bool) []*ast.CallExpr {
	var out []*ast.CallExpr
	eng.InspectNoLit(body, func(n ast.Node) bool {
		if c, ok := n.(*ast.CallExpr); ok {
			if pred(eng.CalleeOf(info, c), c) {
				out = append(out, c)
			}
		}
		return true
	})
	return out
}

// callsDeep is callsIn but descends into literals.
func callsDeep(info *types.Info, body ast.Node, pred func(types.Object, *ast.CallExpr) bool) []*ast.CallExpr {
	var out []*ast.CallExpr
	ast.Inspect(body, func(n ast.Node) bool {
		if c, ok := n.(*ast.CallExpr); ok {
			if pred(eng.CalleeOf(info, c), c) {
				out = append(out, c)
			}
		}
		return true
	})
	return out
}

func isObj(o types.Object) func(types.Object, *ast.CallExpr) bool {
	return func(c types.Object, _ *ast.CallExpr) bool { return c != nil && c == o }
}

// fieldEqConst builds a fact matcher: the fact compares field fld (of anything) with constant string val.
// wantEq=true matches facts that establish equality, false matches facts that establish inequality.
func fieldEqConst(info *types.Info, fld *types.Var, val string, wantEq bool) func(eng.Fact) bool {
	return func(f eng.Fact) bool {
		x, y, eq, ok := eng.EqAtom(f)
		if !ok || eq != wantEq {
			return false
		}
		if eng.IsField(info, x, fld) {
			if s, ok := eng.ConstStr(info, y); ok && s == val {
				return true
			}
		}
		if eng.IsField(info, y, fld) {
			if s, ok := eng.ConstStr(info, x); ok && s == val {
				return true
			}
		}
		return false
	}
}

// exprEqConst: fact compares an expression satisfying isX with a constant string.
func exprEqConst(info *types.Info, isX func(ast.Expr) bool, val string, wantEq bool) func(eng.Fact) bool {
	return func(f eng.Fact) bool {
		x, y, eq, ok := eng.EqAtom(f)
		if !ok || eq != wantEq {
			return false
		}
		if isX(x) {
			if s, ok := eng.ConstStr(info, y); ok && s == val {
				return true
			}
		}
		if isX(y) {
			if s, ok := eng.ConstStr(info, x); ok && s == val {
				return true
			}
		}
		return false
	}
}

// isCallTo reports whether e is a call whose callee is obj.
func isCallTo(info *types.Info, e ast.Expr, obj types.Object) bool {
	c, ok := ast.Unparen(e).(*ast.CallExpr)
	return ok && obj != nil && eng.CalleeOf(info, c) == obj
}

// isCallNamed reports whether e is a call of a method/function with the given name.
func isCallNamed(info *types.Info, e ast.Expr, name string) bool {
	c, ok := ast.Unparen(e).(*ast.CallExpr)
	if !ok {
		return false
	}
	o := eng.CalleeOf(info, c)
	return o != nil && nameOf(o) == name
}

func paramOfType(f *eng.Func, match func(types.Type) bool) *types.Var {
	if f == nil || f.Obj == nil {
		return nil
	}
	sig := f.Obj.Type().(*types.Signature)
	for i := 0; i < sig.Params().Len(); i++ {
		if match(sig.Params().At(i).Type()) {
			return sig.Params().At(i)
		}
	}
	return nil
}

func isNamedType(t types.Type, pkgPath, name string) bool {
	if p, ok := t.(*types.Pointer); ok {
		t = p.Elem()
	}
	n, ok := t.(*types.Named)
	return ok && n.Obj().Pkg() != nil && n.Obj().Pkg().Path() == pkgPath && n.Obj().Name() == name
}

func usesVar(info *types.Info, n ast.Node, v types.Object) bool {
	return v != nil && eng.UsesObj(info, n, v, false)
}

// funcsOfPkg returns declared functions of a product package in key order.
func funcsOfPkg(p *eng.Prog, short string) []*eng.Func {
	var out []*eng.Func
	prefix := short + "."
	for k, f := range p.Funcs {
		if strings.HasPrefix(k, prefix) && f.Pkg.PkgPath == full(short) {
			out = append(out, f)
		}
	}
	sortFuncs(out)
	return out
}

func sortFuncs(fs []*eng.Func) {
	for i := 0; i < len(fs); i++ {
		for j := i + 1; j < len(fs); j++ {
			if fs[j].Key < fs[i].Key {
				fs[i], fs[j] = fs[j], fs[i]
			}
		}
	}
}

// assignTargetsField returns assignment statements in body (no literals) that write field fld (plain store).
func fieldStores(info *types.Info, body ast.Node, fld *types.Var, deep bool) []*ast.AssignStmt {
	var out []*ast.AssignStmt
	w := func(n ast.Node) bool {
		if as, ok := n.(*ast.AssignStmt); ok {
			for _, l := range as.Lhs {
				if eng.IsField(info, l, fld) {
					out = append(out, as)
					break
				}
			}
		}
		return true
	}
	if deep {
		ast.Inspect(body, func(n ast.Node) bool { return n != nil && w(n) })
	} else {
		eng.InspectNoLit(body, w)
	}
	return out
}

// rhsFor returns the right-hand side assigned to the LHS that is field fld.
func rhsFor(info *types.Info, as *ast.AssignStmt, fld *types.Var) ast.Expr {
	if len(as.Lhs) != len(as.Rhs) {
		return nil
	}
	for i, l := range as.Lhs {
		if eng.IsField(info, l, fld) {
			return as.Rhs[i]
		}
	}
	return nil
}

func builtinCall(info *types.Info, e ast.Expr, name string) *ast.CallExpr {
	c, ok := ast.Unparen(e).(*ast.CallExpr)
	if !ok {
		return nil
	}
	id, ok := ast.Unparen(c.Fun).(*ast.Ident)
	if !ok || id.Name != name {
		return nil
	}
	if _, ok := info.Uses[id].(*types.Builtin); !ok {
		return nil
	}
	return c
}

func posOf(n ast.Node) token.Pos {
	if n == nil {
		return token.NoPos
	}
	if v := reflect.ValueOf(n); v.Kind() == reflect.Ptr && v.IsNil() {
		return token.NoPos // typed nil (e.g. a *ast.RangeStmt that was not found)
	}
	return n.Pos()
}

// litKeyValue returns the value given for field fld in a (pointer to a) composite literal expression.
func litKeyValue(info *types.Info, e ast.Expr, fld *types.Var) ast.Expr {
	e = ast.Unparen(e)
	if u, ok := e.(*ast.UnaryExpr); ok && u.Op == token.AND {
		e = ast.Unparen(u.X)
	}
	cl, ok := e.(*ast.CompositeLit)
	if !ok {
		return nil
	}
	for _, el := range cl.Elts {
		if kv, ok := el.(*ast.KeyValueExpr); ok {
			if id, ok := kv.Key.(*ast.Ident); ok && info.Uses[id] == fld {
				return kv.Value
			}
		}
	}
	return nil
}

// elemLoopAt returns the innermost loop around pos (inside body, not crossing literals) in its whole-slice normal
// form (range or index form, see eng.ElemLoop); nil when there is no loop or it is not a recognised whole-slice loop.
func elemLoopAt(info *types.Info, body *ast.BlockStmt, pos token.Pos) *eng.ElemLoop {
	l := eng.LoopOf(body, pos)
	if l == nil {
		return nil
	}
	el, ok := eng.ElemLoopOf(info, l)
	if !ok {
		return nil
	}
	return el
}

// elemLoopsOver returns the whole-slice loops of body (not inside literals) whose slice satisfies base.
func elemLoopsOver(info *types.Info, body ast.Node, base func(ast.Expr) bool) []*eng.ElemLoop {
	var out []*eng.ElemLoop
	eng.InspectNoLit(body, func(n ast.Node) bool {
		st, ok := n.(ast.Stmt)
		if !ok {
			return true
		}
		switch st.(type) {
		case *ast.RangeStmt, *ast.ForStmt:
			if el, ok := eng.ElemLoopOf(info, st); ok && base(el.Base) {
				out = append(out, el)
			}
		}
		return true
	})
	return out
}

// isLoopHeadOf: the synthetic node(s) every new iteration of loop passes (range head; for-loop condition / post).
func isLoopHeadOf(loop ast.Stmt) func(*eng.GNode) bool {
	return func(n *eng.GNode) bool {
		if n.Node != nil || n.Block.Stmt != loop {
			return false
		}
		k := n.Block.Kind.String()
		return k == "RangeLoop" || k == "ForLoop" || k == "ForPost"
	}
}

// loopBodyEntryOf: the synthetic entry node of the loop body.
func loopBodyEntryOf(g *eng.Graph, loop ast.Stmt) *eng.GNode {
	for _, n := range g.Nodes {
		if n.Node == nil && n.Block.Stmt == loop {
			if k := n.Block.Kind.String(); k == "RangeBody" || k == "ForBody" {
				return n
			}
		}
	}
	return nil
}

// usesElem reports whether e contains the element of the current iteration of el.
func usesElem(el *eng.ElemLoop, e ast.Expr) bool {
	found := false
	ast.Inspect(e, func(n ast.Node) bool {
		if x, ok := n.(ast.Expr); ok && !found && el.IsElem(x) {
			found = true
		}
		return !found
	})
	return found
}

// usesElemVia is usesElem that also looks through locals of the loop body that are assigned once (`m := elem.Meta()`).
func usesElemVia(info *types.Info, el *eng.ElemLoop, e ast.Expr) bool {
	if usesElem(el, e) {
		return true
	}
	found := false
	ast.Inspect(e, func(n ast.Node) bool {
		if id, ok := n.(*ast.Ident); ok && !found {
			if v, isV := info.Uses[id].(*types.Var); isV && !v.IsField() && el.Body != nil && el.Body.Pos() <= v.Pos() && v.Pos() < el.Body.End() {
				if r := resolveLocal(info, el.Body, id); r != ast.Expr(id) && usesElem(el, r) {
					found = true
				}
			}
		}
		return !found
	})
	return found
}

// elemLoopCalling finds a whole-slice loop in body over a slice accepted by base in which every iteration (no early
// exit) calls method m on the element of that iteration. el is the last candidate loop seen (for reports).
func elemLoopCalling(g *eng.Graph, info *types.Info, body ast.Node, base func(ast.Expr) bool, m *types.Func) (el *eng.ElemLoop, ok bool) {
	for _, l := range elemLoopsOver(info, body, base) {
		l := l
		el = l
		ok = loopNoEarlyExit(g, l.Stmt) && loopBodyMustPass(g, l.Stmt, func(n *eng.GNode) bool {
			return len(g.CallsAt(n, func(o types.Object, call *ast.CallExpr) bool {
				s, isS := ast.Unparen(call.Fun).(*ast.SelectorExpr)
				return o == m && isS && l.IsElem(s.X)
			})) > 0
		})
		if ok {
			return el, true
		}
	}
	return el, false
}

// isParamOf reports whether x names a parameter of the literal.
func isParamOf(info *types.Info, lit *ast.FuncLit, x ast.Expr) bool {
	o := eng.SelObj(info, x)
	if o == nil || lit.Type.Params == nil {
		return false
	}
	for _, fl := range lit.Type.Params.List {
		for _, nm := range fl.Names {
			if info.Defs[nm] == o {
				return true
			}
		}
	}
	return false
}

// nonConstFormatCalls lists the calls of fmt.Errorf/Sprintf/Printf/Fprintf/Sprint-style *f functions in f whose
// format argument is not a constant and that pass no further arguments: the text is interpreted as a format.
func nonConstFormatCalls(f *eng.Func) []*ast.CallExpr {
	var out []*ast.CallExpr
	if f.Decl.Body == nil {
		return nil
	}
	info := f.Pkg.TypesInfo
	ast.Inspect(f.Decl.Body, func(n ast.Node) bool {
		call, ok := n.(*ast.CallExpr)
		if !ok {
			return true
		}
		fn, ok := eng.CalleeOf(info, call).(*types.Func)
		if !ok || fn.Pkg() == nil || fn.Pkg().Path() != "fmt" {
			return true
		}
		idx := -1
		switch fn.Name() {
		case "Errorf", "Sprintf", "Printf":
			idx = 0
		case "Fprintf", "Appendf":
			idx = 1
		}
		if idx < 0 || len(call.Args) != idx+1 {
			return true
		}
		if tv, has := info.Types[call.Args[idx]]; has && tv.Value != nil {
			return true
		}
		out = append(out, call)
		return true
	})
	return out
}

// resolveLocal looks through a local variable that is assigned exactly once in body: it returns the assigned
// expression (repeatedly, at most three steps), or e itself.
func resolveLocal(info *types.Info, body ast.Node, e ast.Expr) ast.Expr {
	for i := 0; i < 3; i++ {
		id, ok := ast.Unparen(e).(*ast.Ident)
		if !ok {
			return e
		}
		v, isV := info.ObjectOf(id).(*types.Var)
		if !isV || v.IsField() {
			return e
		}
		es := eng.AssignedExprs(info, body, v)
		if len(es) != 1 {
			return e
		}
		e = es[0]
	}
	return e
}

// lenFact classifies a fact about the length of an expression accepted by isX: ok when the fact decides whether
// len(x) is zero; nonEmpty tells which. Covers == 0, != 0, > 0, >= 1, < 1, <= 0 in both polarities.
func lenFact(info *types.Info, fc eng.Fact, isX func(ast.Expr) bool) (nonEmpty bool, ok bool) {
	if fc.Y != nil {
		return false, false
	}
	b, isB := ast.Unparen(fc.X).(*ast.BinaryExpr)
	if !isB {
		return false, false
	}
	cl := builtinCall(info, b.X, "len")
	k, isK := eng.ConstInt(info, b.Y)
	if cl == nil || len(cl.Args) != 1 || !isX(cl.Args[0]) || !isK {
		return false, false
	}
	switch {
	case b.Op == token.GTR && k == 0, b.Op == token.NEQ && k == 0, b.Op == token.GEQ && k == 1:
		return fc.Pos, true
	case b.Op == token.EQL && k == 0, b.Op == token.LEQ && k == 0, b.Op == token.LSS && k == 1:
		return !fc.Pos, true
	}
	return false, false
}

// expandVariadic returns the arguments of call; a final `xs...` whose xs is (a local assigned once from) a slice
// literal is replaced by the literal's elements.
func expandVariadic(info *types.Info, body ast.Node, call *ast.CallExpr) []ast.Expr {
	if !call.Ellipsis.IsValid() || len(call.Args) == 0 {
		return call.Args
	}
	last := resolveLocal(info, body, call.Args[len(call.Args)-1])
	cl, ok := ast.Unparen(last).(*ast.CompositeLit)
	if !ok {
		return call.Args
	}
	out := append([]ast.Expr{}, call.Args[:len(call.Args)-1]...)
	for _, e := range cl.Elts {
		if _, isKV := e.(*ast.KeyValueExpr); isKV {
			return call.Args
		}
		out = append(out, e)
	}
	return out
}

// valueSources follows e through locals (every assignment of each, at most depth steps) and returns the leaf
// expressions its value can come from; a comma-ok assignment contributes its right-hand side.
func valueSources(info *types.Info, body ast.Node, e ast.Expr, depth int) []ast.Expr {
	var out []ast.Expr
	seen := map[types.Object]bool{}
	var rec func(e ast.Expr, d int)
	rec = func(e ast.Expr, d int) {
		// a conversion keeps the value
		if cl, isC := ast.Unparen(e).(*ast.CallExpr); isC && len(cl.Args) == 1 {
			if tv, has := info.Types[cl.Fun]; has && tv.IsType() {
				rec(cl.Args[0], d)
				return
			}
		}
		id, ok := ast.Unparen(e).(*ast.Ident)
		if !ok || d == 0 {
			out = append(out, e)
			return
		}
		v, isV := info.ObjectOf(id).(*types.Var)
		if !isV || v.IsField() || seen[v] {
			if !seen[v] {
				out = append(out, e)
			}
			return
		}
		seen[v] = true
		es := eng.AssignedExprs(info, body, v)
		if !isDeclaredIn(info, body, v) {
			out = append(out, e) // a parameter or captured variable: its incoming value
			if len(es) == 0 {
				return
			}
		}
		for _, x := range es {
			rec(x, d-1)
		}
	}
	rec(e, depth)
	return out
}

func isDeclaredIn(info *types.Info, body ast.Node, v *types.Var) bool {
	return body.Pos() <= v.Pos() && v.Pos() < body.End()
}

// reachingValues returns the expressions whose value e can have when control arrives at node `at`, considering only
// paths that are feasible under the assumption: e itself unless it is a local variable, else the right-hand sides of
// the assignments of that variable that reach `at` without being overwritten. reachable tells whether `at` can be
// reached at all; a nil element stands for "declared without a value" (the zero value); ok is false when an
// assignment cannot be attributed (tuple assignment, address taken).
func reachingValues(g *eng.Graph, info *types.Info, body ast.Node, at *eng.GNode, e ast.Expr, assumed func(eng.Fact) bool) (vals []ast.Expr, reachable bool, ok bool) {
	inf := g.Infeasible(assumed)
	feasible := g.Reach(eng.Query{FromEntry: true, Assume: assumed, AvoidEdge: inf})
	if !feasible[at] {
		return nil, false, true
	}
	id, isId := ast.Unparen(e).(*ast.Ident)
	var v *types.Var
	if isId {
		if vv, isV := info.ObjectOf(id).(*types.Var); isV && !vv.IsField() && isDeclaredIn(info, body, vv) {
			v = vv
		}
	}
	if v == nil {
		return []ast.Expr{e}, true, true
	}
	ok = true
	type def struct {
		n   *eng.GNode
		rhs ast.Expr
	}
	var defs []def
	isDef := map[*eng.GNode]bool{}
	for _, n := range g.Nodes {
		switch t := n.Node.(type) {
		case *ast.AssignStmt:
			for i, l := range t.Lhs {
				if lid, isL := ast.Unparen(l).(*ast.Ident); isL && info.ObjectOf(lid) == types.Object(v) {
					if len(t.Lhs) != len(t.Rhs) || (t.Tok != token.ASSIGN && t.Tok != token.DEFINE) {
						ok = false
						continue
					}
					defs = append(defs, def{n, t.Rhs[i]})
					isDef[n] = true
				}
			}
		case *ast.ValueSpec:
			for i, nm := range t.Names {
				if info.Defs[nm] == types.Object(v) {
					var rhs ast.Expr
					if len(t.Values) == len(t.Names) {
						rhs = t.Values[i]
					} else if len(t.Values) != 0 {
						ok = false
					}
					defs = append(defs, def{n, rhs})
					isDef[n] = true
				}
			}
		case *ast.UnaryExpr:
			if t.Op == token.AND && eng.SelObj(info, t.X) == types.Object(v) {
				ok = false
			}
		}
	}
	for _, d := range defs {
		if !feasible[d.n] {
			continue
		}
		r := g.Reach(eng.Query{FromAt: []*eng.GNode{d.n}, Assume: assumed, AvoidEdge: inf, AvoidNode: func(m *eng.GNode) bool { return isDef[m] && m != at }})
		if r[at] {
			vals = append(vals, d.rhs)
		}
	}
	return vals, true, ok
}

// constStringSet returns the constant strings of e when e is a slice literal of constants, a local assigned once from
// one, or a package-level variable initialised with one that the program never writes or takes the address of.
func constStringSet(p *eng.Prog, info *types.Info, body ast.Node, e ast.Expr) ([]string, bool) {
	e = ast.Unparen(resolveLocal(info, body, e))
	if id, isId := e.(*ast.Ident); isId {
		v, isV := info.ObjectOf(id).(*types.Var)
		if !isV || v.Pkg() == nil || v.Parent() != v.Pkg().Scope() {
			return nil, false
		}
		for _, ref := range p.Refs(v) {
			if ref.Write || ref.Addr {
				return nil, false
			}
		}
		var init ast.Expr
		for _, pk := range p.All {
			if pk.Types != v.Pkg() {
				continue
			}
			for _, file := range pk.Syntax {
				for _, d := range file.Decls {
					gd, isG := d.(*ast.GenDecl)
					if !isG {
						continue
					}
					for _, sp := range gd.Specs {
						if vs, isVS := sp.(*ast.ValueSpec); isVS && len(vs.Values) == len(vs.Names) {
							for i, nm := range vs.Names {
								if pk.TypesInfo.Defs[nm] == types.Object(v) {
									init = vs.Values[i]
									info = pk.TypesInfo
								}
							}
						}
					}
				}
			}
		}
		if init == nil {
			return nil, false
		}
		e = ast.Unparen(init)
	}
	cl, isL := e.(*ast.CompositeLit)
	if !isL {
		return nil, false
	}
	var out []string
	for _, el := range cl.Elts {
		k, isK := eng.ConstStr(info, el)
		if !isK {
			return nil, false
		}
		out = append(out, k)
	}
	return out, true
}

// sharedSliceSource looks at every assignment of the slice variable v in body and returns one whose value is not
// owned by the current call: owned are nil, make, composite literals, the results of allocating library calls
// (os.Environ, slices.Clone, slices.Concat), other locals that are owned, and append onto v itself or onto an owned
// slice. A field, a package variable, a re-slice of either (buf[:0]) or an unknown call result is not owned: the
// caller would share its backing array with other calls.
func sharedSliceSource(info *types.Info, body ast.Node, v *types.Var) ast.Expr {
	var isFresh func(e ast.Expr, depth int) bool
	isFresh = func(e ast.Expr, depth int) bool {
		e = ast.Unparen(e)
		if eng.IsNil(info, e) {
			return true
		}
		if depth > 3 {
			return false
		}
		switch t := e.(type) {
		case *ast.CompositeLit:
			return true
		case *ast.CallExpr:
			if builtinCall(info, t, "make") != nil {
				return true
			}
			if ap := builtinCall(info, t, "append"); ap != nil && len(ap.Args) >= 1 {
				return eng.SelObj(info, ap.Args[0]) == types.Object(v) || isFresh(ap.Args[0], depth+1)
			}
			o := eng.CalleeOf(info, t)
			return eng.IsPkgFunc(o, "os", "Environ") || eng.IsPkgFunc(o, "slices", "Clone") || eng.IsPkgFunc(o, "slices", "Concat")
		case *ast.Ident:
			if v2, isV2 := info.ObjectOf(t).(*types.Var); isV2 && !v2.IsField() && isDeclaredIn(info, body, v2) {
				if v2 == v {
					return true
				}
				es := eng.AssignedExprs(info, body, v2)
				for _, x := range es {
					if !isFresh(x, depth+1) {
						return false
					}
				}
				return true // declared without a value: nil
			}
		}
		return false
	}
	for _, e := range eng.AssignedExprs(info, body, v) {
		if !isFresh(e, 0) {
			return e
		}
	}
	return nil
}

// fieldStore is one place where a value is put into a struct field: an assignment `x.F = v` or the key `F: v` of a
// composite literal; Stmt is the statement that performs it.
type fieldStore struct {
	Val  ast.Expr
	Stmt ast.Node
}

// storesOfField lists the stores to fld in body (function literals excluded).
func storesOfField(info *types.Info, body ast.Node, fld *types.Var) []fieldStore {
	var out []fieldStore
	if fld == nil {
		return nil
	}
	var stmts []ast.Node
	var walk func(n ast.Node) bool
	walk = func(n ast.Node) bool {
		if n == nil {
			return true
		}
		if _, isLit := n.(*ast.FuncLit); isLit {
			return false
		}
		if st, isStmt := n.(ast.Stmt); isStmt {
			switch st.(type) {
			case *ast.BlockStmt, *ast.IfStmt, *ast.ForStmt, *ast.RangeStmt, *ast.SwitchStmt, *ast.TypeSwitchStmt, *ast.SelectStmt, *ast.CaseClause, *ast.CommClause, *ast.LabeledStmt:
			default:
				stmts = append(stmts, st)
				defer func() { stmts = stmts[:len(stmts)-1] }()
			}
		}
		cur := func() ast.Node {
			if len(stmts) > 0 {
				return stmts[len(stmts)-1]
			}
			return n
		}
		switch t := n.(type) {
		case *ast.AssignStmt:
			if len(t.Lhs) == len(t.Rhs) {
				for i, l := range t.Lhs {
					if eng.IsField(info, l, fld) {
						out = append(out, fieldStore{t.Rhs[i], t})
					}
				}
			}
		case *ast.CompositeLit:
			if v := litKeyValue(info, t, fld); v != nil {
				out = append(out, fieldStore{v, cur()})
			}
		}
		// children
		ast.Inspect(n, func(m ast.Node) bool {
			if m == n || m == nil {
				return true
			}
			walk(m)
			return false
		})
		return false
	}
	walk(body)
	return out
}

// resultSite is a place where the results of a function are decided: a `return a, b` with the expressions, or - when
// a return only forwards locals - a tuple assignment `x, y = a, b` to exactly those locals (the form the normaliser
// gives to the returns of an inlined helper).
type resultSite struct {
	Node *eng.GNode
	Vals []ast.Expr
}

func resultSites(g *eng.Graph, info *types.Info, body ast.Node) []resultSite {
	var out []resultSite
	for _, n := range g.Nodes {
		ret, ok := n.Node.(*ast.ReturnStmt)
		if !ok || len(ret.Results) == 0 {
			continue
		}
		var locals []types.Object
		for _, r := range ret.Results {
			id, isId := ast.Unparen(r).(*ast.Ident)
			if !isId {
				locals = nil
				break
			}
			v, isV := info.ObjectOf(id).(*types.Var)
			if !isV || v.IsField() || !isDeclaredIn(info, body, v) {
				locals = nil
				break
			}
			locals = append(locals, v)
		}
		forwarded := false
		if locals != nil && len(locals) > 1 {
			for _, m := range g.Nodes {
				as, isA := m.Node.(*ast.AssignStmt)
				if !isA || len(as.Lhs) != len(locals) || len(as.Rhs) != len(locals) {
					continue
				}
				same := true
				for i, l := range as.Lhs {
					if eng.SelObj(info, l) != locals[i] {
						same = false
					}
				}
				if same {
					forwarded = true
					out = append(out, resultSite{m, as.Rhs})
				}
			}
		}
		if !forwarded {
			out = append(out, resultSite{n, ret.Results})
		}
	}
	return out
}

// paramLike returns the parameter of sig whose type satisfies match when exactly one does, otherwise the parameter at
// the reference position idx (nil when out of range): rules name a parameter by what it is, so that reordering the
// parameters of a function does not change which one they look at.
func paramLike(sig *types.Signature, idx int, match func(types.Type) bool) *types.Var {
	var found *types.Var
	n := 0
	for i := 0; i < sig.Params().Len(); i++ {
		if match(sig.Params().At(i).Type()) {
			found = sig.Params().At(i)
			n++
		}
	}
	if n == 1 {
		return found
	}
	if idx < sig.Params().Len() {
		return sig.Params().At(idx)
	}
	return nil
}

// argLike is paramLike for the arguments of a call.
func argLike(info *types.Info, call *ast.CallExpr, idx int, match func(types.Type) bool) ast.Expr {
	var found ast.Expr
	n := 0
	for _, a := range call.Args {
		if tv, ok := info.Types[a]; ok && tv.Type != nil && match(tv.Type) {
			found = a
			n++
		}
	}
	if n == 1 {
		return found
	}
	if idx < len(call.Args) {
		return call.Args[idx]
	}
	return nil
}

func typeNamed(pkgSuffix, name string) func(types.Type) bool {
	return func(t types.Type) bool {
		if ptr, ok := t.(*types.Pointer); ok {
			t = ptr.Elem()
		}
		n, ok := t.(*types.Named)
		return ok && n.Obj().Name() == name && n.Obj().Pkg() != nil && strings.HasSuffix(n.Obj().Pkg().Path(), pkgSuffix)
	}
}

func sliceOfNamed(pkgSuffix, name string) func(types.Type) bool {
	el := typeNamed(pkgSuffix, name)
	return func(t types.Type) bool {
		s, ok := t.Underlying().(*types.Slice)
		return ok && el(s.Elem())
	}
}

// streamDecodedToEOF: f decodes a stream of documents (a loop around Decoder.Decode); it may report success only after
// the decoder answered io.EOF - every return of a nil error is reached only through an edge on which the decode error
// was found equal to io.EOF (err == io.EOF, errors.Is(err, io.EOF)). A loop that stops for another reason (e.g.
// `for dec.More()`, which is also false in front of a stray `}` or `]`) lets trailing garbage pass as success.
func streamDecodedToEOF(c *eng.Ctx, r *eng.RuleCtx, key string) {
	p := c.P
	f := r.NeedFunc(key)
	if f == nil {
		return
	}
	info := f.Pkg.TypesInfo
	g := p.GraphOf(f)
	eof := p.ExtObject("io", "EOF")
	nDecode := 0
	for _, n := range g.Nodes {
		nDecode += len(g.CallsAt(n, func(o types.Object, _ *ast.CallExpr) bool { return o != nil && o.Name() == "Decode" }))
	}
	if nDecode == 0 || eof == nil {
		r.Unknown(f.Key+" decodes-to-EOF", f.Decl.Pos(), "no Decode call found")
		return
	}
	isEOF := func(fc eng.Fact) bool {
		if !fc.Pos && fc.Y == nil {
			// !(err != io.EOF)
			if b, isB := ast.Unparen(fc.X).(*ast.BinaryExpr); isB && b.Op == token.NEQ && (eng.SelObj(info, b.X) == eof || eng.SelObj(info, b.Y) == eof) {
				return true
			}
			return false
		}
		if x, y, eq, isEq := eng.EqAtom(fc); isEq && eq && (eng.SelObj(info, x) == eof || eng.SelObj(info, y) == eof) {
			return true
		}
		if cl, isC := ast.Unparen(fc.X).(*ast.CallExpr); isC && fc.Pos && fc.Y == nil && len(cl.Args) == 2 && eng.IsPkgFunc(eng.CalleeOf(info, cl), "errors", "Is") && eng.SelObj(info, cl.Args[1]) == eof {
			return true
		}
		return false
	}
	ok := true
	nret := 0
	var pos token.Pos = f.Decl.Pos()
	for _, site := range resultSites(g, info, f.Decl.Body) {
		if len(site.Vals) == 0 || !eng.IsNil(info, site.Vals[len(site.Vals)-1]) {
			continue
		}
		nret++
		if !g.OnlyVia(site.Node, nil, g.FactEdge(isEOF)) {
			ok = false
			pos = site.Node.Node.Pos()
		}
	}
	r.Check(ok && nret > 0, f.Key+" decodes-to-EOF", pos, "success is returned only after the decoder reported io.EOF", "the stream decoder can report success without having reached the end of the input (the loop stops for another reason than io.EOF): a malformed tail - a stray `}` or `]` after a complete document - is silently ignored and the documents before it are applied")
}

// finalStoreIs decides, for the executions that start after `start` under the query's assumptions (NonNil, Assume), whether
// the field fld holds the string constant `want` at every exit of the function: the last store to the field on each
// path must be `want`, either directly (`x.F = want`) or through a local (`x.F = l` whose last store on the path was
// `l = want`, also in a parallel assignment). A path without any store, or one whose last store is another value,
// is reported with its position.
func finalStoreIs(g *eng.Graph, info *types.Info, start *eng.GNode, base eng.Query, fld *types.Var, want string) (bool, token.Pos, string) {
	type store struct {
		n   *eng.GNode
		val ast.Expr
	}
	storesTo := func(match func(ast.Expr) bool) []store {
		var out []store
		for _, n := range g.Nodes {
			switch t := n.Node.(type) {
			case *ast.AssignStmt:
				if len(t.Lhs) == len(t.Rhs) {
					for i, l := range t.Lhs {
						if match(l) {
							out = append(out, store{n, t.Rhs[i]})
						}
					}
				} else {
					for _, l := range t.Lhs {
						if match(l) {
							out = append(out, store{n, nil})
						}
					}
				}
			case *ast.ValueSpec:
				for i, nm := range t.Names {
					if match(nm) {
						if len(t.Values) == len(t.Names) {
							out = append(out, store{n, t.Values[i]})
						} else {
							out = append(out, store{n, nil})
						}
					}
				}
			case *ast.DeclStmt:
				if gd, ok := t.Decl.(*ast.GenDecl); ok {
					for _, sp := range gd.Specs {
						if vs, ok := sp.(*ast.ValueSpec); ok {
							for i, nm := range vs.Names {
								if match(nm) {
									if len(vs.Values) == len(vs.Names) {
										out = append(out, store{n, vs.Values[i]})
									} else {
										out = append(out, store{n, nil})
									}
								}
							}
						}
					}
				}
			}
		}
		return out
	}
	direct := storesTo(func(e ast.Expr) bool { return eng.IsField(info, e, fld) })
	isDirect := map[*eng.GNode]bool{}
	for _, s := range direct {
		isDirect[s.n] = true
	}
	q := func(from *eng.GNode, avoid map[*eng.GNode]bool) map[*eng.GNode]bool {
		qq := base
		qq.From, qq.FromAt, qq.FromEntry = []*eng.GNode{from}, nil, false
		qq.AvoidNode = func(n *eng.GNode) bool { return avoid[n] }
		return g.Reach(qq)
	}
	exitIn := func(m map[*eng.GNode]bool) bool {
		for n := range m {
			if n.Exit {
				return true
			}
		}
		return false
	}
	fromStart := q(start, isDirect)
	if exitIn(fromStart) {
		return false, start.Node.Pos(), "a path reaches the end of the function without any store to the field"
	}
	for _, s := range direct {
		if !fromStart[s.n] && !q(start, nil)[s.n] {
			continue
		}
		// is this store the last one on some path?
		if !exitIn(q(s.n, isDirect)) {
			continue
		}
		if s.val != nil {
			if c, isC := eng.ConstStr(info, s.val); isC {
				if c != want {
					return false, s.n.Node.Pos(), "the last store is the constant " + strconv.Quote(c)
				}
				continue
			}
		}
		id, isId := ast.Unparen(s.val).(*ast.Ident)
		lv, _ := eng.SelObj(info, id).(*types.Var)
		if s.val == nil || !isId || lv == nil || lv.IsField() {
			return false, s.n.Node.Pos(), "the last store is a value that is not a constant or a local"
		}
		local := storesTo(func(e ast.Expr) bool {
			x, ok := ast.Unparen(e).(*ast.Ident)
			return ok && eng.SelObj(info, x) == types.Object(lv)
		})
		isLocal := map[*eng.GNode]bool{}
		for _, t := range local {
			isLocal[t.n] = true
		}
		// the copy reached from the start without any store to the local: its initial value
		if q(start, isLocal)[s.n] {
			declaredBefore := false
			for _, t := range local {
				if t.val == nil && !q(start, nil)[t.n] {
					declaredBefore = true
				}
			}
			_ = declaredBefore
			return false, s.n.Node.Pos(), "the stored local " + lv.Name() + " can still hold the value it had before the run"
		}
		reachable := q(start, nil)
		for _, t := range local {
			if !reachable[t.n] {
				continue
			}
			if !q(t.n, isLocal)[s.n] {
				continue // overwritten before the copy on every path
			}
			c, isC := "", false
			if t.val != nil {
				c, isC = eng.ConstStr(info, t.val)
			}
			if !isC || c != want {
				return false, t.n.Node.Pos(), "the stored local " + lv.Name() + " is assigned another value here and then copied into the field"
			}
		}
	}
	return true, token.NoPos, ""
}

// defAt is one definition of a local variable that reaches a node: rhs is the assigned expression (nil: declared
// without a value); for `a, b := f()` rhs is the call and tuple tells which result.
type defAt struct {
	n     *eng.GNode
	rhs   ast.Expr
	tuple int // -1: rhs is the value itself
}

// reachingDefs lists the definitions of the local v that reach `at` on paths feasible under the assumption.
func reachingDefs(g *eng.Graph, info *types.Info, at *eng.GNode, v *types.Var, assumed func(eng.Fact) bool) []defAt {
	inf := g.Infeasible(assumed)
	feasible := g.Reach(eng.Query{FromEntry: true, Assume: assumed, AvoidEdge: inf})
	var defs []defAt
	isDef := map[*eng.GNode]bool{}
	add := func(n *eng.GNode, lhs []ast.Expr, rhs []ast.Expr) {
		for i, l := range lhs {
			lid, isL := ast.Unparen(l).(*ast.Ident)
			if !isL || info.ObjectOf(lid) != types.Object(v) {
				continue
			}
			isDef[n] = true
			switch {
			case len(lhs) == len(rhs):
				defs = append(defs, defAt{n, rhs[i], -1})
			case len(rhs) == 1:
				defs = append(defs, defAt{n, rhs[0], i})
			case len(rhs) == 0:
				defs = append(defs, defAt{n, nil, -1})
			}
		}
	}
	for _, n := range g.Nodes {
		switch t := n.Node.(type) {
		case *ast.AssignStmt:
			add(n, t.Lhs, t.Rhs)
		case *ast.ValueSpec:
			var lhs []ast.Expr
			for _, nm := range t.Names {
				lhs = append(lhs, nm)
			}
			add(n, lhs, t.Values)
		case *ast.DeclStmt:
			if gd, ok := t.Decl.(*ast.GenDecl); ok {
				for _, sp := range gd.Specs {
					if vs, ok := sp.(*ast.ValueSpec); ok {
						var lhs []ast.Expr
						for _, nm := range vs.Names {
							lhs = append(lhs, nm)
						}
						add(n, lhs, vs.Values)
					}
				}
			}
		}
	}
	var out []defAt
	for _, d := range defs {
		if !feasible[d.n] {
			continue
		}
		r := g.Reach(eng.Query{FromAt: []*eng.GNode{d.n}, Assume: assumed, AvoidEdge: inf, AvoidNode: func(m *eng.GNode) bool { return isDef[m] && m != at }})
		if r[at] {
			out = append(out, d)
		}
	}
	return out
}

// valueAt follows copies of locals backwards from node `at` under the assumption: the result is the expression that
// produced the value (a call, a literal, a parameter, ...) together with the node where it was produced and, for
// a multi-value call, which result. unique is false when two different definitions reach the use.
func valueAt(g *eng.Graph, info *types.Info, body ast.Node, at *eng.GNode, e ast.Expr, assumed func(eng.Fact) bool) (src ast.Expr, where *eng.GNode, tuple int, unique bool) {
	tuple = -1
	where = at
	for depth := 0; depth < 6; depth++ {
		e = ast.Unparen(e)
		id, isId := e.(*ast.Ident)
		if !isId {
			return e, where, tuple, true
		}
		v, isV := info.ObjectOf(id).(*types.Var)
		if !isV || v.IsField() {
			return e, where, tuple, true
		}
		if !isDeclaredIn(info, body, v) {
			// a parameter (or a captured variable): its incoming value is one more definition, made at the entry
			if v.Pkg() != nil && v.Parent() == v.Pkg().Scope() {
				return e, where, tuple, true
			}
			ds := reachingDefs(g, info, where, v, assumed)
			if len(ds) == 0 {
				return e, where, tuple, true
			}
			isDef := map[*eng.GNode]bool{}
			for _, n := range g.Nodes {
				if as, ok := n.Node.(*ast.AssignStmt); ok {
					for _, l := range as.Lhs {
						if lid, isL := ast.Unparen(l).(*ast.Ident); isL && info.ObjectOf(lid) == types.Object(v) {
							isDef[n] = true
						}
					}
				}
			}
			incoming := g.Reach(eng.Query{FromEntry: true, Assume: assumed, AvoidEdge: g.Infeasible(assumed), AvoidNode: func(m *eng.GNode) bool { return isDef[m] && m != where }})[where]
			if incoming || len(ds) != 1 {
				return e, where, tuple, false
			}
			d := ds[0]
			if d.rhs == nil || d.tuple >= 0 {
				return d.rhs, d.n, d.tuple, true
			}
			e, where = d.rhs, d.n
			continue
		}
		ds := reachingDefs(g, info, where, v, assumed)
		if os.Getenv("SOPVERIF_DEBUG") != "" {
			for _, d := range ds {
				fmt.Fprintf(os.Stderr, "valueAt %s at %s: def %s\n", v.Name(), g.P.Rel(where.Node.Pos()), g.P.Rel(d.n.Node.Pos()))
			}
		}
		if len(ds) != 1 {
			return e, where, tuple, len(ds) == 0
		}
		d := ds[0]
		if d.rhs == nil {
			return nil, d.n, -1, true // declared without a value
		}
		if d.tuple >= 0 {
			return d.rhs, d.n, d.tuple, true
		}
		e, where = d.rhs, d.n
	}
	return e, where, tuple, true
}

// reachingFieldStore finds the stores into a field of the struct behind the local resV (assignments `resV.a.F = x`, or
// the key F of a composite literal when litKey is given) that reach node rn on paths feasible under the assumption
// without being overwritten: the value and node of the last one found, how many reach, and whether rn is also reached without any.
func reachingFieldStore(g *eng.Graph, info *types.Info, rn *eng.GNode, resV *types.Var, isField func(ast.Expr) bool, litKey string, assumed func(eng.Fact) bool) (val ast.Expr, at *eng.GNode, n int, bare bool) {
	inf := g.Infeasible(assumed)
	feasible := g.Reach(eng.Query{FromEntry: true, Assume: assumed, AvoidEdge: inf})
	var stores []*eng.GNode
	vals := map[*eng.GNode]ast.Expr{}
	for _, m := range g.Nodes {
		if !feasible[m] || m.Node == nil {
			continue
		}
		eng.InspectNoLit(m.Node, func(x ast.Node) bool {
			switch t := x.(type) {
			case *ast.AssignStmt:
				if len(t.Lhs) == len(t.Rhs) {
					for i, l := range t.Lhs {
						if isField(l) && rootIs(info, l, resV) {
							stores = append(stores, m)
							vals[m] = t.Rhs[i]
						}
					}
				}
			case *ast.CompositeLit:
				if litKey == "" {
					return true
				}
				for _, el := range t.Elts {
					if kv, isKV := el.(*ast.KeyValueExpr); isKV {
						if id, isI := kv.Key.(*ast.Ident); isI && id.Name == litKey && isField(&ast.SelectorExpr{X: ast.NewIdent("_"), Sel: id}) {
							stores = append(stores, m)
							vals[m] = kv.Value
						}
					}
				}
			}
			return true
		})
	}
	isStore := map[*eng.GNode]bool{}
	for _, m := range stores {
		isStore[m] = true
	}
	for _, m := range stores {
		rr := g.Reach(eng.Query{FromAt: []*eng.GNode{m}, Assume: assumed, AvoidEdge: inf, AvoidNode: func(x *eng.GNode) bool { return isStore[x] && x != rn }})
		if rr[rn] {
			val, at = vals[m], m
			n++
		}
	}
	// bare: the node is also reached without any of the stores (the field keeps what it had)
	bare = g.Reach(eng.Query{FromEntry: true, Assume: assumed, AvoidEdge: inf, AvoidNode: func(x *eng.GNode) bool { return isStore[x] && x != rn }})[rn]
	return
}

// copyAliases groups the local variables of body that are connected by plain copies (`a = b`, also as one position of
// a parallel assignment or of a declaration): for values of reference kind (pointers, maps, slices, interfaces) the
// members of a group name the same object wherever the copy was executed. The result tells whether two variables
// are in one group. The normaliser hands results of an inlined helper over through such copies.
func copyAliases(info *types.Info, body ast.Node) func(a, b types.Object) bool {
	parent := map[types.Object]types.Object{}
	var find func(o types.Object) types.Object
	find = func(o types.Object) types.Object {
		if p, ok := parent[o]; ok && p != o {
			r := find(p)
			parent[o] = r
			return r
		}
		return o
	}
	local := func(e ast.Expr) types.Object {
		// a field selection stands for the field (of whatever struct value): coarse, but copies out of a result struct
		// (`xs := res.Items`) are what connects the code before and after an accumulate-in-place refactoring
		if sel, isSel := ast.Unparen(e).(*ast.SelectorExpr); isSel {
			if fv, isF := info.Uses[sel.Sel].(*types.Var); isF && fv.IsField() {
				switch fv.Type().Underlying().(type) {
				case *types.Pointer, *types.Map, *types.Slice, *types.Interface, *types.Chan, *types.Signature:
					return fv
				}
			}
			return nil
		}
		id, ok := ast.Unparen(e).(*ast.Ident)
		if !ok {
			return nil
		}
		v, isV := info.ObjectOf(id).(*types.Var)
		if !isV || v.IsField() || (v.Pkg() != nil && v.Parent() == v.Pkg().Scope()) {
			return nil
		}
		switch v.Type().Underlying().(type) {
		case *types.Pointer, *types.Map, *types.Slice, *types.Interface, *types.Chan, *types.Signature:
			return v
		}
		return nil
	}
	union := func(l, r ast.Expr) {
		a, b := local(l), local(r)
		if a == nil || b == nil || !types.Identical(a.Type(), b.Type()) {
			return
		}
		ra, rb := find(a), find(b)
		if ra != rb {
			parent[ra] = rb
		}
	}
	ast.Inspect(body, func(n ast.Node) bool {
		switch t := n.(type) {
		case *ast.AssignStmt:
			if len(t.Lhs) == len(t.Rhs) && (t.Tok == token.ASSIGN || t.Tok == token.DEFINE) {
				for i := range t.Lhs {
					union(t.Lhs[i], t.Rhs[i])
				}
			}
		case *ast.ValueSpec:
			if len(t.Names) == len(t.Values) {
				for i := range t.Names {
					union(t.Names[i], t.Values[i])
				}
			}
		}
		return true
	})
	return func(a, b types.Object) bool {
		if a == nil || b == nil {
			return false
		}
		return a == b || find(a) == find(b)
	}
}

// fieldOrAccessor: e selects the field fld, or calls an argument-free method whose whole body is `return x.fld`.
func fieldOrAccessor(p *eng.Prog, info *types.Info, e ast.Expr, fld *types.Var) bool {
	if eng.IsField(info, e, fld) {
		return true
	}
	call, ok := ast.Unparen(e).(*ast.CallExpr)
	if !ok || len(call.Args) != 0 {
		return false
	}
	fn, isF := eng.CalleeOf(info, call).(*types.Func)
	if !isF {
		return false
	}
	f := p.FuncOf(fn)
	if f == nil || f.Decl.Body == nil || len(f.Decl.Body.List) != 1 {
		return false
	}
	ret, isR := f.Decl.Body.List[0].(*ast.ReturnStmt)
	return isR && len(ret.Results) == 1 && eng.IsField(f.Pkg.TypesInfo, ret.Results[0], fld)
}

// liftLocals widens an assumption about fields and parameters to the locals that merely carry them: a fact whose
// operand is a local variable is judged on the expression that produced the local's value on the paths of the
// scenario (`n := cfg.Limit ... if n != 0` is a fact about cfg.Limit). The value is looked up at the node where the
// fact is consulted, with the unwidened assumption (no recursion); a local with two possible sources, or one whose
// source is a call, stays unknown.
func liftLocals(g *eng.Graph, info *types.Info, body ast.Node, base func(eng.Fact) bool) func(eng.Fact) bool {
	busy := false
	pure := func(e ast.Expr) bool {
		ok := true
		ast.Inspect(e, func(n ast.Node) bool {
			switch n.(type) {
			case *ast.CallExpr, *ast.FuncLit, *ast.UnaryExpr:
				ok = false
			}
			return ok
		})
		return ok
	}
	source := func(at *eng.GNode, e ast.Expr) ast.Expr {
		id, isId := ast.Unparen(e).(*ast.Ident)
		if !isId {
			return nil
		}
		v, isV := info.ObjectOf(id).(*types.Var)
		if !isV || v.IsField() || !isDeclaredIn(info, body, v) {
			return nil
		}
		busy = true
		src, _, tup, uniq := valueAt(g, info, body, at, e, base)
		busy = false
		if !uniq || src == nil || tup >= 0 || src == ast.Expr(id) || !pure(src) {
			return nil
		}
		return src
	}
	return func(fc eng.Fact) bool {
		if base(fc) {
			return true
		}
		if busy || fc.At == nil {
			return false
		}
		if fc.Y != nil { // switch tag == case value
			if s := source(fc.At, fc.X); s != nil {
				return base(eng.Fact{X: s, Y: fc.Y, Pos: fc.Pos, At: fc.At})
			}
			return false
		}
		b, isB := ast.Unparen(fc.X).(*ast.BinaryExpr)
		if !isB {
			if s := source(fc.At, fc.X); s != nil {
				return base(eng.Fact{X: s, Pos: fc.Pos, At: fc.At})
			}
			return false
		}
		nx, ny := b.X, b.Y
		changed := false
		if s := source(fc.At, b.X); s != nil {
			nx, changed = s, true
		}
		if s := source(fc.At, b.Y); s != nil {
			ny, changed = s, true
		}
		if !changed {
			return false
		}
		// both sides constant after the substitution (`n := 0 ... if n != 0`): the comparison decides itself
		if tx, okX := info.Types[nx]; okX && tx.Value != nil {
			if ty, okY := info.Types[ny]; okY && ty.Value != nil {
				switch b.Op {
				case token.EQL, token.NEQ, token.LSS, token.LEQ, token.GTR, token.GEQ:
					return constant.Compare(tx.Value, b.Op, ty.Value) == fc.Pos
				}
			}
		}
		return base(eng.Fact{X: &ast.BinaryExpr{X: nx, OpPos: b.OpPos, Op: b.Op, Y: ny}, Pos: fc.Pos, At: fc.At})
	}
}
