package rules

import (
	"fmt"
	"go/ast"
	"go/token"
	"go/types"

	"sopverif/eng"
)

func init() {
	register(&Property{
		ID:    "C17",
		Title: "Shutdown stops the queues cleanly",
		Explanation: "Decided on the queue worker, waitForTask, TaskQueueSet and ShellOperator.Shutdown: (R1) between two handler calls the " +
			"worker always passes a test of its context's Done channel whose taken branch returns; waitForTask tests Done before it can " +
			"return a task on every path (entry test and every iteration of the wait loop) and returns nil there, and nil makes the " +
			"worker return; (R2) every queue's context is derived from the queue set's context, which Stop cancels (shutdown is a sticky " +
			"state inherited by queues created later, not a one-shot action over the current map); (R3) Shutdown stops the schedule " +
			"manager, pauses event handling in every informer (static, varying, namespace) and stops the queues, in this order, then " +
			"waits; a paused informer returns before doing anything. The worker never blocks in a wait that does not watch its context (R1). NOT decided: 'as soon as' (timing), the window between the last " +
			"context test and GetFirst, data races on the plain `stopped` booleans.",
		Run: runC17,
	})
}

// isDoneRecv: the node tests the context stored in field ctxFld: it receives from <recv>.ctx.Done() (a select
// clause) or calls <recv>.ctx.Err() (`if q.ctx.Err() != nil`).
func isDoneRecv(info *types.Info, n ast.Node, ctxFld *types.Var) bool {
	found := false
	eng.InspectNoLit(n, func(m ast.Node) bool {
		switch u := m.(type) {
		case *ast.UnaryExpr:
			if u.Op != token.ARROW {
				return true
			}
			cl, isC := ast.Unparen(u.X).(*ast.CallExpr)
			if !isC {
				return true
			}
			s, isS := ast.Unparen(cl.Fun).(*ast.SelectorExpr)
			if isS && s.Sel.Name == "Done" && eng.IsField(info, s.X, ctxFld) {
				found = true
			}
		case *ast.CallExpr:
			if isCtxErrCall(info, u, ctxFld) {
				found = true
			}
		}
		return true
	})
	return found
}

func isCtxErrCall(info *types.Info, e ast.Expr, ctxFld *types.Var) bool {
	cl, ok := ast.Unparen(e).(*ast.CallExpr)
	if !ok || len(cl.Args) != 0 {
		return false
	}
	s, isS := ast.Unparen(cl.Fun).(*ast.SelectorExpr)
	return isS && s.Sel.Name == "Err" && eng.IsField(info, s.X, ctxFld)
}

// stoppingTests classifies the context tests of a body: a test (`case <-ctx.Done():` of a select, or an expression
// with ctx.Err()) is kept when, once it has seen the cancelled context, accept holds for the set of nodes that can
// still be reached. The returned predicate matches the graph nodes of the kept tests (for a select clause also the
// evaluation of its channel operand in front of the select, which every path through the select passes);
// n is the number of tests found and all tells whether all were kept.
func stoppingTests(g *eng.Graph, info *types.Info, ctxFld *types.Var, accept func(reach map[*eng.GNode]bool) bool) (is func(*eng.GNode) bool, n int, all bool) {
	errIsNil := func(fc eng.Fact) (eq bool, ok bool) {
		x, y, e, isEq := eng.EqAtom(fc)
		if !isEq {
			return false, false
		}
		if (isCtxErrCall(info, x, ctxFld) && eng.IsNil(info, y)) || (isCtxErrCall(info, y, ctxFld) && eng.IsNil(info, x)) {
			return e, true
		}
		return false, false
	}
	cancelled := func(fc eng.Fact) bool {
		eq, ok := errIsNil(fc)
		return ok && !eq
	}
	kept := map[ast.Node]bool{}
	seen := map[ast.Node]bool{}
	judge := func(test ast.Node, reach map[*eng.GNode]bool) {
		if !seen[test] {
			seen[test] = true
			n++
		}
		if accept(reach) {
			kept[test] = true
		}
	}
	for _, gn := range g.Nodes {
		if gn.Node == nil {
			// the body of a select clause that received from ctx.Done()
			if cc, isCC := gn.Block.Stmt.(*ast.CommClause); isCC && gn.Block.Kind.String() == "SelectCaseBody" && cc.Comm != nil && isDoneRecv(info, cc.Comm, ctxFld) {
				judge(cc.Comm, g.Reach(eng.Query{From: []*eng.GNode{gn}}))
			}
			continue
		}
		if !isDoneRecv(info, gn.Node, ctxFld) {
			continue
		}
		hasRecv := false
		eng.InspectNoLit(gn.Node, func(m ast.Node) bool {
			if u, isU := m.(*ast.UnaryExpr); isU && u.Op == token.ARROW {
				hasRecv = true
			}
			return true
		})
		if hasRecv {
			if !seen[gn.Node] {
				seen[gn.Node] = true // a receive outside a select clause is kept only if a clause body is found for it
				n++
			}
			continue
		}
		judge(gn.Node, g.Reach(eng.Query{FromAt: []*eng.GNode{gn}, Assume: cancelled, AvoidEdge: g.Infeasible(cancelled)}))
	}
	all = len(kept) == n
	is = func(gn *eng.GNode) bool { return gn.Node != nil && kept[gn.Node] }
	return
}

func runC17(c *eng.Ctx) {
	p := c.P
	ctxFld := p.Field(pkgQueue, "TaskQueue", "ctx")
	handler := p.Field(pkgQueue, "TaskQueue", "Handler")
	r1 := c.Rule("C17.R1", "B:must-pass", "worker: a Done test (whose branch returns) lies on every path from a handler call to the next one; waitForTask: a Done test (returning nil) lies on every path to a returned task, and in every iteration of the wait loop; nil stops the worker", 6)
	start := r1.NeedFunc(pkgQueue + ".(*TaskQueue).Start")
	w := r1.NeedFunc(pkgQueue + ".(*TaskQueue).waitForTask")
	if start != nil && w != nil && ctxFld != nil && handler != nil {
		info := start.Pkg.TypesInfo
		gl := goLits(start)
		if len(gl) != 1 {
			r1.Unknown(start.Key, start.Decl.Pos(), "expected one worker literal")
		} else {
			worker := gl[0]
			g := p.GraphOfLit(worker)
			var hnode *eng.GNode
			for _, s := range p.Sites(handler) {
				if s.InLit == worker {
					hnode = g.NodeOf(s.Call)
				}
			}
			waitFor := p.Method(pkgQueue, "TaskQueue", "waitForTask")
			var wnode *eng.GNode
			for _, n := range g.NodesCalling(waitFor) {
				wnode = n
			}
			if hnode == nil || wnode == nil {
				r1.Unknown(start.Key+"$worker", worker.Lit.Pos(), "handler / waitForTask call not found")
			} else {
				// a context test of the worker counts when, after it saw the cancelled context, neither another task
				// is waited for nor a handler run
				isDone, n, all := stoppingTests(g, info, ctxFld, func(reach map[*eng.GNode]bool) bool { return !reach[hnode] && !reach[wnode] })
				// from the handler call, avoiding Done tests, the next handler call is unreachable
				reach := g.Reach(eng.Query{From: []*eng.GNode{hnode}, AvoidNode: isDone})
				r1.Check(!reach[hnode], start.Key+"$worker done-test-after-handler", hnode.Node.Pos(), "a Done test lies between two handler calls", "after a handler returned the worker can pick and run the next task without looking at its context: after shutdown was requested another task is started")
				r1.Check(n > 0 && all, start.Key+"$worker done-branch-returns", worker.Lit.Pos(), "the Done branch returns from the worker", "the Done branch of the worker does not terminate the goroutine")
				// nil from waitForTask: worker returns without calling the handler
				var tv types.Object
				if as, isA := wnode.Node.(*ast.AssignStmt); isA && len(as.Lhs) == 1 {
					tv = eng.SelObj(info, as.Lhs[0])
				}
				nilEdge := g.FactEdge(func(fc eng.Fact) bool {
					x, y, eq, isEq := eng.EqAtom(fc)
					return isEq && eq && tv != nil && eng.SelObj(info, x) == tv && eng.IsNil(info, y)
				})
				// scenario: waitForTask returned nil - neither a handler call nor another wait is reachable (the nil-ness
				// of the task is followed through copies)
				okNil := false
				for _, m := range g.Nodes {
					for _, e := range m.Succ {
						if nilEdge(e) {
							okNil = true
						}
					}
				}
				if okNil && tv != nil {
					reachNil := g.Reach(eng.Query{From: []*eng.GNode{wnode}, Nil: []types.Object{tv}})
					if reachNil[hnode] || reachNil[wnode] {
						okNil = false
					}
				}
				r1.Check(okNil, start.Key+"$worker nil-stops", wnode.Node.Pos(), "a nil task ends the worker", "when waitForTask returns nil (context cancelled) the worker does not terminate")
			}
		}
		// waitForTask
		winfo := w.Pkg.TypesInfo
		wg := p.GraphOf(w)
		// a context test of waitForTask counts when, after it saw the cancelled context, only `return nil` can follow
		isDoneW, nW, allW := stoppingTests(wg, winfo, ctxFld, func(reach map[*eng.GNode]bool) bool {
			nilRet := 0
			for m := range reach {
				if ret, isR := m.Node.(*ast.ReturnStmt); isR {
					if len(ret.Results) != 1 || !eng.IsNil(winfo, ret.Results[0]) {
						return false
					}
					nilRet++
				}
			}
			return nilRet > 0
		})
		nret := 0
		for _, n := range wg.Nodes {
			ret, isR := n.Node.(*ast.ReturnStmt)
			if !isR || len(ret.Results) != 1 || eng.IsNil(winfo, ret.Results[0]) {
				continue
			}
			nret++
			r1.Check(wg.OnlyVia(n, isDoneW, nil), fmt.Sprintf("%s done-test-before-return#%d", w.Key, nret), ret.Pos(), "a task is returned only after the context was tested", "waitForTask can return a task without having tested the context: a queue with pending tasks and no delay runs one more task after shutdown")
		}
		if nret == 0 {
			r1.Unknown(w.Key+" returns", w.Decl.Pos(), "no `return q.GetFirst()`")
		}
		r1.Check(nW >= 1 && allW, w.Key+" done-branch-returns-nil", w.Decl.Pos(), "every Done branch returns nil", "a Done branch of waitForTask does not return nil")
		// the wait loop tests Done in every iteration
		var loop *ast.ForStmt
		eng.InspectNoLit(w.Decl.Body, func(m ast.Node) bool {
			if fs, isF := m.(*ast.ForStmt); isF && loop == nil {
				loop = fs
			}
			return true
		})
		if loop == nil {
			r1.Ok(w.Key+" no-wait-loop", w.Decl.Pos(), "no wait loop")
		} else {
			r1.Check(loopBodyMustPass(wg, loop, isDoneW), w.Key+" wait-loop-tests-done", loop.Pos(), "every iteration of the wait loop passes a Done test", "an iteration of the wait loop can complete without looking at the context: a queue that waits (empty, or in a back-off delay) does not notice the shutdown")
		}
	}

	// no uninterruptible wait between two context tests: a time.Sleep (or a bare receive from a timer) inside the
	// worker loop or waitForTask delays the reaction to a shutdown by the whole wait and lets one more task start
	if start != nil && w != nil && ctxFld != nil {
		check := func(f *eng.Func, body ast.Node, label string) {
			info := f.Pkg.TypesInfo
			bad := ""
			var pos token.Pos = f.Decl.Pos()
			var stack []ast.Node
			ast.Inspect(body, func(n ast.Node) bool {
				if n == nil {
					stack = stack[:len(stack)-1]
					return true
				}
				stack = append(stack, n)
				switch t := n.(type) {
				case *ast.CallExpr:
					if eng.IsPkgFunc(eng.CalleeOf(info, t), "time", "Sleep") {
						bad = "time.Sleep"
						pos = t.Pos()
					}
				case *ast.UnaryExpr:
					if t.Op != token.ARROW {
						break
					}
					// allowed: a receive that is the communication of a select which also has a Done clause
					inSelectWithDone := false
					for i := len(stack) - 1; i >= 0; i-- {
						if sel, isSel := stack[i].(*ast.SelectStmt); isSel {
							for _, cl := range sel.Body.List {
								if cc, isCC := cl.(*ast.CommClause); isCC && cc.Comm != nil && isDoneRecv(info, cc.Comm, ctxFld) {
									inSelectWithDone = true
								}
							}
							break
						}
					}
					if !inSelectWithDone {
						bad = "a blocking receive outside a select with a Done clause"
						pos = t.Pos()
					}
				}
				return true
			})
			r1.Check(bad == "", f.Key+label+" no-uninterruptible-wait", pos, "every wait is a select that also watches the context", "the worker can block in "+bad+" without watching its context: a shutdown requested during that wait goes unnoticed and one more task is started after it")
		}
		check(w, w.Decl.Body, "")
		if gl := goLits(start); len(gl) == 1 {
			check(start, gl[0].Lit.Body, "$worker")
		}
	}

	// ---- R2
	r2 := c.Rule("C17.R2", "D:provenance", "queue contexts derive from the set's context; TaskQueueSet.Stop cancels the set's context; TaskQueue.WithContext derives from its argument", 4)
	if f := r2.NeedFunc(pkgQueue + ".(*TaskQueueSet).NewNamedQueue"); f != nil {
		info := f.Pkg.TypesInfo
		setCtx := p.Field(pkgQueue, "TaskQueueSet", "ctx")
		withCtx := p.Method(pkgQueue, "TaskQueue", "WithContext")
		ok := false
		for _, call := range callsIn(info, f.Decl.Body, isObj(withCtx)) {
			if len(call.Args) == 1 && eng.IsField(info, call.Args[0], setCtx) {
				ok = true
			}
		}
		// must happen on every path
		g := p.GraphOf(f)
		if ok {
			ex := g.MustPassToExit(eng.Query{FromEntry: true}, func(n *eng.GNode) bool { return len(g.CallsAt(n, isObj(withCtx))) > 0 })
			ok = ex == nil
		}
		r2.Check(ok, f.Key, f.Decl.Pos(), "q.WithContext(tqs.ctx)", "a new queue does not inherit the queue set's context (e.g. context.Background()): stopping the set does not stop this queue")
	}
	for _, wc := range []struct{ typ string }{{"TaskQueue"}, {"TaskQueueSet"}} {
		f := r2.NeedFunc(pkgQueue + ".(*" + wc.typ + ").WithContext")
		if f == nil {
			continue
		}
		info := f.Pkg.TypesInfo
		prm := f.Obj.Type().(*types.Signature).Params().At(0)
		ctxF := p.Field(pkgQueue, wc.typ, "ctx")
		cancelF := p.Field(pkgQueue, wc.typ, "cancel")
		ok := false
		eng.InspectNoLit(f.Decl.Body, func(n ast.Node) bool {
			as, isA := n.(*ast.AssignStmt)
			if !isA || len(as.Lhs) != 2 || len(as.Rhs) != 1 {
				return true
			}
			cl, isC := ast.Unparen(as.Rhs[0]).(*ast.CallExpr)
			if isC && eng.IsPkgFunc(eng.CalleeOf(info, cl), "context", "WithCancel") && eng.SelObj(info, cl.Args[0]) == prm && eng.IsField(info, as.Lhs[0], ctxF) && eng.IsField(info, as.Lhs[1], cancelF) {
				ok = true
			}
			return true
		})
		r2.Check(ok, f.Key, f.Decl.Pos(), "ctx, cancel = context.WithCancel(parent)", "the stored context is not a cancellable child of the given parent")
	}
	if f := r2.NeedFunc(pkgQueue + ".(*TaskQueueSet).Stop"); f != nil {
		info := f.Pkg.TypesInfo
		g := p.GraphOf(f)
		cancelF := p.Field(pkgQueue, "TaskQueueSet", "cancel")
		isCancel := func(n *eng.GNode) bool {
			return len(g.CallsAt(n, func(o types.Object, _ *ast.CallExpr) bool { return o == cancelF })) > 0
		}
		nilEdge := g.FactEdge(func(fc eng.Fact) bool {
			x, y, eq, isEq := eng.EqAtom(fc)
			return isEq && eq && eng.IsField(info, x, cancelF) && eng.IsNil(info, y)
		})
		ex := g.MustPassToExit(eng.Query{FromEntry: true, AvoidEdge: nilEdge}, isCancel)
		any := false
		for _, n := range g.Nodes {
			if isCancel(n) {
				any = true
			}
		}
		r2.Check(any && ex == nil, f.Key, f.Decl.Pos(), "cancels the set's context (when set)", "TaskQueueSet.Stop does not cancel the set's own context: queues that are created (or replaced) around the shutdown keep running")
	}

	// ---- R3
	r3 := c.Rule("C17.R3", "B:order", "Shutdown: ScheduleManager.Stop < KubeEventsManager.PauseHandleEvents < TaskQueues.Stop < WaitStopWithTimeout; PauseHandleEvents reaches every monitor and every informer; a stopped informer ignores events", 6)
	if f := r3.NeedFunc(pkgOp + ".(*ShellOperator).Shutdown"); f != nil {
		g := p.GraphOf(f)
		find := func(name, recv string) *eng.GNode {
			var out *eng.GNode
			for _, n := range g.Nodes {
				if len(g.CallsAt(n, func(o types.Object, _ *ast.CallExpr) bool {
					fn, ok := o.(*types.Func)
					if !ok || fn.Name() != name {
						return false
					}
					rn := eng.RecvNamed(fn)
					return rn != nil && rn.Obj().Name() == recv
				})) > 0 {
					out = n
				}
			}
			return out
		}
		chain := []struct{ name, recv string }{{"Stop", "ScheduleManager"}, {"PauseHandleEvents", "KubeEventsManager"}, {"Stop", "TaskQueueSet"}, {"WaitStopWithTimeout", "TaskQueueSet"}}
		var prev *eng.GNode
		prevName := ""
		for _, st := range chain {
			n := find(st.name, st.recv)
			label := st.recv + "." + st.name
			if n == nil {
				r3.Bad(f.Key+" calls "+label, f.Decl.Pos(), "Shutdown does not call "+label)
				prev = nil
				continue
			}
			ex := g.MustPassToExit(eng.Query{FromEntry: true}, func(m *eng.GNode) bool { return m == n })
			okAll := ex == nil
			if prev != nil {
				pn := prev
				okAll = okAll && g.OnlyVia(n, func(m *eng.GNode) bool { return m == pn }, nil)
			}
			r3.Check(okAll, f.Key+" "+label, n.Node.Pos(), "called on every path, after "+prevName, label+" is not called on every path of Shutdown after "+prevName)
			prev, prevName = n, label
		}
	}
	// PauseHandleEvents sweeps
	if f := r3.NeedFunc(pkgKem + ".(*kubeEventsManager).PauseHandleEvents"); f != nil {
		info := f.Pkg.TypesInfo
		g := p.GraphOf(f)
		monitors := p.Field(pkgKem, "kubeEventsManager", "Monitors")
		var loop *ast.RangeStmt
		eng.InspectNoLit(f.Decl.Body, func(n ast.Node) bool {
			if rs, ok := n.(*ast.RangeStmt); ok && eng.IsField(info, rs.X, monitors) {
				loop = rs
			}
			return true
		})
		ok := false
		if loop != nil && loop.Value != nil {
			elem := eng.SelObj(info, loop.Value)
			ok = loopNoEarlyExit(g, loop) && loopBodyMustPass(g, loop, func(n *eng.GNode) bool {
				return len(g.CallsAt(n, func(o types.Object, call *ast.CallExpr) bool {
					s, isS := ast.Unparen(call.Fun).(*ast.SelectorExpr)
					return o != nil && nameOf(o) == "PauseHandleEvents" && isS && eng.SelObj(info, s.X) == elem
				})) > 0
			})
		}
		r3.Check(ok, f.Key, f.Decl.Pos(), "every monitor is paused", "not every monitor is paused at shutdown: its informers keep producing events")
	}
	if f := r3.NeedFunc(pkgKem + ".(*monitor).PauseHandleEvents"); f != nil {
		info := f.Pkg.TypesInfo
		g := p.GraphOf(f)
		resInf := p.Field(pkgKem, "monitor", "ResourceInformers")
		nsInf := p.Field(pkgKem, "monitor", "NamespaceInformer")
		pause := p.Method(pkgKem, "resourceInformer", "pauseHandleEvents")
		rangeValue := p.Method(pkgKem, "varyingInformers", "RangeValue")
		_, static := elemLoopCalling(g, info, f.Decl.Body, func(x ast.Expr) bool { return eng.IsField(info, x, resInf) }, pause)
		varying := false
		for _, l := range litsPassedTo(f, info, rangeValue) {
			l := l
			lg := p.GraphOfLit(l)
			_, varying = elemLoopCalling(lg, info, l.Lit.Body, func(x ast.Expr) bool { return isParamOf(info, l.Lit, x) }, pause)
			// the sweep itself on every path
			if n := g.NodeOf(l.ArgOf); n != nil && varying {
				varying = g.MustPassToExit(eng.Query{FromEntry: true}, func(m *eng.GNode) bool { return m == n }) == nil
			}
		}
		ns := false
		for _, call := range callsIn(info, f.Decl.Body, func(o types.Object, _ *ast.CallExpr) bool { return o != nil && nameOf(o) == "pauseHandleEvents" }) {
			if s, isS := ast.Unparen(call.Fun).(*ast.SelectorExpr); isS && eng.IsField(info, s.X, nsInf) {
				n := g.NodeOf(call)
				nilNs := g.FactEdge(func(fc eng.Fact) bool {
					x, y, eq, isEq := eng.EqAtom(fc)
					return isEq && eq && eng.IsField(info, x, nsInf) && eng.IsNil(info, y)
				})
				ns = n != nil && g.MustPassToExit(eng.Query{FromEntry: true, AvoidEdge: nilNs}, func(m *eng.GNode) bool { return m == n }) == nil
			}
		}
		r3.Check(static && varying && ns, f.Key, f.Decl.Pos(), "static, varying and namespace informers are all paused", fmt.Sprintf("not every informer of a monitor is paused (static=%v varying=%v namespace=%v)", static, varying, ns))
	}
	if f := r3.NeedFunc(pkgKem + ".(*resourceInformer).handleWatchEvent"); f != nil {
		info := f.Pkg.TypesInfo
		g := p.GraphOf(f)
		stopped := p.Field(pkgKem, "resourceInformer", "stopped")
		notStopped := g.FactEdge(func(fc eng.Fact) bool { return !fc.Pos && fc.Y == nil && eng.IsField(info, fc.X, stopped) })
		// everything that has an effect (calls other than logging) is reachable only when !stopped
		ok := true
		n := 0
		for _, gn := range g.Nodes {
			if gn.Node == nil {
				continue
			}
			calls := g.CallsAt(gn, func(o types.Object, _ *ast.CallExpr) bool {
				return o != nil && (nameOf(o) == "applyFilter" || nameOf(o) == "putEvent" || nameOf(o) == "Lock")
			})
			if len(calls) == 0 {
				continue
			}
			n++
			if !g.OnlyVia(gn, nil, notStopped) {
				ok = false
			}
		}
		// applyFilter is inside an invoked literal: check the literal's invocation node
		for _, l := range f.Lits {
			if l.Invoked != nil && !l.Defer && !l.Go {
				if node := g.NodeOf(l.Invoked); node != nil {
					n++
					if !g.OnlyVia(node, nil, notStopped) {
						ok = false
					}
				}
			}
		}
		r3.Check(ok && n > 0, f.Key+" stopped-first", f.Decl.Pos(), "filtering, locking and delivery happen only when the informer is not stopped", "a stopped (paused) informer still processes events")
	}
	if f := r3.NeedFunc(pkgKem + ".(*resourceInformer).pauseHandleEvents"); f != nil {
		info := f.Pkg.TypesInfo
		stopped := p.Field(pkgKem, "resourceInformer", "stopped")
		ok := false
		eng.InspectNoLit(f.Decl.Body, func(n ast.Node) bool {
			if as, isA := n.(*ast.AssignStmt); isA && len(as.Lhs) == 1 && eng.IsField(info, as.Lhs[0], stopped) {
				if b, isC := constBool(info, as.Rhs[0]); isC && b {
					ok = true
				}
			}
			return true
		})
		r3.Check(ok, f.Key, f.Decl.Pos(), "sets stopped", "pauseHandleEvents does not set the stopped flag")
	}
}
