package rules

import (
	"fmt"
	"go/ast"
	"go/token"
	"go/types"
	"sort"
	"strings"

	"sopverif/eng"
)

func init() {
	register(&Property{
		ID:    "C01",
		Title: "No cluster change is lost between Synchronization and later Events",
		Explanation: "Decided over every path and call site of the informer/monitor/controller/operator code: (R1) every access to the " +
			"informer cache, the event buffer, the enable flag, the monitor index and the binding links is under its mutex; (R2) every store " +
			"to the event buffer happens in a critical section that also reads the enable flag (no decision taken in one section and acted on " +
			"in another); (R3) once a KubeEvent has been built every flag-feasible path delivers it or buffers it; (R4) the cache is updated " +
			"on every path before an event is built and before any early return; (R5) enableKubeEventCb flips the flag and replays the " +
			"buffer in order before clearing it, and is the only place that sets the flag; (R7) who may call Monitor.Snapshot (it resets " +
			"the buffer); (R8) cache copy and buffer reset form one critical section; (R9) publish-then-sweep order in " +
			"monitor.EnableKubeEventCb and in the namespace-add callback; (R10) events are unlocked only after a successful " +
			"Synchronization, for every monitor id of the task; (R11) a single consumer turns events into tail tasks in order; (R12) sends on " +
			"the event channels are blocking. (R13) the shared client-go informer of a kind/namespace/selector runs under its factory's own detached context and is cancelled only when the last handler registration is removed; the unlock decision keeps an alternative that the write-back of combined metadata cannot falsify (R10). NOT decided: that client-go delivers every change in order, that Synchronization view + " +
			"events reproduces the cluster, liveness of the capacity-1 channel.",
		Run: runC01,
	})
}

func runC01(c *eng.Ctx) {
	p := c.P
	// ---- R1
	r1 := c.Rule("C01.R1", "A:lockset", "guarded-by: cachedObjects, cachedObjectsInfo, cachedObjectsIncrement (cacheLock); eventBuf, eventCbEnabled (eventBufLock); Monitors (m); BindingMonitorLinks (l)", 40)
	for _, g := range [][4]string{
		{pkgKem, "resourceInformer", "cachedObjects", "cacheLock"},
		{pkgKem, "resourceInformer", "cachedObjectsInfo", "cacheLock"},
		{pkgKem, "resourceInformer", "cachedObjectsIncrement", "cacheLock"},
		{pkgKem, "resourceInformer", "eventBuf", "eventBufLock"},
		{pkgKem, "resourceInformer", "eventCbEnabled", "eventBufLock"},
		{pkgKem, "kubeEventsManager", "Monitors", "m"},
		{pkgCtrl, "kubernetesBindingsController", "BindingMonitorLinks", "l"},
	} {
		guardedBy(r1, g[0], g[1], g[2], g[3])
	}

	eventBuf := p.Field(pkgKem, "resourceInformer", "eventBuf")
	flag := p.Field(pkgKem, "resourceInformer", "eventCbEnabled")
	bufLock := p.Field(pkgKem, "resourceInformer", "eventBufLock")
	cacheLock := p.Field(pkgKem, "resourceInformer", "cacheLock")
	_ = cacheLock
	putEvent := p.Method(pkgKem, "resourceInformer", "putEvent")
	la := p.Locks()

	// ---- R2 stale decision
	r2 := c.Rule("C01.R2", "A+D:critical-section identity", "every store to eventBuf is made in a critical section (same acquire of eventBufLock) that also reads eventCbEnabled", 3)
	if eventBuf == nil || flag == nil || bufLock == nil {
		r2.Unknown("anchor:eventBuf/eventCbEnabled/eventBufLock", token.NoPos, "fields not found")
	} else {
		// sections that read/write the flag, per body
		type sec struct {
			g   *eng.Graph
			acq string
		}
		acqKey := func(h eng.Held) string {
			var ps []string
			for c := range h.Acq {
				ps = append(ps, fmt.Sprint(c.Pos()))
			}
			sort.Strings(ps)
			return strings.Join(ps, ",")
		}
		flagSecs := map[sec]bool{}
		for _, ref := range p.Refs(flag) {
			if ref.Lit {
				continue
			}
			g := la.GraphFor(ref.In, ref.InLit)
			st, _ := la.StateAt(g, ref.Node)
			if h, ok := st[bufLock]; ok && len(h.Acq) == 1 {
				flagSecs[sec{g, acqKey(h)}] = true
			}
		}
		for _, ref := range p.Refs(eventBuf) {
			if ref.Lit || !ref.Write {
				continue
			}
			g := la.GraphFor(ref.In, ref.InLit)
			st, _ := la.StateAt(g, ref.Node)
			construct := "eventBuf store in " + ref.Where()
			c.Touch(ref.In)
			h, ok := st[bufLock]
			if !ok {
				r2.Bad(construct, ref.Node.Pos(), "store to eventBuf outside eventBufLock")
				continue
			}
			if len(h.Acq) != 1 {
				r2.Bad(construct, ref.Node.Pos(), fmt.Sprintf("store to eventBuf may belong to %d different critical sections", len(h.Acq)))
				continue
			}
			if flagSecs[sec{g, acqKey(h)}] {
				r2.Ok(construct, ref.Node.Pos(), "the same critical section reads eventCbEnabled")
			} else {
				r2.Bad(construct, ref.Node.Pos(), "eventBuf is stored in a critical section that does not look at eventCbEnabled: the flag was read in another section (or not at all), enableKubeEventCb can flip it and replay the buffer in between, the event is then stranded in a buffer nobody replays")
			}
		}
	}

	// ---- R3 / R4 on handleWatchEvent
	hwe := p.Func(pkgKem + ".(*resourceInformer).handleWatchEvent")
	r3 := c.Rule("C01.R3", "B:must-pass+flags", "handleWatchEvent: from the construction of the KubeEvent every flag-feasible path to the exit passes putEvent(ev) or an append of ev to eventBuf", 1)
	r4 := c.Rule("C01.R4", "B:must-pass", "handleWatchEvent: every path that survives the stopped test and the filter error updates cachedObjects (store or delete) before it returns, and the KubeEvent is built only after that update", 2)
	if hwe == nil {
		r3.Unknown("anchor:handleWatchEvent", token.NoPos, "function not found")
		r4.Unknown("anchor:handleWatchEvent", token.NoPos, "function not found")
	} else {
		c.Touch(hwe)
		info := hwe.Pkg.TypesInfo
		g := p.GraphOf(hwe)
		kubeEventT := p.Named(pkgKemT, "KubeEvent")
		// event construction: assignment of a KubeEvent composite literal to a local
		var evVar types.Object
		var evNode *eng.GNode
		for _, n := range g.Nodes {
			as, ok := n.Node.(*ast.AssignStmt)
			if !ok || len(as.Lhs) != 1 || len(as.Rhs) != 1 {
				continue
			}
			if cl, ok := ast.Unparen(as.Rhs[0]).(*ast.CompositeLit); ok {
				if tv, ok := info.Types[cl]; ok && kubeEventT != nil && types.Identical(tv.Type, kubeEventT) {
					evVar = eng.SelObj(info, as.Lhs[0])
					evNode = n
				}
			}
		}
		if evNode == nil || evVar == nil {
			r3.Unknown(hwe.Key, hwe.Decl.Pos(), "construction of the KubeEvent not found (idiom: ev := kemtypes.KubeEvent{...})")
		} else {
			delivers := func(n *eng.GNode) bool {
				if n.Node == nil {
					return false
				}
				for _, m := range g.CallsAt(n, func(o types.Object, call *ast.CallExpr) bool {
					return o == putEvent && len(call.Args) == 1 && eng.SelObj(info, call.Args[0]) == evVar
				}) {
					if !m.Defer && !m.Go {
						return true
					}
				}
				if as, ok := n.Node.(*ast.AssignStmt); ok && len(as.Lhs) == 1 && len(as.Rhs) == 1 && eng.IsField(info, as.Lhs[0], eventBuf) {
					if ap := builtinCall(info, as.Rhs[0], "append"); ap != nil && len(ap.Args) >= 2 && eng.IsField(info, ap.Args[0], eventBuf) {
						for _, a := range ap.Args[1:] {
							if eng.SelObj(info, a) == evVar {
								return true
							}
						}
					}
				}
				return false
			}
			ex := g.MustPassToExit(eng.Query{From: []*eng.GNode{evNode}}, delivers)
			if ex == nil {
				r3.Ok(hwe.Key, evNode.Node.Pos(), fmt.Sprintf("every flag-feasible path from `%s` delivers or buffers it (flags: %s)", eng.Short(p.Fset, evNode.Node), flagNames(g)))
			} else {
				r3.Bad(hwe.Key, evNode.Node.Pos(), fmt.Sprintf("a path from the construction of the event reaches the exit at %s without putEvent(%s) and without appending it to eventBuf: the change is dropped", g.Describe(ex), evVar.Name()))
			}
		}
		// R4: cache update before any return / before the event (shared with C08.R1)
		cacheBeforeExit(c, r4, hwe, evNode)
	}

	// ---- R5 enableKubeEventCb
	r5 := c.Rule("C01.R5", "B+A+C", "enableKubeEventCb: under eventBufLock sets the flag, replays eventBuf in ascending order through putEvent before clearing it; nobody else sets the flag (informers start locked)", 5)
	runC01R5(c, r5)

	// ---- R7 who may call Snapshot
	r7 := c.Rule("C01.R7", "C:who-calls", "Monitor.Snapshot() resets the event buffer: only the Synchronization run of the binding may call it", 2)
	runC01R7(c, r7)

	// ---- R8 atomicity of copy+reset
	r8 := c.Rule("C01.R8", "A:critical-section", "getCachedObjects: the cache copy and the buffer reset are one critical section that excludes handleWatchEvent's (cache update, buffer append) pair", 1)
	if f := r8.NeedFunc(pkgKem + ".(*resourceInformer).getCachedObjects"); f != nil && cacheLock != nil && bufLock != nil {
		g := la.GraphFor(f, nil)
		ok := false
		var pos token.Pos = f.Decl.Pos()
		found := false
		for _, ref := range p.Refs(eventBuf) {
			if ref.In == f && ref.Write {
				found = true
				pos = ref.Node.Pos()
				st, _ := la.StateAt(g, ref.Node)
				_, hasCache := st[cacheLock]
				_, hasBuf := st[bufLock]
				ok = hasCache && hasBuf
			}
		}
		if !found {
			// no reset here any more: the rule is about the reset wherever the snapshot is taken
			r8.Ok(f.Key, pos, "getCachedObjects no longer resets the buffer")
		} else if ok {
			// the writer side must hold the same pair
			r8.Ok(f.Key, pos, "copy and reset under both locks")
		} else {
			r8.Bad(f.Key, pos, "the cache is copied under cacheLock and the buffer is reset later under eventBufLock: a change that lands between the two sections is neither in the returned view nor in the buffer")
		}
	}

	// ---- R9 publish then sweep
	r9 := c.Rule("C01.R9", "B:order", "monitor.EnableKubeEventCb sets eventsEnabled before sweeping static and varying informers; the namespace-add callback stores the new informers before it reads eventsEnabled, enables when set, and starts every informer", 6)
	runC01R9(c, r9)

	// ---- R10 unlock only after success
	r10 := c.Rule("C01.R10", "C+B", "events are unlocked only from taskHandleHookRun under IsSynchronization && Status==Success for every MonitorID of the (combined) task, or from UpdateMonitor", 6)
	runC01R10(c, r10)

	// ---- R11 single consumer
	r11 := c.Rule("C01.R11", "B+C", "ManagerEventsHandler.Start: one consumer goroutine, tasks appended with AddLast in ascending order under the queue-set lock, into the queue named by the task", 4)
	runC01R11(c, r11)

	// ---- R12 blocking sends
	r12 := c.Rule("C01.R12", "H:idiom", "sends on the kube-event and schedule channels are blocking (never a select alternative that can drop the value)", 2)
	runC01R12(c, r12)

	// ---- R13 shared informer lifetime (shared with C02.R8, C08.R6)
	r13 := c.Rule("C01.R13", "D:provenance+C", "a shared informer runs under its factory's detached context and is cancelled only when its last handler registration is removed", 3)
	runSharedInformerLifetime(c, r13)
	r14 := c.Rule("C01.R14", "H:idiom", "the OnAdd handlers do not treat the informer's initial list specially (two lists are taken at different moments: the difference is only reported through these notifications)", 2)
	runInitialListHandled(c, r14)
}

// unmatchedSwitchEdge: the false edge of the last case of a switch over a parameter whose call sites pass only
// constants that the switch covers (the "no case matched" path is infeasible).
func unmatchedSwitchEdge(p *eng.Prog, f *eng.Func, g *eng.Graph, e *eng.GEdge) bool {
	if e.Tag == nil || e.Taken {
		return false
	}
	info := f.Pkg.TypesInfo
	prm, ok := eng.SelObj(info, e.Tag).(*types.Var)
	if !ok || f.Obj == nil {
		return false
	}
	sig := f.Obj.Type().(*types.Signature)
	idx := -1
	for i := 0; i < sig.Params().Len(); i++ {
		if sig.Params().At(i) == prm {
			idx = i
		}
	}
	if idx < 0 {
		return false
	}
	// find the switch statement and its case constants
	var sw *ast.SwitchStmt
	eng.InspectNoLit(f.Decl.Body, func(n ast.Node) bool {
		if s, ok := n.(*ast.SwitchStmt); ok && s.Tag == e.Tag {
			sw = s
		}
		return true
	})
	if sw == nil {
		return false
	}
	covered := map[string]bool{}
	var last ast.Expr
	hasDefault := false
	for _, cl := range sw.Body.List {
		cc := cl.(*ast.CaseClause)
		if cc.List == nil {
			hasDefault = true
		}
		for _, x := range cc.List {
			if v, ok := eng.ConstVal(info, x); ok {
				covered[v] = true
			}
			last = x
		}
	}
	if hasDefault || last != e.Cond {
		return false
	}
	sites := p.SitesDyn(f.Obj)
	if len(sites) == 0 || len(p.Refs(f.Obj)) > 0 {
		return false
	}
	for _, s := range sites {
		if idx >= len(s.Call.Args) {
			return false
		}
		v, ok := eng.ConstVal(s.Pkg.TypesInfo, s.Call.Args[idx])
		if !ok || !covered[v] {
			return false
		}
	}
	return true
}

func runC01R5(c *eng.Ctx, r *eng.RuleCtx) {
	p := c.P
	f := r.NeedFunc(pkgKem + ".(*resourceInformer).enableKubeEventCb")
	if f == nil {
		return
	}
	info := f.Pkg.TypesInfo
	eventBuf := p.Field(pkgKem, "resourceInformer", "eventBuf")
	flag := p.Field(pkgKem, "resourceInformer", "eventCbEnabled")
	putEvent := p.Method(pkgKem, "resourceInformer", "putEvent")
	g := p.GraphOf(f)
	// (a) the replay loop
	isBuf := func(x ast.Expr) bool {
		if eng.IsField(info, x, eventBuf) {
			return true
		}
		if v, isV := eng.SelObj(info, x).(*types.Var); isV && !v.IsField() {
			// a local alias of the buffer taken earlier (saved := ei.eventBuf)
			for _, e := range eng.AssignedExprs(info, f.Decl.Body, v) {
				if eng.IsField(info, e, eventBuf) {
					return true
				}
			}
		}
		return false
	}
	var el *eng.ElemLoop
	for _, l := range elemLoopsOver(info, f.Decl.Body, isBuf) {
		el = l
	}
	if el == nil || el.Desc {
		r.Bad(f.Key+" replay-loop", f.Decl.Pos(), "no ascending loop over ei.eventBuf that replays every buffered event")
		return
	}
	loop := el.Stmt
	isPut := func(n *eng.GNode) bool {
		for _, m := range g.CallsAt(n, func(o types.Object, call *ast.CallExpr) bool {
			return o == putEvent && len(call.Args) == 1 && el.IsElem(call.Args[0])
		}) {
			if !m.Defer && !m.Go {
				return true
			}
		}
		return false
	}
	r.Check(loopBodyMustPass(g, loop, isPut) && loopNoEarlyExit(g, loop), f.Key+" replay-loop", loop.Pos(), "every iteration of the replay loop calls putEvent(element)", "an iteration of the replay loop can finish without putEvent(element): a buffered event is dropped")
	// (a') the replay happens inside the critical section: a direct delivery (which reads the flag under the same lock)
	// cannot overtake the buffered events
	bufLock := p.Field(pkgKem, "resourceInformer", "eventBufLock")
	la := p.Locks()
	for _, n := range g.Nodes {
		if !isPut(n) {
			continue
		}
		st := la.StateAtNode(n)
		_, held := st[bufLock]
		r.Check(held, f.Key+" replay-under-lock", n.Node.Pos(), "buffered events are replayed while eventBufLock is held",
			"buffered events are replayed after eventBufLock was released: an informer callback that arrives during the replay sees the flag already set and delivers its event directly, overtaking the older buffered events of the same object (per-object order is lost)")
	}
	// (b) the clear comes after the loop, the flag store before/with it, both in the function
	var clear, setFlag *eng.GNode
	for _, n := range g.Nodes {
		as, ok := n.Node.(*ast.AssignStmt)
		if !ok || len(as.Lhs) != 1 || len(as.Rhs) != 1 {
			continue
		}
		if eng.IsField(info, as.Lhs[0], eventBuf) {
			clear = n
		}
		if eng.IsField(info, as.Lhs[0], flag) {
			if b, isC := constBool(info, as.Rhs[0]); isC && b {
				setFlag = n
			}
		}
	}
	isLoopHead := isLoopHeadOf(loop)
	if clear == nil {
		r.Ok(f.Key+" clear-after-replay", f.Decl.Pos(), "the buffer is not cleared here (nothing can be lost by clearing)")
	} else {
		r.Check(g.OnlyVia(clear, isLoopHead, nil), f.Key+" clear-after-replay", clear.Node.Pos(), "eventBuf is cleared only after the replay loop", "eventBuf can be cleared without having been replayed")
	}
	if setFlag == nil {
		r.Bad(f.Key+" sets-flag", f.Decl.Pos(), "enableKubeEventCb does not store true to eventCbEnabled")
	} else {
		// every path through the function that replays also sets the flag (same critical section is R1/R2)
		ex := g.MustPassToExit(eng.Query{FromEntry: true, AvoidEdge: g.FactEdge(func(fc eng.Fact) bool { return fc.Pos && fc.Y == nil && eng.IsField(info, fc.X, flag) })}, func(n *eng.GNode) bool { return n == setFlag })
		r.Check(ex == nil, f.Key+" sets-flag", setFlag.Node.Pos(), "the flag is set on every path that is not the already-enabled early return", "a path leaves enableKubeEventCb without setting eventCbEnabled")
	}
	// (c) who sets the flag
	n := 0
	for _, ref := range p.Refs(flag) {
		if !ref.Write {
			continue
		}
		n++
		construct := "eventCbEnabled store in " + ref.Where()
		if ref.In == f {
			r.Ok(construct, ref.Node.Pos(), "the owner")
			continue
		}
		// stores of constant false are harmless
		val := storedValue(ref)
		if val != nil {
			if b, isC := constBool(ref.Pkg.TypesInfo, val); isC && !b {
				r.Ok(construct, ref.Node.Pos(), "stores false")
				continue
			}
		}
		r.Bad(construct, ref.Node.Pos(), "eventCbEnabled is set outside enableKubeEventCb: events could be delivered before the binding's Synchronization has completed, and without replaying the buffer")
	}
}

func constBool(info *types.Info, e ast.Expr) (bool, bool) {
	v, ok := eng.ConstVal(info, e)
	if !ok {
		return false, false
	}
	return v == "true", v == "true" || v == "false"
}

// storedValue returns the expression stored by a write reference (assignment RHS or composite-literal value).
func storedValue(ref *eng.Ref) ast.Expr {
	var out ast.Expr
	var root ast.Node
	if ref.In != nil {
		root = ref.In.Decl
	}
	if root == nil {
		return nil
	}
	ast.Inspect(root, func(n ast.Node) bool {
		switch t := n.(type) {
		case *ast.AssignStmt:
			if len(t.Lhs) == len(t.Rhs) {
				for i, l := range t.Lhs {
					if ast.Unparen(l) == ref.Node {
						out = t.Rhs[i]
					}
				}
			}
		case *ast.KeyValueExpr:
			if t.Key == ref.Node {
				out = t.Value
			}
		}
		return out == nil
	})
	return out
}

// loopNoEarlyExit: no iteration can leave the loop (break, return, goto, panic) other than through the loop head,
// i.e. the loop visits every element.
func loopNoEarlyExit(g *eng.Graph, loop ast.Stmt) bool {
	var bodyEntry *eng.GNode
	kind := func(n *eng.GNode) string {
		if n.Node != nil || n.Block.Stmt != loop {
			return ""
		}
		return n.Block.Kind.String()
	}
	for _, n := range g.Nodes {
		if k := kind(n); k == "RangeBody" || k == "ForBody" {
			bodyEntry = n
		}
	}
	if bodyEntry == nil {
		return false
	}
	isHead := func(n *eng.GNode) bool { k := kind(n); return k == "RangeLoop" || k == "ForLoop" || k == "ForPost" }
	reach := g.Reach(eng.Query{From: []*eng.GNode{bodyEntry}, AvoidNode: isHead})
	for n := range reach {
		if k := kind(n); k == "RangeDone" || k == "ForDone" {
			return false
		}
		if n.Exit {
			return false
		}
	}
	return true
}

// loopBodyMustPass: every path through one iteration of the loop (from the body entry back to the loop head, or to
// an exit of the function) passes a node satisfying via.
func loopBodyMustPass(g *eng.Graph, loop ast.Stmt, via func(*eng.GNode) bool) bool {
	var bodyEntry *eng.GNode
	isHead := func(n *eng.GNode) bool {
		if n.Node != nil || n.Block.Stmt != loop {
			return false
		}
		k := n.Block.Kind.String()
		return k == "RangeLoop" || k == "ForLoop" || k == "ForPost"
	}
	isDone := func(n *eng.GNode) bool {
		if n.Node != nil || n.Block.Stmt != loop {
			return false
		}
		k := n.Block.Kind.String()
		return k == "RangeDone" || k == "ForDone"
	}
	for _, n := range g.Nodes {
		if n.Node == nil && n.Block.Stmt == loop {
			k := n.Block.Kind.String()
			if k == "RangeBody" || k == "ForBody" {
				bodyEntry = n
			}
		}
	}
	if bodyEntry == nil {
		return false
	}
	reach := g.Reach(eng.Query{From: []*eng.GNode{bodyEntry}, AvoidNode: func(n *eng.GNode) bool { return via(n) || isHead(n) || isDone(n) }})
	for n := range reach {
		if via(n) {
			continue
		}
		if isHead(n) || n.Exit || isDone(n) {
			return false
		}
	}
	return true
}

// loopIterMustPassBefore: every path through one iteration of the loop that comes back to the loop head, leaves the
// loop normally or reaches a node satisfying target passes a node satisfying via (paths that leave the function are
// not constrained).
func loopIterMustPassBefore(g *eng.Graph, loop ast.Stmt, via, target func(*eng.GNode) bool) bool {
	entry := loopBodyEntryOf(g, loop)
	if entry == nil {
		return false
	}
	isHead := isLoopHeadOf(loop)
	isDone := func(n *eng.GNode) bool {
		if n.Node != nil || n.Block.Stmt != loop {
			return false
		}
		k := n.Block.Kind.String()
		return k == "RangeDone" || k == "ForDone"
	}
	reach := g.Reach(eng.Query{From: []*eng.GNode{entry}, AvoidNode: func(n *eng.GNode) bool { return via(n) || isHead(n) || isDone(n) }})
	for n := range reach {
		if via(n) {
			continue
		}
		if isHead(n) || isDone(n) || target(n) {
			return false
		}
	}
	return true
}

func runC01R7(c *eng.Ctx, r *eng.RuleCtx) {
	p := c.P
	snapI := p.Method(pkgKem, "Monitor", "Snapshot")
	snapC := p.Method(pkgKem, "monitor", "Snapshot")
	if snapI == nil || snapC == nil {
		r.Unknown("anchor:Monitor.Snapshot", token.NoPos, "method not found")
		return
	}
	// does Snapshot still reset the buffer? (getCachedObjects writes eventBuf)
	eventBuf := p.Field(pkgKem, "resourceInformer", "eventBuf")
	gco := p.Func(pkgKem + ".(*resourceInformer).getCachedObjects")
	resets := false
	for _, ref := range p.Refs(eventBuf) {
		if ref.Write && ref.In == gco {
			resets = true
		}
	}
	seen := map[string]bool{}
	var sites []*eng.Site
	sites = append(sites, p.Sites(snapI)...)
	sites = append(sites, p.Sites(snapC)...)
	for _, ref := range append(p.Refs(snapI), p.Refs(snapC)...) {
		r.Bad("value-ref:"+ref.Where()+"->Monitor.Snapshot", ref.Node.Pos(), "Monitor.Snapshot is taken as a function value: its callers cannot be enumerated")
	}
	for _, s := range sites {
		construct := "call:" + strings.TrimPrefix(s.Where(), "pkg/hook/controller.") + "->Monitor.Snapshot"
		if seen[construct] {
			continue
		}
		seen[construct] = true
		c.Touch(s.In)
		if !resets {
			r.Ok(construct, s.Call.Pos(), "Snapshot no longer resets the event buffer")
			continue
		}
		r.Bad(construct, s.Call.Pos(), "this reader resets the event buffer of the binding's informers while the binding may still be waiting for its Synchronization: events buffered since the Synchronization view was taken are discarded and never delivered")
	}
}

func runC01R9(c *eng.Ctx, r *eng.RuleCtx) {
	p := c.P
	f := r.NeedFunc(pkgKem + ".(*monitor).EnableKubeEventCb")
	ci := r.NeedFunc(pkgKem + ".(*monitor).CreateInformers")
	if f == nil || ci == nil {
		return
	}
	info := f.Pkg.TypesInfo
	enabled := p.Field(pkgKem, "monitor", "eventsEnabled")
	resInf := p.Field(pkgKem, "monitor", "ResourceInformers")
	varying := p.Field(pkgKem, "monitor", "VaryingInformers")
	enable := p.Method(pkgKem, "resourceInformer", "enableKubeEventCb")
	start := p.Method(pkgKem, "resourceInformer", "start")
	rangeValue := p.Method(pkgKem, "varyingInformers", "RangeValue")
	rangeKV := p.Method(pkgKem, "varyingInformers", "Range")
	storeVar := p.Method(pkgKem, "varyingInformers", "Store")
	if enabled == nil || resInf == nil || varying == nil || enable == nil || start == nil || rangeValue == nil || storeVar == nil {
		r.Unknown("anchor:monitor fields", token.NoPos, "fields/methods not found")
		return
	}
	g := p.GraphOf(f)
	// the node that publishes eventsEnabled = true
	isPublish := func(n *eng.GNode) bool {
		if n.Node == nil {
			return false
		}
		if as, ok := n.Node.(*ast.AssignStmt); ok && len(as.Lhs) == 1 && eng.IsField(info, as.Lhs[0], enabled) {
			b, isC := constBool(info, as.Rhs[0])
			return isC && b
		}
		for _, call := range eng.CallsIn(n.Node) {
			if s, ok := ast.Unparen(call.Fun).(*ast.SelectorExpr); ok && s.Sel.Name == "Store" && eng.IsField(info, s.X, enabled) && len(call.Args) == 1 {
				b, isC := constBool(info, call.Args[0])
				return isC && b
			}
		}
		return false
	}
	pubs := 0
	for _, n := range g.Nodes {
		if isPublish(n) {
			pubs++
		}
	}
	r.Check(pubs > 0, f.Key+" publishes", f.Decl.Pos(), "eventsEnabled is set to true", "EnableKubeEventCb never sets eventsEnabled: informers of namespaces that appear later stay locked for ever")
	// static sweep
	staticEl, staticOK := elemLoopCalling(g, info, f.Decl.Body, func(x ast.Expr) bool { return eng.IsField(info, x, resInf) }, enable)
	if staticEl == nil {
		r.Bad(f.Key+" static-sweep", f.Decl.Pos(), "no loop over ResourceInformers")
	} else {
		r.Check(staticOK, f.Key+" static-sweep", staticEl.Stmt.Pos(), "every static informer is enabled", "an iteration over ResourceInformers can skip enableKubeEventCb")
		if head := loopBodyEntryOf(g, staticEl.Stmt); head != nil {
			r.Check(g.OnlyVia(head, isPublish, nil), f.Key+" publish-before-static-sweep", staticEl.Stmt.Pos(), "flag published before the sweep", "the static sweep can start before eventsEnabled is published")
		}
	}
	// varying sweep
	var sweepLit *eng.Lit
	for _, l := range litsPassedTo(f, info, rangeValue) {
		sweepLit = l
	}
	if sweepLit == nil && rangeKV != nil {
		for _, l := range litsPassedTo(f, info, rangeKV) {
			sweepLit = l
		}
	}
	if sweepLit == nil {
		r.Bad(f.Key+" varying-sweep", f.Decl.Pos(), "VaryingInformers are not swept: informers of dynamically discovered namespaces stay locked")
	} else {
		lg := p.GraphOfLit(sweepLit)
		el, ok := elemLoopCalling(lg, info, sweepLit.Lit.Body, func(x ast.Expr) bool { return isParamOf(info, sweepLit.Lit, x) }, enable)
		// the loop itself must be reached on every path of the literal
		if ok {
			ex := lg.MustPassToExit(eng.Query{FromEntry: true}, isLoopHeadOf(el.Stmt))
			ok = ex == nil
		}
		r.Check(ok, f.Key+" varying-sweep", sweepLit.Lit.Pos(), "every varying informer is enabled", "the sweep over VaryingInformers does not enable every informer")
		n := g.NodeOf(sweepLit.ArgOf)
		if n != nil {
			r.Check(g.OnlyVia(n, isPublish, nil), f.Key+" publish-before-varying-sweep", sweepLit.ArgOf.Pos(), "flag published before the sweep",
				"eventsEnabled is published after the sweep over VaryingInformers: informers created for a namespace that appears during the sweep are stored too late to be swept and still see the flag unset; they stay locked for ever")
			// and the sweep happens on every path
			ex := g.MustPassToExit(eng.Query{FromEntry: true}, func(m *eng.GNode) bool { return m == n })
			r.Check(ex == nil, f.Key+" varying-sweep-always", sweepLit.ArgOf.Pos(), "the sweep runs on every path", "a path through EnableKubeEventCb skips the sweep over VaryingInformers")
		}
	}
	// namespace-add callback: literal #1 passed to createSharedInformer (the one that calls CreateInformersForNamespace and start)
	cinfo := ci.Pkg.TypesInfo
	var addLit *eng.Lit
	for _, l := range ci.Lits {
		if l.ArgOf == nil || l.Parent != nil {
			continue
		}
		if len(callsIn(cinfo, l.Lit.Body, isObj(start))) > 0 {
			addLit = l
		}
	}
	if addLit == nil {
		r.Unknown(ci.Key+" ns-add callback", ci.Decl.Pos(), "namespace-add callback (the literal that starts the new informers) not found")
		return
	}
	ag := p.GraphOfLit(addLit)
	isStore := func(n *eng.GNode) bool {
		return len(ag.CallsAt(n, func(o types.Object, call *ast.CallExpr) bool { return o == storeVar })) > 0
	}
	readsFlag := func(n *eng.GNode) bool {
		return n.Node != nil && eng.MentionsField(cinfo, n.Node, enabled, false)
	}
	var flagReads []*eng.GNode
	for _, n := range ag.Nodes {
		if readsFlag(n) {
			flagReads = append(flagReads, n)
		}
	}
	if len(flagReads) == 0 {
		r.Bad(ci.Key+" ns-add reads flag", addLit.Lit.Pos(), "the namespace-add callback does not look at eventsEnabled: informers of a namespace that appears after the unlock stay locked for ever")
	}
	for _, n := range flagReads {
		r.Check(ag.OnlyVia(n, isStore, nil), ci.Key+" ns-add store-before-flag", n.Node.Pos(), "new informers are stored in VaryingInformers before eventsEnabled is read",
			"the namespace-add callback reads eventsEnabled before it has stored the new informers: an unlock running in between neither sweeps them nor is seen by them")
	}
	// enable is called when the flag is set; start for every informer
	var el *eng.ElemLoop
	for _, call := range callsIn(cinfo, addLit.Lit.Body, isObj(start)) {
		if l := elemLoopAt(cinfo, addLit.Lit.Body, call.Pos()); l != nil {
			el = l
		}
	}
	if el == nil {
		r.Bad(ci.Key+" ns-add start-loop", addLit.Lit.Pos(), "informer.start() is not called in a loop over the new informers")
		return
	}
	loop := el.Stmt
	callOn := func(m *types.Func) func(n *eng.GNode) bool {
		return func(n *eng.GNode) bool {
			return len(ag.CallsAt(n, func(o types.Object, call *ast.CallExpr) bool {
				s, isS := ast.Unparen(call.Fun).(*ast.SelectorExpr)
				return o == m && isS && el.IsElem(s.X)
			})) > 0
		}
	}
	r.Check(loopBodyMustPass(ag, loop, callOn(start)) && loopNoEarlyExit(ag, loop), ci.Key+" ns-add starts-all", loop.Pos(), "every new informer is started", "an iteration can skip informer.start()")
	// enable on the flag's true edge: avoiding the false edge of the flag test, every iteration enables
	flagFalse := ag.FactEdge(func(fc eng.Fact) bool {
		return !fc.Pos && fc.Y == nil && eng.MentionsField(cinfo, fc.X, enabled, false)
	})
	bodyEntry := loopBodyEntryOf(ag, loop)
	isHead := isLoopHeadOf(loop)
	okEnable := false
	if bodyEntry != nil {
		en := callOn(enable)
		reach := ag.Reach(eng.Query{From: []*eng.GNode{bodyEntry}, AvoidEdge: flagFalse, AvoidNode: func(n *eng.GNode) bool {
			return en(n) || isHead(n)
		}})
		okEnable = true
		for n := range reach {
			if isHead(n) {
				okEnable = false
			}
			if n.Exit {
				okEnable = false
			}
		}
		// enable must come before start
		for _, n := range ag.Nodes {
			if callOn(start)(n) {
				// when the flag is set, start is reached only after enable
				reach2 := ag.Reach(eng.Query{From: []*eng.GNode{bodyEntry}, AvoidEdge: flagFalse, AvoidNode: en})
				if reach2[n] {
					okEnable = false
				}
			}
		}
	}
	r.Check(okEnable, ci.Key+" ns-add enables-when-set", loop.Pos(), "when eventsEnabled is set every new informer is enabled before it is started", "with eventsEnabled set, a new informer can be started without enableKubeEventCb (or after start)")
}

func runC01R10(c *eng.Ctx, r *eng.RuleCtx) {
	p := c.P
	enableI := p.Method(pkgKem, "Monitor", "EnableKubeEventCb")
	enableC := p.Method(pkgKem, "monitor", "EnableKubeEventCb")
	if enableI == nil || enableC == nil {
		r.Unknown("anchor:Monitor.EnableKubeEventCb", token.NoPos, "method not found")
		return
	}
	// wrappers: functions allowed to forward the unlock, each with a reason
	wrappers := map[string]string{
		pkgCtrl + ".(*kubernetesBindingsController).UnlockEvents":    "controller API: unlock all monitors of the hook",
		pkgCtrl + ".(*kubernetesBindingsController).UnlockEventsFor": "controller API: unlock one monitor",
		pkgCtrl + ".(*HookController).UnlockKubernetesEvents":        "hook controller facade",
		pkgCtrl + ".(*HookController).UnlockKubernetesEventsFor":     "hook controller facade",
		pkgCtrl + ".(*kubernetesBindingsController).UpdateMonitor":   "recreated monitor: 'Synchronization has no meaning for UpdateMonitor' (documented)",
		pkgCtrl + ".(*HookController).UpdateMonitor":                 "facade of UpdateMonitor (used by addon-operator)",
	}
	final := pkgOp + ".(*ShellOperator).taskHandleHookRun"
	// worklist over callee objects
	type item struct{ obj *types.Func }
	var work []*types.Func
	seenObj := map[*types.Func]bool{}
	push := func(o *types.Func) {
		if o != nil && !seenObj[o] {
			seenObj[o] = true
			work = append(work, o)
		}
	}
	push(enableI)
	push(enableC)
	var finalSites []*eng.Site
	for len(work) > 0 {
		o := work[0]
		work = work[1:]
		for _, ref := range p.Refs(o) {
			r.Bad("value-ref:"+ref.Where()+"->"+o.Name(), ref.Node.Pos(), "an unlock function is taken as a value: callers cannot be enumerated")
		}
		for _, s := range p.Sites(o) {
			where := s.Where()
			fn := where
			if s.InLit != nil {
				fn = s.In.Key
			}
			construct := "call:" + where + "->" + o.Name()
			c.Touch(s.In)
			if fn == final {
				finalSites = append(finalSites, s)
				continue
			}
			if why, ok := wrappers[fn]; ok {
				r.Ok(construct, s.Call.Pos(), "allowed forwarder: "+why)
				if s.In.Obj != nil {
					push(s.In.Obj)
					// interface methods implemented by this wrapper
					for _, im := range ifaceMethodsFor(p, s.In.Obj) {
						push(im)
					}
				}
				continue
			}
			r.Bad(construct, s.Call.Pos(), "kubernetes events of a binding are unlocked from a place that is not the successful Synchronization of that binding: Events could reach the hook before its Synchronization completed")
		}
	}
	if len(finalSites) == 0 {
		r.Bad(final+" unlock", token.NoPos, "taskHandleHookRun never unlocks kubernetes events: every event after Synchronization stays buffered")
		return
	}
	f := p.Func(final)
	info := f.Pkg.TypesInfo
	g := p.GraphOf(f)
	status := p.Field(pkgQueue, "TaskResult", "Status")
	monitorIDs := p.Field(pkgMeta, "HookMetadata", "MonitorIDs")
	isSyncM := p.Method(pkgMeta, "HookMetadata", "IsSynchronization")
	for _, s := range finalSites {
		n := g.NodeOf(s.Call)
		construct := final + " unlock"
		if n == nil || s.InLit != nil {
			r.Unknown(construct, s.Call.Pos(), "unlock call is not in the body of taskHandleHookRun")
			continue
		}
		succ := g.OnlyVia(n, nil, g.FactEdge(fieldEqConst(info, status, "Success", true)))
		// the task's Synchronization identity: IsSynchronization() (directly or through a local computed from it) or
		// a non-empty MonitorIDs list (set only for Synchronization tasks). The unlock is reachable only through a
		// test one of whose clauses consists of such atoms only.
		isSyncAtom := func(fc eng.Fact) bool {
			if fc.Y != nil {
				return false
			}
			if fc.Pos {
				if isCallTo(info, fc.X, isSyncM) {
					return true
				}
				if v, ok := eng.SelObj(info, fc.X).(*types.Var); ok && !v.IsField() {
					as := eng.AssignedExprs(info, f.Decl, v)
					if len(as) == 1 && isCallTo(info, as[0], isSyncM) {
						return true
					}
				}
			}
			return nonEmptyLenOf(info, fc, monitorIDs)
		}
		isSync := g.OnlyVia(n, nil, func(e *eng.GEdge) bool {
			for _, cl := range g.EdgeClauses(e) {
				all := len(cl) > 0
				for _, a := range cl {
					if !isSyncAtom(a) {
						all = false
					}
				}
				if all {
					return true
				}
			}
			return false
		})
		el := elemLoopAt(info, f.Decl.Body, s.Call.Pos())
		loopOK := el != nil && eng.IsField(info, el.Base, monitorIDs) && len(s.Call.Args) == 1 && el.IsElem(s.Call.Args[0])
		if loopOK {
			loopOK = loopBodyMustPass(g, el.Stmt, func(m *eng.GNode) bool { return m == n }) && loopNoEarlyExit(g, el.Stmt)
		}
		r.Check(succ && isSync && loopOK, construct, s.Call.Pos(),
			"unlock is control-dependent on IsSynchronization() && Status==Success and covers every MonitorID",
			fmt.Sprintf("the unlock in taskHandleHookRun is not `for every MonitorID, only when the task is a Synchronization and res.Status == Success` (onlyOnSuccess=%v onlyForSynchronization=%v everyMonitorID=%v)", succ, isSync, loopOK))
	}
	// the Synchronization decision is taken on the task's own contexts: IsSynchronization() inspects BindingContext[0],
	// which combining/compaction may replace (a grouped Synchronization context followed by an Event of the same group is
	// compacted away), so it must not be evaluated after hookMeta.BindingContext was overwritten.
	bcField := p.Field(pkgMeta, "HookMetadata", "BindingContext")
	var stores []*eng.GNode
	for _, n := range g.Nodes {
		if as, ok := n.Node.(*ast.AssignStmt); ok {
			for _, l := range as.Lhs {
				if eng.IsField(info, l, bcField) {
					stores = append(stores, n)
				}
			}
		}
	}
	late := ""
	var latePos token.Pos = f.Decl.Pos()
	if len(stores) > 0 {
		reach := g.Reach(eng.Query{From: stores})
		for n := range reach {
			if len(g.CallsAt(n, isObj(isSyncM))) > 0 {
				late = g.Describe(n)
				latePos = n.Node.Pos()
			}
		}
	}
	r.Check(late == "", final+" sync-decision-before-combine", latePos, "IsSynchronization() is evaluated only before the binding contexts are replaced by the combined ones",
		"IsSynchronization() is evaluated after hookMeta.BindingContext was replaced by the combined/compacted contexts ("+late+"): when the Synchronization context was compacted away the task no longer looks like a Synchronization, the unlock is skipped and the monitor stays locked for ever")

	// retry stability of the unlock decision: a failed run leaves the task in the queue with the metadata written back
	// by UpdateMetadata (combined BindingContext, MonitorIDs); the retry takes the decision again from that metadata.
	// The decision must have an alternative that the write-back cannot turn from true to false, and that alternative
	// must hold for every Synchronization task when it is created.
	combMon := p.Field(pkgOp, "CombineResult", "MonitorIDs")
	written := map[*types.Var][]*eng.GNode{}
	if st, ok := p.Named(pkgMeta, "HookMetadata").Underlying().(*types.Struct); ok {
		for i := 0; i < st.NumFields(); i++ {
			fld := st.Field(i)
			for _, n := range g.Nodes {
				if as, isA := n.Node.(*ast.AssignStmt); isA {
					for _, l := range as.Lhs {
						if eng.IsField(info, l, fld) {
							written[fld] = append(written[fld], n)
						}
					}
				}
			}
		}
	}
	// fields read by IsSynchronization()
	syncReads := map[*types.Var]bool{}
	if mf := p.FuncOf(isSyncM); mf != nil && mf.Decl.Body != nil {
		ast.Inspect(mf.Decl.Body, func(n ast.Node) bool {
			if sel, ok := n.(*ast.SelectorExpr); ok {
				if v, isV := mf.Pkg.TypesInfo.Uses[sel.Sel].(*types.Var); isV && v.IsField() {
					syncReads[v] = true
				}
			}
			return true
		})
	}
	syncStable := len(syncReads) > 0
	for fld := range syncReads {
		if len(written[fld]) > 0 {
			syncStable = false
		}
	}
	// len(MonitorIDs) > 0 is stable when every store to the field is taken only with a non-empty right-hand side
	monStable := true
	for _, n := range written[monitorIDs] {
		as := n.Node.(*ast.AssignStmt)
		okStore := false
		if len(as.Lhs) == 1 && len(as.Rhs) == 1 && eng.IsField(info, as.Rhs[0], combMon) {
			okStore = g.OnlyVia(n, nil, g.FactEdge(func(fc eng.Fact) bool { return nonEmptyLenOf(info, fc, combMon) }))
		}
		if !okStore {
			monStable = false
		}
	}
	for _, s := range finalSites {
		n := g.NodeOf(s.Call)
		if n == nil || s.InLit != nil {
			continue
		}
		stable := false
		// look at every test edge that dominates the unlock: one of its all-identity clauses must contain a stable atom
		for _, m := range g.Nodes {
			for _, e := range m.Succ {
				if e.Cond == nil || !reachFromEdge(g, e)[n] {
					continue
				}
				for _, cl := range g.EdgeClauses(e) {
					for _, a := range cl {
						if nonEmptyLenOf(info, a, monitorIDs) && monStable {
							stable = true
						}
						if a.Pos && a.Y == nil && syncStable {
							if isCallTo(info, a.X, isSyncM) {
								stable = true
							}
							if v, ok := eng.SelObj(info, a.X).(*types.Var); ok && !v.IsField() {
								if as := eng.AssignedExprs(info, f.Decl, v); len(as) == 1 && isCallTo(info, as[0], isSyncM) {
									stable = true
								}
							}
						}
					}
				}
			}
		}
		r.Check(stable, final+" unlock-decision-survives-retry", s.Call.Pos(),
			"the unlock decision has an alternative that the metadata write-back cannot falsify (MonitorIDs stay non-empty)",
			"the unlock is decided only from task metadata that the function overwrites before UpdateMetadata (IsSynchronization() reads BindingContext, which is replaced by the combined and compacted contexts): when the run fails and the task is retried, a Synchronization whose context was compacted away no longer looks like one, its monitors are never unlocked and every later event of the binding is lost")
	}
	// every Synchronization task is created with its monitor id
	if ef := p.Func(pkgOp + ".(*ShellOperator).taskHandleEnableKubernetesBindings"); ef == nil {
		r.Unknown("anchor:taskHandleEnableKubernetesBindings", token.NoPos, "function not found")
	} else {
		c.Touch(ef)
		einfo := ef.Pkg.TypesInfo
		hmT := p.Named(pkgMeta, "HookMetadata")
		nlit, okLit := 0, true
		var lpos token.Pos = ef.Decl.Pos()
		ast.Inspect(ef.Decl.Body, func(n ast.Node) bool {
			cl, isC := n.(*ast.CompositeLit)
			if !isC {
				return true
			}
			if tv, has := einfo.Types[cl]; !has || hmT == nil || !types.Identical(tv.Type, hmT) {
				return true
			}
			nlit++
			lpos = cl.Pos()
			v := litKeyValue(einfo, cl, monitorIDs)
			inner, isL := ast.Unparen(v).(*ast.CompositeLit)
			if v == nil || !isL || len(inner.Elts) == 0 {
				okLit = false
			}
			return true
		})
		r.Check(nlit > 0 && okLit, ef.Key+" Synchronization tasks carry MonitorIDs", lpos, "every Synchronization task is created with a non-empty MonitorIDs list", "a Synchronization task is created without its monitor id: nothing identifies the monitors to unlock after its (possibly retried) run")
	}

	// the combined task carries the monitor ids of all merged tasks
	okFlow := false
	var pos token.Pos = f.Decl.Pos()
	eng.InspectNoLit(f.Decl.Body, func(n ast.Node) bool {
		if as, ok := n.(*ast.AssignStmt); ok && len(as.Lhs) == 1 && eng.IsField(info, as.Lhs[0], monitorIDs) && eng.IsField(info, as.Rhs[0], combMon) {
			okFlow = true
			pos = as.Pos()
		}
		return true
	})
	r.Check(okFlow, final+" combined MonitorIDs", pos, "MonitorIDs of the combined task come from CombineResult.MonitorIDs", "the monitor ids collected while combining Synchronization tasks are not stored in the task: merged bindings are never unlocked")
}

// ifaceMethodsFor returns interface methods (of product interfaces) that the concrete method implements.
func ifaceMethodsFor(p *eng.Prog, m *types.Func) []*types.Func {
	var out []*types.Func
	rn := eng.RecvNamed(m)
	if rn == nil {
		return nil
	}
	for _, pk := range p.All {
		sc := pk.Types.Scope()
		for _, name := range sc.Names() {
			tn, ok := sc.Lookup(name).(*types.TypeName)
			if !ok {
				continue
			}
			it, ok := tn.Type().Underlying().(*types.Interface)
			if !ok {
				continue
			}
			if !types.Implements(rn, it) && !types.Implements(types.NewPointer(rn), it) {
				continue
			}
			for i := 0; i < it.NumMethods(); i++ {
				if it.Method(i).Name() == m.Name() {
					out = append(out, it.Method(i))
				}
			}
		}
	}
	return out
}

func runC01R11(c *eng.Ctx, r *eng.RuleCtx) {
	p := c.P
	f := r.NeedFunc(pkgOp + ".(*ManagerEventsHandler).Start")
	if f == nil {
		return
	}
	info := f.Pkg.TypesInfo
	// exactly one go statement, none nested
	gos := 0
	ast.Inspect(f.Decl.Body, func(n ast.Node) bool {
		if _, ok := n.(*ast.GoStmt); ok {
			gos++
		}
		return true
	})
	r.Check(gos == 1, f.Key+" single-consumer", f.Decl.Pos(), "exactly one goroutine consumes both channels", fmt.Sprintf("%d go statements in the events handler: events would be turned into tasks concurrently and per-object order is lost", gos))
	doWithLock := p.Method(pkgQueue, "TaskQueueSet", "DoWithLock")
	addLast := p.Method(pkgQueue, "TaskQueue", "AddLast")
	queues := p.Field(pkgQueue, "TaskQueueSet", "Queues")
	getQN := p.Method(pkgTask, "Task", "GetQueueName")
	var lit *eng.Lit
	for _, l := range litsPassedTo(f, info, doWithLock) {
		lit = l
	}
	// the critical section: the literal handed to DoWithLock, or - when the loop was moved onto the set - a method of
	// TaskQueueSet that the reference tree does not have, called from the handler, whose AddLast call runs with the
	// set's mutex held (lock-set analysis of that method)
	var critBody *ast.BlockStmt
	var lg *eng.Graph
	critPos := f.Decl.Pos()
	if lit != nil {
		critBody, lg, critPos = lit.Lit.Body, p.GraphOfLit(lit), lit.Lit.Pos()
	} else if setT := p.Named(pkgQueue, "TaskQueueSet"); setT != nil {
		setMu := p.Field(pkgQueue, "TaskQueueSet", "m")
		for _, s := range p.AllSites() {
			if s.In != f {
				continue
			}
			fn, isF := s.Callee.(*types.Func)
			if !isF || eng.RecvNamed(fn) == nil || eng.RecvNamed(fn).Obj() != setT.Obj() {
				continue
			}
			mf := p.FuncOf(fn)
			if mf == nil || mf.Decl.Body == nil || (p.Baseline != nil && p.Baseline[mf.Key]) {
				continue
			}
			minfo := mf.Pkg.TypesInfo
			for _, cl := range callsIn(minfo, mf.Decl.Body, func(o types.Object, _ *ast.CallExpr) bool { return o == types.Object(addLast) }) {
				held := false
				for _, m := range p.Locks().HeldMutexes(mf, nil, cl) {
					if setMu != nil && m == setMu {
						held = true
					}
				}
				if held {
					critBody, lg, critPos, info = mf.Decl.Body, p.GraphOf(mf), mf.Decl.Pos(), minfo
				}
			}
		}
	}
	if critBody == nil {
		r.Bad(f.Key+" append-under-lock", f.Decl.Pos(), "tasks are not appended inside TaskQueueSet.DoWithLock")
		return
	}
	calls := callsIn(info, critBody, func(o types.Object, _ *ast.CallExpr) bool {
		return o != nil && (nameOf(o) == "AddLast" || nameOf(o) == "AddFirst" || nameOf(o) == "AddAfter" || nameOf(o) == "AddBefore")
	})
	if len(calls) != 1 || eng.CalleeOf(info, calls[0]) != addLast {
		r.Bad(f.Key+" appends-with-AddLast", critPos, "tasks created for an event are not appended with exactly one (*TaskQueue).AddLast")
		return
	}
	call := calls[0]
	el := elemLoopAt(info, critBody, call.Pos())
	okLoop := el != nil && !el.Desc && len(call.Args) == 1 && el.IsElem(call.Args[0]) && loopNoEarlyExit(lg, el.Stmt)
	r.Check(okLoop, f.Key+" ascending-append", call.Pos(), "AddLast(task) in an ascending range over the tasks of the event", "tasks of one event are not appended in ascending order with AddLast(element)")
	// the queue is Queues[task.GetQueueName()]
	okQueue := false
	if okLoop {
		s, _ := ast.Unparen(call.Fun).(*ast.SelectorExpr)
		if s != nil {
			if qv, ok := eng.SelObj(info, s.X).(*types.Var); ok {
				for _, e := range eng.AssignedExprs(info, critBody, qv) {
					if ix, ok := ast.Unparen(e).(*ast.IndexExpr); ok && eng.IsField(info, ix.X, queues) {
						if cl, ok := ast.Unparen(resolveLocal(info, critBody, ix.Index)).(*ast.CallExpr); ok && eng.CalleeOf(info, cl) == getQN {
							if sel, ok := ast.Unparen(cl.Fun).(*ast.SelectorExpr); ok && el.IsElem(sel.X) {
								okQueue = true
							}
						}
					}
				}
			}
		}
	}
	r.Check(okQueue, f.Key+" queue-by-name", call.Pos(), "queue = Queues[task.GetQueueName()]", "the task is not appended to the queue named by the task itself")
	// every task is appended unless its queue is missing: from the body entry, avoiding the `q == nil` edge, AddLast is passed
	if okLoop {
		n := lg.NodeOf(call)
		nilEdge := lg.FactEdge(func(fc eng.Fact) bool {
			x, y, eq, ok := eng.EqAtom(fc)
			return ok && eq && (eng.IsNil(info, y) || eng.IsNil(info, x))
		})
		bodyEntry := loopBodyEntryOf(lg, el.Stmt)
		isHead := isLoopHeadOf(el.Stmt)
		ok := false
		if bodyEntry != nil && n != nil {
			reach := lg.Reach(eng.Query{From: []*eng.GNode{bodyEntry}, AvoidEdge: nilEdge, AvoidNode: func(m *eng.GNode) bool { return m == n }})
			ok = true
			for m := range reach {
				if m != n && (m.Exit || isHead(m)) {
					ok = false
				}
			}
		}
		r.Check(ok, f.Key+" no-task-dropped", call.Pos(), "every task whose queue exists is appended", "a task can be skipped although its queue exists")
	}
}

func runC01R12(c *eng.Ctx, r *eng.RuleCtx) {
	p := c.P
	kubeCh := p.Field(pkgKem, "kubeEventsManager", "KubeEventCh")
	schedCh := p.Field(pkgSched, "scheduleManager", "ScheduleCh")
	chI := p.Method(pkgKem, "KubeEventsManager", "Ch")
	chS := p.Method(pkgSched, "ScheduleManager", "Ch")
	if kubeCh == nil || schedCh == nil {
		r.Unknown("anchor:KubeEventCh/ScheduleCh", token.NoPos, "channel fields not found")
		return
	}
	isEventChan := func(info *types.Info, e ast.Expr) bool {
		e = ast.Unparen(e)
		if eng.IsField(info, e, kubeCh) || eng.IsField(info, e, schedCh) {
			return true
		}
		if cl, ok := e.(*ast.CallExpr); ok {
			o := eng.CalleeOf(info, cl)
			if o != nil && nameOf(o) == "Ch" && (o == chI || o == chS || eng.IsMethod(o, full(pkgKem), "kubeEventsManager", "Ch") || eng.IsMethod(o, full(pkgSched), "scheduleManager", "Ch")) {
				return true
			}
		}
		return false
	}
	for _, pk := range p.All {
		info := pk.TypesInfo
		for _, file := range pk.Syntax {
			fname := p.Fset.Position(file.Pos()).Filename
			if strings.HasSuffix(fname, "_test.go") || strings.HasSuffix(fname, "_mock.go") {
				continue
			}
			inSelect := map[*ast.SendStmt]*ast.SelectStmt{}
			ast.Inspect(file, func(n ast.Node) bool {
				if sel, ok := n.(*ast.SelectStmt); ok {
					for _, cl := range sel.Body.List {
						if snd, ok := cl.(*ast.CommClause).Comm.(*ast.SendStmt); ok {
							inSelect[snd] = sel
						}
					}
				}
				return true
			})
			ast.Inspect(file, func(n ast.Node) bool {
				snd, ok := n.(*ast.SendStmt)
				if !ok || !isEventChan(info, snd.Chan) {
					return true
				}
				construct := "send:" + p.Rel(snd.Pos())[:strings.LastIndex(p.Rel(snd.Pos()), ":")] + " `" + eng.Short(p.Fset, snd.Chan) + " <-`"
				if sel, bad := inSelect[snd]; bad && len(sel.Body.List) > 1 {
					r.Bad(construct, snd.Pos(), "the event is sent inside a select with another alternative: when the consumer is busy the value is dropped")
				} else {
					r.Ok(construct, snd.Pos(), "blocking send")
				}
				return true
			})
		}
	}
}

// cacheBeforeExit: in handleWatchEvent every exit other than `stopped` / filter error is preceded by a cache update,
// and the KubeEvent is built only after it.
func cacheBeforeExit(c *eng.Ctx, r4 *eng.RuleCtx, hwe *eng.Func, evNode *eng.GNode) {
	p := c.P
	g := p.GraphOf(hwe)
	cached := p.Field(pkgKem, "resourceInformer", "cachedObjects")
	cacheWrite := hweCacheWrite(p, hwe, cached)
	avoid := hweAllowedEarly(p, hwe, g)
	ex := g.MustPassToExit(eng.Query{FromEntry: true, AvoidEdge: avoid}, cacheWrite)
	if ex == nil {
		r4.Ok(hwe.Key+" cache-before-exit", hwe.Decl.Pos(), "every exit other than `stopped` and the filter error is preceded by a store/delete on cachedObjects")
	} else {
		r4.Bad(hwe.Key+" cache-before-exit", hwe.Decl.Pos(), fmt.Sprintf("the exit at %s is reachable without updating cachedObjects: a suppressed or skipped change would not show up in snapshots", g.Describe(ex)))
	}
	if evNode != nil {
		r4.Check(g.OnlyVia(evNode, cacheWrite, avoid), hwe.Key+" cache-before-event", evNode.Node.Pos(),
			"the KubeEvent is built only after the cache update", "the KubeEvent can be built before cachedObjects is updated: a reader woken by the event would see the old snapshot")
	}
}

// hweCacheWrite: a node of handleWatchEvent that updates cachedObjects: a store / delete on the map, or a call on
// the informer of a helper method that does so on all of its paths (must-effect summary).
func hweCacheWrite(p *eng.Prog, hwe *eng.Func, cached *types.Var) func(n *eng.GNode) bool {
	me := newMustEffect(p, hwe, false, func(info *types.Info, n ast.Node, _ types.Object) bool {
		switch t := n.(type) {
		case *ast.AssignStmt:
			for _, l := range t.Lhs {
				if ix, ok := ast.Unparen(l).(*ast.IndexExpr); ok && eng.IsField(info, ix.X, cached) {
					return true
				}
			}
		case *ast.ExprStmt:
			if d := builtinCall(info, t.X, "delete"); d != nil && eng.IsField(info, d.Args[0], cached) {
				return true
			}
		}
		return false
	})
	return me.Node(hwe, nil)
}

// hweAllowedEarly: edges of the two legitimate early exits (stopped informer, filter error) and the infeasible
// "no case matched" edge of the event-type switch.
func hweAllowedEarly(p *eng.Prog, hwe *eng.Func, g *eng.Graph) func(*eng.GEdge) bool {
	info := hwe.Pkg.TypesInfo
	stopped := p.Field(pkgKem, "resourceInformer", "stopped")
	errT := types.Universe.Lookup("error").Type()
	allowedEarly := g.FactEdge(func(f eng.Fact) bool {
		if f.Y != nil {
			return false
		}
		if f.Pos && eng.IsField(info, f.X, stopped) {
			return true
		}
		x, y, eq, ok := eng.EqAtom(f)
		if ok && !eq && eng.IsNil(info, y) {
			if tv, ok := info.Types[x]; ok && types.Identical(tv.Type, errT) {
				return true
			}
		}
		return false
	})
	return func(e *eng.GEdge) bool { return allowedEarly(e) || unmatchedSwitchEdge(p, hwe, g, e) }
}

// hweEventNode finds the construction of the KubeEvent in handleWatchEvent.
func hweEventNode(p *eng.Prog, hwe *eng.Func) (*eng.GNode, types.Object) {
	info := hwe.Pkg.TypesInfo
	g := p.GraphOf(hwe)
	kubeEventT := p.Named(pkgKemT, "KubeEvent")
	for _, n := range g.Nodes {
		as, ok := n.Node.(*ast.AssignStmt)
		if !ok || len(as.Lhs) != 1 || len(as.Rhs) != 1 {
			continue
		}
		if cl, ok := ast.Unparen(as.Rhs[0]).(*ast.CompositeLit); ok {
			if tv, ok := info.Types[cl]; ok && kubeEventT != nil && types.Identical(tv.Type, kubeEventT) {
				return n, eng.SelObj(info, as.Lhs[0])
			}
		}
	}
	return nil, nil
}

// nonEmptyLenOf: the fact states len(<field fld>) > 0 (or != 0, or >= 1).
func nonEmptyLenOf(info *types.Info, fc eng.Fact, fld *types.Var) bool {
	if fc.Y != nil {
		return false
	}
	b, ok := ast.Unparen(fc.X).(*ast.BinaryExpr)
	if !ok {
		return false
	}
	lenOf := func(e ast.Expr) bool {
		cl := builtinCall(info, e, "len")
		return cl != nil && len(cl.Args) == 1 && eng.IsField(info, cl.Args[0], fld)
	}
	k, isK := eng.ConstInt(info, b.Y)
	if !lenOf(b.X) || !isK {
		return false
	}
	switch b.Op {
	case token.GTR: // len > 0
		return fc.Pos && k == 0
	case token.NEQ: // len != 0
		return fc.Pos && k == 0
	case token.GEQ: // len >= 1
		return fc.Pos && k == 1
	case token.EQL: // !(len == 0)
		return !fc.Pos && k == 0
	case token.LEQ: // !(len <= 0)
		return !fc.Pos && k == 0
	case token.LSS: // !(len < 1)
		return !fc.Pos && k == 1
	}
	return false
}

// emptyLenOf: the fact states len(<field fld>) == 0 (also written as !(len > 0), len <= 0, len < 1).
func emptyLenOf(info *types.Info, fc eng.Fact, fld *types.Var) bool {
	if fc.Y != nil {
		return false
	}
	b, ok := ast.Unparen(fc.X).(*ast.BinaryExpr)
	if !ok {
		return false
	}
	cl := builtinCall(info, b.X, "len")
	k, isK := eng.ConstInt(info, b.Y)
	if cl == nil || len(cl.Args) != 1 || !eng.IsField(info, cl.Args[0], fld) || !isK {
		return false
	}
	switch b.Op {
	case token.EQL:
		return fc.Pos && k == 0
	case token.LEQ:
		return fc.Pos && k == 0
	case token.LSS:
		return fc.Pos && k == 1
	case token.GTR:
		return !fc.Pos && k == 0
	case token.NEQ:
		return !fc.Pos && k == 0
	case token.GEQ:
		return !fc.Pos && k == 1
	}
	return false
}
