package rules

import (
	"go/ast"
	"go/token"
	"go/types"

	"sopverif/eng"
)

// Lifetime of the shared informers (pkg/kube_events_manager/factory.go). One client-go informer is shared by every
// resource informer (binding, namespace) with the same kind / namespace / selectors; it must live exactly as long as
// one of them is registered. A structural necessary condition of "no event is lost / snapshots stay current" for the
// bindings that share it:
//   - the informer runs under the factory's own context, not under the context of the subscriber that happened to
//     start it (that subscriber's monitor can be stopped while others keep their handlers registered);
//   - that context is created detached (context.Background()), in the store;
//   - it is cancelled only when the last registration is removed.
func runSharedInformerLifetime(c *eng.Ctx, r *eng.RuleCtx) {
	p := c.P
	fctx := p.Field(pkgKem, "Factory", "ctx")
	fcancel := p.Field(pkgKem, "Factory", "cancel")
	regs := p.Field(pkgKem, "Factory", "handlerRegistrations")
	if fctx == nil || fcancel == nil || regs == nil {
		r.Unknown("anchor:Factory.ctx/cancel/handlerRegistrations", token.NoPos, "field not found")
		return
	}
	// (1) Run(stop): stop is <factory>.ctx.Done()
	if f := r.NeedFunc(pkgKem + ".(*FactoryStore).Start"); f != nil {
		info := f.Pkg.TypesInfo
		n := 0
		ast.Inspect(f.Decl.Body, func(x ast.Node) bool {
			call, ok := x.(*ast.CallExpr)
			if !ok {
				return true
			}
			o := eng.CalleeOf(info, call)
			if o == nil || nameOf(o) != "Run" || len(call.Args) != 1 {
				return true
			}
			if fn, isF := o.(*types.Func); !isF || fn.Pkg() == nil || fn.Pkg().Path() != "k8s.io/client-go/tools/cache" {
				return true
			}
			n++
			ok2 := false
			arg := call.Args[0]
			if lv, isV := eng.SelObj(info, arg).(*types.Var); isV && !lv.IsField() {
				// a local assigned once from the channel expression
				if as := eng.AssignedExprs(info, f.Decl.Body, lv); len(as) == 1 {
					arg = as[0]
				}
			}
			if d, isC := ast.Unparen(arg).(*ast.CallExpr); isC && len(d.Args) == 0 {
				if s, isS := ast.Unparen(d.Fun).(*ast.SelectorExpr); isS && s.Sel.Name == "Done" && eng.IsField(info, s.X, fctx) {
					ok2 = true
				}
			}
			r.Check(ok2, f.Key+" shared informer runs under Factory.ctx", call.Pos(), "informer.Run(factory.ctx.Done())",
				"the shared informer is not run under the factory's own context: when the subscriber whose context is used goes away (its monitor is stopped or updated, its namespace disappears) the informer stops although other bindings still have their handlers registered; they silently stop receiving events and their snapshots freeze")
			return true
		})
		if n == 0 {
			r.Bad(f.Key+" shared informer runs under Factory.ctx", f.Decl.Pos(), "FactoryStore.Start does not run the shared informer")
		}
	}
	// (2) Factory.ctx comes from context.WithCancel(context.Background())
	nlit := 0
	for _, f := range funcsOfPkg(p, pkgKem) {
		if f.Decl.Body == nil {
			continue
		}
		info := f.Pkg.TypesInfo
		ast.Inspect(f.Decl.Body, func(x ast.Node) bool {
			cl, ok := x.(*ast.CompositeLit)
			if !ok {
				return true
			}
			v := litKeyValue(info, cl, fctx)
			if v == nil {
				return true
			}
			nlit++
			c.Touch(f)
			detached := false
			if lv, isV := eng.SelObj(info, v).(*types.Var); isV && !lv.IsField() {
				for _, e := range eng.AssignedExprs(info, f.Decl.Body, lv) {
					if call, isC := ast.Unparen(e).(*ast.CallExpr); isC && eng.IsPkgFunc(eng.CalleeOf(info, call), "context", "WithCancel") && len(call.Args) == 1 {
						if bg, isB := ast.Unparen(call.Args[0]).(*ast.CallExpr); isB && eng.IsPkgFunc(eng.CalleeOf(info, bg), "context", "Background") {
							detached = true
						}
					}
				}
			}
			r.Check(detached, f.Key+" Factory.ctx is detached", cl.Pos(), "ctx, cancel := context.WithCancel(context.Background())",
				"the context of a shared informer factory is derived from something other than context.Background(): the informer can be stopped while bindings are still registered on it")
			return true
		})
		// no other store to Factory.ctx
		for _, ref := range p.Refs(fctx) {
			if ref.Write && !ref.Lit && ref.In == f {
				r.Bad(f.Key+" Factory.ctx reassigned", ref.Node.Pos(), "Factory.ctx is assigned outside the factory's construction")
			}
		}
	}
	if nlit == 0 {
		r.Bad("Factory literal", token.NoPos, "no construction of Factory with its ctx found")
	}
	// (3) cancel only when the last registration is gone
	ncancel := 0
	for _, s := range p.Sites(fcancel) {
		ncancel++
		f := s.In
		c.Touch(f)
		info := f.Pkg.TypesInfo
		g := p.GraphOf(f)
		if s.InLit != nil {
			g = p.GraphOfLit(s.InLit)
		}
		n := g.NodeOf(s.Call)
		empty := g.FactEdge(func(fc eng.Fact) bool { return emptyLenOf(info, fc, regs) })
		r.Check(n != nil && g.OnlyVia(n, nil, empty), s.Where()+" cancels the factory only when unused", s.Call.Pos(), "cancel() under len(handlerRegistrations) == 0",
			"the shared informer is cancelled while handlers of other bindings are still registered on it")
	}
	if ncancel == 0 {
		r.Ok("Factory.cancel is never called", token.NoPos, "shared informers are never stopped")
	}
}

// runInitialListHandled (C01.R14, C02.R11): the informers' OnAdd handlers treat a notification of the informer's
// initial list like any other Added notification - they do not look at the isInInitialList argument. The list made by
// loadExistedObjects / getExistedObjects and the informer's own first list are two different lists, taken at
// different moments; what appears or changes in between is known only from the initial-list notifications.
func runInitialListHandled(c *eng.Ctx, r *eng.RuleCtx) {
	p := c.P
	for _, key := range []string{pkgKem + ".(*resourceInformer).OnAdd", pkgKem + ".(*namespaceInformer).OnAdd"} {
		f := r.NeedFunc(key)
		if f == nil {
			continue
		}
		info := f.Pkg.TypesInfo
		sig := f.Obj.Type().(*types.Signature)
		var flag *types.Var
		for i := 0; i < sig.Params().Len(); i++ {
			if b, ok := sig.Params().At(i).Type().Underlying().(*types.Basic); ok && b.Kind() == types.Bool {
				flag = sig.Params().At(i)
			}
		}
		var use *ast.Ident
		if flag != nil {
			ast.Inspect(f.Decl.Body, func(n ast.Node) bool {
				if id, ok := n.(*ast.Ident); ok && info.Uses[id] == types.Object(flag) {
					use = id
				}
				return true
			})
		}
		pos := f.Decl.Pos()
		if use != nil {
			pos = use.Pos()
		}
		r.Check(use == nil, f.Key+" initial-list notifications are handled", pos, "isInInitialList is not consulted", "OnAdd treats the objects of the informer's initial list differently from other additions: an object that appeared or changed between the hand-made first list and the informer's own list is neither cached nor reported")
	}
	_ = p
}
