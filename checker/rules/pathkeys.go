package rules

import (
	"go/ast"
	"go/types"
	"sort"

	"sopverif/eng"
)

// Path-sensitive key sets (kind E) for functions that build a map[string]interface{} with constant keys and
// several returns. For every return node the keys are classified with two reachability questions on the
// flag-sensitive graph:
//   always(K):   the return is unreachable from the entry when every store of K is removed;
//   possible(K): the return is reachable from some store of K.

type keyStore struct {
	Node    *eng.GNode
	Key     string // constant key, or "*" + description for a dynamic key (for k, v := range m { res[k] = v })
	Value   ast.Expr
	Dynamic bool
}

func mapKeyStores(g *eng.Graph, mapVar types.Object) []keyStore {
	info := g.Info
	var out []keyStore
	for _, n := range g.Nodes {
		as, ok := n.Node.(*ast.AssignStmt)
		if !ok {
			continue
		}
		for i, l := range as.Lhs {
			ix, isIx := ast.Unparen(l).(*ast.IndexExpr)
			if !isIx || eng.SelObj(info, ix.X) != mapVar {
				continue
			}
			var val ast.Expr
			if len(as.Lhs) == len(as.Rhs) {
				val = as.Rhs[i]
			}
			if k, isC := eng.ConstStr(info, ix.Index); isC {
				out = append(out, keyStore{Node: n, Key: k, Value: val})
			} else {
				out = append(out, keyStore{Node: n, Key: "*dynamic", Value: val, Dynamic: true})
			}
		}
	}
	return out
}

type returnKeys struct {
	Node     *eng.GNode
	Always   map[string]bool
	Possible map[string]bool
}

func (r returnKeys) alwaysList() []string   { return sortedKeys(r.Always) }
func (r returnKeys) possibleList() []string { return sortedKeys(r.Possible) }

func sortedKeys(m map[string]bool) []string {
	var out []string
	for k := range m {
		out = append(out, k)
	}
	sort.Strings(out)
	return out
}

// returnKeySets computes the key classification for every return of g that returns mapVar.
func returnKeySets(g *eng.Graph, mapVar types.Object, stores []keyStore) []returnKeys {
	info := g.Info
	byKey := map[string][]*eng.GNode{}
	for _, s := range stores {
		byKey[s.Key] = append(byKey[s.Key], s.Node)
	}
	var out []returnKeys
	for _, n := range g.Nodes {
		ret, ok := n.Node.(*ast.ReturnStmt)
		if !ok || len(ret.Results) != 1 || eng.SelObj(info, ret.Results[0]) != mapVar {
			continue
		}
		rk := returnKeys{Node: n, Always: map[string]bool{}, Possible: map[string]bool{}}
		for k, nodes := range byKey {
			set := map[*eng.GNode]bool{}
			for _, x := range nodes {
				set[x] = true
			}
			if g.OnlyVia(n, func(m *eng.GNode) bool { return set[m] }, nil) {
				rk.Always[k] = true
			}
			reach := g.Reach(eng.Query{From: nodes})
			if reach[n] {
				rk.Possible[k] = true
			}
		}
		out = append(out, rk)
	}
	return out
}

func sameSet(a map[string]bool, b []string) bool {
	if len(a) != len(b) {
		return false
	}
	for _, k := range b {
		if !a[k] {
			return false
		}
	}
	return true
}

func subsetOf(a map[string]bool, b []string) bool {
	allowed := map[string]bool{}
	for _, k := range b {
		allowed[k] = true
	}
	for k := range a {
		if !allowed[k] {
			return false
		}
	}
	return true
}
