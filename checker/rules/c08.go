package rules

import (
	"fmt"
	"go/ast"
	"go/token"
	"go/types"
	"strings"

	"sopverif/eng"
)

func init() {
	register(&Property{
		ID:    "C08",
		Title: "Hooks are triggered only by meaningful changes (event type and jqFilter)",
		Explanation: "Decided on handleWatchEvent, applyFilter, jq.ApplyFilter, shouldFireEvent and WithEventTypes: (R1) the cache is " +
			"updated before any skip or early return (suppressed changes still update snapshots) and every object handed to the cache or " +
			"to an event has been stripped when keepFullObjectsInMemory is false; (R2) the skip is taken only for Added/Modified and only " +
			"when the object is cached with an equal checksum, the Deleted arm cannot bypass the event-type test, and informer callbacks " +
			"never drop a notification before handleWatchEvent; (R3) shouldFireEvent compares by equality with the configured types, which " +
			"default to exactly the three events; (R4) in every branch of applyFilter the checksum is computed from the marshalled value " +
			"that is stored as FilterResult (or from the whole object without a filter); (R5) every value yielded by the jq iterator " +
			"flows into the projection. NOT decided: 'for all jq expressions' (gojq semantics), md5 collisions, client-go resync behaviour.",
		Run: runC08,
	})
}

func runC08(c *eng.Ctx) {
	p := c.P
	hwe := p.Func(pkgKem + ".(*resourceInformer).handleWatchEvent")
	r1 := c.Rule("C08.R1", "B:must-pass", "handleWatchEvent updates cachedObjects before any skip/early return; RemoveFullObject (when !KeepFullObjectsInMemory) precedes both the cache store and the event", 4)
	r2 := c.Rule("C08.R2", "B+D:control-dependence", "the skip return happens only for Added/Modified with the object cached under an equal checksum; Deleted always reaches shouldFireEvent; OnAdd/OnUpdate/OnDelete forward every notification", 6)
	if hwe == nil {
		r1.Unknown("anchor:handleWatchEvent", token.NoPos, "not found")
		r2.Unknown("anchor:handleWatchEvent", token.NoPos, "not found")
	} else {
		c.Touch(hwe)
		info := hwe.Pkg.TypesInfo
		g := p.GraphOf(hwe)
		evNode, _ := hweEventNode(p, hwe)
		cacheBeforeExit(c, r1, hwe, evNode)
		strippedBeforeUse(c, r1, hwe, evNode)
		cached := p.Field(pkgKem, "resourceInformer", "cachedObjects")
		cw := hweCacheWrite(p, hwe, cached)
		// R2: skip
		checksum := p.Field(pkgKemT, "ObjectAndFilterResult", "Metadata")
		_ = checksum
		wAdded := p.Object(pkgKemT, "WatchEventAdded")
		wModified := p.Object(pkgKemT, "WatchEventModified")
		wDeleted := p.Object(pkgKemT, "WatchEventDeleted")
		shouldFire := p.Method(pkgKem, "resourceInformer", "shouldFireEvent")
		// early returns after the cache write that are not the final exit: find returns reachable from cache writes
		isChecksumEq := func(fc eng.Fact) bool {
			x, y, eq, ok := eng.EqAtom(fc)
			if !ok || !eq {
				return false
			}
			sx, okx := ast.Unparen(x).(*ast.SelectorExpr)
			sy, oky := ast.Unparen(y).(*ast.SelectorExpr)
			return okx && oky && sx.Sel.Name == "Checksum" && sy.Sel.Name == "Checksum"
		}
		inCacheFact := func(fc eng.Fact) bool {
			if !fc.Pos || fc.Y != nil {
				return false
			}
			v, ok := eng.SelObj(info, fc.X).(*types.Var)
			if !ok || v.IsField() {
				return false
			}
			// comma-ok of a lookup in cachedObjects, possibly handed over through another local
			srcs := valueSources(info, hwe.Decl.Body, fc.X, 4)
			if len(srcs) == 0 {
				return false
			}
			for _, src := range srcs {
				ix, isIx := ast.Unparen(src).(*ast.IndexExpr)
				if !isIx || !eng.IsField(info, ix.X, cached) {
					return false
				}
			}
			return true
		}
		isCaseOf := func(objs ...types.Object) func(fc eng.Fact) bool {
			return func(fc eng.Fact) bool {
				if fc.Y == nil || !fc.Pos {
					return false
				}
				o := eng.SelObj(info, fc.Y)
				for _, x := range objs {
					if o == x {
						return true
					}
				}
				return false
			}
		}
		nskip := 0
		var fireNode *eng.GNode
		for _, n := range g.NodesCalling(shouldFire) {
			fireNode = n
		}
		for _, n := range g.Nodes {
			ret, ok := n.Node.(*ast.ReturnStmt)
			if !ok || ret.Pos() == hwe.Decl.Body.End()-1 {
				continue
			}
			// only returns that come after a cache write (the skip)
			reachedFromWrite := false
			for _, m := range g.Nodes {
				if cw(m) && g.Reach(eng.Query{From: []*eng.GNode{m}})[n] {
					reachedFromWrite = true
				}
			}
			if !reachedFromWrite {
				continue
			}
			nskip++
			eqOK := g.OnlyVia(n, nil, g.FactEdge(isChecksumEq))
			inCacheOK := g.OnlyVia(n, nil, g.FactEdge(inCacheFact))
			armOK := g.OnlyVia(n, nil, g.FactEdge(isCaseOf(wAdded, wModified)))
			r2.Check(eqOK && inCacheOK && armOK, fmt.Sprintf("%s skip-return#%d", hwe.Key, nskip), ret.Pos(), "skip only for Added/Modified of a cached object with an equal checksum",
				fmt.Sprintf("an event is suppressed although it is not `Added/Modified of an object that is cached with the same checksum` (checksumEqual=%v objectInCache=%v addedOrModifiedArm=%v)", eqOK, inCacheOK, armOK))
		}
		if nskip == 0 {
			r2.Ok(hwe.Key+" no-skip", hwe.Decl.Pos(), "no event is suppressed after the cache update")
		}
		if fireNode == nil {
			r2.Bad(hwe.Key+" event-type-test", hwe.Decl.Pos(), "handleWatchEvent does not consult shouldFireEvent")
		} else {
			// Deleted: from the Deleted case edge every path to an exit passes shouldFireEvent
			okDel := false
			for _, n := range g.Nodes {
				for _, e := range n.Succ {
					if e.Tag != nil && e.Taken && eng.SelObj(info, e.Cond) == wDeleted {
						q := eng.Query{From: []*eng.GNode{n}, AvoidEdge: func(x *eng.GEdge) bool { return x.From == n && x != e }}
						okDel = g.MustPassToExit(q, func(m *eng.GNode) bool { return m == fireNode }) == nil
					}
				}
			}
			r2.Check(okDel, hwe.Key+" deleted-reaches-event-type-test", fireNode.Node.Pos(), "a Deleted change always reaches shouldFireEvent", "a Deleted change can leave handleWatchEvent without reaching the event-type test (it would never trigger)")
			// the event is built only if shouldFireEvent(eventType) is true
			if evNode != nil {
				r2.Check(g.OnlyVia(evNode, nil, g.FactEdge(func(fc eng.Fact) bool { return fc.Pos && fc.Y == nil && isCallTo(info, fc.X, shouldFire) })), hwe.Key+" event-only-if-listed", evNode.Node.Pos(), "the event is built only when shouldFireEvent is true", "an event can be built for a watch-event type that is not listed in executeHookOnEvent")
			}
		}
		// informer callbacks forward everything
		hweObj := hwe.Obj
		for _, cb := range []struct {
			name string
			ev   types.Object
		}{{"OnAdd", wAdded}, {"OnUpdate", wModified}, {"OnDelete", wDeleted}} {
			f := r2.NeedFunc(pkgKem + ".(*resourceInformer)." + cb.name)
			if f == nil {
				continue
			}
			fg := p.GraphOf(f)
			finfo := f.Pkg.TypesInfo
			isFwd := func(n *eng.GNode) bool {
				return len(fg.CallsAt(n, func(o types.Object, call *ast.CallExpr) bool {
					return o == hweObj && len(call.Args) == 2 && eng.SelObj(finfo, call.Args[1]) == cb.ev
				})) > 0
			}
			ex := fg.MustPassToExit(eng.Query{FromEntry: true}, isFwd)
			r2.Check(ex == nil, f.Key+" forwards", f.Decl.Pos(), "every notification is handed to handleWatchEvent with its event type", "the informer callback can return without calling handleWatchEvent (e.g. for the objects of the initial list): changes that happened between the operator's own list and the informer start are neither cached nor delivered")
		}
	}

	// ---- R3
	r3 := c.Rule("C08.R3", "D:provenance", "shouldFireEvent returns true only on equality with an element of Monitor.EventTypes; WithEventTypes(nil) stores exactly Added, Modified, Deleted and otherwise exactly the given types", 3)
	if f := r3.NeedFunc(pkgKem + ".(*resourceInformer).shouldFireEvent"); f != nil {
		info := f.Pkg.TypesInfo
		g := p.GraphOf(f)
		eventTypes := p.Field(pkgKem, "MonitorConfig", "EventTypes")
		prm := f.Obj.Type().(*types.Signature).Params().At(0)
		var el *eng.ElemLoop
		for _, l := range elemLoopsOver(info, f.Decl.Body, func(x ast.Expr) bool { return eng.IsField(info, x, eventTypes) }) {
			el = l
		}
		ok := el != nil
		// the library form of the same membership test: every return is `slices.Contains(EventTypes, eventType)`
		if el == nil {
			nret, ncontains := 0, 0
			for _, n := range g.Nodes {
				ret, isR := n.Node.(*ast.ReturnStmt)
				if !isR {
					continue
				}
				nret++
				if len(ret.Results) == 1 {
					if cl, isC := ast.Unparen(ret.Results[0]).(*ast.CallExpr); isC && eng.IsPkgFunc(eng.CalleeOf(info, cl), "slices", "Contains") && len(cl.Args) == 2 &&
						eng.IsField(info, cl.Args[0], eventTypes) && eng.SelObj(info, cl.Args[1]) == prm {
						ncontains++
					}
				}
			}
			ok = nret > 0 && nret == ncontains
		} else {
			eqFact := func(pos bool) func(*eng.GEdge) bool {
				return g.FactEdge(func(fc eng.Fact) bool {
					x, y, eq, isEq := eng.EqAtom(fc)
					if !isEq || eq != pos {
						return false
					}
					return (el.IsElem(x) && eng.SelObj(info, y) == prm) || (el.IsElem(y) && eng.SelObj(info, x) == prm)
				})
			}
			for _, n := range g.Nodes {
				ret, isR := n.Node.(*ast.ReturnStmt)
				if !isR || len(ret.Results) != 1 {
					continue
				}
				b, isC := constBool(info, ret.Results[0])
				if !isC {
					ok = false
					continue
				}
				if b && !g.OnlyVia(n, nil, eqFact(true)) {
					ok = false
				}
				if !b {
					// `return false` must not be reachable once an element matched
					for _, m := range g.Nodes {
						for _, e := range m.Succ {
							if eqFact(true)(e) && reachFromEdge(g, e)[n] {
								ok = false
							}
						}
					}
				}
			}
		}
		r3.Check(ok, f.Key, f.Decl.Pos(), "true iff some configured type equals the event type", "shouldFireEvent is not `true exactly when the event type equals one of Monitor.EventTypes`")
	}
	if f := r3.NeedFunc(pkgKem + ".(*MonitorConfig).WithEventTypes"); f != nil {
		info := f.Pkg.TypesInfo
		g := p.GraphOf(f)
		eventTypes := p.Field(pkgKem, "MonitorConfig", "EventTypes")
		prm := f.Obj.Type().(*types.Signature).Params().At(0)
		want := map[types.Object]bool{p.Object(pkgKemT, "WatchEventAdded"): true, p.Object(pkgKemT, "WatchEventModified"): true, p.Object(pkgKemT, "WatchEventDeleted"): true}
		nilEdge := func(pos bool) func(*eng.GEdge) bool {
			return g.FactEdge(func(fc eng.Fact) bool {
				x, y, eq, isEq := eng.EqAtom(fc)
				return isEq && eq == pos && eng.SelObj(info, x) == prm && eng.IsNil(info, y)
			})
		}
		okDefault, okGiven := false, false
		for _, n := range g.Nodes {
			as, isA := n.Node.(*ast.AssignStmt)
			if !isA || len(as.Lhs) != 1 || !eng.IsField(info, as.Lhs[0], eventTypes) {
				continue
			}
			if cl, isC := ast.Unparen(as.Rhs[0]).(*ast.CompositeLit); isC && len(cl.Elts) == 3 {
				all := true
				seen := map[types.Object]bool{}
				for _, el := range cl.Elts {
					o := eng.SelObj(info, el)
					if !want[o] {
						all = false
					}
					seen[o] = true
				}
				if all && len(seen) == 3 && g.OnlyVia(n, nil, nilEdge(true)) {
					okDefault = true
				}
			}
			if ap := builtinCall(info, as.Rhs[0], "append"); ap != nil && len(ap.Args) == 2 && ap.Ellipsis.IsValid() && eng.SelObj(info, ap.Args[1]) == prm {
				// appended to the (emptied) field, or to a fresh empty slice
				if eng.IsField(info, ap.Args[0], eventTypes) {
					okGiven = true
				}
				if cl, isL := ast.Unparen(ap.Args[0]).(*ast.CompositeLit); isL && len(cl.Elts) == 0 {
					okGiven = true
				}
			}
			if cl, isC := ast.Unparen(as.Rhs[0]).(*ast.CallExpr); isC && eng.IsPkgFunc(eng.CalleeOf(info, cl), "slices", "Clone") && len(cl.Args) == 1 && eng.SelObj(info, cl.Args[0]) == prm {
				okGiven = true
			}
			if eng.SelObj(info, as.Rhs[0]) == prm {
				okGiven = true
			}
		}
		if !okDefault || !okGiven {
			// scenario form: with the argument assumed nil (resp. non-nil) the value copied into EventTypes by the last
			// store on every path is the literal {Added, Modified, Deleted} (resp. the argument itself); the argument may
			// be replaced by the default first and copied once (`if types == nil { types = default }; f = copy(types)`)
			copied := func(e ast.Expr) ast.Expr {
				e = ast.Unparen(e)
				if ap := builtinCall(info, e, "append"); ap != nil && len(ap.Args) == 2 && ap.Ellipsis.IsValid() {
					if cl, isL := ast.Unparen(ap.Args[0]).(*ast.CompositeLit); isL && len(cl.Elts) == 0 {
						return ap.Args[1]
					}
					return nil
				}
				if cl, isC := e.(*ast.CallExpr); isC && eng.IsPkgFunc(eng.CalleeOf(info, cl), "slices", "Clone") && len(cl.Args) == 1 {
					return cl.Args[0]
				}
				return e
			}
			decide := func(isNil bool, want func(ast.Expr) bool) bool {
				assumed := func(fc eng.Fact) bool {
					x, y, eq, isEq := eng.EqAtom(fc)
					if !isEq {
						return false
					}
					for i := 0; i < 2; i++ {
						if eng.SelObj(info, x) == types.Object(prm) && eng.IsNil(info, y) {
							return eq == isNil
						}
						x, y = y, x
					}
					return false
				}
				inf := g.Infeasible(assumed)
				feasible := g.Reach(eng.Query{FromEntry: true, Assume: assumed, AvoidEdge: inf})
				var stores []*eng.GNode
				vals := map[*eng.GNode]ast.Expr{}
				for _, n := range g.Nodes {
					if as, isA := n.Node.(*ast.AssignStmt); isA && len(as.Lhs) == 1 && len(as.Rhs) == 1 && eng.IsField(info, as.Lhs[0], eventTypes) && feasible[n] {
						stores = append(stores, n)
						vals[n] = as.Rhs[0]
					}
				}
				isStore := map[*eng.GNode]bool{}
				for _, n := range stores {
					isStore[n] = true
				}
				// no feasible path to an exit without a store
				for n := range g.Reach(eng.Query{FromEntry: true, Assume: assumed, AvoidEdge: inf, AvoidNode: func(m *eng.GNode) bool { return isStore[m] }}) {
					if n.Exit && !isStore[n] {
						return false
					}
				}
				last := 0
				for _, st := range stores {
					isLast := false
					for n := range g.Reach(eng.Query{From: []*eng.GNode{st}, Assume: assumed, AvoidEdge: inf, AvoidNode: func(m *eng.GNode) bool { return isStore[m] }}) {
						if n.Exit && !isStore[n] {
							isLast = true
						}
					}
					if !isLast {
						continue
					}
					last++
					x := copied(vals[st])
					if x == nil {
						return false
					}
					src, _, tup, uniq := valueAt(g, info, f.Decl.Body, st, x, assumed)
					if !uniq || tup >= 0 || src == nil || !want(src) {
						return false
					}
				}
				return last > 0
			}
			isDefaultLit := func(e ast.Expr) bool {
				cl, isC := ast.Unparen(e).(*ast.CompositeLit)
				if !isC || len(cl.Elts) != 3 {
					return false
				}
				seen := map[types.Object]bool{}
				for _, el := range cl.Elts {
					o := eng.SelObj(info, el)
					if !want[o] {
						return false
					}
					seen[o] = true
				}
				return len(seen) == 3
			}
			if decide(true, isDefaultLit) && decide(false, func(e ast.Expr) bool { return eng.SelObj(info, e) == types.Object(prm) }) {
				okDefault, okGiven = true, true
			}
		}
		r3.Check(okDefault, f.Key+" default", f.Decl.Pos(), "nil -> {Added, Modified, Deleted}", "the default event types (executeHookOnEvent absent) are not exactly Added, Modified and Deleted")
		r3.Check(okGiven, f.Key+" given", f.Decl.Pos(), "a given list is stored as is", "a configured executeHookOnEvent list is not stored as given")
	}

	// the v1 conversion hands the declared list to WithEventTypes: executeHookOnEvent whenever it is declared (an
	// empty list means "never"), the deprecated watchEvent only when it is not, nil when neither is. Decided per
	// scenario on the values that can reach the argument of each reachable WithEventTypes call.
	if f := r3.NeedFunc(pkgCfg + ".(*HookConfigV1).ConvertAndCheck"); f != nil {
		info := f.Pkg.TypesInfo
		g := p.GraphOf(f)
		withTypes := p.Method(pkgKem, "MonitorConfig", "WithEventTypes")
		fE := p.Field(pkgCfg, "OnKubernetesEventConfigV1", "ExecuteHookOnEvents")
		fW := p.Field(pkgCfg, "OnKubernetesEventConfigV1", "WatchEventTypes")
		if withTypes == nil || fE == nil || fW == nil {
			r3.Unknown(f.Key+" event types", f.Decl.Pos(), "WithEventTypes / ExecuteHookOnEvents / WatchEventTypes not found")
		} else {
			type site struct {
				n    *eng.GNode
				call *ast.CallExpr
			}
			var sites []site
			for _, n := range g.Nodes {
				for _, m := range g.CallsAt(n, isObj(withTypes)) {
					if len(m.Call.Args) == 1 {
						sites = append(sites, site{n, m.Call})
					}
				}
			}
			scenario := func(e, w bool) func(eng.Fact) bool {
				return func(fc eng.Fact) bool {
					x, y, eq, isEq := eng.EqAtom(fc)
					if !isEq {
						return false
					}
					for i := 0; i < 2; i++ {
						if eng.IsNil(info, y) && eng.IsField(info, x, fE) {
							return eq == !e
						}
						if eng.IsNil(info, y) && eng.IsField(info, x, fW) {
							return eq == !w
						}
						// len(<nil list>) == 0
						if k, isK := eng.ConstInt(info, y); isK && k == 0 {
							if cl := builtinCall(info, x, "len"); cl != nil && len(cl.Args) == 1 {
								if eng.IsField(info, cl.Args[0], fE) && !e {
									return eq
								}
								if eng.IsField(info, cl.Args[0], fW) && !w {
									return eq
								}
							}
						}
						x, y = y, x
					}
					return false
				}
			}
			okAll := len(sites) > 0
			detail := ""
			for _, sc := range []struct {
				e, w bool
				name string
				want func(ast.Expr) bool
			}{
				{true, true, "executeHookOnEvent declared", func(x ast.Expr) bool { return x != nil && eng.IsField(info, x, fE) }},
				{true, false, "executeHookOnEvent declared", func(x ast.Expr) bool { return x != nil && eng.IsField(info, x, fE) }},
				{false, true, "only watchEvent declared", func(x ast.Expr) bool { return x != nil && eng.IsField(info, x, fW) }},
				{false, false, "neither declared", func(x ast.Expr) bool {
					return x == nil || eng.IsNil(info, x) || eng.IsField(info, x, fE) || eng.IsField(info, x, fW)
				}},
			} {
				created := false
				for _, st := range sites {
					vals, reachable, ok := reachingValues(g, info, f.Decl.Body, st.n, st.call.Args[0], scenario(sc.e, sc.w))
					if !reachable {
						continue
					}
					created = true
					if !ok || len(vals) == 0 {
						okAll = false
						detail = sc.name + ": the argument cannot be attributed"
					}
					for _, v := range vals {
						if !sc.want(v) {
							okAll = false
							detail = sc.name + ": WithEventTypes can receive `" + eng.Short(p.Fset, v) + "`"
						}
					}
				}
				if !created {
					okAll = false
					detail = sc.name + ": WithEventTypes is not called"
				}
			}
			r3.Check(okAll, f.Key+" declared event types", f.Decl.Pos(), "executeHookOnEvent when declared, else watchEvent, else nil", "the event types handed to the monitor are not `executeHookOnEvent when it is declared (also when empty), the deprecated watchEvent otherwise`: "+detail)
		}
	}

	// ---- R4
	r4 := c.Rule("C08.R4", "D:provenance", "applyFilter: in every returning branch the checksum is CalculateChecksum(string(json.Marshal(V))) where V is the value stored as FilterResult, or the whole object when there is no filter", 3)
	runC08R4(c, r4)

	// ---- R6
	r6 := c.Rule("C08.R6", "G:who-may-call", "the hand-made first list and the informer's notifications see an object in the same representation: an informer transform, if any, is also applied to the listed objects", 1)
	runC08R6(c, r6)

	// ---- R5
	r5 := c.Rule("C08.R5", "H5:value-discarding type filter", "jq.ApplyFilter: every non-error value yielded by the iterator flows into the result", 1)
	if f := r5.NeedFunc(pkgJq + ".(*Filter).ApplyFilter"); f != nil {
		info := f.Pkg.TypesInfo
		g := p.GraphOf(f)
		var loop *ast.ForStmt
		eng.InspectNoLit(f.Decl.Body, func(n ast.Node) bool {
			if fs, ok := n.(*ast.ForStmt); ok && loop == nil {
				loop = fs
			}
			return true
		})
		// the iterator value: v, ok := iter.Next()
		var val types.Object
		var valNode *eng.GNode
		for _, n := range g.Nodes {
			as, isA := n.Node.(*ast.AssignStmt)
			if isA && len(as.Lhs) == 2 && len(as.Rhs) == 1 && isCallNamed(info, as.Rhs[0], "Next") {
				val = eng.SelObj(info, as.Lhs[0])
				valNode = n
			}
		}
		if loop == nil || val == nil {
			r5.Unknown(f.Key, f.Decl.Pos(), "iterator loop `v, ok := iter.Next()` not found")
		} else {
			// a comma-ok assertion of v to a concrete type whose false edge reaches the next iteration without using v
			// in a store into the result
			resVar := resultVarOf(f)
			uses := func(n *eng.GNode) bool {
				if n.Node == nil || n == valNode {
					return false
				}
				// v (or a variable asserted from it) flows into the result: call with result and a derivative of v, or store
				found := false
				for _, call := range eng.CallsIn(n.Node) {
					hasRes, hasVal := false, false
					for _, a := range call.Args {
						if eng.SelObj(info, a) == resVar {
							hasRes = true
						}
						if o := eng.SelObj(info, a); o != nil && (o == val || derivedFrom(info, f, o, val)) {
							hasVal = true
						}
					}
					if hasRes && hasVal {
						found = true
					}
				}
				if as, ok := n.Node.(*ast.AssignStmt); ok {
					for i, l := range as.Lhs {
						if eng.UsesObj(info, l, resVar, false) && len(as.Lhs) == len(as.Rhs) {
							if o := eng.SelObj(info, as.Rhs[i]); o != nil && (o == val || derivedFrom(info, f, o, val)) {
								found = true
							}
							if eng.UsesObj(info, as.Rhs[i], val, false) {
								found = true
							}
						}
					}
				}
				return found
			}
			isErr := g.FactEdge(func(fc eng.Fact) bool {
				// the `err, ok := v.(error); ok` edge and the `!ok` end-of-iteration edge are not value-carrying
				return false
			})
			_ = isErr
			// from the assertion of v to a non-error type: false edge must not reach the loop body entry again without uses
			bad := ""
			var badPos token.Pos = f.Decl.Pos()
			for _, n := range g.Nodes {
				for _, e := range n.Succ {
					if e.Cond == nil || e.Taken {
						continue
					}
					okVar, isV := eng.SelObj(info, e.Cond).(*types.Var)
					if !isV {
						continue
					}
					// okVar defined by a type assertion of val to a non-error, non-interface type
					asserted := false
					eng.InspectNoLit(f.Decl.Body, func(m ast.Node) bool {
						as, isA := m.(*ast.AssignStmt)
						if !isA || len(as.Lhs) != 2 || len(as.Rhs) != 1 || eng.SelObj(info, as.Lhs[1]) != okVar {
							return true
						}
						ta, isT := ast.Unparen(as.Rhs[0]).(*ast.TypeAssertExpr)
						if !isT || eng.SelObj(info, ta.X) != val || ta.Type == nil {
							return true
						}
						if tv, has := info.Types[ta.Type]; has {
							if _, isI := tv.Type.Underlying().(*types.Interface); !isI {
								asserted = true
							}
						}
						return true
					})
					if !asserted {
						continue
					}
					reach := g.Reach(eng.Query{From: []*eng.GNode{n}, AvoidEdge: func(x *eng.GEdge) bool { return x.From == n && x != e }, AvoidNode: uses})
					if valNode != nil && reach[valNode] {
						bad = fmt.Sprintf("when `%s` is false the value is dropped and the loop goes on", eng.Short(p.Fset, e.Cond))
						badPos = e.Cond.Pos()
					}
				}
			}
			r5.Check(bad == "", f.Key, badPos, "every yielded value reaches the result", "a value yielded by the jq filter is discarded unless it is an object: "+bad+"; filters with scalar, array or null results project every object state to {} and never trigger")
		}
	}
}

func resultVarOf(f *eng.Func) types.Object {
	info := f.Pkg.TypesInfo
	var res types.Object
	eng.InspectNoLit(f.Decl.Body, func(n ast.Node) bool {
		if r, ok := n.(*ast.ReturnStmt); ok && len(r.Results) >= 1 {
			if o := eng.SelObj(info, r.Results[0]); o != nil {
				if _, isV := o.(*types.Var); isV {
					res = o
				}
			}
		}
		return true
	})
	return res
}

// derivedFrom: variable o is assigned (anywhere in f) from an expression mentioning src.
func derivedFrom(info *types.Info, f *eng.Func, o types.Object, src types.Object) bool {
	v, ok := o.(*types.Var)
	if !ok {
		return false
	}
	for _, e := range eng.AssignedExprs(info, f.Decl, v) {
		if eng.UsesObj(info, e, src, false) {
			return true
		}
	}
	return false
}

func runC08R4(c *eng.Ctx, r *eng.RuleCtx) {
	p := c.P
	fobj, _ := p.Object(pkgKem, "applyFilter").(*types.Func)
	if fobj == nil {
		r.Unknown("anchor:applyFilter", token.NoPos, "not found")
		return
	}
	f := p.FuncOf(fobj)
	c.Touch(f)
	info := f.Pkg.TypesInfo
	g := p.GraphOf(f)
	body := f.Decl.Body
	sig := fobj.Type().(*types.Signature)
	filterResult := p.Field(pkgKemT, "ObjectAndFilterResult", "FilterResult")
	calc := p.ExtObject(full("pkg/utils/checksum"), "CalculateChecksum")
	objPrm := paramLike(sig, 3, typeNamed("unstructured", "Unstructured"))
	jqPrm := paramLike(sig, 0, func(t types.Type) bool { b, ok := t.Underlying().(*types.Basic); return ok && b.Kind() == types.String })
	fnPrm := paramLike(sig, 2, func(t types.Type) bool { _, ok := t.Underlying().(*types.Signature); return ok })
	if objPrm == nil || jqPrm == nil || fnPrm == nil {
		r.Unknown(f.Key+" parameters", f.Decl.Pos(), "the jq expression, the filter function and the object are not all parameters of applyFilter")
		return
	}
	// the three kinds of projection, decided by the parameters alone
	type scen struct {
		name           string
		fnSet, jqEmpty int // +1 / -1 / 0 (not fixed)
		wantFilter     bool
	}
	for _, sc := range []scen{{"filterFunc", +1, 0, true}, {"no filter", -1, +1, false}, {"jqFilter", -1, -1, true}} {
		assumed := func(fc eng.Fact) bool {
			x, y, eq, ok := eng.EqAtom(fc)
			if !ok {
				return false
			}
			for _, pair := range [][2]ast.Expr{{x, y}, {y, x}} {
				if eng.SelObj(info, pair[0]) == types.Object(fnPrm) && eng.IsNil(info, pair[1]) && sc.fnSet != 0 {
					return eq == (sc.fnSet < 0)
				}
				if v, isK := eng.ConstStr(info, pair[1]); isK && v == "" && eng.SelObj(info, pair[0]) == types.Object(jqPrm) && sc.jqEmpty != 0 {
					return eq == (sc.jqEmpty > 0)
				}
			}
			return false
		}
		inf := g.Infeasible(assumed)
		feasible := g.Reach(eng.Query{FromEntry: true, Assume: assumed, AvoidEdge: inf})
		construct := fmt.Sprintf("%s checksum[%s]", f.Key, sc.name)
		nret := 0
		for _, rn := range g.Nodes {
			ret, isR := rn.Node.(*ast.ReturnStmt)
			if !isR || !feasible[rn] || len(ret.Results) != 2 || eng.IsNil(info, ret.Results[0]) {
				continue
			}
			nret++
			resV, _ := eng.SelObj(info, ret.Results[0]).(*types.Var)
			if resV == nil {
				r.Unknown(construct, ret.Pos(), "the result is not returned through a local variable")
				continue
			}
			// stores into the result that reach this return: Checksum and FilterResult
			last := func(isField func(ast.Expr) bool, litKey string) (val ast.Expr, at *eng.GNode, n int) {
				var bare bool
				val, at, n, bare = reachingFieldStore(g, info, rn, resV, isField, litKey, assumed)
				if bare && n > 0 {
					n += 100 // stored on some paths only
				}
				return
			}
			sumVal, sumAt, nSum := last(func(e ast.Expr) bool {
				s, ok := ast.Unparen(e).(*ast.SelectorExpr)
				return ok && s.Sel.Name == "Checksum"
			}, "")
			if nSum != 1 {
				r.Bad(construct, ret.Pos(), fmt.Sprintf("%d stores of the checksum reach this return (expected exactly one)", nSum))
				continue
			}
			frVal, frAt, nFr := last(func(e ast.Expr) bool {
				s, ok := ast.Unparen(e).(*ast.SelectorExpr)
				return ok && info.Uses[s.Sel] == types.Object(filterResult)
			}, "FilterResult")
			if nFr > 1 {
				r.Bad(construct, ret.Pos(), "several stores of FilterResult reach this return")
				continue
			}
			// checksum = CalculateChecksum(string(B)), B = json.Marshal(V)
			src, at, _, uniq := valueAt(g, info, body, sumAt, sumVal, assumed)
			call, isCall := src.(*ast.CallExpr)
			if !uniq || !isCall || eng.CalleeOf(info, call) != calc || len(call.Args) != 1 {
				r.Bad(construct, ret.Pos(), "the checksum is not computed with CalculateChecksum")
				continue
			}
			conv, isConv := ast.Unparen(call.Args[0]).(*ast.CallExpr)
			if !isConv || len(conv.Args) != 1 {
				r.Bad(construct, ret.Pos(), "the checksum argument is not string(bytes)")
				continue
			}
			bsrc, bat, tup, buniq := valueAt(g, info, body, at, conv.Args[0], assumed)
			mcall, isM := bsrc.(*ast.CallExpr)
			if !buniq || !isM || tup != 0 || !eng.IsPkgFunc(eng.CalleeOf(info, mcall), "encoding/json", "Marshal") || len(mcall.Args) != 1 {
				r.Bad(construct, ret.Pos(), "the checksummed bytes do not come from json.Marshal of a value on this path")
				continue
			}
			vsrc, vat, vtup, vuniq := valueAt(g, info, body, bat, mcall.Args[0], assumed)
			same := func(e1 ast.Expr, n1 *eng.GNode, t1 int, e2 ast.Expr, n2 *eng.GNode, t2 int) bool {
				if e1 == nil || e2 == nil {
					return false
				}
				if o1, o2 := eng.SelObj(info, e1), eng.SelObj(info, e2); o1 != nil && o1 == o2 {
					if _, isId := ast.Unparen(e1).(*ast.Ident); isId {
						return true
					}
				}
				return e1 == e2 && n1 == n2 && t1 == t2
			}
			if !sc.wantFilter {
				none := nFr == 0
				if nFr == 1 {
					fsrc, _, _, funiq := valueAt(g, info, body, frAt, frVal, assumed)
					none = funiq && (fsrc == nil || eng.IsNil(info, fsrc))
				}
				r.Check(vuniq && none && eng.SelObj(info, vsrc) == types.Object(objPrm), construct, ret.Pos(), "no filter: checksum over the whole object, no filterResult", "without a filter the checksum is not computed over the whole object (or a filterResult is stored)")
				continue
			}
			if nFr != 1 {
				r.Bad(construct, ret.Pos(), "with a filter no FilterResult is stored")
				continue
			}
			fsrc, fat, ftup, funiq := valueAt(g, info, body, frAt, frVal, assumed)
			r.Check(vuniq && funiq && same(vsrc, vat, vtup, fsrc, fat, ftup), construct, ret.Pos(), "checksum over the value stored as FilterResult", "the checksum is computed over a different value than the one stored as FilterResult: a change inside the projection may not trigger, or a change outside it does")
		}
		if nret == 0 {
			r.Unknown(construct, f.Decl.Pos(), "no successful return is feasible for this kind of filter")
		}
	}
}

// rootIs: e is a selection chain (x.a.b) whose root identifier is v.
func rootIs(info *types.Info, e ast.Expr, v *types.Var) bool {
	for {
		switch t := ast.Unparen(e).(type) {
		case *ast.SelectorExpr:
			e = t.X
		case *ast.StarExpr:
			e = t.X
		case *ast.Ident:
			return info.ObjectOf(t) == types.Object(v)
		default:
			return false
		}
	}
}

// strippedBeforeUse: with keepFullObjectsInMemory=false the cache store and the event construction are reached only
// after RemoveFullObject.
func strippedBeforeUse(c *eng.Ctx, r1 *eng.RuleCtx, hwe *eng.Func, evNode *eng.GNode) {
	p := c.P
	info := hwe.Pkg.TypesInfo
	g := p.GraphOf(hwe)
	keepFull := p.Field(pkgKem, "MonitorConfig", "KeepFullObjectsInMemory")
	removeFull := p.Method(pkgKemT, "ObjectAndFilterResult", "RemoveFullObject")
	cached := p.Field(pkgKem, "resourceInformer", "cachedObjects")
	stripped := func(n *eng.GNode) bool { return len(g.CallsAt(n, isObj(removeFull))) > 0 }
	keepEdge := g.FactEdge(func(fc eng.Fact) bool { return fc.Pos && fc.Y == nil && eng.IsField(info, fc.X, keepFull) })
	cw := hweCacheWrite(p, hwe, cached)
	for _, n := range g.Nodes {
		isStore := false
		if as, ok := n.Node.(*ast.AssignStmt); ok && cw(n) {
			isStore = len(as.Lhs) == 1
		}
		if !isStore && n != evNode {
			continue
		}
		what := "cache store"
		if n == evNode {
			what = "event construction"
		}
		r1.Check(g.OnlyVia(n, stripped, keepEdge), hwe.Key+" stripped-before "+what, n.Node.Pos(), "reached only after RemoveFullObject or with KeepFullObjectsInMemory set",
			"with keepFullObjectsInMemory=false the "+what+" can be reached without RemoveFullObject: the full object is kept in memory / delivered in the binding context")
	}
}

// runC08R6: the checksum recorded for an object by loadExistedObjects (objects listed through the dynamic client) is
// compared with the checksum of the same object as the informer delivers it. A transform installed on the informer
// (SetTransform) changes only the second representation: every unchanged object is then re-delivered as a change
// when the informer starts. Expected number of transforms: 0; one that is also called by loadExistedObjects is accepted.
func runC08R6(c *eng.Ctx, r *eng.RuleCtx) {
	p := c.P
	list := r.NeedFunc(pkgKem + ".(*resourceInformer).loadExistedObjects")
	if list == nil {
		return
	}
	n := 0
	for _, s := range p.AllSites() {
		fn, ok := s.Callee.(*types.Func)
		if !ok || fn.Name() != "SetTransform" || fn.Pkg() == nil || fn.Pkg().Path() != "k8s.io/client-go/tools/cache" {
			continue
		}
		if s.In == nil || !strings.HasPrefix(s.In.Key, pkgKem+".") || len(s.Call.Args) != 1 {
			continue
		}
		n++
		var tf *types.Func
		switch a := ast.Unparen(s.Call.Args[0]).(type) {
		case *ast.Ident:
			tf, _ = s.Pkg.TypesInfo.Uses[a].(*types.Func)
		case *ast.SelectorExpr:
			tf, _ = s.Pkg.TypesInfo.Uses[a.Sel].(*types.Func)
		}
		if _, isLit := ast.Unparen(s.Call.Args[0]).(*ast.FuncLit); isLit && tf == nil {
			// a helper the reference tree does not have was written out by the normaliser: match it by its record
			var asValue []string
			inlined := map[string]bool{}
			if nm, ok := c.Extra["normalisation"].(map[string]any); ok {
				ls, _ := nm["inlined"].([]string)
				for _, l := range ls {
					inlined[l] = true
					if rest, ok := strings.CutPrefix(l, s.In.Key+" <- "); ok && strings.HasSuffix(rest, " (as a value)") {
						asValue = append(asValue, strings.TrimSuffix(rest, " (as a value)"))
					}
				}
			}
			if len(asValue) == 1 {
				r.Check(inlined[list.Key+" <- "+asValue[0]], s.In.Key+" informer transform "+asValue[0], s.Call.Pos(), "loadExistedObjects applies the same function to the listed objects",
					"the informer delivers objects rewritten by "+asValue[0]+", loadExistedObjects records the checksum of the object as listed: every object the transform changes is re-delivered as Added/Modified when the informer starts although nothing changed in the cluster")
				continue
			}
		}
		if tf == nil {
			r.Unknown(s.In.Key+" informer transform", s.Call.Pos(), "the transform installed on the informer is not a named function: it cannot be matched with what loadExistedObjects applies to the listed objects")
			continue
		}
		applied := false
		for _, ls := range p.AllSites() {
			if ls.In == list && ls.Callee == types.Object(tf) {
				applied = true
			}
		}
		r.Check(applied, s.In.Key+" informer transform "+tf.Name(), s.Call.Pos(), "loadExistedObjects applies the same function to the listed objects",
			"the informer delivers objects rewritten by "+tf.Name()+", loadExistedObjects records the checksum of the object as listed: every object the transform changes is re-delivered as Added/Modified when the informer starts although nothing changed in the cluster")
	}
	r.Ok("informer transforms enumerated", list.Decl.Pos(), fmt.Sprintf("%d SetTransform call(s) in the package", n))
}
