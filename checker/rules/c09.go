package rules

import (
	"fmt"
	"go/ast"
	"go/token"
	"go/types"
	"strings"

	"sopverif/eng"
)

func init() {
	register(&Property{
		ID:    "C09",
		Title: "Binding context JSON follows the documented contract, incl. filterResult (R7) the renderers dereference the stripped Object only under a presence test or for a config version that always keeps objects; (R8) every link-registry entry is its own object.",
		Explanation: "Decided on MapV1/MapV0, ObjectAndFilterResult.Map, the binding-context producers and Hook.Run: (R1) when the stored " +
			"FilterResult is not a JSON string the rendered filterResult is the stored value itself (the value every real writer produces " +
			"is not discarded by a failed type assertion); (R2) per return of MapV1/MapV0/ObjectAndFilterResult.Map the set of keys that " +
			"are always / possibly present equals the documented table (path-sensitive key sets), `snapshots` is stored only under the " +
			"include-snapshots condition, `objects` only for Synchronization, `object`/`filterResult` only for Event, `object` only when " +
			"RemoveObject is false; (R3) every producer of a binding context sets the metadata fields the renderer consumes; (R4) the " +
			"file written for the hook is ConvertBindingContextList(version, UpdateSnapshots(contexts)).Json() with one element per " +
			"context in order; events carry stripped objects when keepFullObjectsInMemory is false. NOT decided: JSON encoding of objects, " +
			"equality of filterResult with the jq result beyond provenance.",
		Run: runC09,
	})
}

func runC09(c *eng.Ctx) {
	p := c.P
	// ---- R1
	r1 := c.Rule("C09.R1", "H5:value-discarding type filter", "ObjectAndFilterResult.Map: when FilterResult is not a string, every exit that renders filterResult stores the FilterResult value itself", 1)
	if f := r1.NeedFunc(pkgKemT + ".(ObjectAndFilterResult).Map"); f != nil {
		info := f.Pkg.TypesInfo
		g := p.GraphOf(f)
		filterResult := p.Field(pkgKemT, "ObjectAndFilterResult", "FilterResult")
		mapVar := resultVarOf(f)
		// ok variables of comma-ok string assertions on FilterResult
		okVars := map[types.Object]bool{}
		ast.Inspect(f.Decl.Body, func(n ast.Node) bool {
			as, isA := n.(*ast.AssignStmt)
			if !isA || len(as.Lhs) != 2 || len(as.Rhs) != 1 {
				return true
			}
			if ta, isT := ast.Unparen(as.Rhs[0]).(*ast.TypeAssertExpr); isT && eng.IsField(info, ta.X, filterResult) {
				okVars[eng.SelObj(info, as.Lhs[1])] = true
			}
			return true
		})
		forwards := func(n *eng.GNode) bool {
			as, ok := n.Node.(*ast.AssignStmt)
			if !ok || len(as.Lhs) != 1 || len(as.Rhs) != 1 {
				return false
			}
			ix, isIx := ast.Unparen(as.Lhs[0]).(*ast.IndexExpr)
			if !isIx || eng.SelObj(info, ix.X) != mapVar {
				return false
			}
			if k, isC := eng.ConstStr(info, ix.Index); !isC || k != "filterResult" {
				return false
			}
			if eng.IsField(info, as.Rhs[0], filterResult) {
				return true
			}
			if v, isV := eng.SelObj(info, as.Rhs[0]).(*types.Var); isV {
				for _, e := range eng.AssignedExprs(info, f.Decl.Body, v) {
					if eng.IsField(info, e, filterResult) {
						return true
					}
				}
				// handed over through further locals (the result of a helper that decides the value)
				for _, e := range valueSources(info, f.Decl.Body, as.Rhs[0], 4) {
					if eng.IsField(info, e, filterResult) {
						return true
					}
				}
			}
			return false
		}
		// assume the assertion failed (ok == false) and there is something to render (not the "no filter, no result" exit)
		okTrue := g.FactEdge(func(fc eng.Fact) bool { return fc.Pos && fc.Y == nil && okVars[eng.SelObj(info, fc.X)] })
		nothingToRender := g.FactEdge(func(fc eng.Fact) bool {
			x, y, eq, isEq := eng.EqAtom(fc)
			return isEq && eq && eng.IsField(info, x, filterResult) && eng.IsNil(info, y)
		})
		ex := g.MustPassToExit(eng.Query{FromEntry: true, AvoidEdge: func(e *eng.GEdge) bool { return okTrue(e) || nothingToRender(e) }}, forwards)
		r1.Check(ex == nil, f.Key, f.Decl.Pos(), "a non-string FilterResult is rendered as is", "when the stored FilterResult is not a string (the jq branch of applyFilter stores a decoded map) an exit is reached that does not render the stored value: every filterResult in binding contexts and snapshots is null")
	}

	// ---- R2
	r2 := c.Rule("C09.R2", "E:path-sensitive key sets", "documented keys per binding type: MapV1 (8 returns), MapV0 (2 returns), ObjectAndFilterResult.Map; control-dependence of snapshots/objects/object/filterResult", 18)
	runC09R2(c, r2)

	// ---- R3
	r3 := c.Rule("C09.R3", "D1:sibling agreement", "every producer of a BindingContext sets Metadata.BindingType, IncludeSnapshots and Group (kubernetes producers also JqFilter) and the Binding name", 5)
	bcT := p.Named(pkgBctx, "BindingContext")
	for _, pr := range []struct {
		fn   string
		jq   bool
		nlit int
	}{
		{pkgCtrl + ".ConvertKubeEventToBindingContext", true, 2},
		{pkgCtrl + ".(*scheduleBindingsController).HandleEvent", false, 1},
		{pkgCtrl + ".(*AdmissionBindingsController).HandleEvent", false, 1},
		{pkgCtrl + ".(*ConversionBindingsController).HandleEvent", false, 1},
	} {
		f := r3.NeedFunc(pr.fn)
		if f == nil {
			continue
		}
		info := f.Pkg.TypesInfo
		// every `bc := BindingContext{...}` literal assigned to a variable: the enclosing block must assign the fields
		n := 0
		ast.Inspect(f.Decl.Body, func(m ast.Node) bool {
			as, ok := m.(*ast.AssignStmt)
			if !ok || len(as.Lhs) != 1 || len(as.Rhs) != 1 {
				return true
			}
			cl, isC := ast.Unparen(as.Rhs[0]).(*ast.CompositeLit)
			if !isC {
				return true
			}
			if tv, has := info.Types[cl]; !has || bcT == nil || !types.Identical(tv.Type, bcT) {
				return true
			}
			v := eng.SelObj(info, as.Lhs[0])
			n++
			block := enclosingBlockOf(f.Decl.Body, as.Pos())
			need := []string{"BindingType", "IncludeSnapshots", "Group"}
			if pr.jq {
				need = append(need, "JqFilter")
			}
			set := map[string]bool{}
			ast.Inspect(block, func(x ast.Node) bool {
				st, isA := x.(*ast.AssignStmt)
				if !isA {
					return true
				}
				for _, l := range st.Lhs {
					s, isS := ast.Unparen(l).(*ast.SelectorExpr)
					if !isS {
						continue
					}
					if inner, isI := ast.Unparen(s.X).(*ast.SelectorExpr); isI && inner.Sel.Name == "Metadata" && eng.SelObj(info, inner.X) == v {
						set[s.Sel.Name] = true
					}
				}
				return true
			})
			hasBinding := false
			for _, el := range cl.Elts {
				if kv, isKV := el.(*ast.KeyValueExpr); isKV {
					if id, isI := kv.Key.(*ast.Ident); isI && id.Name == "Binding" {
						hasBinding = true
					}
				}
			}
			var missing []string
			for _, k := range need {
				if !set[k] {
					missing = append(missing, "Metadata."+k)
				}
			}
			if !hasBinding {
				missing = append(missing, "Binding")
			}
			r3.Check(len(missing) == 0, fmt.Sprintf("%s context#%d", f.Key, n), as.Pos(), "all renderer-relevant fields set", "the binding context produced here does not set "+strings.Join(missing, ", ")+": MapV1/UpdateSnapshots render the wrong type, drop snapshots or the filterResult")
			return true
		})
		if n < pr.nlit {
			r3.Unknown(f.Key+" producers", f.Decl.Pos(), fmt.Sprintf("expected %d BindingContext literals, found %d", pr.nlit, n))
		}
	}

	// ---- R5 (shared with C08.R1)
	r5 := c.Rule("C09.R5", "B:must-pass", "full objects are omitted exactly when keepFullObjectsInMemory is false: in handleWatchEvent RemoveFullObject precedes both the cache store and the event construction, loadExistedObjects strips before caching", 3)
	if hwe := r5.NeedFunc(pkgKem + ".(*resourceInformer).handleWatchEvent"); hwe != nil {
		evNode, _ := hweEventNode(p, hwe)
		strippedBeforeUse(c, r5, hwe, evNode)
	}
	if f := r5.NeedFunc(pkgKem + ".(*resourceInformer).loadExistedObjects"); f != nil {
		info := f.Pkg.TypesInfo
		g := p.GraphOf(f)
		keepFull := p.Field(pkgKem, "MonitorConfig", "KeepFullObjectsInMemory")
		removeFull := p.Method(pkgKemT, "ObjectAndFilterResult", "RemoveFullObject")
		stripped := func(n *eng.GNode) bool { return len(g.CallsAt(n, isObj(removeFull))) > 0 }
		keepEdge := g.FactEdge(func(fc eng.Fact) bool { return fc.Pos && fc.Y == nil && eng.IsField(info, fc.X, keepFull) })
		n := 0
		for _, gn := range g.Nodes {
			as, ok := gn.Node.(*ast.AssignStmt)
			if !ok || len(as.Lhs) != 1 {
				continue
			}
			ix, isIx := ast.Unparen(as.Lhs[0]).(*ast.IndexExpr)
			if !isIx {
				continue
			}
			if v, isV := eng.SelObj(info, ix.X).(*types.Var); !isV || v.IsField() {
				continue
			}
			n++
			r5.Check(g.OnlyVia(gn, stripped, keepEdge), fmt.Sprintf("%s staged-store#%d", f.Key, n), as.Pos(), "listed objects are stripped before they are staged for the cache", "an initially listed object can be cached with its full body although keepFullObjectsInMemory is false")
		}
	}

	// ---- R6 (shared with C02.R4)
	r6 := c.Rule("C09.R6", "B+D", "every item of a (combined) context array carries its own `snapshots`: a fresh map per context, keyed by the names listed for that context's binding type and name, filled from the per-execution cache", 5)
	runC02R4(c, r6)

	// ---- R4
	r4 := c.Rule("C09.R4", "B+D:provenance", "Hook.Run writes ConvertBindingContextList(h.Config.Version, UpdateSnapshots(contexts)).Json(); the list has one rendered element per context, in order", 4)
	runC09R4(c, r4)

	// ---- R7
	r7 := c.Rule("C09.R7", "H:nil-after-strip + F:sibling agreement", "the renderers dereference ObjectAndFilterResult.Object only under a presence test, or only for a config version whose converter always keeps full objects; every converter sets the monitor's KeepFullObjectsInMemory explicitly", 4)
	runC09R7(c, r7)

	// ---- R8
	r8 := c.Rule("C09.R8", "D:freshness", "every entry of a binding-link registry (kubernetes, schedule, admission, conversion) is its own link object: the stored pointer is a composite literal allocated for that store", 4)
	runC09R8(c, r8)

	// ---- R9
	r9 := c.Rule("C09.R9", "D:provenance", "handleWatchEvent: the object-and-filter-result that is cached and sent with the event has one source, applyFilter run on the object delivered with this notification", 2)
	func() {
		// applyFilter with a jq filter: the result of the filter is what filterResult shows, whatever it is (an empty
		// object is a result too): assuming a jq filter and no filter function, every successful return has passed
		// the store of the filter's output into FilterResult
		r := r9
		fo, _ := p.Object(pkgKem, "applyFilter").(*types.Func)
		if fo == nil {
			return
		}
		f := p.FuncOf(fo)
		if f == nil {
			return
		}
		c.Touch(f)
		info := f.Pkg.TypesInfo
		g := p.GraphOf(f)
		fr := p.Field(pkgKemT, "ObjectAndFilterResult", "FilterResult")
		sig := fo.Type().(*types.Signature)
		jqPrm := paramLike(sig, 0, func(t types.Type) bool { b, ok := t.Underlying().(*types.Basic); return ok && b.Kind() == types.String })
		fnPrm := paramLike(sig, 2, func(t types.Type) bool { _, ok := t.Underlying().(*types.Signature); return ok })
		assumed := func(fc eng.Fact) bool {
			x, y, eq, isEq := eng.EqAtom(fc)
			if !isEq {
				return false
			}
			for i := 0; i < 2; i++ {
				if eng.SelObj(info, x) == types.Object(jqPrm) {
					if v, isC := eng.ConstStr(info, y); isC && v == "" {
						return !eq // the filter is not empty
					}
				}
				if eng.SelObj(info, x) == types.Object(fnPrm) && eng.IsNil(info, y) {
					return eq // no filter function
				}
				x, y = y, x
			}
			return false
		}
		// scenario "a jq expression and no filter function": on every successful return the value stored as FilterResult
		// is the first result of the ApplyFilter call of this execution
		okAll := true
		nret := 0
		inf := g.Infeasible(assumed)
		feasible := g.Reach(eng.Query{FromEntry: true, Assume: assumed, AvoidEdge: inf})
		for _, rn := range g.Nodes {
			ret, isR := eng.IsReturn(rn)
			if !isR || !feasible[rn] || len(ret.Results) != 2 || !eng.IsNil(info, ret.Results[1]) {
				continue
			}
			nret++
			resV, _ := eng.SelObj(info, ret.Results[0]).(*types.Var)
			if resV == nil {
				okAll = false
				continue
			}
			val, at, n, bare := reachingFieldStore(g, info, rn, resV, func(e ast.Expr) bool {
				s, ok := ast.Unparen(e).(*ast.SelectorExpr)
				return ok && info.Uses[s.Sel] == types.Object(fr)
			}, "FilterResult", assumed)
			if n != 1 || bare {
				okAll = false
				continue
			}
			src, _, tup, uniq := valueAt(g, info, f.Decl.Body, at, val, assumed)
			cl, isC := src.(*ast.CallExpr)
			if !uniq || !isC || tup != 0 || !isCallNamed(info, cl, "ApplyFilter") {
				okAll = false
			}
		}
		r.Check(okAll && nret > 0, f.Key+" jq result stored", f.Decl.Pos(), "with a jq filter, FilterResult is the filter's output on every successful return", "with a jq filter applyFilter can return without storing the filter's output in FilterResult (e.g. when the output is an empty object): filterResult is then null although jq printed a value")
	}()
	if f := r9.NeedFunc(pkgKem + ".(*resourceInformer).handleWatchEvent"); f != nil {
		info := f.Pkg.TypesInfo
		applyF, _ := p.Object(pkgKem, "applyFilter").(*types.Func)
		var resVar *types.Var
		var call *ast.CallExpr
		ast.Inspect(f.Decl.Body, func(n ast.Node) bool {
			if as, ok := n.(*ast.AssignStmt); ok && len(as.Lhs) == 2 && len(as.Rhs) == 1 && applyF != nil && isCallTo(info, as.Rhs[0], applyF) {
				resVar, _ = eng.SelObj(info, as.Lhs[0]).(*types.Var)
				call = ast.Unparen(as.Rhs[0]).(*ast.CallExpr)
			}
			return true
		})
		if resVar == nil || call == nil {
			r9.Unknown(f.Key+" applyFilter result", f.Decl.Pos(), "no `res, err = applyFilter(...)` found")
		} else {
			// every assignment of the result variable (also inside literals) is that call
			var other ast.Expr
			for _, e := range eng.AssignedExprs(info, f.Decl.Body, resVar) {
				if ast.Unparen(e) != ast.Expr(call) {
					other = e
				}
			}
			pos := call.Pos()
			if other != nil {
				pos = other.Pos()
			}
			r9.Check(other == nil, f.Key+" single source", pos, "the result variable is assigned by applyFilter only", "the filter result of an event can come from somewhere else than applyFilter on the delivered object (e.g. from the cache): filterResult then describes an earlier state of the object")
			// the filtered object is the delivered one: the last argument derives from the callback's first parameter
			okObj := false
			if len(call.Args) >= 1 {
				prm := f.Obj.Type().(*types.Signature).Params().At(0)
				for _, src := range valueSources(info, f.Decl.Body, argLike(info, call, len(call.Args)-1, typeNamed("unstructured", "Unstructured")), 4) {
					src = ast.Unparen(src)
					if ta, isTA := src.(*ast.TypeAssertExpr); isTA {
						src = ast.Unparen(ta.X)
					}
					if sel, isSel := src.(*ast.SelectorExpr); isSel {
						src = ast.Unparen(sel.X) // staleObj.Obj
					}
					okObj = false
					for _, s2 := range valueSources(info, f.Decl.Body, src, 4) {
						s2 = ast.Unparen(s2)
						if ta, isTA := s2.(*ast.TypeAssertExpr); isTA {
							s2 = ast.Unparen(ta.X)
						}
						if eng.SelObj(info, s2) == types.Object(prm) {
							okObj = true
						}
					}
					if !okObj {
						break
					}
				}
			}
			r9.Check(okObj, f.Key+" filtered object", call.Pos(), "applyFilter(..., obj) with obj taken from the notification", "applyFilter is not run on the object delivered with the notification")
		}
	}
}

// runC09R8: the controllers keep `map[key]*...Link` registries from which the binding context of an event is filled
// (binding name, group, fromVersion/toVersion, ...). An entry must not alias the object of another entry: a pointer
// allocated outside the loop and stored under several keys makes every key report the fields of the last one.
func runC09R8(c *eng.Ctx, r *eng.RuleCtx) {
	p := c.P
	isLinkPtr := func(t types.Type) bool {
		pt, ok := t.(*types.Pointer)
		if !ok {
			return false
		}
		n, ok := pt.Elem().(*types.Named)
		return ok && strings.HasSuffix(n.Obj().Name(), "Link") && n.Obj().Pkg() != nil && strings.HasSuffix(n.Obj().Pkg().Path(), pkgCtrl)
	}
	isFreshLit := func(e ast.Expr) bool {
		u, ok := ast.Unparen(e).(*ast.UnaryExpr)
		if !ok || u.Op != token.AND {
			return false
		}
		_, isLit := ast.Unparen(u.X).(*ast.CompositeLit)
		return isLit
	}
	n := 0
	for _, f := range funcsOfPkg(p, pkgCtrl) {
		if f.Decl.Body == nil {
			continue
		}
		info := f.Pkg.TypesInfo
		ast.Inspect(f.Decl.Body, func(x ast.Node) bool {
			as, ok := x.(*ast.AssignStmt)
			if !ok || len(as.Lhs) != 1 || len(as.Rhs) != 1 {
				return true
			}
			ix, isIx := ast.Unparen(as.Lhs[0]).(*ast.IndexExpr)
			if !isIx {
				return true
			}
			tv, has := info.Types[ix.X]
			if !has {
				return true
			}
			mt, isM := tv.Type.Underlying().(*types.Map)
			if !isM || !isLinkPtr(mt.Elem()) {
				return true
			}
			n++
			c.Touch(f)
			construct := fmt.Sprintf("%s stores %s", f.Key, eng.Short(p.Fset, as.Lhs[0]))
			rhs := as.Rhs[0]
			if isFreshLit(rhs) {
				r.Ok(construct, as.Pos(), "a composite literal allocated for this entry")
				return true
			}
			v, isV := eng.SelObj(info, rhs).(*types.Var)
			if isV && isParamOfFunc(f, v) {
				// a setter: every caller passes a fresh literal
				idx := -1
				for i, prm := range paramObjs(f) {
					if prm == types.Object(v) {
						idx = i
					}
				}
				okAll, ncalls := true, 0
				for _, s := range p.Sites(f.Obj) {
					ncalls++
					if idx < 0 || idx >= len(s.Call.Args) || !isFreshLit(s.Call.Args[idx]) {
						okAll = false
					}
				}
				r.Check(okAll && ncalls > 0, construct, as.Pos(), "setter: every caller passes a composite literal allocated for the entry", "a caller of this setter passes a link object that is not allocated for the entry: entries can alias one another")
				return true
			}
			if isV && !v.IsField() {
				// a local: defined from a fresh literal inside the innermost loop that contains the store
				loop := eng.LoopOf(f.Decl.Body, as.Pos())
				fresh := false
				for _, e := range eng.AssignedExprs(info, f.Decl.Body, v) {
					if isFreshLit(e) && (loop == nil || (loop.Pos() <= e.Pos() && e.Pos() < loop.End())) {
						fresh = true
					} else {
						fresh = false
						break
					}
				}
				r.Check(fresh, construct, as.Pos(), "a local allocated inside the loop iteration that stores it",
					"the stored link object is allocated outside the loop that registers it under several keys: all those keys share one object and report the fields (e.g. fromVersion/toVersion) written last")
				return true
			}
			r.Bad(construct, as.Pos(), "the stored link is neither a composite literal nor a local allocated for this entry")
			return true
		})
	}
	if n == 0 {
		r.Unknown("link registries", token.NoPos, "no store into a map of *...Link found in "+pkgCtrl)
	}
}

// runC09R7: RemoveFullObject sets Object to nil when keepFullObjectsInMemory is false. A renderer (binding_context
// package, ObjectAndFilterResult methods, the snapshot sort) that calls a method on Object without a test of
// `Object != nil` / `!Metadata.RemoveObject` panics for such bindings - unless the renderer serves one config version
// only (MapV0 <-> HookConfigV0) and that version's converter sets KeepFullObjectsInMemory = true on every path.
func runC09R7(c *eng.Ctx, r *eng.RuleCtx) {
	p := c.P
	objFld := p.Field(pkgKemT, "ObjectAndFilterResult", "Object")
	monKeep := p.Field(pkgKem, "MonitorConfig", "KeepFullObjectsInMemory")
	if objFld == nil || monKeep == nil {
		r.Unknown("anchor:ObjectAndFilterResult.Object / MonitorConfig.KeepFullObjectsInMemory", token.NoPos, "field not found")
		return
	}
	// converters: which of them set the monitor flag, and to what
	type conv struct {
		key     string
		always  bool // the flag is stored on every path to the append of the binding
		allTrue bool // every store is the constant true
	}
	convs := map[string]*conv{}
	for ver, key := range map[string]string{"v0": pkgCfg + ".(*HookConfigV0).ConvertAndCheck", "v1": pkgCfg + ".(*HookConfigV1).ConvertAndCheck"} {
		f := r.NeedFunc(key)
		if f == nil {
			continue
		}
		info := f.Pkg.TypesInfo
		g := p.GraphOf(f)
		eff := p.Field(pkgCfg, "HookConfig", "OnKubernetesEvents")
		cv := &conv{key: key, allTrue: true}
		isStore := func(n *eng.GNode) bool {
			as, ok := n.Node.(*ast.AssignStmt)
			if !ok {
				return false
			}
			for _, l := range as.Lhs {
				if eng.IsField(info, l, monKeep) {
					return true
				}
			}
			return false
		}
		nStores := 0
		for _, n := range g.Nodes {
			if !isStore(n) {
				continue
			}
			nStores++
			as := n.Node.(*ast.AssignStmt)
			if len(as.Lhs) != len(as.Rhs) {
				cv.allTrue = false
				continue
			}
			for i, l := range as.Lhs {
				if eng.IsField(info, l, monKeep) {
					if b, isC := constBool(info, as.Rhs[i]); !isC || !b {
						cv.allTrue = false
					}
				}
			}
		}
		if nStores == 0 {
			cv.allTrue = false
		}
		// every append to the effective list is preceded by a store (within the iteration that appends)
		cv.always = nStores > 0
		for _, n := range g.Nodes {
			as, ok := n.Node.(*ast.AssignStmt)
			if !ok || len(as.Lhs) != 1 || !eng.IsField(info, as.Lhs[0], eff) || builtinCall(info, as.Rhs[0], "append") == nil {
				continue
			}
			loop := eng.LoopOf(f.Decl.Body, as.Pos())
			if loop == nil {
				cv.always = false
				continue
			}
			entry := loopBodyEntryOf(g, loop)
			if entry == nil {
				cv.always = false
				continue
			}
			reach := g.Reach(eng.Query{From: []*eng.GNode{entry}, AvoidNode: isStore})
			if reach[n] {
				cv.always = false
			}
		}
		convs[ver] = cv
		r.Check(cv.always, key+" sets Monitor.KeepFullObjectsInMemory", f.Decl.Pos(),
			"the converter decides explicitly whether the monitor keeps full objects for every binding it creates",
			"a kubernetes binding of config version "+ver+" is created without setting Monitor.KeepFullObjectsInMemory: the zero value strips every object, which the "+ver+" renderer may not expect")
	}
	// dereferences in the renderers
	scope := []*eng.Func{}
	for _, f := range funcsOfPkg(p, pkgBctx) {
		scope = append(scope, f)
	}
	for _, f := range funcsOfPkg(p, pkgKemT) {
		if f.Obj == nil {
			continue
		}
		if rn := eng.RecvNamed(f.Obj); rn != nil && (rn.Obj().Name() == "ObjectAndFilterResult" || rn.Obj().Name() == "ByNamespaceAndName") {
			scope = append(scope, f)
		}
	}
	versionOf := map[string]string{pkgBctx + ".(BindingContext).MapV0": "v0"}
	nsites := 0
	for _, f := range scope {
		if f.Decl.Body == nil {
			continue
		}
		c.Touch(f)
		info := f.Pkg.TypesInfo
		g := p.GraphOf(f)
		presence := g.FactEdge(func(fc eng.Fact) bool {
			if fc.Y != nil {
				return false
			}
			// X.Object != nil
			if x, y, eq, ok := eng.EqAtom(fc); ok && !eq {
				if (eng.IsField(info, x, objFld) && eng.IsNil(info, y)) || (eng.IsField(info, y, objFld) && eng.IsNil(info, x)) {
					return true
				}
			}
			// !X.Metadata.RemoveObject
			if !fc.Pos {
				if s, ok := ast.Unparen(fc.X).(*ast.SelectorExpr); ok && s.Sel.Name == "RemoveObject" {
					return true
				}
			}
			return false
		})
		seen := map[*eng.GNode]bool{}
		eng.InspectNoLit(f.Decl.Body, func(n ast.Node) bool {
			outer, ok := n.(*ast.SelectorExpr)
			if !ok || !eng.IsField(info, outer.X, objFld) {
				return true
			}
			// outer is <expr>.Object.<member>: a dereference of the pointer
			node := g.NodeOf(outer)
			if node == nil || seen[node] {
				return true
			}
			seen[node] = true
			nsites++
			construct := fmt.Sprintf("%s dereferences Object at `%s`", f.Key, eng.Short(p.Fset, outer))
			if g.OnlyVia(node, nil, presence) {
				r.Ok(construct, outer.Pos(), "under a presence test of the object")
				return true
			}
			if ver, isV := versionOf[f.Key]; isV {
				if cv := convs[ver]; cv != nil && cv.always && cv.allTrue {
					r.Ok(construct, outer.Pos(), "renderer of config version "+ver+" only, whose converter always keeps full objects")
					return true
				}
				r.Bad(construct, outer.Pos(), "the "+ver+" renderer calls a method on Object without a presence test, but the "+ver+" converter does not always set Monitor.KeepFullObjectsInMemory = true: the informer strips the object (RemoveFullObject sets it to nil) and rendering the binding context panics with a nil pointer dereference")
				return true
			}
			r.Bad(construct, outer.Pos(), "a renderer calls a method on Object without testing that the object is present: for bindings with keepFullObjectsInMemory: false the object is nil and rendering panics")
			return true
		})
	}
	if nsites == 0 {
		r.Ok("no dereference of Object in the renderers", token.NoPos, "nothing to guard")
	}
}

type keyExpect struct {
	label    string
	always   []string
	possible []string // superset allowed (always ⊆ possible)
}

func runC09R2(c *eng.Ctx, r *eng.RuleCtx) {
	p := c.P
	// --- MapV1
	if f := r.NeedFunc(pkgBctx + ".(BindingContext).MapV1"); f != nil {
		info := f.Pkg.TypesInfo
		g := p.GraphOf(f)
		mapVar := resultVarOf(f)
		stores := mapKeyStores(g, mapVar)
		rets := returnKeySets(g, mapVar, stores)
		bt := func(name string) func(fc eng.Fact) bool {
			o := p.Object(pkgHTypes, name)
			return func(fc eng.Fact) bool {
				x, y, eq, ok := eng.EqAtom(fc)
				if !ok || !eq {
					return false
				}
				s, isS := ast.Unparen(x).(*ast.SelectorExpr)
				return isS && s.Sel.Name == "BindingType" && eng.SelObj(info, y) == o
			}
		}
		groupSet := func(fc eng.Fact) bool {
			x, y, eq, ok := eng.EqAtom(fc)
			if !ok || eq {
				return false
			}
			s, isS := ast.Unparen(x).(*ast.SelectorExpr)
			v, isC := eng.ConstStr(info, y)
			return isS && s.Sel.Name == "Group" && isC && v == ""
		}
		snap := "snapshots"
		// The documented key sets, decided per kind of context: the binding type (and whether a group is set, whether the
		// kubernetes context has a type) is assumed, every condition, switch arm, flag and named condition is evaluated under
		// the assumption, and the keys stored on the feasible paths to any exit are collected - `always`: no feasible
		// path reaches an exit without the store; `possible`: a store of the key is on some feasible path.
		_, _ = bt, groupSet
		btConsts := map[types.Object]bool{}
		for _, nm := range []string{"OnStartup", "KubernetesValidating", "KubernetesMutating", "KubernetesConversion", "Schedule", "OnKubernetesEvent"} {
			if o := p.Object(pkgHTypes, nm); o != nil {
				btConsts[o] = true
			}
		}
		scenario := func(btName string, group, typed int) func(eng.Fact) bool {
			want := p.Object(pkgHTypes, btName)
			return func(fc eng.Fact) bool {
				x, y, eq, ok := eng.EqAtom(fc)
				if !ok {
					return false
				}
				for i := 0; i < 2; i++ {
					sx, isS := ast.Unparen(x).(*ast.SelectorExpr)
					if isS && sx.Sel.Name == "BindingType" && btConsts[eng.SelObj(info, y)] {
						return eq == (eng.SelObj(info, y) == want)
					}
					if v, isC := eng.ConstStr(info, y); isS && isC && v == "" {
						if sx.Sel.Name == "Group" && group != 0 {
							return eq == (group < 0)
						}
						if sx.Sel.Name == "Type" && typed != 0 {
							return eq == (typed < 0)
						}
					}
					x, y = y, x
				}
				return false
			}
		}
		byKey := map[string]map[*eng.GNode]bool{}
		for _, st := range stores {
			if byKey[st.Key] == nil {
				byKey[st.Key] = map[*eng.GNode]bool{}
			}
			byKey[st.Key][st.Node] = true
		}
		kube := []string{"binding", "type", "watchEvent", "objects", "object", "filterResult", snap, "*dynamic"}
		for _, row := range []struct {
			label         string
			bt            string
			group, typed  int
			always, maybe []string
		}{
			{"OnStartup", "OnStartup", 0, 0, []string{"binding"}, []string{"binding"}},
			{"Validating", "KubernetesValidating", 0, 0, []string{"binding", "type", "review"}, []string{"binding", "type", "review", snap}},
			{"Mutating", "KubernetesMutating", 0, 0, []string{"binding", "type", "review"}, []string{"binding", "type", "review", snap}},
			{"Conversion", "KubernetesConversion", 0, 0, []string{"binding", "type", "fromVersion", "toVersion", "review"}, []string{"binding", "type", "fromVersion", "toVersion", "review", snap}},
			{"Group", "Schedule", +1, 0, []string{"binding", "type", "groupName"}, []string{"binding", "type", "groupName", snap}},
			{"Group", "OnKubernetesEvent", +1, 0, []string{"binding", "type", "groupName"}, []string{"binding", "type", "groupName", snap}},
			{"Schedule", "Schedule", -1, 0, []string{"binding", "type"}, []string{"binding", "type", snap}},
			{"short", "OnKubernetesEvent", -1, -1, []string{"binding"}, []string{"binding", snap}},
			{"kubernetes", "OnKubernetesEvent", -1, +1, []string{"binding", "type"}, kube},
		} {
			assumed := scenario(row.bt, row.group, row.typed)
			inf := g.Infeasible(assumed)
			feasible := g.Reach(eng.Query{FromEntry: true, Assume: assumed, AvoidEdge: inf})
			always, possible := map[string]bool{}, map[string]bool{}
			exits := 0
			for n := range feasible {
				if n.Exit {
					exits++
				}
			}
			for k, nodes := range byKey {
				for n := range nodes {
					if feasible[n] {
						possible[k] = true
					}
				}
				if !possible[k] {
					continue
				}
				if g.MustPassToExit(eng.Query{FromEntry: true, Assume: assumed, AvoidEdge: inf}, func(m *eng.GNode) bool { return nodes[m] }) == nil {
					always[k] = true
				}
			}
			construct := f.Key + " keys[" + row.label + "/" + row.bt + "]"
			if exits == 0 {
				r.Unknown(construct, f.Decl.Pos(), "no exit of the function is feasible for this kind of context")
				continue
			}
			rk := returnKeys{Always: always, Possible: possible}
			ok := sameSet(always, row.always) && subsetOf(possible, row.maybe)
			r.Check(ok, construct, f.Decl.Pos(), fmt.Sprintf("always=%v possible=%v", rk.alwaysList(), rk.possibleList()),
				fmt.Sprintf("keys of a %s context (binding type %s): always=%v possible=%v, documented: always=%v, at most %v", row.label, row.bt, rk.alwaysList(), rk.possibleList(), row.always, row.maybe))
		}
		_ = rets
		// control dependence of single keys
		typeEq := func(name string) func(fc eng.Fact) bool {
			o := p.Object(pkgKemT, name)
			return func(fc eng.Fact) bool {
				x, y, eq, ok := eng.EqAtom(fc)
				if !ok || !eq {
					return false
				}
				s, isS := ast.Unparen(x).(*ast.SelectorExpr)
				return isS && s.Sel.Name == "Type" && eng.SelObj(info, y) == o
			}
		}
		// the include condition as atoms: `len(X.IncludeSnapshots) > 0` (any spelling) and `X.IncludeAllSnapshots`; the
		// rules assume values for them and let the graph evaluate every condition, flag and named condition
		selNamed := func(e ast.Expr, name string) bool {
			sx, ok := ast.Unparen(e).(*ast.SelectorExpr)
			return ok && sx.Sel.Name == name
		}
		// includeAtom: (which atom, does the fact state that it holds)
		includeAtom := func(fc eng.Fact) (string, bool) {
			if fc.Y != nil {
				return "", false
			}
			if selNamed(fc.X, "IncludeAllSnapshots") {
				return "all", fc.Pos
			}
			if b, ok := ast.Unparen(fc.X).(*ast.BinaryExpr); ok {
				if cl := builtinCall(info, b.X, "len"); cl != nil && len(cl.Args) == 1 && selNamed(cl.Args[0], "IncludeSnapshots") {
					if k, isK := eng.ConstInt(info, b.Y); isK {
						nonEmpty, known := false, true
						switch {
						case b.Op == token.GTR && k == 0, b.Op == token.NEQ && k == 0, b.Op == token.GEQ && k == 1:
							nonEmpty = fc.Pos
						case b.Op == token.EQL && k == 0, b.Op == token.LEQ && k == 0, b.Op == token.LSS && k == 1:
							nonEmpty = !fc.Pos
						default:
							known = false
						}
						if known {
							return "some", nonEmpty
						}
					}
				}
			}
			return "", false
		}
		assumeInclude := func(want map[string]bool) func(eng.Fact) bool {
			return func(fc eng.Fact) bool {
				k, holds := includeAtom(fc)
				w, has := want[k]
				return k != "" && has && w == holds
			}
		}
		notIncluded := assumeInclude(map[string]bool{"all": false, "some": false})
		reachNotIncluded := g.Reach(eng.Query{FromEntry: true, Assume: notIncluded, AvoidEdge: g.Infeasible(notIncluded)})
		nObjects, nObject, nSnap := 0, 0, 0
		for _, st := range stores {
			switch st.Key {
			case "objects":
				nObjects++
				r.Check(g.OnlyVia(st.Node, nil, g.FactEdge(typeEq("TypeSynchronization"))), fmt.Sprintf("%s key objects#%d", f.Key, nObjects), st.Node.Node.Pos(), "only for Synchronization", "`objects` can be rendered for a context that is not a Synchronization")
			case "object", "filterResult", "*dynamic":
				nObject++
				r.Check(g.OnlyVia(st.Node, nil, g.FactEdge(typeEq("TypeEvent"))), fmt.Sprintf("%s key %s#%d", f.Key, st.Key, nObject), st.Node.Node.Pos(), "only for Event", "`"+st.Key+"` can be rendered for a context that is not an Event")
			case snap:
				nSnap++
				r.Check(!reachNotIncluded[st.Node], fmt.Sprintf("%s key snapshots#%d", f.Key, nSnap), st.Node.Node.Pos(), "only when the binding includes snapshots", "`snapshots` can be rendered although the binding includes no snapshots")
			}
		}
		// snapshots present whenever included (for every kind of context except OnStartup)
		isSnapStore := func(n *eng.GNode) bool {
			for _, st := range stores {
				if st.Key == snap && st.Node == n {
					return true
				}
			}
			return false
		}
		for _, btName := range []string{"KubernetesValidating", "KubernetesMutating", "KubernetesConversion", "Schedule", "OnKubernetesEvent"} {
			bad := token.NoPos
			for _, w := range []map[string]bool{{"all": true}, {"some": true}} {
				inc, kind := assumeInclude(w), scenario(btName, 0, 0)
				a := func(fc eng.Fact) bool {
					if k, _ := includeAtom(fc); k != "" {
						return inc(fc)
					}
					return kind(fc)
				}
				for n := range g.Reach(eng.Query{FromEntry: true, Assume: a, AvoidEdge: g.Infeasible(a), AvoidNode: isSnapStore}) {
					if n.Exit && !isSnapStore(n) {
						bad = f.Decl.Pos()
						if n.Node != nil {
							bad = n.Node.Pos()
						}
					}
				}
			}
			if bad != token.NoPos {
				r.Bad(f.Key+" snapshots-when-included "+btName, bad, "a binding that includes snapshots can be rendered without the `snapshots` key")
			}
		}
	}
	// --- MapV0
	if f := r.NeedFunc(pkgBctx + ".(BindingContext).MapV0"); f != nil {
		g := p.GraphOf(f)
		mapVar := resultVarOf(f)
		rets := returnKeySets(g, mapVar, mapKeyStores(g, mapVar))
		if len(rets) != 2 {
			r.Unknown(f.Key+" returns", f.Decl.Pos(), fmt.Sprintf("expected 2 returns, found %d", len(rets)))
		} else {
			a, b := rets[0], rets[1]
			if a.Node.Node.Pos() > b.Node.Node.Pos() {
				a, b = b, a
			}
			r.Check(sameSet(a.Always, []string{"binding"}) && sameSet(a.Possible, []string{"binding"}), f.Key+" return[non-kubernetes]", a.Node.Node.Pos(), "binding only", fmt.Sprintf("v0 non-kubernetes context keys: %v", a.possibleList()))
			r.Check(sameSet(b.Always, []string{"binding", "resourceEvent"}) && subsetOf(b.Possible, []string{"binding", "resourceEvent", "resourceNamespace", "resourceKind", "resourceName"}), f.Key+" return[kubernetes]", b.Node.Node.Pos(), "binding, resourceEvent (+resource identity)", fmt.Sprintf("v0 kubernetes context keys: always=%v possible=%v", b.alwaysList(), b.possibleList()))
		}
	}
	// --- ObjectAndFilterResult.Map
	if f := r.NeedFunc(pkgKemT + ".(ObjectAndFilterResult).Map"); f != nil {
		info := f.Pkg.TypesInfo
		g := p.GraphOf(f)
		mapVar := resultVarOf(f)
		stores := mapKeyStores(g, mapVar)
		n := 0
		for _, st := range stores {
			if st.Key == "object" {
				n++
				only := g.OnlyVia(st.Node, nil, g.FactEdge(func(fc eng.Fact) bool {
					s, isS := ast.Unparen(fc.X).(*ast.SelectorExpr)
					return !fc.Pos && fc.Y == nil && isS && s.Sel.Name == "RemoveObject"
				}))
				r.Check(only, f.Key+" key object", st.Node.Node.Pos(), "object only when RemoveObject is false", "`object` can be rendered although the full object was removed (keepFullObjectsInMemory=false)")
			}
		}
		if n == 0 {
			r.Bad(f.Key+" key object", f.Decl.Pos(), "`object` is never rendered")
		}
		// object is rendered whenever RemoveObject is false
		for _, rk := range returnKeySets(g, mapVar, stores) {
			reach := g.Reach(eng.Query{FromEntry: true, AvoidEdge: g.FactEdge(func(fc eng.Fact) bool {
				s, isS := ast.Unparen(fc.X).(*ast.SelectorExpr)
				return fc.Pos && fc.Y == nil && isS && s.Sel.Name == "RemoveObject"
			}), AvoidNode: func(m *eng.GNode) bool {
				for _, st := range stores {
					if st.Key == "object" && st.Node == m {
						return true
					}
				}
				return false
			}})
			if reach[rk.Node] {
				r.Bad(f.Key+" object-when-kept", rk.Node.Node.Pos(), "with the full object kept, a return is reachable that omits `object`")
			}
			if !subsetOf(rk.Possible, []string{"object", "filterResult"}) {
				r.Bad(f.Key+" extra keys", rk.Node.Node.Pos(), fmt.Sprintf("undocumented keys: %v", rk.possibleList()))
			}
		}
		// the no-filter exit: filterResult absent iff no jqFilter and nil result
		_ = info
		r.Ok(f.Key+" keys", f.Decl.Pos(), "keys ⊆ {object, filterResult}")
	}
}

func runC09R4(c *eng.Ctx, r *eng.RuleCtx) {
	p := c.P
	f := r.NeedFunc(pkgHook + ".(*Hook).Run")
	if f == nil {
		return
	}
	info := f.Pkg.TypesInfo
	update := p.Method(pkgCtrl, "HookController", "UpdateSnapshots")
	convert, _ := p.Object(pkgBctx, "ConvertBindingContextList").(*types.Func)
	prepare := p.Method(pkgHook, "Hook", "prepareBindingContextJsonFile")
	version := p.Field(pkgCfg, "HookConfig", "Version")
	ctxPrm := paramLike(f.Obj.Type().(*types.Signature), 1, sliceOfNamed("binding_context", "BindingContext"))
	chainOK := false
	var pos token.Pos = f.Decl.Pos()
	for _, call := range callsIn(info, f.Decl.Body, isObj(prepare)) {
		pos = call.Pos()
		v, isV := eng.SelObj(info, argLike(info, call, 0, typeNamed("binding_context", "BindingContextList"))).(*types.Var)
		if !isV {
			continue
		}
		for _, e := range eng.AssignedExprs(info, f.Decl.Body, v) {
			cl, isC := ast.Unparen(e).(*ast.CallExpr)
			if !isC || eng.CalleeOf(info, cl) != convert || len(cl.Args) != 2 || !eng.IsField(info, cl.Args[0], version) {
				continue
			}
			fresh, isF := eng.SelObj(info, cl.Args[1]).(*types.Var)
			if !isF {
				continue
			}
			for _, e2 := range eng.AssignedExprs(info, f.Decl.Body, fresh) {
				if c2, isC2 := ast.Unparen(e2).(*ast.CallExpr); isC2 && eng.CalleeOf(info, c2) == update && len(c2.Args) == 1 && eng.SelObj(info, c2.Args[0]) == ctxPrm {
					chainOK = true
				}
			}
		}
	}
	r.Check(chainOK, f.Key+" context-file-source", pos, "prepareBindingContextJsonFile(ConvertBindingContextList(h.Config.Version, UpdateSnapshots(context)))", "the binding context file is not rendered from the task's contexts with refreshed snapshots in the hook's config version")
	if pf := r.NeedFunc(pkgHook + ".(*Hook).prepareBindingContextJsonFile"); pf != nil {
		pinfo := pf.Pkg.TypesInfo
		prm := paramLike(pf.Obj.Type().(*types.Signature), 0, typeNamed("binding_context", "BindingContextList"))
		var data types.Object
		eng.InspectNoLit(pf.Decl.Body, func(n ast.Node) bool {
			if as, ok := n.(*ast.AssignStmt); ok && len(as.Rhs) == 1 {
				if cl, isC := ast.Unparen(as.Rhs[0]).(*ast.CallExpr); isC && isCallNamed(pinfo, cl, "Json") {
					if s, isS := ast.Unparen(cl.Fun).(*ast.SelectorExpr); isS && eng.SelObj(pinfo, s.X) == prm {
						data = eng.SelObj(pinfo, as.Lhs[0])
					}
				}
			}
			return true
		})
		wrote := false
		for _, call := range callsIn(pinfo, pf.Decl.Body, func(o types.Object, _ *ast.CallExpr) bool { return eng.IsPkgFunc(o, "os", "WriteFile") }) {
			if len(call.Args) == 3 && data != nil && eng.SelObj(pinfo, call.Args[1]) == data {
				wrote = true
			}
		}
		r.Check(wrote, pf.Key+" writes Json()", pf.Decl.Pos(), "os.WriteFile(path, context.Json())", "the file content is not the JSON of the versioned context list")
	}
	if cf := p.FuncOf(convert); cf != nil {
		c.Touch(cf)
		cinfo := cf.Pkg.TypesInfo
		g := p.GraphOf(cf)
		prm := paramLike(convert.Type().(*types.Signature), 1, sliceOfNamed("binding_context", "BindingContext"))
		verPrm := paramLike(convert.Type().(*types.Signature), 0, func(t types.Type) bool { b, ok := t.Underlying().(*types.Basic); return ok && b.Kind() == types.String })
		var el *eng.ElemLoop
		for _, l := range elemLoopsOver(cinfo, cf.Decl.Body, func(x ast.Expr) bool { return eng.SelObj(cinfo, x) == prm }) {
			el = l
		}
		ok := false
		verOK := false
		if el != nil {
			loop := el.Stmt
			stores := func(n *eng.GNode) bool {
				as, isA := n.Node.(*ast.AssignStmt)
				if !isA || len(as.Lhs) != 1 {
					return false
				}
				rhs := as.Rhs[0]
				if ix, isIx := ast.Unparen(as.Lhs[0]).(*ast.IndexExpr); isIx {
					// res[i] = elem.Map()
					if !el.IsPos(ix.Index) {
						return false
					}
				} else if ap := builtinCall(cinfo, rhs, "append"); ap != nil && len(ap.Args) == 2 && !ap.Ellipsis.IsValid() &&
					eng.SelObj(cinfo, as.Lhs[0]) != nil && eng.SelObj(cinfo, as.Lhs[0]) == eng.SelObj(cinfo, ap.Args[0]) && appendTargetStartsEmpty(cinfo, cf, eng.SelObj(cinfo, as.Lhs[0])) {
					// res = append(res, elem.Map()) into a slice created with length 0
					rhs = ap.Args[1]
				} else {
					return false
				}
				cl, isC := ast.Unparen(rhs).(*ast.CallExpr)
				if !isC || !isCallNamed(cinfo, cl, "Map") {
					return false
				}
				s, isS := ast.Unparen(cl.Fun).(*ast.SelectorExpr)
				return isS && el.IsElem(s.X)
			}
			ok = !el.Desc && loopNoEarlyExit(g, loop) && loopBodyMustPass(g, loop, stores)
			setsVer := func(n *eng.GNode) bool {
				as, isA := n.Node.(*ast.AssignStmt)
				if !isA || len(as.Lhs) != 1 || eng.SelObj(cinfo, as.Rhs[0]) != verPrm {
					return false
				}
				s, isS := ast.Unparen(as.Lhs[0]).(*ast.SelectorExpr)
				return isS && s.Sel.Name == "Version"
			}
			verOK = loopBodyMustPass(g, loop, setsVer)
		}
		r.Check(ok, cf.Key+" one-element-per-context", cf.Decl.Pos(), "res[i] = contexts[i].Map() for every i ascending", "the rendered list does not have exactly one element per binding context in order (a slot of the pre-sized list can stay nil)")
		r.Check(verOK, cf.Key+" version-applied", cf.Decl.Pos(), "every context is rendered in the requested config version", "a context can be rendered without the config version set (Map() then returns an empty object)")
	}
}

// appendTargetStartsEmpty: v is a local whose only other assignment is its definition as an empty slice
// (`make(T, 0[, n])`, `T{}`, `nil` / `var v T`).
func appendTargetStartsEmpty(info *types.Info, f *eng.Func, v types.Object) bool {
	lv, ok := v.(*types.Var)
	if !ok || lv.IsField() {
		return false
	}
	okDef := true
	ndefs := 0
	for _, e := range eng.AssignedExprs(info, f.Decl.Body, lv) {
		if ap := builtinCall(info, e, "append"); ap != nil && len(ap.Args) >= 1 && eng.SelObj(info, ap.Args[0]) == v {
			continue
		}
		ndefs++
		if mk := builtinCall(info, e, "make"); mk != nil && len(mk.Args) >= 2 {
			if n, isC := eng.ConstInt(info, mk.Args[1]); isC && n == 0 {
				continue
			}
		}
		if cl, isL := ast.Unparen(e).(*ast.CompositeLit); isL && len(cl.Elts) == 0 {
			continue
		}
		if eng.IsNil(info, e) {
			continue
		}
		okDef = false
	}
	return okDef && ndefs <= 1
}
