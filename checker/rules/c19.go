package rules

import (
	"fmt"
	"go/token"
	"regexp"
	"sort"
	"strconv"
	"strings"

	"sopverif/eng"
)

// C19 - shell framework dispatch. Both rules work on the structure extracted by eng/shell.go (extractor
// "kind J") from the three bash files; nothing is matched by line number or by frozen text, the only
// literal is the reference dispatch table of R2(v).

const (
	shHook    = "frameworks/shell/hook.sh"
	shContext = "frameworks/shell/context.sh"
	shLib     = "shell_lib.sh"

	c19Run      = "hook::run"
	c19Producer = "hook::_get_possible_handler_names"
	c19Runner   = "hook::_run_first_available_handler"
	c19Binding  = "BINDING_CONTEXT_CURRENT_BINDING"
	c19Index    = "BINDING_CONTEXT_CURRENT_INDEX"
)

// c19Reference is the documented dispatch table (the framework has no other documentation than its code):
// binding context type[/watchEvent] -> candidate handler names, most specific first. `__main__` is appended
// by hook::run. Variables are named by the field of the current context they hold: ${.binding} is
// BINDING_CONTEXT_CURRENT_BINDING (assigned in hook::run), ${.groupName} is assigned in the Group arm.
var c19Reference = map[string][]string{
	"binding=onStartup": {"__on_startup"},
	"Synchronization":   {"__on_kubernetes::${.binding}::synchronization", "__on_kubernetes::${.binding}"},
	"Event/Added":       {"__on_kubernetes::${.binding}::added", "__on_kubernetes::${.binding}::added_or_modified", "__on_kubernetes::${.binding}"},
	"Event/Modified":    {"__on_kubernetes::${.binding}::modified", "__on_kubernetes::${.binding}::added_or_modified", "__on_kubernetes::${.binding}"},
	"Event/Deleted":     {"__on_kubernetes::${.binding}::deleted", "__on_kubernetes::${.binding}"},
	"Group":             {"__on_group::${.groupName}"},
	"Schedule":          {"__on_schedule::${.binding}"},
	"Validating":        {"__on_validating::${.binding}"},
	"Mutating":          {"__on_mutating::${.binding}"},
	"Conversion": {"__on_conversion::${.binding}::$(context::jq -er '[.fromVersion,.toVersion]| map(sub(\"/\";\".\")) | join(\"::\")')",
		"__on_conversion::${.binding}"},
}

func init() {
	register(&Property{
		ID:    "C19",
		Title: "Shell framework dispatches each binding context to exactly one handler",
		Explanation: "Decided on frameworks/shell/hook.sh, frameworks/shell/context.sh and shell_lib.sh with a purpose-built bash " +
			"tokenizer/structure extractor (eng/shell.go, fails closed on unknown syntax): (R1) no expansion that carries binding-context " +
			"data (output of jq/context::jq, the variables and positional parameters it flows into, loop/read variables over it) is subject " +
			"to word splitting or pathname expansion where it is used as a command word, an argument, a `for` list or a redirection target; " +
			"(R2) the table type[/watchEvent] -> ordered candidate names extracted from the case arms of the producer is ordered from most " +
			"to least specific, equals the reference table, `__main__` is appended last with the separator the runner iterates on, the " +
			"runner tests definedness, runs the first defined candidate, returns its status and returns non-zero when none is defined, " +
			"hook::run handles --config first and walks the contexts 0..length-1 exporting the index before the candidates are computed. " +
			"NOT decided: bash semantics proper (errexit propagation through $( ) and subshells, `type` finding builtins/keywords of the " +
			"same name), jq, the behaviour of the handlers.",
		Assumptions: []string{
			"bash >= 4.4 semantics: no word splitting in assignments (also as arguments of export/local/declare), in [[ ]], in case subjects and in here-strings; an arithmetic expansion yields one integer",
			"the binding context reaches the shell only through jq (context::jq, context::global::jq); BINDING_CONTEXT_PATH and the hook's own arguments are not binding-context data",
		},
		Run: runC19,
	})
}

// ------------------------------------------------------------------------------------------ program

type c19sh struct {
	files map[string]*eng.ShFile
	funcs map[string]*eng.ShCmd
	where map[string]string // function -> file
}

func c19Label(rel, fn string) string {
	if fn != "" {
		return fn
	}
	return rel[strings.LastIndexByte(rel, '/')+1:]
}

func runC19(c *eng.Ctx) {
	r1 := c.Rule("C19.R1", "J:taint+quoting", "no binding-context-derived expansion undergoes word splitting / globbing where it is used as a command word, an argument, a `for` list or a redirection target", 15)
	r2 := c.Rule("C19.R2", "J:dispatch table+structure", "dispatch table (type[/watchEvent] -> ordered candidates) is ordered, equals the reference, `__main__` last; runner = first defined candidate, its status, non-zero when none; hook::run: --config first, contexts 0..length-1 ascending", 34)
	sh := &c19sh{files: map[string]*eng.ShFile{}, funcs: map[string]*eng.ShCmd{}, where: map[string]string{}}
	ok := true
	for _, rel := range []string{shHook, shContext, shLib} {
		f, err := eng.ParseShell(c.P, rel)
		if err != nil {
			pos := token.NoPos
			if se, isSe := err.(*eng.ShError); isSe {
				pos = se.Pos
			}
			msg := "the bash extractor does not understand the file (fail closed): " + err.Error()
			r1.Unknown("parse "+rel, pos, msg)
			r2.Unknown("parse "+rel, pos, msg)
			ok = false
			continue
		}
		sh.files[rel] = f
		for _, n := range f.Order {
			if _, dup := sh.funcs[n]; dup {
				r1.Unknown("function "+n, f.Funcs[n].Pos, "function defined in two files; the later definition wins at run time, the analysis does not model that")
				ok = false
			}
			sh.funcs[n] = f.Funcs[n]
			sh.where[n] = rel
		}
	}
	if !ok {
		return
	}
	if ren := c19ResolveRenames(c, sh); len(ren) > 0 {
		c.Extra["shell_renamed"] = ren
	}
	c19AllFuncs, c19Baseline = sh.funcs, c.P.Baseline
	c19R1(r1, sh)
	c19R2(c, r2, sh)
}

// c19ResolveRenames maps a function of the reference tree that no longer exists to the new function that took its
// place: the one new function whose multiset of external commands is closest to the recorded one (at least 60%
// overlap, strictly better than every other new function). The syntax tree is then rewritten to the reference name
// (definition and every call), so that the rules address the function by the name they know.
func c19ResolveRenames(c *eng.Ctx, sh *c19sh) map[string]string {
	if c.P.Baseline == nil {
		return nil
	}
	ref := map[string][]string{}
	for l := range c.P.Baseline {
		if f := strings.Split(l, "\t"); len(f) == 3 && f[0] == "shsig" {
			if f[2] == "" {
				ref[f[1]] = nil
			} else {
				ref[f[1]] = strings.Split(f[2], ",")
			}
		}
	}
	all := map[string]*eng.ShCmd{}
	for n, f := range sh.funcs {
		all[n] = f
	}
	var missing, fresh []string
	for n := range ref {
		if sh.funcs[n] == nil {
			missing = append(missing, n)
		}
	}
	for n := range sh.funcs {
		if !c.P.Baseline["sh:"+n] {
			fresh = append(fresh, n)
		}
	}
	sort.Strings(missing)
	sort.Strings(fresh)
	overlap := func(a, b []string) float64 {
		cnt := map[string]int{}
		for _, x := range a {
			cnt[x]++
		}
		inter := 0
		for _, x := range b {
			if cnt[x] > 0 {
				cnt[x]--
				inter++
			}
		}
		if u := len(a) + len(b) - inter; u > 0 {
			return float64(inter) / float64(u)
		}
		return 1
	}
	out := map[string]string{}
	taken := map[string]bool{}
	for _, old := range missing {
		best, second, pick := 0.0, 0.0, ""
		for _, n := range fresh {
			if taken[n] {
				continue
			}
			s := overlap(ref[old], eng.ShFingerprint(all[n], all))
			if s > best {
				best, second, pick = s, best, n
			} else if s > second {
				second = s
			}
		}
		if pick != "" && best >= 0.6 && best > second {
			out[old] = pick
			taken[pick] = true
		}
	}
	if len(out) == 0 {
		return nil
	}
	back := map[string]string{}
	for old, n := range out {
		back[n] = old
		sh.funcs[old], sh.where[old] = sh.funcs[n], sh.where[n]
		delete(sh.funcs, n)
		delete(sh.where, n)
	}
	for _, f := range sh.files {
		for i, n := range f.Order {
			if old := back[n]; old != "" {
				f.Order[i] = old
				f.Funcs[old] = f.Funcs[n]
				delete(f.Funcs, n)
			}
		}
		eng.ShWalk(f.List, "", func(x *eng.ShCmd, _ string) {
			if old := back[x.Name]; old != "" && x.Func != nil {
				x.Name = old
			}
			if old := back[x.CmdName()]; old != "" {
				x.Words[0] = &eng.ShWord{Pos: x.Words[0].Pos, Parts: []*eng.ShPart{{Kind: eng.ShLit, Pos: x.Words[0].Pos, Text: old}}}
			}
		})
	}
	return out
}

// ------------------------------------------------------------------------------------------ R1: taint

var c19Sources = map[string]bool{"jq": true, "context::jq": true, "context::global::jq": true}
var c19Decl = map[string]bool{"export": true, "local": true, "declare": true, "typeset": true, "readonly": true}
var c19Untaintable = map[string]bool{"?": true, "#": true, "$": true, "!": true, "-": true, "0": true}

type c19taint struct {
	sh      *c19sh
	vars    map[string]string         // tainted variable -> why
	pos     map[string]map[int]string // function -> positional index (0 = all) -> why
	out     map[string]bool           // functions whose standard output carries tainted data
	stdin   map[string]bool           // functions called with tainted standard input
	shifts  map[string]bool           // functions that shift / set their positional parameters
	changed bool
	unknown []string
}

func (t *c19taint) setVar(name, why string) {
	if _, ok := t.vars[name]; !ok {
		t.vars[name] = why
		t.changed = true
	}
}

func (t *c19taint) setPos(fn string, i int, why string) {
	if t.pos[fn] == nil {
		t.pos[fn] = map[int]string{}
	}
	if _, ok := t.pos[fn][i]; !ok {
		t.pos[fn][i] = why
		t.changed = true
	}
}

// part tells whether an expansion can carry binding-context data ("" = no).
func (t *c19taint) part(p *eng.ShPart, fn string) string {
	switch p.Kind {
	case eng.ShDQ:
		return t.parts(p.Parts, fn)
	case eng.ShParam:
		if p.Prefix == "#" || c19Untaintable[p.Name] {
			return ""
		}
		if w := t.parts(p.Parts, fn); w != "" {
			return w
		}
		if p.Name == "@" || p.Name == "*" {
			for _, w := range t.pos[fn] {
				return w
			}
			return ""
		}
		if n, err := strconv.Atoi(p.Name); err == nil {
			if w := t.pos[fn][n]; w != "" {
				return w
			}
			return t.pos[fn][0]
		}
		return t.vars[p.Name]
	case eng.ShCmdSub:
		return t.listOut(p.List, fn)
	}
	return ""
}

func (t *c19taint) parts(ps []*eng.ShPart, fn string) string {
	for _, p := range ps {
		if w := t.part(p, fn); w != "" {
			return w
		}
	}
	return ""
}

func (t *c19taint) word(w *eng.ShWord, fn string) string {
	if w == nil {
		return ""
	}
	return t.parts(w.Parts, fn)
}

func stdoutRedirected(c *eng.ShCmd) bool {
	for _, r := range c.Redirs {
		if (r.Fd == "" || r.Fd == "1") && (r.Op == ">" || r.Op == ">>" || r.Op == ">&" || r.Op == "&>" || r.Op == ">|") {
			return true
		}
	}
	return false
}

// cmdOut: does the command write binding-context data to its standard output?
func (t *c19taint) cmdOut(c *eng.ShCmd, fn string) string {
	if stdoutRedirected(c) || c.Kind == "func" {
		return ""
	}
	if c.Kind == "simple" {
		name := c.CmdName()
		if c19Sources[name] {
			return "output of " + name
		}
		if t.out[name] {
			return "output of " + name
		}
		for _, w := range c.Words {
			if why := t.word(w, fn); why != "" {
				return why
			}
		}
	}
	for _, rd := range c.Redirs {
		if rd.Op == "<<<" {
			if why := t.word(rd.Target, fn); why != "" {
				return why
			}
		}
	}
	for _, l := range c.Lists() {
		if w := t.listOut(l, fn); w != "" {
			return w
		}
	}
	return ""
}

func (t *c19taint) listOut(l *eng.ShList, fn string) string {
	if l == nil {
		return ""
	}
	for _, ao := range l.Items {
		for _, pl := range ao.Pipes {
			// only the last command of a pipeline writes to the pipeline's output, but an earlier tainted
			// stage feeds it: any stage counts.
			for _, c := range pl.Cmds {
				if w := t.cmdOut(c, fn); w != "" {
					return w
				}
			}
		}
	}
	return ""
}

func (t *c19taint) propagate(l *eng.ShList, fn string, stdin string) {
	if l == nil {
		return
	}
	for _, ao := range l.Items {
		for _, pl := range ao.Pipes {
			in := stdin
			for _, c := range pl.Cmds {
				t.propCmd(c, fn, in)
				if w := t.cmdOut(c, fn); w != "" {
					in = w // once tainted, the rest of the pipeline reads tainted data (filters pass it through)
				}
			}
		}
	}
}

func (t *c19taint) propCmd(c *eng.ShCmd, fn string, stdin string) {
	for _, r := range c.Redirs {
		switch r.Op {
		case "<<<":
			stdin = t.word(r.Target, fn)
		case "<", "<>", "<&":
			if r.Fd == "" || r.Fd == "0" {
				stdin = "input redirected from " + shRender(r.Target)
			}
		}
	}
	for _, w := range c.AllWords() {
		eng.ShExpansions(w.Parts, false, func(p *eng.ShPart, _ bool) {
			if p.Kind == eng.ShCmdSub {
				t.propagate(p.List, fn, stdin)
			}
		})
	}
	switch c.Kind {
	case "simple":
		for _, a := range c.Assigns {
			if why := t.word(a.Value, fn); why != "" {
				t.setVar(a.Name, why)
			}
		}
		name := c.CmdName()
		switch {
		case len(c.Words) == 0:
		case c19Decl[name]:
			for _, w := range c.Words[1:] {
				if a := eng.ShSplitAssign(w); a != nil {
					if why := t.word(a.Value, fn); why != "" {
						t.setVar(a.Name, why)
					}
				}
			}
		case name == "read" || name == "mapfile" || name == "readarray":
			n := 0
			for _, w := range c.Words[1:] {
				s, ok := w.Lit()
				if !ok {
					t.unknown = append(t.unknown, fmt.Sprintf("%s: `%s` with a computed variable name", c19Label("", fn), shRender(c)))
					continue
				}
				if !strings.HasPrefix(s, "-") {
					n++
					if stdin != "" {
						t.setVar(s, "read from "+stdin)
					}
				}
			}
			if n == 0 && stdin != "" {
				t.setVar("REPLY", "read from "+stdin)
			}
		case name == "set" || name == "shift":
			// handled through t.shifts
		case name == "eval" || name == "source" || name == ".":
			for _, w := range c.Words[1:] {
				if why := t.word(w, fn); why != "" {
					t.unknown = append(t.unknown, fmt.Sprintf("%s: `%s` evaluates binding-context data (%s)", c19Label("", fn), shRender(c), why))
				}
			}
		case t.sh.funcs[name] != nil:
			exact := !t.shifts[name]
			for _, w := range c.Words[1:] {
				eng.ShExpansions(w.Parts, false, func(p *eng.ShPart, quoted bool) {
					if !quoted && p.Kind != eng.ShArith || p.Name == "@" || p.Index == "@" {
						exact = false
					}
				})
			}
			for i, w := range c.Words[1:] {
				if why := t.word(w, fn); why != "" {
					if exact {
						t.setPos(name, i+1, why+fmt.Sprintf(" (argument %d of %s in %s)", i+1, name, c19Label("", fn)))
					} else {
						t.setPos(name, 0, why+fmt.Sprintf(" (an argument of %s in %s)", name, c19Label("", fn)))
					}
				}
			}
			if stdin != "" && !t.stdin[name] {
				t.stdin[name], t.changed = true, true
			}
		}
	case "for":
		if c.HasIn {
			for _, w := range c.Words {
				if why := t.word(w, fn); why != "" {
					t.setVar(c.Name, "loop variable over "+why)
				}
			}
		} else {
			for _, why := range t.pos[fn] {
				t.setVar(c.Name, "loop variable over \"$@\": "+why)
			}
		}
	case "func":
		in := ""
		if t.stdin[c.Name] {
			in = "standard input of " + c.Name
		}
		t.propCmd(c.Func, c.Name, in)
		return
	}
	for _, l := range c.Lists() {
		t.propagate(l, fn, stdin)
	}
}

func c19R1(r *eng.RuleCtx, sh *c19sh) {
	t := &c19taint{sh: sh, vars: map[string]string{}, pos: map[string]map[int]string{}, out: map[string]bool{}, stdin: map[string]bool{}, shifts: map[string]bool{}}
	rels := []string{shHook, shContext, shLib}
	for name, f := range sh.funcs {
		eng.ShWalk(&eng.ShList{Items: []*eng.ShAndOr{{Pipes: []*eng.ShPipe{{Cmds: []*eng.ShCmd{f.Func}}}}}}, name, func(c *eng.ShCmd, _ string) {
			if n := c.CmdName(); n == "shift" || n == "set" {
				t.shifts[name] = true
			}
		})
	}
	for iter := 0; ; iter++ {
		t.changed = false
		t.unknown = nil
		for _, rel := range rels {
			t.propagate(sh.files[rel].List, "", "")
		}
		for name, f := range sh.funcs {
			if !t.out[name] && t.cmdOut(f.Func, name) != "" {
				t.out[name], t.changed = true, true
			}
		}
		if !t.changed {
			break
		}
		if iter > 50 {
			r.Unknown("taint fixpoint", token.NoPos, "the taint propagation did not converge")
			return
		}
	}
	for _, u := range t.unknown {
		r.Unknown("taint: "+u, token.NoPos, "the flow of binding-context data cannot be followed here")
	}
	var tv []string
	for v := range t.vars {
		tv = append(tv, v)
	}
	sort.Strings(tv)
	r.C.Extra["tainted_variables"] = tv
	var of []string
	for f := range t.out {
		of = append(of, f)
	}
	sort.Strings(of)
	r.C.Extra["functions_with_tainted_output"] = of
	// the sources the rule stands on must exist, otherwise it would pass vacuously
	for _, v := range []string{c19Binding, "HANDLERS"} {
		if t.vars[v] == "" {
			r.Unknown("source "+v, token.NoPos, "variable "+v+" is not recognised as carrying binding-context data: the taint sources of the rule are gone")
		}
	}
	if !t.out[c19Producer] {
		r.Unknown("source "+c19Producer, token.NoPos, "the output of the handler-name producer is not recognised as carrying binding-context data")
	}

	e := &c19uses{r: r, t: t}
	for _, rel := range rels {
		e.rel = rel
		e.list(sh.files[rel].List, "")
	}
}

type c19uses struct {
	r   *eng.RuleCtx
	t   *c19taint
	rel string
}

func (e *c19uses) list(l *eng.ShList, fn string) {
	if l == nil {
		return
	}
	for _, ao := range l.Items {
		for _, pl := range ao.Pipes {
			for _, c := range pl.Cmds {
				e.cmd(c, fn)
			}
		}
	}
}

func (e *c19uses) cmd(c *eng.ShCmd, fn string) {
	for _, a := range c.Assigns {
		e.word(a.Value, fn, "value assigned to "+a.Name, false)
	}
	name := c.CmdName()
	switch c.Kind {
	case "simple":
		for i, w := range c.Words {
			a := eng.ShSplitAssign(w)
			switch {
			case i == 0:
				e.word(w, fn, "command word", true)
			case c19Decl[name] && a != nil:
				e.word(a.Value, fn, "value assigned to "+a.Name+" ("+name+")", false)
			case name != "":
				e.word(w, fn, "argument of `"+name+"`", true)
			default:
				e.word(w, fn, "argument of a computed command", true)
			}
		}
	case "for":
		for _, w := range c.Words {
			e.word(w, fn, "`for "+c.Name+" in` list", true)
		}
	case "case":
		e.word(c.Words[0], fn, "case subject", false)
		for _, a := range c.Arms {
			for _, w := range a.Patterns {
				e.word(w, fn, "case pattern", false)
			}
		}
	case "cond":
		for _, w := range c.Words {
			e.word(w, fn, "[[ ]] operand", false)
		}
	case "func":
		e.cmd(c.Func, c.Name)
		return
	}
	for _, rd := range c.Redirs {
		if rd.Op == "<<<" {
			e.word(rd.Target, fn, "here-string", false)
		} else {
			e.word(rd.Target, fn, "redirection target", true)
		}
	}
	for _, l := range c.Lists() {
		e.list(l, fn)
	}
}

func short(s string, n int) string {
	if len(s) > n {
		return s[:n-3] + "..."
	}
	return s
}

func (e *c19uses) word(w *eng.ShWord, fn, ctx string, splits bool) {
	eng.ShExpansions(w.Parts, false, func(p *eng.ShPart, quoted bool) {
		if p.Kind == eng.ShCmdSub {
			e.list(p.List, fn)
		}
		if p.Kind == eng.ShArith {
			return
		}
		why := e.t.part(p, fn)
		if why == "" {
			return
		}
		txt := short(shRender(p), 70)
		if quoted {
			txt = `"` + txt + `"`
		}
		construct := fmt.Sprintf("%s: %s as %s", c19Label(e.rel, fn), txt, ctx)
		if whole := short(shRender(w), 90); whole != txt && len(w.Parts) > 0 && !(len(w.Parts) == 1 && len(w.Parts[0].Parts) <= 1) {
			construct += " in " + whole
		}
		switch {
		case quoted:
			e.r.Ok(construct, p.Pos, "double-quoted: one word ("+why+")")
		case !splits:
			e.r.Ok(construct, p.Pos, "no word splitting in this context ("+why+")")
		default:
			e.r.Bad(construct, p.Pos, "unquoted expansion of binding-context data ("+why+") undergoes word splitting and pathname expansion as "+ctx+
				": a binding or group name with a space (the documentation's own \"Monitor pods in cache tier\") becomes several words")
		}
	})
}

// ------------------------------------------------------------------------------------------ R2 helpers

// shRender prints a part, word, command or list canonically on one line: quotes kept, `$x` and `${x}`
// both as ${x}, backquotes as $(..), blanks between words normalised.
func shRender(x any) string {
	switch v := x.(type) {
	case *eng.ShPart:
		return shRenderParts([]*eng.ShPart{v}, true)
	case *eng.ShWord:
		return shRenderParts(v.Parts, true)
	case *eng.ShList:
		return shRenderList(v)
	case *eng.ShCmd:
		var ws []string
		for _, a := range v.Assigns {
			ws = append(ws, a.Name+"="+shRender(a.Value))
		}
		switch v.Kind {
		case "simple":
		case "subshell":
			ws = append(ws, "("+shRenderList(v.Body)+")")
		case "cond":
			ws = append(ws, "[[")
		default:
			ws = append(ws, "<"+v.Kind+">")
		}
		for _, w := range v.Words {
			ws = append(ws, shRender(w))
		}
		if v.Kind == "cond" {
			ws = append(ws, "]]")
		}
		for _, r := range v.Redirs {
			ws = append(ws, r.Fd+r.Op+shRender(r.Target))
		}
		return strings.Join(ws, " ")
	}
	return "?"
}

func shRenderParts(parts []*eng.ShPart, quotes bool) string {
	var sb strings.Builder
	for _, p := range parts {
		switch p.Kind {
		case eng.ShLit:
			sb.WriteString(p.Text)
		case eng.ShSQ, eng.ShAnsi:
			if quotes {
				sb.WriteString("'" + strings.ReplaceAll(strings.ReplaceAll(p.Text, "'", `'\''`), "\n", "\\n") + "'")
			} else {
				sb.WriteString(p.Text)
			}
		case eng.ShDQ:
			if quotes {
				sb.WriteString(`"` + shRenderParts(p.Parts, false) + `"`)
			} else {
				sb.WriteString(shRenderParts(p.Parts, false))
			}
		case eng.ShParam:
			idx := ""
			if p.Index != "" {
				idx = "[" + p.Index + "]"
			}
			sb.WriteString("${" + p.Prefix + p.Name + idx + strings.ReplaceAll(p.Text, "\n", "\\n") + "}")
		case eng.ShArith:
			sb.WriteString("$((" + strings.Join(strings.Fields(p.Text), "") + "))")
		case eng.ShCmdSub:
			sb.WriteString("$(" + shRenderList(p.List) + ")")
		}
	}
	return sb.String()
}

func shRenderList(l *eng.ShList) string {
	var items []string
	for _, ao := range l.Items {
		s := ""
		for i, pl := range ao.Pipes {
			if i > 0 {
				s += " " + ao.Ops[i-1] + " "
			}
			if pl.Neg {
				s += "! "
			}
			var cs []string
			for _, c := range pl.Cmds {
				cs = append(cs, shRender(c))
			}
			s += strings.Join(cs, " | ")
		}
		items = append(items, s)
	}
	return strings.Join(items, "; ")
}

// soleCmd returns the command of an and-or item that is one plain foreground command.
func soleCmd(ao *eng.ShAndOr) *eng.ShCmd {
	if len(ao.Pipes) != 1 || ao.Pipes[0].Neg || len(ao.Pipes[0].Cmds) != 1 || ao.Sep == "&" {
		return nil
	}
	return ao.Pipes[0].Cmds[0]
}

func shFuncBody(f *eng.ShCmd) *eng.ShList {
	if f == nil || f.Func == nil || f.Func.Kind != "group" || len(f.Func.Redirs) > 0 {
		return nil
	}
	return f.Func.Body
}

type symAtom struct{ lit, expr string }
type symVal []symAtom

func (v symVal) String() string {
	var s []string
	for _, a := range v {
		if a.expr != "" {
			s = append(s, a.expr)
		} else {
			s = append(s, strconv.Quote(a.lit))
		}
	}
	return strings.Join(s, " ")
}

// symEval evaluates a word symbolically: literals are concatenated, variables of env are substituted,
// every other expansion stays an opaque atom (canonical text).
func symEval(parts []*eng.ShPart, env map[string]symVal) symVal {
	var out symVal
	add := func(a symAtom) {
		if n := len(out); n > 0 && a.expr == "" && out[n-1].expr == "" {
			out[n-1].lit += a.lit
		} else if a.expr != "" || a.lit != "" {
			out = append(out, a)
		}
	}
	for _, p := range parts {
		switch p.Kind {
		case eng.ShLit, eng.ShSQ, eng.ShAnsi:
			add(symAtom{lit: p.Text})
		case eng.ShDQ:
			for _, a := range symEval(p.Parts, env) {
				add(a)
			}
		case eng.ShParam:
			if v, ok := env[p.Name]; ok && p.Text == "" && p.Prefix == "" && p.Index == "" {
				for _, a := range v {
					add(a)
				}
			} else if lit, isLit := shLitOf(env[p.Name]); isLit && len(env[p.Name]) > 0 && p.Prefix == "" && p.Index == "" && (p.Text == ",," || p.Text == "^^" || p.Text == "," || p.Text == "^") {
				// case modification of a value that is known literally (e.g. inside the case arm that matched it)
				switch p.Text {
				case ",,":
					lit = strings.ToLower(lit)
				case "^^":
					lit = strings.ToUpper(lit)
				case ",":
					lit = strings.ToLower(lit[:1]) + lit[1:]
				case "^":
					lit = strings.ToUpper(lit[:1]) + lit[1:]
				}
				add(symAtom{lit: lit})
			} else {
				add(symAtom{expr: shRender(p)})
			}
		default:
			add(symAtom{expr: shRender(p)})
		}
	}
	return out
}

func isExpr(v symVal, expr string) bool { return len(v) == 1 && v[0].expr == expr }

// refVar: the word is exactly one expansion of variable name ($x, ${x}, "$x", "${x}").
func refVar(w *eng.ShWord, name string) bool {
	return isExpr(symEval(w.Parts, nil), "${"+name+"}")
}

// soleSub returns the single command of a word that is exactly one command substitution ($(..), "$(..)", `..`).
func soleSub(w *eng.ShWord) (*eng.ShCmd, bool) {
	ps := w.Parts
	quoted := false
	if len(ps) == 1 && ps[0].Kind == eng.ShDQ {
		ps, quoted = ps[0].Parts, true
	}
	if len(ps) != 1 || ps[0].Kind != eng.ShCmdSub || len(ps[0].List.Items) != 1 {
		return nil, quoted
	}
	c := soleCmd(ps[0].List.Items[0])
	if c == nil || c.Kind != "simple" || len(c.Assigns) > 0 {
		return nil, quoted
	}
	return c, quoted
}

// jqFilter: the word is $(<fn> [-opts] '<filter>') for fn in names; returns the filter.
func jqFilter(w *eng.ShWord, names ...string) (string, bool) {
	c, _ := soleSub(w)
	if c == nil {
		return "", false
	}
	found := false
	for _, n := range names {
		found = found || c.CmdName() == n
	}
	filter, n := "", 0
	for _, a := range c.Words[1:] {
		s, ok := a.Lit()
		if !ok {
			return "", false
		}
		if !strings.HasPrefix(s, "-") {
			filter = s
			n++
		}
	}
	return filter, found && n == 1
}

// applyAssigns updates env with the assignments of a simple command (plain or through a declaration builtin).
func applyAssigns(c *eng.ShCmd, env map[string]symVal) []*eng.ShAssign {
	var as []*eng.ShAssign
	if len(c.Words) == 0 {
		as = c.Assigns
	} else if c19Decl[c.CmdName()] {
		for _, w := range c.Words[1:] {
			if a := eng.ShSplitAssign(w); a != nil {
				as = append(as, a)
			}
		}
	}
	for _, a := range as {
		v := symEval(a.Value.Parts, env)
		if a.Append {
			v = append(append(symVal{}, env[a.Name]...), v...)
		}
		env[a.Name] = v
	}
	return as
}

// assignedDeep lists the variables assigned anywhere inside a command.
func assignedDeep(c *eng.ShCmd) []string {
	var out []string
	eng.ShWalk(&eng.ShList{Items: []*eng.ShAndOr{{Pipes: []*eng.ShPipe{{Cmds: []*eng.ShCmd{c}}}}}}, "", func(x *eng.ShCmd, _ string) {
		for _, a := range x.Assigns {
			out = append(out, a.Name)
		}
		if x.Kind == "for" {
			out = append(out, x.Name)
		}
		if n := x.CmdName(); c19Decl[n] || n == "read" {
			for _, w := range x.Words[1:] {
				if a := eng.ShSplitAssign(w); a != nil {
					out = append(out, a.Name)
				} else if s, ok := w.Lit(); ok {
					out = append(out, s)
				}
			}
		}
	})
	return out
}

// ------------------------------------------------------------------------------------------ R2

func c19R2(c *eng.Ctx, r *eng.RuleCtx, sh *c19sh) {
	need := func(name string) *eng.ShCmd {
		f := sh.funcs[name]
		if f == nil || shFuncBody(f) == nil {
			r.Unknown("anchor:"+name, token.NoPos, "anchor function not found (or its body is not a plain { } group): "+name)
			return nil
		}
		return f
	}
	mode := ""
	if f := need(c19Runner); f != nil {
		mode = c19CheckRunner(r, f)
	}
	if f := need(c19Producer); f != nil {
		c19CheckTable(c, r, f)
	}
	if f := need(c19Run); f != nil {
		c19CheckRun(r, sh, f, mode)
	}
	if f := need("context::jq"); f != nil {
		body := shFuncBody(f)
		ok := false
		if len(body.Items) == 1 && len(body.Items[0].Pipes) == 1 && !body.Items[0].Pipes[0].Neg {
			cs := body.Items[0].Pipes[0].Cmds
			ok = len(cs) >= 1 && cs[0].CmdName() == "context::global::jq" && len(cs[0].Words) == 2 && c19Norm(cs[0].Words[1], nil) == ".[${"+c19Index+"}]"
		}
		r.Check(ok, "context::jq: selects the context .["+c19Index+"]", f.Pos, "context::jq applies its filter to element ${"+c19Index+"} of the binding context array",
			"context::jq no longer restricts the binding context array to the element selected by "+c19Index+": handlers do not see their context as the current one")
	}
}

// c19CheckRunner decides R2(iii); it returns how the runner splits its list: "lines", "words" or "".
func c19CheckRunner(r *eng.RuleCtx, f *eng.ShCmd) string {
	body := shFuncBody(f)
	env := map[string]symVal{}
	var loop *eng.ShCmd
	loopIdx := -1
	for i, ao := range body.Items {
		c := soleCmd(ao)
		if c == nil || len(ao.Ops) > 0 {
			r.Unknown(c19Runner+": statement before the loop", f.Pos, "and-or list, pipeline or background command before the candidate loop: "+shRenderList(&eng.ShList{Items: []*eng.ShAndOr{ao}}))
			return ""
		}
		if c.Kind == "while" || c.Kind == "for" {
			loop, loopIdx = c, i
			break
		}
		if c.Kind != "simple" {
			r.Unknown(c19Runner+": statement before the loop", c.Pos, "compound command `"+c.Kind+"` before the candidate loop")
			return ""
		}
		if n := c.CmdName(); n == "return" || n == "exit" {
			r.Bad(c19Runner+": iterates the candidates in order", c.Pos, "`"+shRender(c)+"` before the candidate loop: no handler is ever run")
			return ""
		}
		applyAssigns(c, env)
	}
	const cIter = c19Runner + ": iterates the candidates in order"
	if loop == nil {
		r.Bad(cIter, f.Pos, "no loop over the candidate list")
		return ""
	}
	mode, v := "", ""
	switch loop.Kind {
	case "while":
		var rd *eng.ShCmd
		if len(loop.Cond.Items) == 1 && len(loop.Cond.Items[0].Ops) == 0 {
			rd = soleCmd(loop.Cond.Items[0])
		}
		if rd == nil || rd.CmdName() != "read" {
			r.Unknown(cIter, loop.Pos, "the loop condition is not a single `read`")
			return ""
		}
		for _, a := range rd.Assigns {
			if s, ok := a.Value.Lit(); a.Name != "IFS" || !ok || s != "" {
				r.Unknown(cIter, rd.Pos, "unexpected assignment in front of `read`: "+a.Name)
				return ""
			}
		}
		var vars []string
		for _, w := range rd.Words[1:] {
			s, ok := w.Lit()
			switch {
			case !ok || strings.HasPrefix(s, "-") && s != "-r":
				r.Unknown(cIter, rd.Pos, "unsupported `read` argument "+shRender(w))
				return ""
			case s != "-r":
				vars = append(vars, s)
			}
		}
		var hs []*eng.ShRedir
		for _, x := range loop.Redirs {
			if x.Op == "<<<" {
				hs = append(hs, x)
			}
		}
		if len(vars) != 1 || len(hs) != 1 || len(loop.Redirs) != 1 || len(rd.Redirs) > 0 {
			r.Bad(cIter, loop.Pos, fmt.Sprintf("`while read` must read exactly one variable per line from one here-string of the candidate list (variables=%v, here-strings=%d)", vars, len(hs)))
			return ""
		}
		src := symEval(hs[0].Target.Parts, env)
		if !r.Check(isExpr(src, "${1}"), cIter, loop.Pos, "while read "+vars[0]+" <<< the list passed as $1: one candidate per line, in order", "the loop does not read the candidate list passed as $1 but "+src.String()) {
			return ""
		}
		mode, v = "lines", vars[0]
	case "for":
		if !loop.HasIn || len(loop.Words) != 1 {
			r.Bad(cIter, loop.Pos, "the `for` loop does not iterate over the candidate list passed as $1")
			return ""
		}
		src := symEval(loop.Words[0].Parts, env)
		unq := len(loop.Words[0].Parts) == 1 && loop.Words[0].Parts[0].Kind == eng.ShParam
		if !r.Check(isExpr(src, "${1}") && unq, cIter, loop.Pos, "for "+loop.Name+" in <the list passed as $1, split into words>, in order", "the `for` list is not the (split) candidate list passed as $1: "+shRender(loop.Words[0])+" = "+src.String()) {
			return ""
		}
		mode, v = "words", loop.Name
	}
	// loop body, by paths: whatever its shape, for a candidate that is defined the body runs it (guarded by a
	// definedness test) and returns its status; for a candidate that is empty or not defined it runs nothing and goes
	// on with the next one
	const cTest = c19Runner + ": definedness test guards the call"
	const cCall = c19Runner + ": the first defined candidate is run"
	const cRet = c19Runner + ": returns the status of that handler"
	isV := func(w symVal) bool { return isExpr(w, "${"+v+"}") }
	// classify: "nonempty" / "empty" (true when the candidate is (not) the empty string), "defined", or ""
	classify := func(ev *shEvent) string {
		t := ev.Cmd
		W := ev.Words
		switch t.Kind {
		case "cond":
			op := func(i int) string { s, _ := shLitOf(W[i]); return s }
			switch {
			case len(W) == 1 && isV(W[0]):
				return "nonempty"
			case len(W) == 2 && isV(W[1]) && op(0) == "-n":
				return "nonempty"
			case len(W) == 2 && isV(W[1]) && op(0) == "-z":
				return "empty"
			case len(W) == 3 && (isV(W[0]) && len(W[2]) == 0 || isV(W[2]) && len(W[0]) == 0):
				switch op(1) {
				case "==", "=":
					return "empty"
				case "!=":
					return "nonempty"
				}
			}
		case "simple":
			n := t.CmdName()
			if len(t.Assigns) == 0 && (n == "type" || n == "declare" || n == "command") && len(W) >= 2 && isV(W[len(W)-1]) {
				good := true
				for _, w := range t.Words[1 : len(t.Words)-1] {
					s, ok := w.Lit()
					good = good && ok && strings.HasPrefix(s, "-")
					if n == "type" && (s == "-P" || s == "-p") {
						good = false // searches files only
					}
				}
				if n == "declare" || n == "command" {
					good = good && len(t.Words) == 3
				}
				if good {
					return "defined"
				}
			}
		}
		return ""
	}
	isCall := func(ev *shEvent) bool {
		return ev.Kind == "run" && ev.Cmd.Kind == "simple" && len(ev.Cmd.Assigns) == 0 && len(ev.Words) >= 1 && isV(ev.Words[0]) && classify(ev) == ""
	}
	scenario := func(nonEmpty, defined bool) ([]shPath, *shFlow) {
		fl := &shFlow{funcs: shFuncsOf(f), stepInto: shStepInto, oracle: func(ev *shEvent) shStatus {
			b := false
			switch classify(ev) {
			case "nonempty":
				b = nonEmpty
			case "empty":
				b = !nonEmpty
			case "defined":
				b = defined
			default:
				return 0
			}
			if b {
				return 1
			}
			return -1
		}}
		e2 := map[string]symVal{}
		for k, x := range env {
			e2[k] = x
		}
		delete(e2, v)
		return fl.Paths(loop.Body, e2), fl
	}
	defPaths, fl := scenario(true, true)
	for i, pm := range fl.probs {
		r.Unknown(c19Runner+": loop body", fl.ppos[i], "the loop body contains a construct the path enumeration does not follow (fail closed): "+pm)
	}
	if len(fl.probs) > 0 {
		return mode
	}
	testMsg, callMsg, retMsg := "", "", ""
	var undecided *shEvent
	called := false
	for pi := range defPaths {
		pt := &defPaths[pi]
		ci := -1
		for i := range pt.Events {
			if isCall(&pt.Events[i]) {
				ci = i
				break
			}
		}
		if ci < 0 {
			for i := range pt.Events {
				if ev := &pt.Events[i]; ev.Tested && !ev.Known && undecided == nil {
					undecided = ev
				}
			}
			if undecided == nil && callMsg == "" {
				callMsg = "a candidate that is defined is not run: a path through the loop body does not call ${" + v + "}"
			}
			continue
		}
		called = true
		guarded := false
		for i := 0; i < ci; i++ {
			if ev := &pt.Events[i]; ev.Tested && ev.Known && ev.OK && classify(ev) == "defined" {
				guarded = true
			}
		}
		if !guarded && testMsg == "" {
			testMsg = "the call of ${" + v + "} is not guarded by a test that the candidate is defined: the first candidate is run whether it exists or not (exit 127) and the fallbacks are never reached"
		}
		// after the call: `return $?` (or the status saved at once and returned later)
		rest := pt.Events[ci+1:]
		carrier := "?"
		okRet := pt.Out == "return" || pt.Out == "exit"
		detail := "no `return $?` follows the handler call: the loop goes on and runs the next defined candidate as well"
		if okRet {
			if len(rest) > 0 {
				first := &rest[0]
				if first.Kind == "assign" && len(first.Names) == 1 && isExpr(first.Vals[0], "${?}") {
					carrier = first.Names[0]
					for k := 1; k < len(rest); k++ {
						for _, nm := range rest[k].Names {
							if nm == carrier {
								okRet = false
							}
						}
					}
				} else {
					okRet = false
				}
			}
			switch {
			case pt.OutArg == nil:
				okRet = okRet && len(rest) == 0
			default:
				okRet = okRet && isExpr(pt.OutArg, "${"+carrier+"}")
			}
			if !okRet {
				detail = "what follows the handler call is not `return $?` (or the status saved at once and returned): " + shRender(pt.OutCmd)
			}
		}
		if !okRet && retMsg == "" {
			retMsg = detail
		}
	}
	for _, sc := range [][2]bool{{true, false}, {false, false}} {
		paths, _ := scenario(sc[0], sc[1])
		for pi := range paths {
			pt := &paths[pi]
			for i := range pt.Events {
				if isCall(&pt.Events[i]) && testMsg == "" {
					testMsg = "a candidate that is empty or not defined can still be called: the definedness test does not guard the call of ${" + v + "}"
				}
			}
			if pt.Out != "" && pt.Out != "continue" && callMsg == "" {
				callMsg = "a candidate that is not defined ends the search (`" + shRender(pt.OutCmd) + "`): the fallbacks after it are never tried"
			}
		}
	}
	if undecided != nil && testMsg == "" {
		r.Unknown(cTest, undecided.Cmd.Pos, "unrecognised test `"+shRender(undecided.Cmd)+"` on the way to the call: it may exclude a defined candidate")
	} else {
		r.Check(testMsg == "", cTest, loop.Pos, "the call is guarded by a definedness test of ${"+v+"}", testMsg)
	}
	if !called && callMsg == "" {
		callMsg = "the loop body never calls the tested candidate ${" + v + "}"
	}
	r.Check(callMsg == "", cCall, loop.Pos, "`${"+v+"}` is run for the first candidate that is defined, undefined ones are skipped", callMsg)
	if called {
		r.Check(retMsg == "", cRet, loop.Pos, "`return $?` immediately follows the handler call: exactly one handler runs and its status is the result", retMsg)
	}
	// after the loop
	const cNone = c19Runner + ": non-zero when no candidate is defined"
	rest := body.Items[loopIdx+1:]
	okNone, dNone := false, "the function ends with the loop: its status is that of the last test, not a failure"
	for i, ao := range rest {
		c := soleCmd(ao)
		last := i == len(rest)-1
		if c == nil || c.Kind != "simple" || len(ao.Ops) > 0 {
			r.Unknown(cNone, f.Pos, "unrecognised statement after the loop: "+shRenderList(&eng.ShList{Items: []*eng.ShAndOr{ao}}))
			return mode
		}
		n := c.CmdName()
		if !last && (n == "return" || n == "exit") {
			dNone = "`" + shRender(c) + "` after the loop precedes the final return"
			break
		}
		if last {
			dNone = "the last command after the loop is `" + shRender(c) + "`, not `return <non-zero>`"
			if (n == "return" || n == "exit") && len(c.Words) == 2 {
				s, _ := c.Words[1].Lit()
				k, err := strconv.Atoi(s)
				okNone = err == nil && k > 0 && k < 256
			}
		}
	}
	r.Check(okNone, cNone, f.Pos, "`return <non-zero>` ends the function after the loop", dNone)
	return mode
}

// shFuncsOf / shStepInto: the functions of the three files, and which of them the path enumeration steps into
// (those that the reference tree does not have: a helper extracted from one of the dispatch functions).
var c19AllFuncs map[string]*eng.ShCmd
var c19Baseline map[string]bool

func shFuncsOf(_ *eng.ShCmd) map[string]*eng.ShCmd { return c19AllFuncs }
func shStepInto(name string) bool                  { return c19Baseline != nil && !c19Baseline["sh:"+name] }

type c19table struct {
	keys  []string
	vals  map[string][]symVal
	names map[string][]string
	pos   map[string]token.Pos
	sels  map[int]string // nesting level -> jq filter of the case subject
	probs []string
	ppos  []token.Pos
}

func (tb *c19table) problem(pos token.Pos, msg string) {
	tb.probs, tb.ppos = append(tb.probs, msg), append(tb.ppos, pos)
}

// collect reads the table off the paths through the producer: the key of a path is made of the decisions taken on
// it (the binding-name test that succeeded, the case patterns entered, outermost first), its row is the list of names
// echoed on it. A path that echoes nothing contributes nothing.
func (tb *c19table) collect(body *eng.ShList, env map[string]symVal) {
	fieldOf := func(v symVal) (string, bool) {
		if len(v) == 1 && strings.HasPrefix(v[0].expr, "${.") && strings.HasSuffix(v[0].expr, "}") {
			return v[0].expr[2 : len(v[0].expr)-1], true
		}
		return "", false
	}
	fl := &shFlow{funcs: c19AllFuncs, stepInto: shStepInto,
		// a variable that holds one field of the current context is named by that field: ${.type}
		value: func(a *eng.ShAssign, _ map[string]symVal) (symVal, bool) {
			if flt, ok := jqFilter(a.Value, "context::jq"); ok && !a.Append {
				return symVal{{expr: "${" + flt + "}"}}, true
			}
			return nil, false
		}}
	paths := fl.Paths(body, env)
	for i, pm := range fl.probs {
		tb.problem(fl.ppos[i], pm)
	}
	type row struct {
		names []string
		vals  []symVal
	}
	seen := map[string]row{}
	for pi := range paths {
		pt := &paths[pi]
		var keyParts []string
		var names []string
		var vals []symVal
		var first token.Pos
		level := 0
		bad := false
		for ei := range pt.Events {
			ev := &pt.Events[ei]
			switch ev.Kind {
			case "case":
				field, ok := jqFilter(ev.SubjectRaw, "context::jq")
				if !ok {
					field, ok = fieldOf(ev.Subject)
				}
				if !ok {
					tb.problem(ev.Cmd.Pos, "the case subject "+shRender(ev.SubjectRaw)+" is not (a variable holding) one field of the current context")
					bad = true
					continue
				}
				if ev.Pattern == "" {
					continue
				}
				if old, has := tb.sels[level]; has && old != field {
					tb.problem(ev.Cmd.Pos, "two different selectors at the same nesting level: "+old+" and "+field)
				}
				tb.sels[level] = field
				level++
				keyParts = append(keyParts, ev.Pattern)
			case "assign":
				// VAR=$(context::jq ...) used as a condition: the arm is entered when the field exists
				if ev.Tested && len(ev.Names) == 1 {
					if _, isJq := jqFilter(ev.Raw[0], "context::jq"); !isJq {
						tb.problem(ev.Cmd.Pos, "unrecognised condition: "+shRender(ev.Cmd))
						bad = true
					}
				}
			case "run":
				t := ev.Cmd
				switch {
				case t.Kind == "cond" && ev.Tested:
					op, _ := "", false
					if len(ev.Words) == 3 {
						op, _ = shLitOf(ev.Words[1])
					}
					lit, isLit := "", false
					var subj symVal
					if len(ev.Words) == 3 {
						lit, isLit = shLitOf(ev.Words[2])
						subj = ev.Words[0]
						if !isLit || len(ev.Words[2]) == 0 {
							lit, isLit = shLitOf(ev.Words[0])
							subj = ev.Words[2]
						}
					}
					if (op != "==" && op != "=") || !isLit || len(subj) != 1 || subj[0].expr == "" || level > 0 || len(keyParts) > 0 {
						tb.problem(t.Pos, "unrecognised test "+shRender(t))
						bad = true
						continue
					}
					if ev.OK {
						k := strings.TrimSuffix(strings.TrimPrefix(subj[0].expr, "${"), "}") + "=" + lit
						if fld, isF := fieldOf(subj); isF && fld == ".binding" {
							k = "binding=" + lit
						}
						keyParts = append(keyParts, k)
					}
				case t.Kind == "simple" && t.CmdName() == "echo" && len(t.Assigns) == 0 && len(t.Redirs) == 0 && len(ev.Words) == 2 && !ev.Sub:
					if first == token.NoPos {
						first = t.Pos
					}
					var sb strings.Builder
					for _, a := range ev.Words[1] {
						sb.WriteString(a.lit + a.expr)
					}
					names = append(names, sb.String())
					vals = append(vals, ev.Words[1])
				default:
					tb.problem(t.Pos, "unrecognised command `"+shRender(t)+"` (expected: `echo <one name>` inside an arm, or an assignment)")
					bad = true
				}
			}
		}
		if pt.Out != "" && pt.Out != "return" {
			tb.problem(pt.OutCmd.Pos, "`"+shRender(pt.OutCmd)+"` in the producer")
			bad = true
		}
		if bad || len(names) == 0 {
			continue
		}
		key := strings.Join(keyParts, "/")
		if key == "" {
			tb.problem(first, "names are echoed on a path that is not selected by the binding name or the context type: "+strings.Join(names, ", "))
			continue
		}
		if old, has := seen[key]; has {
			if strings.Join(old.names, "\n") != strings.Join(names, "\n") {
				tb.problem(first, "two paths of the producer give different candidates for "+key+": "+strings.Join(old.names, ", ")+" / "+strings.Join(names, ", "))
			}
			continue
		}
		seen[key] = row{names, vals}
		tb.keys = append(tb.keys, key)
		tb.pos[key] = first
		tb.vals[key] = vals
		tb.names[key] = names
	}
}

func copySel(m map[string]string) map[string]string {
	o := map[string]string{}
	for k, v := range m {
		o[k] = v
	}
	return o
}

// specificity = number of `::` separators in the literal skeleton of the name (expansions are opaque).
func c19Specificity(w symVal) int {
	n := 0
	for _, a := range w {
		if a.expr == "" {
			n += strings.Count(a.lit, "::")
		}
	}
	return n
}

// c19Norm prints a candidate name after quote removal; a variable that holds one field of the current
// context is named by that field (${.binding}), every other expansion is printed canonically.
func c19Norm(w *eng.ShWord, sel map[string]string) string {
	env := map[string]symVal{}
	for v, field := range sel {
		if field != "" {
			env[v] = symVal{{expr: "${" + field + "}"}}
		}
	}
	var sb strings.Builder
	for _, a := range symEval(w.Parts, env) {
		sb.WriteString(a.lit + a.expr)
	}
	return sb.String()
}

func c19CheckTable(c *eng.Ctx, r *eng.RuleCtx, f *eng.ShCmd) {
	tb := &c19table{vals: map[string][]symVal{}, names: map[string][]string{}, pos: map[string]token.Pos{}, sels: map[int]string{}}
	// the binding name is assigned by hook::run from `.binding` of the selected context (obligation of c19CheckRun)
	env := map[string]symVal{c19Binding: {{expr: "${.binding}"}}}
	// arguments of the producer at its call in hook::run: a positional parameter that receives the binding name
	// (again an obligation of c19CheckRun: the variable is assigned before the call) is named by that field too
	if run := c19AllFuncs[c19Run]; run != nil && run.Func != nil {
		eng.ShWalk(&eng.ShList{Items: []*eng.ShAndOr{{Pipes: []*eng.ShPipe{{Cmds: []*eng.ShCmd{run.Func}}}}}}, c19Run, func(x *eng.ShCmd, _ string) {
			if x.CmdName() != c19Producer {
				return
			}
			for i, w := range x.Words[1:] {
				if v, ok := shSoleVar(w); ok && v == c19Binding {
					env[strconv.Itoa(i+1)] = symVal{{expr: "${.binding}"}}
				}
			}
		})
	}
	tb.collect(shFuncBody(f), env)
	for i, p := range tb.probs {
		r.Unknown(c19Producer+": structure", tb.ppos[i], "the producer contains a statement the table extraction does not understand (fail closed): "+p)
	}
	r.Check(tb.sels[0] == ".type" && (tb.sels[1] == ".watchEvent" || tb.sels[1] == "") && len(tb.sels) <= 2, "table: keyed by .type, then .watchEvent", f.Pos,
		"the outer case selects on .type of the current context, the nested one on .watchEvent", fmt.Sprintf("the case subjects are not .type / .watchEvent of the current context: %v", tb.sels))
	table := map[string][]string{}
	for _, k := range tb.keys {
		ws := tb.vals[k]
		names := tb.names[k]
		ordered := true
		for i, w := range ws {
			if i > 0 && c19Specificity(w) > c19Specificity(ws[i-1]) {
				ordered = false
			}
		}
		table[k] = names
		if k == "binding=onStartup" {
			r.Check(len(names) == 1 && names[0] == "__on_startup", "arm "+k+": __on_startup", tb.pos[k], "the onStartup binding is dispatched to __on_startup", "the onStartup binding is dispatched to "+strings.Join(names, ", "))
			continue
		}
		r.Check(ordered, "arm "+k+": most to least specific", tb.pos[k], strings.Join(names, " > "), "a less specific candidate precedes a more specific one: "+strings.Join(names, ", "))
		if i := strings.LastIndexByte(k, '/'); i >= 0 {
			ev := strings.ToLower(k[i+1:])
			exact, aom := -1, -1
			for j, n := range names {
				if strings.HasSuffix(n, "::"+ev) && exact < 0 {
					exact = j
				}
				if strings.HasSuffix(n, "::added_or_modified") && aom < 0 {
					aom = j
				}
			}
			if aom >= 0 || ev == "added" || ev == "modified" {
				r.Check(exact >= 0 && aom > exact, "arm "+k+": exact event before added_or_modified", tb.pos[k], "::"+ev+" precedes ::added_or_modified",
					"`::"+ev+"` must precede `::added_or_modified`: "+strings.Join(names, ", "))
			}
		}
	}
	c.Extra["dispatch_table"] = table
	// (v) equality with the reference
	var refKeys []string
	for k := range c19Reference {
		refKeys = append(refKeys, k)
	}
	sort.Strings(refKeys)
	for _, k := range refKeys {
		got, has := table[k]
		pos := f.Pos
		if has {
			pos = tb.pos[k]
		}
		r.Check(has && strings.Join(got, "\n") == strings.Join(c19Reference[k], "\n"), "table["+k+"] equals the reference", pos, strings.Join(got, ", "),
			fmt.Sprintf("documented candidates: %s; extracted from the code: %s", strings.Join(c19Reference[k], ", "), strings.Join(got, ", ")))
	}
	for _, k := range tb.keys {
		if _, ok := c19Reference[k]; !ok {
			r.Bad("table["+k+"] is not in the reference", tb.pos[k], "the producer has an arm that the documented table does not know: "+strings.Join(table[k], ", "))
		}
	}
}

var c19LenRe = regexp.MustCompile(`^\$?\{?([A-Za-z_][A-Za-z0-9_]*)\}?-1$`)

func c19CheckRun(r *eng.RuleCtx, sh *c19sh, f *eng.ShCmd, mode string) {
	body := shFuncBody(f)
	items := body.Items
	// (iv) --config first
	const cCfg = c19Run + ": --config handled first"
	okCfg, dCfg := false, "the first statement of hook::run is not `if [[ $1 == --config ]]; then __config__; exit/return; fi`"
	if len(items) > 0 {
		if ic := soleCmd(items[0]); ic != nil && ic.Kind == "if" && len(items[0].Ops) == 0 && len(ic.Cond.Items) == 1 && len(ic.Cond.Items[0].Ops) == 0 {
			t := soleCmd(ic.Cond.Items[0])
			if t != nil && t.Kind == "cond" && len(t.Words) == 3 && (shRender(t.Words[1]) == "==" || shRender(t.Words[1]) == "=") {
				a, b := t.Words[0], t.Words[2]
				if s, ok := a.Lit(); ok && s == "--config" {
					a, b = b, a
				}
				s, isLit := b.Lit()
				first := false
				eng.ShExpansions(a.Parts, false, func(p *eng.ShPart, _ bool) { first = first || p.Kind == eng.ShParam && p.Name == "1" })
				if first && len(symEval(a.Parts, nil)) == 1 && isLit && s == "--config" && len(ic.Body.Items) >= 2 {
					x, y := soleCmd(ic.Body.Items[0]), soleCmd(ic.Body.Items[1])
					dCfg = "the --config branch is not `__config__` followed by exit 0 / return: " + shRender(ic.Body)
					if x != nil && y != nil && len(ic.Body.Items[0].Ops) == 0 && len(ic.Body.Items[1].Ops) == 0 && x.CmdName() == "__config__" && !stdoutRedirected(x) && (y.CmdName() == "exit" || y.CmdName() == "return") {
						code := "0"
						if len(y.Words) == 2 {
							code, _ = y.Words[1].Lit()
						}
						okCfg = len(y.Words) <= 2 && code == "0"
					}
				}
			}
		}
	}
	r.Check(okCfg, cCfg, f.Pos, "`hook::run --config` calls __config__ and leaves with status 0 before anything else", dCfg)

	// the loop over contexts
	const cLoop = c19Run + ": contexts 0..length-1 ascending"
	env := map[string]symVal{}
	raw := map[string]*eng.ShWord{}
	var loop *eng.ShCmd
	for _, ao := range items[min(1, len(items)):] {
		x := soleCmd(ao)
		if x == nil || len(ao.Ops) > 0 {
			r.Unknown(cLoop, f.Pos, "unrecognised statement before the loop over contexts: "+shRenderList(&eng.ShList{Items: []*eng.ShAndOr{ao}}))
			return
		}
		if x.Kind == "for" {
			loop = x
			break
		}
		if x.Kind != "simple" {
			r.Unknown(cLoop, x.Pos, "compound command `"+x.Kind+"` before the loop over contexts")
			return
		}
		for _, a := range applyAssigns(x, env) {
			raw[a.Name] = a.Value
		}
	}
	if loop == nil {
		r.Bad(cLoop, f.Pos, "hook::run has no `for` loop over the binding contexts")
		return
	}
	okLoop, dLoop := false, "the loop list is not `seq 0 $((LENGTH - 1))` with LENGTH=$(context::global::jq -r 'length'): "
	if loop.HasIn && len(loop.Words) == 1 {
		dLoop += shRender(loop.Words[0])
		if sq, quoted := soleSub(loop.Words[0]); sq != nil && !quoted && sq.CmdName() == "seq" && len(sq.Redirs) == 0 && (len(sq.Words) == 3 || len(sq.Words) == 4) {
			start, _ := sq.Words[1].Lit()
			inc := "1"
			if len(sq.Words) == 4 {
				inc, _ = sq.Words[2].Lit()
			}
			endV := symEval(sq.Words[len(sq.Words)-1].Parts, nil)
			if len(endV) == 1 && strings.HasPrefix(endV[0].expr, "$((") {
				if m := c19LenRe.FindStringSubmatch(strings.TrimSuffix(strings.TrimPrefix(endV[0].expr, "$(("), "))")); m != nil && raw[m[1]] != nil {
					filter, isJq := jqFilter(raw[m[1]], "context::global::jq")
					okLoop = start == "0" && inc == "1" && isJq && filter == "length"
					if start != "0" {
						dLoop = "the loop starts at index " + start + ": the contexts before it are never dispatched"
					}
				}
			}
		}
	}
	r.Check(okLoop, cLoop, loop.Pos, "for "+loop.Name+" in $(seq 0 $((length-1))), length = context::global::jq 'length'", dLoop)

	// loop body, by paths (a helper function that the reference tree does not have is stepped into): on every path
	// the index is exported, the binding name read, the candidates computed and the runner called, in that order
	idx := map[string]int{}
	var runnerArg symVal
	var runnerEv *shEvent
	fl := &shFlow{funcs: c19AllFuncs, stepInto: shStepInto}
	paths := fl.Paths(loop.Body, map[string]symVal{})
	for i, pm := range fl.probs {
		r.Unknown(c19Run+": loop body", fl.ppos[i], "the loop body contains a construct the path enumeration does not follow (fail closed): "+pm)
	}
	if len(paths) != 1 {
		r.Unknown(c19Run+": loop body", loop.Pos, fmt.Sprintf("the loop body has %d paths: expected a straight-line body (a branch could skip the runner)", len(paths)))
	}
	if len(paths) >= 1 {
		pt := &paths[0]
		for i := range pt.Events {
			ev := &pt.Events[i]
			switch ev.Kind {
			case "run":
				if ev.Cmd.Kind == "simple" && ev.Cmd.CmdName() == c19Runner {
					if _, seen := idx["runner"]; !seen && len(ev.Words) == 2 {
						idx["runner"], runnerArg, runnerEv = i, ev.Words[1], ev
					}
				}
			case "assign":
				for k, name := range ev.Names {
					// the producer's output assigned as it is, or as a part of the assigned word (`"$(producer)"$'\n'"__main__"`)
					hasProducer := false
					if pc, _ := soleSub(ev.Raw[k]); pc != nil && pc.CmdName() == c19Producer {
						hasProducer = true
					}
					if ev.Raw[k] != nil {
						eng.ShExpansions(ev.Raw[k].Parts, false, func(p *eng.ShPart, _ bool) {
							if p.Kind == eng.ShCmdSub && p.List != nil && len(p.List.Items) == 1 {
								if x := soleCmd(p.List.Items[0]); x != nil && x.CmdName() == c19Producer {
									hasProducer = true
								}
							}
						})
					}
					if hasProducer {
						if _, seen := idx["producer"]; !seen {
							idx["producer"] = i
						}
					}
					if name == c19Index && ev.Decl == "export" && isExpr(ev.Vals[k], "${"+loop.Name+"}") {
						idx["index"] = i
					} else if name == c19Index {
						delete(idx, "index")
					}
					if name == c19Binding {
						if flt, ok := jqFilter(ev.Raw[k], "context::jq"); ok && (flt == ".binding" || strings.HasPrefix(flt, ".binding ") || strings.HasPrefix(flt, ".binding/")) {
							idx["binding"] = i
						} else {
							delete(idx, "binding")
						}
					}
				}
			}
		}
	}
	pi, hasP := idx["producer"]
	ri, hasR := idx["runner"]
	ii, hasI := idx["index"]
	bi, hasB := idx["binding"]
	r.Check(hasI && hasP && ii < pi && (!hasB || ii < bi), c19Run+": "+c19Index+" exported before the candidates are computed", loop.Pos,
		"export "+c19Index+"=${"+loop.Name+"} precedes every use of context::jq in the loop body",
		"the loop body does not `export "+c19Index+"=${"+loop.Name+"}` before computing the binding name and the candidates: the candidates are computed for another context than the one being dispatched")
	r.Check(hasB && hasP && bi < pi, c19Run+": "+c19Binding+" read from the selected context", loop.Pos, c19Binding+"=$(context::jq '.binding ...') precedes the producer",
		c19Binding+" is not assigned from `.binding` of the current context before the candidates are computed")
	r.Check(hasP && hasR && pi < ri, c19Run+": candidates computed, then the runner, once per context", loop.Pos, "$("+c19Producer+") precedes "+c19Runner+" in the loop body",
		"the loop body does not compute the candidates with "+c19Producer+" and then pass them to "+c19Runner)
	// (ii) __main__ appended last
	const cMain = c19Run + ": __main__ appended as the last candidate"
	if !hasR {
		r.Bad(cMain, loop.Pos, "the runner is not called with one argument in the loop body")
		return
	}
	prod := "$(" + c19Producer + ")"
	okMain, dMain := false, "the list passed to the runner is "+runnerArg.String()
	isProd := func(e string) bool {
		return e == prod || strings.HasPrefix(e, "$("+c19Producer+" ") && strings.HasSuffix(e, ")")
	}
	if len(runnerArg) == 2 && isProd(runnerArg[0].expr) && runnerArg[1].expr == "" && strings.HasSuffix(runnerArg[1].lit, "__main__") {
		sep := strings.TrimSuffix(runnerArg[1].lit, "__main__")
		switch {
		case mode == "lines" && sep == "\n", mode == "words" && sep != "" && strings.Trim(sep, " \t\n") == "":
			okMain = true
		case mode == "":
			dMain += "; how the runner splits its list could not be established"
		default:
			dMain += fmt.Sprintf("; the separator %q in front of __main__ is not the one the runner splits on (%s)", sep, mode)
		}
	} else if !strings.Contains(runnerArg.String(), "__main__") {
		dMain += ": `__main__` is not appended, a hook that defines only __main__ finds no handler"
	} else {
		dMain += ": `__main__` is not the last candidate after the produced names (it would shadow the specific handlers or be glued to another name)"
	}
	r.Check(okMain, cMain, loop.Pos, "runner argument = "+runnerArg.String(), dMain)
	// failure of the runner stops the run
	// the runner's status is not consumed by a condition, `!`, && or ||, and it does not run in a subshell or pipeline
	plain := runnerEv != nil && !runnerEv.Cond && !runnerEv.Sub && !runnerEv.Tested
	errexit := false
	for _, ao := range sh.files[shLib].List.Items {
		if x := soleCmd(ao); x != nil && x.CmdName() == "set" {
			for i, w := range x.Words[1:] {
				s, _ := w.Lit()
				if strings.HasPrefix(s, "-") && !strings.HasPrefix(s, "--") && strings.Contains(s, "e") {
					errexit = true
				}
				if s == "errexit" && i > 0 {
					if o, _ := x.Words[i].Lit(); strings.HasPrefix(o, "-") && strings.HasSuffix(o, "o") {
						errexit = true
					}
				}
				if strings.HasPrefix(s, "+") && strings.Contains(s, "e") {
					errexit = false
				}
			}
		}
	}
	r.Check(plain && errexit, c19Run+": a failing context stops the run", loop.Pos, "the runner is a plain command of the loop body and shell_lib.sh sets errexit",
		fmt.Sprintf("the status of the runner is discarded (plain command=%v, errexit in shell_lib.sh=%v): the run goes on after a failed handler or a context without handler", plain, errexit))
}
