package rules

import (
	"fmt"
	"go/ast"
	"go/token"
	"go/types"
	"strings"

	"sopverif/eng"
)

func init() {
	register(&Property{
		ID:    "C03",
		Title: "A queue runs one task at a time, head first; queues do not block each other",
		Explanation: "Decided on TaskQueue, TaskQueueSet, the operator's queue bootstrap and the events handler: (R1) the handler is called " +
			"only inside the single goroutine that Start creates behind the `started` guard; (R2) that call is synchronous and no mutex " +
			"is held there nor along the chain handler -> taskHandleHookRun -> handleRunHook -> Hook.Run -> RunAndLogLines (a lock held " +
			"across a hook run serialises other queues and blocks producers); (R3) the task handed to the handler is the value returned by " +
			"waitForTask, which returns only nil or GetFirst(); (R4) a queue is created and started for every distinct queue name of " +
			"schedule and kubernetes bindings before events and ticks are consumed; (R5) a task is placed in the queue named by its " +
			"binding's configured queue (config -> link -> execution info -> task) with AddLast; (R6) the default queue is \"main\"; " +
			"(R7) items/Queues only under their mutex; (R8) no mutex of the queue set / queues is re-acquired while held (self-deadlock " +
			"with a waiting writer stalls every queue). (R9) tasks handed back in a TaskResult carry the name of the queue that runs the handler; (R10) buffered events are replayed in arrival order inside the critical section that flips the flag. NOT decided: wall-clock non-overlap (follows from R1-R3 under Go's semantics of " +
			"one goroutine), rate limiter shared by two queues of one hook.",
		Run: runC03,
	})
}

func runC03(c *eng.Ctx) {
	p := c.P
	la := p.Locks()
	handler := p.Field(pkgQueue, "TaskQueue", "Handler")
	start := p.Func(pkgQueue + ".(*TaskQueue).Start")

	r1 := c.Rule("C03.R1", "C+B", "TaskQueue.Handler is called only inside the goroutine literal of Start; Start has exactly one go statement, guarded by `started`, and sets `started`", 3)
	r2 := c.Rule("C03.R2", "A:lockset", "the handler call is synchronous and no mutex is held at it, nor at any call on the chain down to the hook process", 6)
	r3 := c.Rule("C03.R3", "D:provenance", "the handled task is exactly what waitForTask returned; waitForTask returns nil or GetFirst()", 2)
	if handler == nil || start == nil {
		r1.Unknown("anchor:TaskQueue.Handler/Start", token.NoPos, "not found")
	} else {
		c.Touch(start)
		info := start.Pkg.TypesInfo
		gl := goLits(start)
		gos := 0
		ast.Inspect(start.Decl.Body, func(n ast.Node) bool {
			if _, ok := n.(*ast.GoStmt); ok {
				gos++
			}
			return true
		})
		r1.Check(gos == 1 && len(gl) == 1, start.Key+" single-worker", start.Decl.Pos(), "exactly one go statement", fmt.Sprintf("Start contains %d go statements: tasks of one queue could be handled concurrently", gos))
		for _, ref := range p.Refs(handler) {
			if ref.Write || ref.Lit {
				continue
			}
			// non-call uses (nil tests) are fine
		}
		nsites := 0
		for _, s := range p.Sites(handler) {
			nsites++
			ok := s.In == start && len(gl) == 1 && s.InLit == gl[0] && !s.Go && !s.Defer
			r1.Check(ok, "call:"+s.Where()+"->TaskQueue.Handler", s.Call.Pos(), "inside the worker goroutine, synchronous", "the task handler is invoked outside the queue's single worker goroutine (or asynchronously): executions of one queue can overlap")
		}
		if nsites == 0 {
			r1.Bad("TaskQueue.Handler never called", start.Decl.Pos(), "no call of the handler")
		}
		// started guard
		started := p.Field(pkgQueue, "TaskQueue", "started")
		if len(gl) == 1 && started != nil {
			g := p.GraphOf(start)
			var goNode *eng.GNode
			for _, n := range g.Nodes {
				if _, ok := n.Node.(*ast.GoStmt); ok {
					goNode = n
				}
			}
			guarded := goNode != nil && g.OnlyVia(goNode, nil, g.FactEdge(func(fc eng.Fact) bool { return !fc.Pos && fc.Y == nil && eng.IsField(info, fc.X, started) }))
			sets := false
			for _, n := range g.Nodes {
				if as, ok := n.Node.(*ast.AssignStmt); ok && len(as.Lhs) == 1 && eng.IsField(info, as.Lhs[0], started) {
					if b, isC := constBool(info, as.Rhs[0]); isC && b {
						sets = true
					}
				}
			}
			r1.Check(guarded && sets, start.Key+" started-guard", start.Decl.Pos(), "the goroutine is created only when !started, and started is set", "a second Start() creates a second worker for the same queue")
		}
		// R2: locks along the execution chain
		chain := []struct {
			fn     string
			callee func(o types.Object) bool
			what   string
		}{
			{pkgQueue + ".(*TaskQueue).Start", func(o types.Object) bool { return o == handler }, "Handler"},
			{pkgOp + ".(*ShellOperator).taskHandler", func(o types.Object) bool { return o != nil && nameOf(o) == "taskHandleHookRun" }, "taskHandleHookRun"},
			{pkgOp + ".(*ShellOperator).taskHandleHookRun", func(o types.Object) bool { return o != nil && nameOf(o) == "handleRunHook" }, "handleRunHook"},
			{pkgOp + ".(*ShellOperator).handleRunHook", func(o types.Object) bool { return o != nil && eng.IsMethod(o, full(pkgHook), "Hook", "Run") }, "Hook.Run"},
			{pkgHook + ".(*Hook).Run", func(o types.Object) bool { return o != nil && nameOf(o) == "RunAndLogLines" }, "RunAndLogLines"},
			{pkgExec + ".(*Executor).RunAndLogLines", func(o types.Object) bool { return o != nil && nameOf(o) == "Run" }, "cmd.Run"},
		}
		for _, st := range chain {
			f := r2.NeedFunc(st.fn)
			if f == nil {
				continue
			}
			n := 0
			for _, s := range p.AllSites() {
				if s.In != f || !st.callee(s.Callee) {
					continue
				}
				n++
				held := la.HeldMutexes(s.In, s.InLit, s.Call)
				var names []string
				for _, m := range held {
					names = append(names, m.Name())
				}
				r2.Check(len(held) == 0 && !s.Go, "call:"+s.Where()+"->"+st.what, s.Call.Pos(), "no mutex held", fmt.Sprintf("mutex %v is held across the execution of a hook: every other queue (or producer) that needs it waits until the hook process has finished", names))
			}
			if n == 0 {
				r2.Unknown(f.Key+" -> "+st.what, f.Decl.Pos(), "expected call not found")
			}
		}
		// R3
		waitFor := p.Method(pkgQueue, "TaskQueue", "waitForTask")
		getFirst := p.Method(pkgQueue, "TaskQueue", "GetFirst")
		if len(gl) == 1 {
			var taskVar *types.Var
			var taskArg ast.Expr
			for _, s := range p.Sites(handler) {
				if s.InLit == gl[0] && len(s.Call.Args) == 1 {
					taskVar, _ = eng.SelObj(info, s.Call.Args[0]).(*types.Var)
					taskArg = s.Call.Args[0]
				}
			}
			ok := false
			if taskVar != nil {
				// every value the variable can hold comes from waitForTask (nil: the stop signal, handed over by a helper)
				nwait := 0
				ok = true
				for _, src := range valueSources(info, gl[0].Lit.Body, taskArg, 5) {
					switch {
					case isCallTo(info, src, waitFor):
						nwait++
					case eng.IsNil(info, src):
					default:
						ok = false
					}
				}
				ok = ok && nwait == 1
			}
			r3.Check(ok, start.Key+"$worker task", start.Decl.Pos(), "Handler(t) with t := waitForTask(...) only", "the task handed to the handler is not (only) the one returned by waitForTask")
		}
		if w := r3.NeedFunc(pkgQueue + ".(*TaskQueue).waitForTask"); w != nil {
			winfo := w.Pkg.TypesInfo
			ok := true
			n := 0
			eng.InspectNoLit(w.Decl.Body, func(m ast.Node) bool {
				if r, isR := m.(*ast.ReturnStmt); isR && len(r.Results) == 1 {
					n++
					if !eng.IsNil(winfo, r.Results[0]) && !isCallTo(winfo, r.Results[0], getFirst) {
						// a local that is only ever assigned from GetFirst()
						v, isV := eng.SelObj(winfo, r.Results[0]).(*types.Var)
						fine := false
						if isV && !v.IsField() {
							as := eng.AssignedExprs(winfo, w.Decl.Body, v)
							fine = len(as) > 0
							for _, e := range as {
								if !isCallTo(winfo, e, getFirst) {
									fine = false
								}
							}
						}
						if !fine {
							ok = false
						}
					}
				}
				return true
			})
			r3.Check(ok && n > 0, w.Key+" returns", w.Decl.Pos(), "nil or q.GetFirst()", "waitForTask can return something other than the head of the queue")
		}
	}

	// ---- R4
	r4 := c.Rule("C03.R4", "B+F", "initAndStartHookQueues: for schedule and kubernetes bindings a queue named by the binding is created when absent and started; it runs before the events handler and the schedule manager", 3)
	if f := r4.NeedFunc(pkgOp + ".(*ShellOperator).initAndStartHookQueues"); f != nil {
		info := f.Pkg.TypesInfo
		g := p.GraphOf(f)
		newNamed := p.Method(pkgQueue, "TaskQueueSet", "NewNamedQueue")
		getByName := p.Method(pkgQueue, "TaskQueueSet", "GetByName")
		startM := p.Method(pkgQueue, "TaskQueue", "Start")
		for _, kind := range []struct{ field, typ string }{{"Schedules", "ScheduleConfig"}, {"OnKubernetesEvents", "OnKubernetesEventConfig"}} {
			fld := p.Field(pkgCfg, "HookConfig", kind.field)
			queueFld := p.Field(pkgHTypes, kind.typ, "Queue")
			var loop *ast.RangeStmt
			eng.InspectNoLit(f.Decl.Body, func(n ast.Node) bool {
				if rs, ok := n.(*ast.RangeStmt); ok && eng.IsField(info, rs.X, fld) {
					loop = rs
				}
				return true
			})
			construct := f.Key + " " + kind.field
			if loop == nil || fld == nil || queueFld == nil {
				r4.Bad(construct, f.Decl.Pos(), "no loop over h.Config."+kind.field+": queues named by these bindings are never created, their tasks are dropped by the events handler")
				continue
			}
			creates, starts := false, false
			var createCall *ast.CallExpr
			eng.InspectNoLit(loop.Body, func(n ast.Node) bool {
				cl, ok := n.(*ast.CallExpr)
				if !ok {
					return true
				}
				if eng.CalleeOf(info, cl) == newNamed && len(cl.Args) == 2 && eng.IsField(info, cl.Args[0], queueFld) {
					creates = true
					createCall = cl
				}
				if eng.CalleeOf(info, cl) == startM {
					if s, isS := ast.Unparen(cl.Fun).(*ast.SelectorExpr); isS {
						if inner, isC := ast.Unparen(s.X).(*ast.CallExpr); isC && eng.CalleeOf(info, inner) == getByName && eng.IsField(info, inner.Args[0], queueFld) {
							starts = true
						}
						if v, isV := eng.SelObj(info, s.X).(*types.Var); isV {
							for _, e := range eng.AssignedExprs(info, loop.Body, v) {
								if inner, isC := ast.Unparen(e).(*ast.CallExpr); isC && eng.CalleeOf(info, inner) == getByName && eng.IsField(info, inner.Args[0], queueFld) {
									starts = true
								}
							}
						}
					}
				}
				return true
			})
			// when the queue is absent, it is created and started: avoiding the "exists" edge every iteration creates
			okAlways := false
			if createCall != nil {
				node := g.NodeOf(createCall)
				exists := g.FactEdge(func(fc eng.Fact) bool {
					x, y, eq, isEq := eng.EqAtom(fc)
					return isEq && !eq && eng.IsNil(info, y) && isCallTo(info, x, getByName)
				})
				var bodyEntry *eng.GNode
				for _, gn := range g.Nodes {
					if gn.Node == nil && gn.Block.Stmt == ast.Stmt(loop) && gn.Block.Kind.String() == "RangeBody" {
						bodyEntry = gn
					}
				}
				if bodyEntry != nil && node != nil {
					reach := g.Reach(eng.Query{From: []*eng.GNode{bodyEntry}, AvoidEdge: exists, AvoidNode: func(m *eng.GNode) bool { return m == node }})
					okAlways = loopNoEarlyExit(g, loop)
					for m := range reach {
						if m != node && m.Node == nil && m.Block.Stmt == ast.Stmt(loop) && m.Block.Kind.String() == "RangeLoop" {
							okAlways = false
						}
					}
				}
			}
			r4.Check(creates && starts && okAlways, construct, loop.Pos(), "NewNamedQueue(binding.Queue, ...) when absent + Start()", fmt.Sprintf("queues of %s bindings are not `created when absent and started` for every binding (creates=%v starts=%v everyAbsentQueue=%v)", kind.field, creates, starts, okAlways))
		}
	}
	if f := r4.NeedFunc(pkgOp + ".(*ShellOperator).Start"); f != nil {
		g := p.GraphOf(f)
		find := func(pred func(o types.Object) bool) *eng.GNode {
			var out *eng.GNode
			for _, n := range g.Nodes {
				if len(g.CallsAt(n, func(o types.Object, _ *ast.CallExpr) bool { return o != nil && pred(o) })) > 0 {
					out = n
				}
			}
			return out
		}
		initQ := find(func(o types.Object) bool { return nameOf(o) == "initAndStartHookQueues" })
		meh := find(func(o types.Object) bool {
			fn, ok := o.(*types.Func)
			return ok && nameOf(fn) == "Start" && eng.RecvNamed(fn) != nil && eng.RecvNamed(fn).Obj().Name() == "ManagerEventsHandler"
		})
		sm := find(func(o types.Object) bool {
			fn, ok := o.(*types.Func)
			return ok && nameOf(fn) == "Start" && eng.RecvNamed(fn) != nil && eng.RecvNamed(fn).Obj().Name() == "ScheduleManager"
		})
		ok := initQ != nil && meh != nil && sm != nil && g.OnlyVia(meh, func(n *eng.GNode) bool { return n == initQ }, nil) && g.OnlyVia(sm, func(n *eng.GNode) bool { return n == initQ }, nil)
		r4.Check(ok, f.Key+" queues-before-producers", f.Decl.Pos(), "initAndStartHookQueues precedes ManagerEventsHandler.Start and ScheduleManager.Start", "events or ticks can be consumed before the named queues exist: their tasks are dropped ('queue is not created yet')")
	}

	// ---- R5 placement chain
	r5 := c.Rule("C03.R5", "D:provenance", "queue name flows config.Queue -> link -> BindingExecutionInfo.QueueName -> task.WithQueueName at both producers; the consumer appends to Queues[task.GetQueueName()] (C01.R11)", 5)
	runC03R5(c, r5)

	// ---- R6 consumer side of the placement (shared with C01.R11)
	r6 := c.Rule("C03.R6", "B+C", "the events handler appends every task of an event, in order, with AddLast to Queues[task.GetQueueName()] (the queue named by the task itself), under the queue-set lock, from a single goroutine", 4)
	runC01R11(c, r6)

	// ---- R7
	r7 := c.Rule("C03.R7", "A:lockset", "guarded-by: TaskQueue.items (m), TaskQueueSet.Queues (m)", 40)
	guardedBy(r7, pkgQueue, "TaskQueue", "items", "m")
	guardedBy(r7, pkgQueue, "TaskQueueSet", "Queues", "m")

	// ---- R8
	r8 := c.Rule("C03.R8", "A:lock re-acquisition", "no mutex of the queue machinery is locked again while it is held (sync.RWMutex: a read lock taken twice deadlocks as soon as a writer waits in between)", 1)
	depth := 3
	if c.Tier == "thorough" {
		depth = 8
	}
	total := 0
	for _, mf := range [][3]string{{pkgQueue, "TaskQueueSet", "m"}, {pkgQueue, "TaskQueue", "m"}, {pkgQueue, "TaskQueue", "waitMu"}, {pkgTask, "BaseTask", "lock"}} {
		mu := p.Field(mf[0], mf[1], mf[2])
		if mu == nil {
			r8.Unknown("anchor:"+mf[1]+"."+mf[2], token.NoPos, "mutex not found")
			continue
		}
		ra := la.Reacquisitions(mu, depth)
		for _, x := range ra {
			total++
			r8.Bad(fmt.Sprintf("%s.%s re-acquired in %s", mf[1], mf[2], x.Where), x.Pos, fmt.Sprintf("%s.%s is already held here and is locked again through %s: with a writer waiting between the two acquisitions both goroutines block for ever, the events handler can no longer append tasks and every queue starves", mf[1], mf[2], strings.Join(x.Via, " -> ")))
		}
		if len(ra) == 0 {
			r8.Ok(mf[1]+"."+mf[2]+" never re-acquired", mu.Pos(), "no call made with the lock held reaches another Lock/RLock of it")
		}
	}
	_ = total

	// ---- R9 tasks handed back in a TaskResult are inserted by the worker into the queue that runs the handler; the
	// handlers look up "their" queue by the task's own queue name (combining, Filter), so such tasks must carry the
	// name of the queue they are inserted into
	r9 := c.Rule("C03.R9", "D:provenance", "tasks returned as HeadTasks/TailTasks/AfterTasks carry the name of the queue that executes the handler (the enable task runs in the main queue, whose name is the literal \"main\")", 1)
	withQN := p.Method(pkgTask, "BaseTask", "WithQueueName")
	nres := 0
	for _, fld := range []string{"HeadTasks", "TailTasks", "AfterTasks"} {
		rf := p.Field(pkgQueue, "TaskResult", fld)
		if rf == nil {
			r9.Unknown("anchor:TaskResult."+fld, token.NoPos, "field not found")
			continue
		}
		for _, ref := range p.Refs(rf) {
			if !ref.Write || ref.In == nil || !strings.HasPrefix(ref.In.Key, pkgOp+".") {
				continue
			}
			f := ref.In
			c.Touch(f)
			info := f.Pkg.TypesInfo
			nres++
			// every task built in this handler names the handler's queue
			calls := callsDeep(info, f.Decl.Body, isObj(withQN))
			okAll := len(calls) > 0
			var bad ast.Expr
			for _, call := range calls {
				okOne := false
				if len(call.Args) == 1 {
					if v, isC := eng.ConstStr(info, call.Args[0]); isC && v == "main" {
						okOne = true
					}
				}
				if !okOne {
					okAll = false
					bad = call
				}
			}
			pos := f.Decl.Pos()
			if bad != nil {
				pos = bad.Pos()
			}
			r9.Check(okAll, f.Key+" result tasks name the executing queue ("+fld+")", pos, "WithQueueName(\"main\")",
				"a task that the worker inserts into the queue running this handler is labelled with another queue's name: when it runs, combining and Filter operate on that other queue - its tasks (including the one its own worker is executing) are merged and deleted from a foreign goroutine, executions of that queue overlap and leave head-first order")
		}
	}
	if nres == 0 {
		r9.Ok("no handler returns tasks in a TaskResult", token.NoPos, "nothing to check")
	}

	// ---- R10 (shared with C01.R5): events that arrived while the binding was locked are replayed in arrival order,
	// inside the critical section that flips the flag, so that a directly delivered event cannot overtake them
	r10 := c.Rule("C03.R10", "B+A+C", "enableKubeEventCb: under eventBufLock sets the flag, replays eventBuf in ascending order through putEvent before clearing it (tasks are queued in the order the events were received)", 5)
	runC01R5(c, r10)

	// producers never wait inside a queue primitive: the Add* methods are called by the single events-handler goroutine
	// while it holds the queue-set lock, and by workers; a channel operation that can block there (a send nobody
	// receives during a back-off, a receive) stops every queue
	r12 := c.Rule("C03.R12", "H:idiom", "the queue's insertion methods contain no channel operation that can block (only the communication of a select with a default clause)", 4)
	for _, name := range []string{"AddLast", "addLast", "AddFirst", "addFirst", "AddAfter", "addAfter", "AddBefore", "addBefore"} {
		f := p.Func(pkgQueue + ".(*TaskQueue)." + name)
		if f == nil || f.Decl.Body == nil {
			continue
		}
		c.Touch(f)
		var bad ast.Node
		var stack []ast.Node
		ast.Inspect(f.Decl.Body, func(n ast.Node) bool {
			if n == nil {
				stack = stack[:len(stack)-1]
				return true
			}
			blocking := false
			switch t := n.(type) {
			case *ast.SendStmt:
				blocking = true
			case *ast.UnaryExpr:
				blocking = t.Op == token.ARROW
			}
			if blocking {
				// allowed: the communication of a select that has a default clause
				nonBlocking := false
				for i := len(stack) - 1; i >= 0; i-- {
					if sel, isSel := stack[i].(*ast.SelectStmt); isSel {
						for _, cl := range sel.Body.List {
							if cc, isCC := cl.(*ast.CommClause); isCC && cc.Comm == nil {
								nonBlocking = true
							}
						}
						break
					}
				}
				if !nonBlocking {
					bad = n
				}
			}
			stack = append(stack, n)
			return true
		})
		if bad == nil {
			r12.Ok(f.Key+" never blocks on a channel", f.Decl.Pos(), "no blocking channel operation")
		} else {
			r12.Bad(f.Key+" never blocks on a channel", bad.Pos(), "a queue insertion can block on a channel operation: the events handler calls it under the queue-set lock, so every queue stops receiving tasks (and every worker waiting for that lock stalls) until somebody communicates")
		}
	}

	// ---- R11: a task that is run outside the queues (an admission or conversion request is answered by calling the
	// task handler directly from the HTTP goroutine) is combined with no queue: it has no queue name, the lookup of
	// "" finds no queue, and the combine step is given exactly the queue looked up by the task's own queue name.
	// Otherwise the HTTP goroutine takes tasks out of the main queue and runs their contexts while the main queue's
	// worker is in the middle of its own task.
	r11 := c.Rule("C03.R11", "D:provenance", "tasks run outside a queue stay outside: GetByName is a pure lookup by its argument, taskHandleHookRun hands the combine step GetByName(t.GetQueueName()), the webhook handlers create their task without a queue name", 4)
	runOutsideQueueTasks(c, r11)
}

func isParamOfFunc(f *eng.Func, o types.Object) bool {
	if o == nil {
		return false
	}
	for _, prm := range paramObjs(f) {
		if prm == o {
			return true
		}
	}
	return false
}

func runC03R5(c *eng.Ctx, r *eng.RuleCtx) {
	p := c.P
	// producers in initHookManager
	if f := r.NeedFunc(pkgOp + ".(*ShellOperator).initHookManager"); f != nil {
		info := f.Pkg.TypesInfo
		withQN := p.Method(pkgTask, "BaseTask", "WithQueueName")
		qn := p.Field(pkgCtrl, "BindingExecutionInfo", "QueueName")
		n := 0
		for _, call := range callsDeep(info, f.Decl.Body, isObj(withQN)) {
			n++
			r.Check(len(call.Args) == 1 && eng.IsField(info, call.Args[0], qn), fmt.Sprintf("%s producer#%d", f.Key, n), call.Pos(), "WithQueueName(info.QueueName)", "a task producer does not place the task in the queue configured for the binding")
		}
		if n < 2 {
			r.Bad(f.Key+" producers", f.Decl.Pos(), fmt.Sprintf("expected the kubernetes and the schedule producer to set the queue name, found %d", n))
		}
	}
	checkLit := func(fnKey, typ, key string, want func(info *types.Info, e ast.Expr) bool, wantDesc string) {
		f := r.NeedFunc(fnKey)
		if f == nil {
			return
		}
		info := f.Pkg.TypesInfo
		T := p.Named(pkgCtrl, typ)
		ok := false
		var pos token.Pos = f.Decl.Pos()
		ast.Inspect(f.Decl.Body, func(n ast.Node) bool {
			cl, isC := n.(*ast.CompositeLit)
			if !isC {
				return true
			}
			if tv, has := info.Types[cl]; !has || T == nil || !types.Identical(tv.Type, T) {
				return true
			}
			for _, el := range cl.Elts {
				if kv, isKV := el.(*ast.KeyValueExpr); isKV {
					if id, isI := kv.Key.(*ast.Ident); isI && id.Name == key {
						pos = kv.Pos()
						if want(info, kv.Value) {
							ok = true
						}
					}
				}
			}
			return true
		})
		r.Check(ok, f.Key+" "+typ+"."+key, pos, wantDesc, typ+"."+key+" is not "+wantDesc+": tasks of the binding land in the wrong queue")
	}
	kubeQueue := p.Field(pkgHTypes, "OnKubernetesEventConfig", "Queue")
	schedQueue := p.Field(pkgHTypes, "ScheduleConfig", "Queue")
	linkQN := p.Field(pkgCtrl, "ScheduleBindingToCrontabLink", "QueueName")
	checkLit(pkgCtrl+".(*kubernetesBindingsController).HandleEvent", "BindingExecutionInfo", "QueueName", func(info *types.Info, e ast.Expr) bool { return eng.IsField(info, e, kubeQueue) }, "link.BindingConfig.Queue")
	checkLit(pkgCtrl+".(*scheduleBindingsController).HandleEvent", "BindingExecutionInfo", "QueueName", func(info *types.Info, e ast.Expr) bool { return eng.IsField(info, e, linkQN) }, "link.QueueName")
	checkLit(pkgCtrl+".(*scheduleBindingsController).EnableScheduleBindings", "ScheduleBindingToCrontabLink", "QueueName", func(info *types.Info, e ast.Expr) bool { return eng.IsField(info, e, schedQueue) }, "config.Queue")
	// one link - and so one queue name - per schedule binding: the registry is keyed by the binding's own id (two
	// bindings of a hook may share a crontab and differ in their queue)
	if en := r.NeedFunc(pkgCtrl + ".(*scheduleBindingsController).EnableScheduleBindings"); en != nil {
		einfo := en.Pkg.TypesInfo
		links := p.Field(pkgCtrl, "scheduleBindingsController", "ScheduleLinks")
		idFld := extOrLocalField(p, "pkg/schedule_manager/types", "ScheduleEntry", "Id")
		n, ok := 0, true
		eng.InspectNoLit(en.Decl.Body, func(m ast.Node) bool {
			if as, isA := m.(*ast.AssignStmt); isA && len(as.Lhs) == 1 {
				if ix, isIx := ast.Unparen(as.Lhs[0]).(*ast.IndexExpr); isIx && eng.IsField(einfo, ix.X, links) {
					n++
					if idFld == nil || !eng.IsField(einfo, resolveLocal(einfo, en.Decl.Body, ix.Index), idFld) {
						ok = false
					}
				}
			}
			return true
		})
		r.Check(ok && n > 0, en.Key+" one link per binding", en.Decl.Pos(), "ScheduleLinks[config.ScheduleEntry.Id] = link", "the schedule links are not keyed by the binding's own id: two bindings that share the key overwrite each other's link and the tasks of one of them never reach its queue")
	}
}

// runOutsideQueueTasks is C03.R11, shared with C04.R7 and C14.R7 (a webhook run that swallows queued tasks also
// discards their contexts when it fails, and relays a verdict computed from foreign contexts).
func runOutsideQueueTasks(c *eng.Ctx, r11 *eng.RuleCtx) {
	p := c.P
	var withQN *types.Func
	if f := r11.NeedFunc(pkgQueue + ".(*TaskQueueSet).GetByName"); f != nil {
		info := f.Pkg.TypesInfo
		queues := p.Field(pkgQueue, "TaskQueueSet", "Queues")
		prm := f.Obj.Type().(*types.Signature).Params().At(0)
		ok := len(eng.AssignedExprs(info, f.Decl.Body, prm)) == 0
		nret := 0
		eng.InspectNoLit(f.Decl.Body, func(n ast.Node) bool {
			ret, isR := n.(*ast.ReturnStmt)
			if !isR || len(ret.Results) != 1 {
				return true
			}
			nret++
			for _, src := range valueSources(info, f.Decl.Body, ret.Results[0], 3) {
				if eng.IsNil(info, src) {
					continue
				}
				ix, isIx := ast.Unparen(src).(*ast.IndexExpr)
				if !isIx || !eng.IsField(info, ix.X, queues) || eng.SelObj(info, ix.Index) != types.Object(prm) {
					ok = false
				}
			}
			return true
		})
		r11.Check(ok && nret > 0, f.Key+" pure lookup", f.Decl.Pos(), "returns Queues[name] or nil, name as given", "GetByName does not return exactly the queue registered under the given name (e.g. it maps the empty name to the main queue): a task that is run outside the queues is treated as a task of that queue and combined with its tasks")
	}
	if f := r11.NeedFunc(pkgOp + ".(*ShellOperator).taskHandleHookRun"); f != nil {
		info := f.Pkg.TypesInfo
		combine := p.Method(pkgOp, "ShellOperator", "combineBindingContextForHook")
		getByName := p.Method(pkgQueue, "TaskQueueSet", "GetByName")
		getQN := func(e ast.Expr) bool {
			cl, isC := ast.Unparen(e).(*ast.CallExpr)
			if !isC || len(cl.Args) != 0 {
				return false
			}
			o := eng.CalleeOf(info, cl)
			return o != nil && nameOf(o) == "GetQueueName"
		}
		n, okAll := 0, true
		for _, call := range callsDeep(info, f.Decl.Body, isObj(combine)) {
			if len(call.Args) < 2 {
				continue
			}
			n++
			for _, src := range valueSources(info, f.Decl.Body, argLike(info, call, 1, typeNamed("pkg/task/queue", "TaskQueue")), 3) {
				cl, isC := ast.Unparen(src).(*ast.CallExpr)
				if !isC || !isCallTo(info, cl, getByName) || len(cl.Args) != 1 {
					okAll = false
					continue
				}
				for _, s2 := range valueSources(info, f.Decl.Body, cl.Args[0], 3) {
					if !getQN(s2) {
						okAll = false
					}
				}
			}
		}
		r11.Check(okAll && n > 0, f.Key+" combine queue", f.Decl.Pos(), "combineBindingContextForHook(.., GetByName(t.GetQueueName()), ..)", "the queue whose tasks are combined into this run is not looked up by the task's own queue name (a default is substituted): a webhook task, which has no queue, then swallows tasks of that default queue")
	}
	if f := r11.NeedFunc(pkgOp + ".(*ShellOperator).combineBindingContextForHook"); f != nil {
		// the tasks are removed from the queue that was searched: Filter is called on the queue looked up by the task's
		// own queue name (or on the queue parameter, which R11 above ties to that name)
		info := f.Pkg.TypesInfo
		filter := p.Method(pkgQueue, "TaskQueue", "Filter")
		getByName := p.Method(pkgQueue, "TaskQueueSet", "GetByName")
		sig := f.Obj.Type().(*types.Signature)
		n, okAll := 0, true
		for _, call := range callsDeep(info, f.Decl.Body, isObj(filter)) {
			sel, isS := ast.Unparen(call.Fun).(*ast.SelectorExpr)
			if !isS {
				continue
			}
			n++
			for _, src := range valueSources(info, f.Decl.Body, sel.X, 3) {
				isQueueParam := false
				for i := 0; i < sig.Params().Len(); i++ {
					if eng.SelObj(info, src) == types.Object(sig.Params().At(i)) {
						isQueueParam = true
					}
				}
				if isQueueParam {
					continue
				}
				cl, isC := ast.Unparen(src).(*ast.CallExpr)
				if !isC || !isCallTo(info, cl, getByName) || len(cl.Args) != 1 {
					okAll = false
					continue
				}
				if c2, isC2 := ast.Unparen(cl.Args[0]).(*ast.CallExpr); !isC2 || eng.CalleeOf(info, c2) == nil || eng.CalleeOf(info, c2).Name() != "GetQueueName" {
					okAll = false
				}
			}
		}
		r11.Check(okAll && n > 0, f.Key+" filtered queue", f.Decl.Pos(), "the merged tasks are removed from the task's own queue", "the merged tasks are removed from another queue than the one the head task belongs to")
	}
	// a new task has no queue name until a producer gives it one
	if nt, _ := p.Object(pkgTask, "NewTask").(*types.Func); nt != nil {
		if f := p.FuncOf(nt); f != nil && f.Decl.Body != nil {
			c.Touch(f)
			qn := p.Field(pkgTask, "BaseTask", "QueueName")
			stores := storesOfField(f.Pkg.TypesInfo, f.Decl.Body, qn)
			pos := f.Decl.Pos()
			bad := false
			for _, st := range stores {
				if v, isC := eng.ConstStr(f.Pkg.TypesInfo, st.Val); !isC || v != "" {
					bad = true
					pos = st.Val.Pos()
				}
			}
			r11.Check(!bad, f.Key+" no default queue name", pos, "NewTask leaves QueueName empty", "NewTask gives every task a queue name by default: the tasks that answer webhook requests, which are never queued, are then combined with the tasks of that queue")
		}
	}
	// webhook handlers: the task they build has no queue name
	withQN = p.Method(pkgTask, "BaseTask", "WithQueueName")
	for _, key := range []string{pkgOp + ".(*ShellOperator).initValidatingWebhookManager", pkgOp + ".(*ShellOperator).conversionEventHandler"} {
		f := r11.NeedFunc(key)
		if f == nil {
			continue
		}
		info := f.Pkg.TypesInfo
		calls := callsDeep(info, f.Decl.Body, isObj(withQN))
		pos := f.Decl.Pos()
		if len(calls) > 0 {
			pos = calls[0].Pos()
		}
		r11.Check(withQN != nil && len(calls) == 0, f.Key+" no queue name", pos, "the task that answers the request carries no queue name", "the task that answers a webhook request is given a queue name although it is never queued: taskHandleHookRun then combines it with the tasks of that queue and deletes them from it, from the HTTP goroutine, while the queue's worker is running")
	}
}
