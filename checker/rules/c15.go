package rules

import (
	"fmt"
	"go/ast"
	"go/token"
	"go/types"

	"sopverif/eng"
)

func init() {
	register(&Property{
		ID:    "C15",
		Title: "Conversion: a valid rule chain is found iff one exists, applied step by step",
		Explanation: "Decided on pkg/webhook/conversion and the conversion handler of the operator: (R1) rule adjacency is decided only by " +
			"equality / VersionsMatched (no substring test between two version strings), VersionsMatched itself returns only equality " +
			"comparisons; (R2) no append on a slice that aliases a cached path unless the result goes back to the same cache entry (shared " +
			"backing array between forks); (R3) the next step's input is prepared only when the hook's FailedMessage is empty, and a " +
			"non-empty message is returned; (R4) the object-count check compares with the count captured before the handler ran (or nobody " +
			"overwrites request.Objects); (R5) steps run in ascending chain order, a Fail status returns without running another step, " +
			"Success requires the done flag; (R6) a path stored in the cache is cache[prefix] followed by a rule taken from " +
			"NextRules(prefix.ToVersion). (R6) every round of the chain search recomputes its prefixes from the whole paths cache; (R7) no message is used as a format string. NOT decided: completeness of the search (found iff exists) and termination for all rule graphs.",
		Run: runC15,
	})
}

var stringsMatchFuncs = map[string]bool{"Index": true, "Contains": true, "HasPrefix": true, "HasSuffix": true, "LastIndex": true, "EqualFold": true, "Count": true, "ContainsAny": true, "IndexAny": true}

func runC15(c *eng.Ctx) {
	p := c.P
	pathsCache := p.Field(pkgConv, "Chain", "PathsCache")
	versionsMatched, _ := p.Object(pkgConv, "VersionsMatched").(*types.Func)

	// ---- R1
	r1 := c.Rule("C15.R1", "H4:idiom+control-dependence", "versions are compared by == or VersionsMatched only: no substring/prefix test between two non-constant strings in pkg/webhook/conversion; NextRules selects a key only on equality or VersionsMatched; VersionsMatched returns only == comparisons", 3)
	if versionsMatched == nil {
		r1.Unknown("anchor:VersionsMatched", token.NoPos, "function not found")
	}
	nSubstr := 0
	for _, f := range funcsOfPkg(p, pkgConv) {
		if f.Decl.Body == nil {
			continue
		}
		info := f.Pkg.TypesInfo
		for _, call := range callsDeep(info, f.Decl.Body, func(o types.Object, _ *ast.CallExpr) bool {
			fn, ok := o.(*types.Func)
			return ok && fn.Pkg() != nil && fn.Pkg().Path() == "strings" && stringsMatchFuncs[fn.Name()]
		}) {
			if len(call.Args) != 2 {
				continue
			}
			_, c0 := eng.ConstVal(info, call.Args[0])
			_, c1 := eng.ConstVal(info, call.Args[1])
			if !c0 && !c1 {
				nSubstr++
				c.Touch(f)
				r1.Bad(f.Key+" substring-match", call.Pos(), fmt.Sprintf("`%s` tests one version string for containment in another: v1 also matches v1beta1 (and any group), so a chain step may start where the previous one did not end", eng.Short(p.Fset, call)))
			}
		}
	}
	if nSubstr == 0 {
		r1.Ok(pkgConv+" no substring tests", token.NoPos, "no strings.Index/Contains/HasPrefix/HasSuffix between two non-constant strings in the package")
	}
	if f := r1.NeedFunc(pkgConv + ".(Chain).NextRules"); f != nil && versionsMatched != nil {
		info := f.Pkg.TypesInfo
		g := p.GraphOf(f)
		prm := f.Obj.Type().(*types.Signature).Params().At(0)
		var loop *ast.RangeStmt
		eng.InspectNoLit(f.Decl.Body, func(n ast.Node) bool {
			if rs, ok := n.(*ast.RangeStmt); ok && loop == nil {
				loop = rs
			}
			return true
		})
		var key types.Object
		if loop != nil && loop.Key != nil {
			key = eng.SelObj(info, loop.Key)
		}
		selected := g.FactEdge(func(fc eng.Fact) bool {
			if x, y, eq, ok := eng.EqAtom(fc); ok && eq {
				if (eng.SelObj(info, x) == key && eng.SelObj(info, y) == prm) || (eng.SelObj(info, y) == key && eng.SelObj(info, x) == prm) {
					return true
				}
			}
			if fc.Pos && fc.Y == nil {
				if cl, ok := ast.Unparen(fc.X).(*ast.CallExpr); ok && eng.CalleeOf(info, cl) == versionsMatched && len(cl.Args) == 2 {
					a, b := eng.SelObj(info, cl.Args[0]), eng.SelObj(info, cl.Args[1])
					return (a == key && b == prm) || (a == prm && b == key)
				}
			}
			return false
		})
		n := 0
		ok := key != nil
		for _, gn := range g.Nodes {
			as, isA := gn.Node.(*ast.AssignStmt)
			if !isA || len(as.Rhs) != 1 || builtinCall(info, as.Rhs[0], "append") == nil {
				continue
			}
			n++
			if !g.OnlyVia(gn, nil, selected) {
				ok = false
			}
		}
		r1.Check(ok && n > 0, f.Key+" selection", f.Decl.Pos(), "a rule is selected only when its from-version equals / VersionsMatched the requested version", "NextRules can select a rule whose from-version is neither equal to nor VersionsMatched with the requested version")
	}
	if versionsMatched != nil {
		f := p.FuncOf(versionsMatched)
		c.Touch(f)
		info := f.Pkg.TypesInfo
		ok := true
		eng.InspectNoLit(f.Decl.Body, func(n ast.Node) bool {
			ret, isR := n.(*ast.ReturnStmt)
			if !isR || len(ret.Results) != 1 {
				return true
			}
			if _, isC := constBool(info, ret.Results[0]); isC {
				return true
			}
			if b, isB := ast.Unparen(ret.Results[0]).(*ast.BinaryExpr); isB && b.Op == token.EQL {
				return true
			}
			ok = false
			return true
		})
		// `return true` only under v0 == v1
		g := p.GraphOf(f)
		for _, gn := range g.Nodes {
			ret, isR := gn.Node.(*ast.ReturnStmt)
			if !isR || len(ret.Results) != 1 {
				continue
			}
			if b, isC := constBool(info, ret.Results[0]); isC && b {
				if !g.OnlyVia(gn, nil, g.FactEdge(func(fc eng.Fact) bool { _, _, eq, isEq := eng.EqAtom(fc); return isEq && eq })) {
					ok = false
				}
			}
		}
		r1.Check(ok, f.Key, f.Decl.Pos(), "returns only equality comparisons", "VersionsMatched returns something other than an equality of (trimmed) versions")
	}

	// ---- R2
	r2 := c.Rule("C15.R2", "H2:alias idiom", "no append whose first argument aliases a cached path (Chain.PathsCache element, directly or through locals/returns) unless the result is stored back to the cache", 1)
	if pathsCache == nil {
		r2.Unknown("anchor:Chain.PathsCache", token.NoPos, "field not found")
	} else {
		n := 0
		bad := 0
		for _, pk := range p.All {
			for _, f := range funcsOfPkg(p, pk.PkgPath[len(eng.ModPath)+1:]) {
				if f.Decl.Body == nil || !eng.MentionsField(f.Pkg.TypesInfo, f.Decl.Body, pathsCache, true) && !callsChainAPI(p, f) {
					continue
				}
				info := f.Pkg.TypesInfo
				al := &aliasCtx{p: p, f: f, info: info, fld: pathsCache, seen: map[types.Object]bool{}}
				ast.Inspect(f.Decl.Body, func(m ast.Node) bool {
					as, ok := m.(*ast.AssignStmt)
					if !ok {
						return true
					}
					for i, rhs := range as.Rhs {
						ap := builtinCall(info, rhs, "append")
						if ap == nil || len(ap.Args) == 0 {
							continue
						}
						n++
						al.seen = map[types.Object]bool{}
						if !al.mayAlias(ap.Args[0], 2) {
							continue
						}
						// result stored back into the cache entry?
						if len(as.Lhs) == len(as.Rhs) {
							if ix, ok := ast.Unparen(as.Lhs[i]).(*ast.IndexExpr); ok && eng.IsField(info, ix.X, pathsCache) {
								continue
							}
						}
						bad++
						c.Touch(f)
						r2.Bad(f.Key+" append-on-cached-path", ap.Pos(), fmt.Sprintf("`%s` appends to a slice that aliases a cached path: two paths built from the same cached prefix share one backing array and the second fork overwrites the last step of the first", eng.Short(p.Fset, ap)))
					}
					return true
				})
			}
		}
		if bad == 0 {
			r2.Ok("appends near PathsCache", token.NoPos, fmt.Sprintf("%d appends examined in functions that touch PathsCache or the chain API; none extends an alias of a cached path", n))
		}
		if n == 0 {
			r2.Unknown("appends near PathsCache", token.NoPos, "no append found in functions touching PathsCache: the path construction idiom is not recognised")
		}
	}

	// ---- R3, R5 on conversionEventHandler
	r3 := c.Rule("C15.R3", "B:control-dependence", "conversionEventHandler: the next step's input (request.Objects = response.ConvertedObjects) is reachable only when response.FailedMessage is empty; a non-empty message is returned as the answer", 3)
	r5 := c.Rule("C15.R5", "B:order", "conversionEventHandler: hooks run in an ascending range over the chain; Status==Fail returns before any other step; the Success answer requires the done flag", 3)
	if f := p.Func(pkgOp + ".(*ShellOperator).conversionEventHandler"); f == nil {
		r3.Unknown("anchor:conversionEventHandler", token.NoPos, "function not found")
		r5.Unknown("anchor:conversionEventHandler", token.NoPos, "function not found")
	} else {
		c.Touch(f)
		info := f.Pkg.TypesInfo
		g := p.GraphOf(f)
		failedMsg := p.Field(pkgConv, "Response", "FailedMessage")
		converted := p.Field(pkgConv, "Response", "ConvertedObjects")
		status := p.Field(pkgQueue, "TaskResult", "Status")
		taskHandler := p.Method(pkgOp, "ShellOperator", "taskHandler")
		findChain := p.Method(pkgHook, "Manager", "FindConversionChain")
		reqObjects := extField(p, "k8s.io/apiextensions-apiserver/pkg/apis/apiextensions/v1", "ConversionRequest", "Objects")
		// the store that feeds the next round
		var feed *eng.GNode
		for _, gn := range g.Nodes {
			as, ok := gn.Node.(*ast.AssignStmt)
			if !ok || len(as.Lhs) != 1 || len(as.Rhs) != 1 {
				continue
			}
			if reqObjects != nil && eng.IsField(info, as.Lhs[0], reqObjects) && eng.IsField(info, as.Rhs[0], converted) {
				feed = gn
			}
		}
		msgEmpty := g.FactEdge(func(fc eng.Fact) bool {
			x, y, eq, ok := eng.EqAtom(fc)
			if !ok || !eq {
				return false
			}
			if s, isC := eng.ConstStr(info, y); isC && s == "" && eng.IsField(info, x, failedMsg) {
				return true
			}
			if s, isC := eng.ConstStr(info, x); isC && s == "" && eng.IsField(info, y, failedMsg) {
				return true
			}
			return false
		})
		msgSet := g.FactEdge(func(fc eng.Fact) bool {
			x, y, eq, ok := eng.EqAtom(fc)
			if !ok || eq {
				return false
			}
			if s, isC := eng.ConstStr(info, y); isC && s == "" && eng.IsField(info, x, failedMsg) {
				return true
			}
			if s, isC := eng.ConstStr(info, x); isC && s == "" && eng.IsField(info, y, failedMsg) {
				return true
			}
			return false
		})
		if feed == nil {
			r3.Unknown(f.Key+" feed", f.Decl.Pos(), "the statement that feeds a step's output into the next step (request.Objects = response.ConvertedObjects) was not found")
		} else {
			r3.Check(g.OnlyVia(feed, nil, msgEmpty), f.Key+" feed-only-without-failure", feed.Node.Pos(), "the next step is prepared only when FailedMessage is empty",
				"the chain continues although the hook may have answered with a failedMessage: the next hook runs on its (empty) objects and the hook's own message is lost")
		}
		// ... and is always prepared then: from the "message is empty" edge no path reaches the next step, the done test
		// or an exit without having fed the output forward (each hook receives the previous hook's output, whatever it is)
		if feed != nil {
			okAlways := true
			found := false
			for _, n := range g.Nodes {
				for _, e := range n.Succ {
					if !msgEmpty(e) {
						continue
					}
					found = true
					reach := g.Reach(eng.Query{From: []*eng.GNode{n}, AvoidEdge: func(x *eng.GEdge) bool { return x.From == n && x != e }, AvoidNode: func(m *eng.GNode) bool { return m == feed }})
					for m := range reach {
						if m == feed {
							continue
						}
						if m.Exit || (m.Node == nil && (m.Block.Kind.String() == "RangeLoop" || m.Block.Kind.String() == "RangeDone")) {
							okAlways = false
						}
					}
				}
			}
			r3.Check(found && okAlways, f.Key+" output-always-fed-forward", feed.Node.Pos(), "whenever the hook did not report a failure its output becomes the next step's input",
				"a step's output is not always handed to the next step: under some condition (e.g. an empty convertedObjects list) the next hook receives the previous input again and the chain can end in Success although a step converted nothing")
		}
		// a return under msgSet carries the message
		carries := false
		for _, gn := range g.Nodes {
			ret, ok := gn.Node.(*ast.ReturnStmt)
			if !ok || len(ret.Results) != 2 {
				continue
			}
			if !eng.MentionsField(info, ret.Results[0], failedMsg, false) {
				continue
			}
			// value of the FailedMessage key mentions response.FailedMessage (a read of the same field on another value)
			cnt := 0
			ast.Inspect(ret.Results[0], func(m ast.Node) bool {
				if s, ok := m.(*ast.SelectorExpr); ok && info.Uses[s.Sel] == failedMsg {
					cnt++
				}
				return true
			})
			if cnt >= 1 && g.OnlyVia(gn, nil, msgSet) {
				carries = true
			}
		}
		r3.Check(carries, f.Key+" message-returned", f.Decl.Pos(), "a non-empty FailedMessage is returned as the answer", "no return under `response.FailedMessage != \"\"` carries the hook's message")

		// R5
		var stepLoop *eng.ElemLoop
		for _, call := range callsIn(info, f.Decl.Body, isObj(taskHandler)) {
			if l := elemLoopAt(info, f.Decl.Body, call.Pos()); l != nil {
				stepLoop = l
			}
		}
		okLoop := false
		var stepPos token.Pos
		if stepLoop != nil && !stepLoop.Desc {
			stepPos = stepLoop.Stmt.Pos()
			if v, ok := eng.SelObj(info, stepLoop.Base).(*types.Var); ok {
				for _, e := range eng.AssignedExprs(info, f.Decl.Body, v) {
					if isCallTo(info, e, findChain) {
						okLoop = true
					}
				}
			}
		}
		// the rule handed to the hook manager in each iteration is the element of that iteration
		if stepLoop != nil {
			hce := p.Method(pkgHook, "Manager", "HandleConversionEvent")
			okElem := false
			nCalls := 0
			for _, call := range callsIn(info, stepLoop.Body, isObj(hce)) {
				nCalls++
				okElem = len(call.Args) == 4 && stepLoop.IsElem(call.Args[2])
			}
			r5.Check(nCalls == 1 && okElem, f.Key+" step-is-loop-element", stepPos, "HandleConversionEvent receives the chain element of the iteration", "the conversion step passed to the hooks is not the chain element of the current iteration: a step is run twice or skipped")
		}
		r5.Check(okLoop, f.Key+" chain-order", stepPos, "steps run in an ascending loop over the result of FindConversionChain", "hooks are not invoked in an ascending loop over the whole chain returned by FindConversionChain")
		// Fail => no later step
		failEdge := g.FactEdge(fieldEqConst(info, status, "Fail", true))
		okFail := false
		nFail := 0
		for _, gn := range g.Nodes {
			for _, e := range gn.Succ {
				if !failEdge(e) {
					continue
				}
				nFail++
				reach := g.Reach(eng.Query{From: nil, FromEntry: false})
				_ = reach
				rs := reachFromEdge(g, e)
				okFail = true
				for m := range rs {
					if len(g.CallsAt(m, isObj(taskHandler))) > 0 {
						okFail = false
					}
				}
			}
		}
		r5.Check(okFail && nFail > 0, f.Key+" fail-stops-chain", f.Decl.Pos(), "after Status==Fail no further hook is run", "after a step failed another step can still be executed (or the Fail status is not tested)")
		// success answer requires done
		okDone := false
		for _, gn := range g.Nodes {
			ret, ok := gn.Node.(*ast.ReturnStmt)
			if !ok || len(ret.Results) != 2 {
				continue
			}
			val := litKeyValue(info, ret.Results[0], converted)
			if val == nil || eng.IsNil(info, val) {
				continue
			}
			okDone = g.OnlyVia(gn, nil, g.FactEdge(func(fc eng.Fact) bool {
				if !fc.Pos || fc.Y != nil {
					return false
				}
				v, ok := eng.SelObj(info, fc.X).(*types.Var)
				return ok && !v.IsField() && v.Name() != "" && isBoolVar(v)
			}))
		}
		r5.Check(okDone, f.Key+" success-requires-done", f.Decl.Pos(), "the answer with ConvertedObjects is returned only under the done flag", "a Success answer can be returned although no step reached the desired version")
	}

	// ---- R4
	r4 := c.Rule("C15.R4", "D:provenance", "handleReviewRequest compares len(ConvertedObjects) with the number of objects requested: the count is captured before the handler runs, or nothing overwrites ConversionRequest.Objects", 1)
	if f := r4.NeedFunc(pkgConv + ".(*WebhookHandler).handleReviewRequest"); f != nil {
		info := f.Pkg.TypesInfo
		g := p.GraphOf(f)
		converted := p.Field(pkgConv, "Response", "ConvertedObjects")
		handlerFn := p.Field(pkgConv, "WebhookManager", "EventHandlerFn")
		reqObjects := extField(p, "k8s.io/apiextensions-apiserver/pkg/apis/apiextensions/v1", "ConversionRequest", "Objects")
		var callNode *eng.GNode
		for _, gn := range g.Nodes {
			if len(g.CallsAt(gn, func(o types.Object, _ *ast.CallExpr) bool { return o == handlerFn })) > 0 {
				callNode = gn
			}
		}
		isLenOf := func(e ast.Expr, fld *types.Var) bool {
			cl := builtinCall(info, e, "len")
			return cl != nil && eng.IsField(info, cl.Args[0], fld)
		}
		found := false
		for _, gn := range g.Nodes {
			b, ok := gn.Node.(*ast.BinaryExpr)
			if !ok || (b.Op != token.NEQ && b.Op != token.EQL) {
				continue
			}
			// the returned count, possibly through locals (n := len(objs); objs := response.ConvertedObjects)
			isLenOfConverted := func(e ast.Expr) bool {
				cl := builtinCall(info, resolveLocal(info, f.Decl.Body, e), "len")
				return cl != nil && eng.IsField(info, resolveLocal(info, f.Decl.Body, cl.Args[0]), converted)
			}
			var other ast.Expr
			if isLenOfConverted(b.X) {
				other = b.Y
			} else if isLenOfConverted(b.Y) {
				other = b.X
			} else {
				continue
			}
			found = true
			construct := f.Key + " count-check"
			if isLenOf(other, reqObjects) {
				// evaluated after the handler: sound only if nobody stores to request.Objects
				var writers []string
				for _, ref := range p.Refs(reqObjects) {
					if ref.Write && !ref.Lit {
						writers = append(writers, ref.Where()+"@"+p.Rel(ref.Node.Pos()))
					}
				}
				r4.Check(len(writers) == 0, construct, b.Pos(), "nobody overwrites request.Objects", fmt.Sprintf("the check reads len(request.Objects) after the handler ran, but request.Objects is overwritten at %v: the comparison is vacuous and a hook returning fewer objects is answered with Success", writers))
				continue
			}
			v, isV := eng.SelObj(info, other).(*types.Var)
			okCap := false
			if isV && callNode != nil {
				for _, an := range g.Nodes {
					as, ok := an.Node.(*ast.AssignStmt)
					if !ok || len(as.Lhs) != 1 || eng.SelObj(info, as.Lhs[0]) != v {
						continue
					}
					if isLenOf(as.Rhs[0], reqObjects) && g.OnlyVia(callNode, func(m *eng.GNode) bool { return m == an }, nil) {
						okCap = true
					} else {
						okCap = false
						break
					}
				}
			}
			r4.Check(okCap, construct, b.Pos(), "compared with the count captured before the handler call", "the object count is not compared with the number of requested objects captured before the handler ran")
		}
		// the answer that carries converted objects is given only when the counts were found equal
		if found {
			isLenConv := func(e ast.Expr) bool {
				cl := builtinCall(info, resolveLocal(info, f.Decl.Body, e), "len")
				return cl != nil && eng.IsField(info, resolveLocal(info, f.Decl.Body, cl.Args[0]), converted)
			}
			countsEqual := g.FactEdge(func(fc eng.Fact) bool {
				x, y, eq, isEq := eng.EqAtom(fc)
				return isEq && eq && (isLenConv(x) != isLenConv(y))
			})
			nAns := 0
			okAns := true
			for _, gn := range g.Nodes {
				ret, isR := gn.Node.(*ast.ReturnStmt)
				if !isR || len(ret.Results) != 2 || eng.IsNil(info, ret.Results[0]) {
					continue
				}
				nAns++
				if !g.OnlyVia(gn, nil, countsEqual) {
					okAns = false
				}
			}
			r4.Check(okAns && nAns > 0, f.Key+" answer-only-when-counts-equal", f.Decl.Pos(), "every non-nil answer is returned under len(ConvertedObjects) == requested", "an answer with converted objects can be returned although the number of objects differs from the number requested (the comparison does not guard the answer)")
		}
		if !found {
			r4.Bad(f.Key+" count-check", f.Decl.Pos(), "no comparison of len(ConvertedObjects) with the requested count: a hook may return fewer objects than requested and still be answered with Success")
		}
	}

	// ---- R7 the hook's message is data, not a format
	r7 := c.Rule("C15.R7", "H:idiom", "on the conversion path no text is passed as the format of a fmt *f function without arguments (a hook's failedMessage containing `%` would be garbled)", 1)
	nfmt := 0
	for _, pk := range []string{pkgConv, pkgOp} {
		for _, f := range funcsOfPkg(p, pk) {
			for _, call := range nonConstFormatCalls(f) {
				nfmt++
				c.Touch(f)
				r7.Bad(fmt.Sprintf("%s formats `%s`", f.Key, eng.Short(p.Fset, call)), call.Pos(), "a non-constant string is used as a format: a message that contains `%` (e.g. \"150% of quota\") reaches the API server as \"150%!o(MISSING)f quota\"")
			}
		}
	}
	if nfmt == 0 {
		r7.Ok("no non-constant format strings in "+pkgConv+" and "+pkgOp, token.NoPos, "messages are passed as data (errors.New, %s)")
	}

	// ---- R6
	r8 := c.Rule("C15.R8", "I:error-flow", "(shared with C12.R4) a conversion hook that does not end with exit status 0, or whose response file cannot be read, is an error of Hook.Run: the step counts as failed and the chain stops", 6)
	runHookFailureIsError(c, r8)
	r6 := c.Rule("C15.R6", "D:provenance", "FindConversionChain: a new path is PathsCache[prefixRule] followed by one rule taken from NextRules(prefixRule.ToVersion)", 1)
	if f := r6.NeedFunc(pkgConv + ".(ChainStorage).FindConversionChain"); f != nil && pathsCache != nil {
		info := f.Pkg.TypesInfo
		nextRules := p.Method(pkgConv, "Chain", "NextRules")
		toVersion := p.Field(pkgConv, "Rule", "ToVersion")
		var inner *ast.RangeStmt
		eng.InspectNoLit(f.Decl.Body, func(n ast.Node) bool {
			if rs, ok := n.(*ast.RangeStmt); ok && isCallTo(info, rs.X, nextRules) {
				inner = rs
			}
			return true
		})
		ok := false
		var pos token.Pos = f.Decl.Pos()
		if inner != nil && inner.Value != nil {
			pos = inner.Pos()
			outer, _ := enclosingRange(f.Decl.Body, inner)
			call := ast.Unparen(inner.X).(*ast.CallExpr)
			var prefix types.Object
			if outer != nil && outer.Value != nil {
				prefix = eng.SelObj(info, outer.Value)
			}
			argOK := false
			if len(call.Args) == 1 && prefix != nil {
				if s, isS := ast.Unparen(call.Args[0]).(*ast.SelectorExpr); isS && info.Uses[s.Sel] == toVersion && eng.SelObj(info, s.X) == prefix {
					argOK = true
				}
			}
			next := eng.SelObj(info, inner.Value)
			// the stored path: newPaths[...] = path
			stored := false
			eng.InspectNoLit(inner.Body, func(n ast.Node) bool {
				as, isA := n.(*ast.AssignStmt)
				if !isA || len(as.Lhs) != 1 {
					return true
				}
				if _, isIx := ast.Unparen(as.Lhs[0]).(*ast.IndexExpr); !isIx {
					return true
				}
				pv, isV := eng.SelObj(info, as.Rhs[0]).(*types.Var)
				if !isV {
					return true
				}
				// assignments to pv: some append(..., PathsCache[prefix]...) / clone, and a last append(pv, next)
				exprs := eng.AssignedExprs(info, inner.Body, pv)
				hasPrefix, lastIsNext := false, false
				for _, e := range exprs {
					mentionsCacheOfPrefix := false
					ast.Inspect(e, func(m ast.Node) bool {
						if cl, isC := m.(*ast.CallExpr); isC && (builtinCall(info, cl, "len") != nil || builtinCall(info, cl, "cap") != nil) {
							return false // only the length is used, not the elements
						}
						if id, isId := m.(*ast.Ident); isId {
							// a local that holds the cached path
							if r := resolveLocal(info, inner.Body, id); r != ast.Expr(id) {
								m = ast.Unparen(r)
							}
						}
						if ix, isIx := m.(*ast.IndexExpr); isIx && eng.IsField(info, ix.X, pathsCache) && eng.SelObj(info, ix.Index) == prefix {
							mentionsCacheOfPrefix = true
						}
						return true
					})
					if mentionsCacheOfPrefix {
						hasPrefix = true
					}
					lastIsNext = false
					if ap := builtinCall(info, e, "append"); ap != nil && len(ap.Args) == 2 && !ap.Ellipsis.IsValid() && eng.SelObj(info, ap.Args[1]) == next {
						lastIsNext = true
					}
				}
				if hasPrefix && lastIsNext {
					stored = true
				}
				return true
			})
			ok = argOK && stored
			// every round extends the whole cache: the prefixes come from a call, evaluated inside the round loop, of a
			// chain method that reads PathsCache (a locally kept subset - a "frontier" - forgets the paths that earlier
			// requests left in the cache, and the search gives up although a chain exists)
			fromCache := false
			if outer != nil {
				src := outer.X
				if lv, isV := eng.SelObj(info, src).(*types.Var); isV && !lv.IsField() {
					// a local assigned once, inside the round loop
					if es := eng.AssignedExprs(info, f.Decl.Body, lv); len(es) == 1 {
						if rl := eng.LoopOf(f.Decl.Body, es[0].Pos()); rl != nil && rl == eng.LoopOf(f.Decl.Body, outer.Pos()-1) {
							src = es[0]
						}
					}
				}
				if oc, isC := ast.Unparen(src).(*ast.CallExpr); isC {
					if fn, isF := eng.CalleeOf(info, oc).(*types.Func); isF {
						if cf := p.FuncOf(fn); cf != nil && cf.Decl.Body != nil {
							ast.Inspect(cf.Decl.Body, func(m ast.Node) bool {
								if sel, isS := m.(*ast.SelectorExpr); isS && cf.Pkg.TypesInfo.Uses[sel.Sel] == types.Object(pathsCache) {
									fromCache = true
								}
								return true
							})
						}
					}
				}
				if eng.IsField(info, outer.X, pathsCache) {
					fromCache = true
				}
				inRound := false
				for _, st := range eng.EnclosingStmts(f.Decl.Body, outer.Pos()) {
					if fs, isF := st.(*ast.ForStmt); isF && ast.Stmt(fs) != ast.Stmt(outer) {
						inRound = true
					}
				}
				if !inRound {
					fromCache = false
				}
			}
			r6.Check(fromCache, f.Key+" every-round-extends-the-whole-cache", pos, "the prefixes of a round are recomputed from PathsCache", "the paths extended in a round are not recomputed from the whole paths cache: paths cached by earlier requests are never extended, and a conversion chain that exists is reported as not found")
		}
		r6.Check(ok, f.Key+" path-extension", pos, "newPath = PathsCache[prefix] ++ [next], next from NextRules(prefix.ToVersion)", "a cached path is not built as `cached path of the prefix rule followed by a rule that starts at the prefix's ToVersion`")
	}
}

func isBoolVar(v *types.Var) bool {
	b, ok := v.Type().Underlying().(*types.Basic)
	return ok && b.Kind() == types.Bool
}

// reachFromEdge returns the nodes reachable when edge e is taken.
func reachFromEdge(g *eng.Graph, e *eng.GEdge) map[*eng.GNode]bool {
	out := map[*eng.GNode]bool{}
	work := []*eng.GNode{e.To}
	for len(work) > 0 {
		n := work[len(work)-1]
		work = work[:len(work)-1]
		if out[n] {
			continue
		}
		out[n] = true
		for _, s := range n.Succ {
			work = append(work, s.To)
		}
	}
	return out
}

func enclosingRange(body *ast.BlockStmt, inner ast.Stmt) (*ast.RangeStmt, bool) {
	var best *ast.RangeStmt
	for _, s := range eng.EnclosingStmts(body, inner.Pos()) {
		if rs, ok := s.(*ast.RangeStmt); ok && ast.Stmt(rs) != inner {
			best = rs
		}
	}
	return best, best != nil
}

// extField finds a struct field of a type in a dependency package.
func extField(p *eng.Prog, pkgPath, typ, field string) *types.Var {
	o := p.ExtObject(pkgPath, typ)
	if o == nil {
		return nil
	}
	st, ok := o.Type().Underlying().(*types.Struct)
	if !ok {
		return nil
	}
	for i := 0; i < st.NumFields(); i++ {
		if st.Field(i).Name() == field {
			return st.Field(i)
		}
	}
	return nil
}

func callsChainAPI(p *eng.Prog, f *eng.Func) bool {
	found := false
	info := f.Pkg.TypesInfo
	ast.Inspect(f.Decl.Body, func(n ast.Node) bool {
		if c, ok := n.(*ast.CallExpr); ok {
			if o := eng.CalleeOf(info, c); o != nil && (nameOf(o) == "FindConversionChain" || nameOf(o) == "SearchPathForRule") {
				found = true
			}
		}
		return !found
	})
	return found
}

type aliasCtx struct {
	p    *eng.Prog
	f    *eng.Func
	info *types.Info
	fld  *types.Var
	seen map[types.Object]bool
}

// mayAlias: expression may share its backing array with an element of the map field fld.
func (a *aliasCtx) mayAlias(e ast.Expr, depth int) bool {
	e = ast.Unparen(e)
	switch t := e.(type) {
	case *ast.IndexExpr:
		if eng.IsField(a.info, t.X, a.fld) {
			return true
		}
		return false
	case *ast.SliceExpr:
		return a.mayAlias(t.X, depth)
	case *ast.Ident:
		v, ok := a.info.Uses[t].(*types.Var)
		if !ok || v.IsField() {
			return false
		}
		if a.seen[v] {
			return false
		}
		a.seen[v] = true
		for _, x := range eng.AssignedExprs(a.info, a.f.Decl, v) {
			if a.mayAlias(x, depth) {
				return true
			}
		}
		// range value over an aliasing container does not alias the container's backing array
		return false
	case *ast.CallExpr:
		if ap := builtinCall(a.info, t, "append"); ap != nil && len(ap.Args) > 0 {
			return a.mayAlias(ap.Args[0], depth)
		}
		fn, ok := eng.CalleeOf(a.info, t).(*types.Func)
		if !ok || depth <= 0 {
			return false
		}
		cf := a.p.FuncOf(fn)
		if cf == nil || cf.Decl.Body == nil {
			// interface method: try implementations
			return false
		}
		sub := &aliasCtx{p: a.p, f: cf, info: cf.Pkg.TypesInfo, fld: a.fld, seen: map[types.Object]bool{}}
		res := false
		eng.InspectNoLit(cf.Decl.Body, func(n ast.Node) bool {
			if r, ok := n.(*ast.ReturnStmt); ok {
				for _, x := range r.Results {
					if sub.mayAlias(x, depth-1) {
						res = true
					}
				}
			}
			return !res
		})
		return res
	}
	return false
}
