// Package rules holds the per-property rule sets (DESIGN.md section 4). Every rule is evaluated on the
// type-checked program loaded from /repo's working tree; subjects are resolved by object identity.
package rules

import (
	"sort"

	"sopverif/eng"
)

// Property is one registered property check.
type Property struct {
	ID          string
	Title       string
	Explanation string   // what is decided / what is not (goes to the evidence file)
	Assumptions []string // property-specific assumptions
	Run         func(c *eng.Ctx)
}

var registry = map[string]*Property{}

func register(p *Property) { registry[p.ID] = p }

func Get(id string) *Property { return registry[id] }

func IDs() []string {
	var ids []string
	for k := range registry {
		ids = append(ids, k)
	}
	sort.Strings(ids)
	return ids
}
