// Package rules holds the per-property rule sets (DESIGN.md section 4). Every rule is evaluated on the
// type-checked program loaded from /repo's working tree; subjects are resolved by object identity.
package rules

import (
	"go/types"
	"sort"
	"strings"

	"sopverif/eng"
)

// Property is one registered property check.
type Property struct {
	ID          string
	Title       string
	Explanation string   // what is decided / what is not (goes to the evidence file)
	Assumptions []string // property-specific assumptions
	Run         func(c *eng.Ctx)
}

var registry = map[string]*Property{}

func register(p *Property) {
	run := p.Run
	p.Run = func(c *eng.Ctx) {
		curProg = c.P
		run(c)
	}
	registry[p.ID] = p
}

// curProg is the program of the property run in progress (rules run one at a time).
var curProg *eng.Prog

// nameOf is o.Name(), except for a function of the reference tree that the normaliser found under another name:
// rules that recognise a product function by its name keep working after a rename.
func nameOf(o types.Object) string {
	if o == nil {
		return ""
	}
	if fn, isF := o.(*types.Func); isF && curProg != nil {
		if f := curProg.FuncOf(fn); f != nil {
			if i := strings.LastIndex(f.Key, "."); i >= 0 && f.Key[i+1:] != fn.Name() {
				return f.Key[i+1:]
			}
		}
	}
	return o.Name()
}

func Get(id string) *Property { return registry[id] }

func IDs() []string {
	var ids []string
	for k := range registry {
		ids = append(ids, k)
	}
	sort.Strings(ids)
	return ids
}
