package rules

import (
	"fmt"
	"go/ast"
	"go/token"
	"go/types"
	"strings"

	"sopverif/eng"
)

func init() {
	register(&Property{
		ID:    "C12",
		Title: "Hook execution contract: inputs via files, outputs read back, temp files gone",
		Explanation: "Decided on Hook.Run, the prepare*File helpers, RunAndLogLines and handleRunHook: (R1) for each temporary file the " +
			"cleanup (deferred os.Remove of that path, only switchable off by DebugKeepTmpFilesVar) is registered on every path from its " +
			"creation to any return; (R2) every file name derives from a uuid.NewV4() evaluated in that call, output files start empty, the " +
			"context file holds the rendered contexts; (R3) each path is exported under its documented variable name, the same paths are " +
			"read back after the run, the process runs in the hook's directory with the hook as executable; (R4) a non-zero exit and any " +
			"unreadable/unparsable output is returned as an error; (R5) Hook.Run is started only from handleRunHook. The per-execution variables come after anything inherited from the operator's environment (R3). NOT decided: what the " +
			"child process actually sees (OS), concurrent executions beyond name uniqueness.",
		Run: runC12,
	})
}

var prepareFns = []string{"prepareBindingContextJsonFile", "prepareMetricsFile", "prepareAdmissionResponseFile", "prepareConversionResponseFile", "prepareObjectPatchFile"}

func runC12(c *eng.Ctx) {
	p := c.P
	run := p.Func(pkgHook + ".(*Hook).Run")
	r1 := c.Rule("C12.R1", "B:acquire/release pairing", "every temporary file created for a run has its os.Remove registered (defer) on every path from the creation to any return of the creating function", 5)
	r3 := c.Rule("C12.R3", "D:provenance", "paths are exported as BINDING_CONTEXT_PATH, METRICS_PATH, CONVERSION_RESPONSE_PATH, VALIDATING_RESPONSE_PATH, ADMISSION_RESPONSE_PATH, KUBERNETES_PATCH_PATH; outputs are read back from the same paths; cwd = dir of the hook, executable = hook path", 11)
	if run == nil {
		r1.Unknown("anchor:Hook.Run", token.NoPos, "not found")
		r3.Unknown("anchor:Hook.Run", token.NoPos, "not found")
	}
	prep := map[*types.Func]string{}
	for _, n := range prepareFns {
		if m := p.Method(pkgHook, "Hook", n); m != nil {
			prep[m] = n
		} else {
			r1.Unknown("anchor:"+n, token.NoPos, "helper not found")
		}
	}
	// R1: every call site of a prepare function, wherever it is
	pathVarOf := map[string]types.Object{} // prepare name -> path variable in Run
	for m, name := range prep {
		for _, s := range p.Sites(m) {
			f := s.In
			c.Touch(f)
			g := p.GraphOf(f)
			if s.InLit != nil {
				g = p.GraphOfLit(s.InLit)
			}
			info := f.Pkg.TypesInfo
			construct := fmt.Sprintf("%s creates %s", s.Where(), strings.TrimPrefix(name, "prepare"))
			node := g.NodeOf(s.Call)
			var pathVar types.Object
			if as, ok := node.Node.(*ast.AssignStmt); ok && len(as.Lhs) == 2 {
				pathVar = eng.SelObj(info, as.Lhs[0])
			}
			if pathVar == nil {
				r1.Unknown(construct, s.Call.Pos(), "unrecognised idiom: the created path is not bound to a variable (path, err := h.prepare...())")
				continue
			}
			if f == run {
				pathVarOf[name] = pathVar
			}
			removes := func(lit *ast.FuncLit) bool {
				found := false
				ast.Inspect(lit.Body, func(n ast.Node) bool {
					cl, ok := n.(*ast.CallExpr)
					if !ok || !eng.IsPkgFunc(eng.CalleeOf(info, cl), "os", "Remove") || len(cl.Args) != 1 {
						return true
					}
					if eng.SelObj(info, cl.Args[0]) == pathVar {
						found = true
						return true
					}
					// os.Remove(x) for every x of a literal list that names the path variable:
					// for _, x := range []string{a, b, pathVar} { os.Remove(x) }
					el := elemLoopAt(info, lit.Body, cl.Pos())
					if el == nil || !el.IsElem(cl.Args[0]) {
						return true
					}
					list, isList := ast.Unparen(resolveLocal(info, lit.Body, el.Base)).(*ast.CompositeLit)
					l := p.LitOf(lit)
					if !isList || l == nil {
						return true
					}
					lg := p.GraphOfLit(l)
					for _, elt := range list.Elts {
						if eng.SelObj(info, elt) == pathVar && lg != nil && loopNoEarlyExit(lg, el.Stmt) &&
							loopBodyMustPass(lg, el.Stmt, func(m *eng.GNode) bool { return lg.NodeOf(cl) == m }) {
							found = true
						}
					}
					return true
				})
				return found
			}
			// only DebugKeepTmpFilesVar may switch the removal off
			guardOK := func(lit *ast.FuncLit) bool {
				ok := true
				ast.Inspect(lit.Body, func(n ast.Node) bool {
					if is, isIf := n.(*ast.IfStmt); isIf {
						// the condition is exactly one comparison of the debug switch with a constant
						mentions := false
						cond := resolveLocal(info, lit.Body, is.Cond)
						if be, isB := ast.Unparen(cond).(*ast.BinaryExpr); isB && (be.Op == token.NEQ || be.Op == token.EQL) {
							for _, side := range []ast.Expr{be.X, be.Y} {
								if o := eng.SelObj(info, side); o != nil && nameOf(o) == "DebugKeepTmpFilesVar" {
									mentions = true
								}
							}
						}
						if !mentions {
							ok = false
						}
					}
					return true
				})
				return ok
			}
			// polarity of the guard: assuming the debug switch is NOT "yes", every path through the cleanup literal
			// passes an os.Remove (of this path, directly or through the loop form)
			removesUnlessKept := func(lit *ast.FuncLit) bool {
				l := p.LitOf(lit)
				if l == nil {
					return false
				}
				lg := p.GraphOfLit(l)
				notKept := func(fc eng.Fact) bool {
					x, y, eq, ok := eng.EqAtom(fc)
					if !ok {
						return false
					}
					for i := 0; i < 2; i++ {
						if o := eng.SelObj(info, x); o != nil && nameOf(o) == "DebugKeepTmpFilesVar" {
							if v, isC := eng.ConstStr(info, y); isC && v == "yes" {
								return !eq
							}
						}
						x, y = y, x
					}
					return false
				}
				isRemove := func(n *eng.GNode) bool {
					return len(lg.CallsAt(n, func(o types.Object, _ *ast.CallExpr) bool { return eng.IsPkgFunc(o, "os", "Remove") })) > 0
				}
				// a removal loop counts when its body must pass the removal; treat the loop head as the removal then
				loopHeads := []func(*eng.GNode) bool{}
				for _, el := range elemLoopsOver(info, lit.Body, func(ast.Expr) bool { return true }) {
					if loopBodyMustPass(lg, el.Stmt, isRemove) {
						loopHeads = append(loopHeads, isLoopHeadOf(el.Stmt))
					}
				}
				via := func(n *eng.GNode) bool {
					if isRemove(n) && eng.LoopOf(lit.Body, n.Node.Pos()) == nil {
						return true
					}
					for _, h := range loopHeads {
						if h(n) {
							return true
						}
					}
					return false
				}
				reach := lg.Reach(eng.Query{FromEntry: true, Assume: notKept, AvoidEdge: lg.Infeasible(notKept), AvoidNode: via})
				for n := range reach {
					if n.Exit && !via(n) {
						return false
					}
				}
				return true
			}
			isCleanup := func(n *eng.GNode) bool {
				d, ok := n.Node.(*ast.DeferStmt)
				if !ok {
					return false
				}
				if fl, isL := ast.Unparen(d.Call.Fun).(*ast.FuncLit); isL {
					return removes(fl) && guardOK(fl) && removesUnlessKept(fl)
				}
				return eng.IsPkgFunc(eng.CalleeOf(info, d.Call), "os", "Remove") && len(d.Call.Args) == 1 && eng.SelObj(info, d.Call.Args[0]) == pathVar
			}
			direct := func(n *eng.GNode) bool {
				if _, isD := n.Node.(*ast.DeferStmt); isD {
					return false
				}
				return len(g.CallsAt(n, func(o types.Object, call *ast.CallExpr) bool {
					return eng.IsPkgFunc(o, "os", "Remove") && len(call.Args) == 1 && eng.SelObj(info, call.Args[0]) == pathVar
				})) > 0
			}
			// (a) cleanup registered before the creation, or (b) on every path after it
			before := g.OnlyVia(node, isCleanup, nil)
			after := g.MustPassToExit(eng.Query{From: []*eng.GNode{node}}, func(n *eng.GNode) bool { return isCleanup(n) || direct(n) })
			if before {
				r1.Ok(construct, s.Call.Pos(), "the deferred cleanup of this path is registered before the file is created")
			} else if after == nil {
				r1.Ok(construct, s.Call.Pos(), "cleanup registered on every path after the creation")
			} else {
				r1.Bad(construct, s.Call.Pos(), fmt.Sprintf("after this temporary file was created the exit at %s can be reached without its removal being registered: when a later preparation step fails the file is left in the temp directory on every retry", g.Describe(after)))
			}
		}
	}

	// R2
	r2 := c.Rule("C12.R2", "D2:derived-from", "each temp file name derives from uuid.NewV4() evaluated in the creating call (unique per execution); output files are created empty, the context file holds context.Json()", 10)
	for _, name := range prepareFns {
		f := r2.NeedFunc(pkgHook + ".(*Hook)." + name)
		if f == nil {
			continue
		}
		info := f.Pkg.TypesInfo
		calls := callsIn(info, f.Decl.Body, func(o types.Object, _ *ast.CallExpr) bool {
			return eng.IsPkgFunc(o, "os", "WriteFile") || eng.IsPkgFunc(o, "os", "Create")
		})
		if len(calls) != 1 {
			r2.Unknown(f.Key+" write", f.Decl.Pos(), fmt.Sprintf("expected one os.WriteFile, found %d", len(calls)))
			continue
		}
		call := calls[0]
		or := p.Origins(f, call.Args[0], 0)
		uniq := or.HasCallTo("github.com/gofrs/uuid/v5", "NewV4")
		r2.Check(uniq, f.Key+" unique-name", call.Pos(), "file name derives from uuid.NewV4()", "the temporary file name does not derive from a fresh uuid: two executions (other hooks with the same safe name, other queues) can share, truncate and delete each other's files")
		// returned path is the written path
		// (success value, nil) pairs: `return P, nil`, or `r0, r1 = P, nil` into the variables that are returned
		retOK := false
		written := eng.SelObj(info, resolveLocal(info, f.Decl.Body, call.Args[0]))
		if written == nil {
			written = eng.SelObj(info, call.Args[0])
		}
		samePath := func(e ast.Expr) bool {
			o := eng.SelObj(info, e)
			if o == nil {
				return false
			}
			if o == written || o == eng.SelObj(info, call.Args[0]) {
				return true
			}
			ro := eng.SelObj(info, resolveLocal(info, f.Decl.Body, e))
			return ro != nil && (ro == written || ro == eng.SelObj(info, call.Args[0]))
		}
		returned := map[types.Object]bool{}
		eng.InspectNoLit(f.Decl.Body, func(n ast.Node) bool {
			if r, ok := n.(*ast.ReturnStmt); ok && len(r.Results) == 2 {
				if eng.IsNil(info, r.Results[1]) {
					retOK = samePath(r.Results[0])
				} else if a, b := eng.SelObj(info, r.Results[0]), eng.SelObj(info, r.Results[1]); a != nil && b != nil {
					returned[a], returned[b] = true, true
				}
			}
			return true
		})
		eng.InspectNoLit(f.Decl.Body, func(n ast.Node) bool {
			if as, ok := n.(*ast.AssignStmt); ok && len(as.Lhs) == 2 && len(as.Rhs) == 2 && eng.IsNil(info, as.Rhs[1]) &&
				returned[eng.SelObj(info, as.Lhs[0])] && returned[eng.SelObj(info, as.Lhs[1])] {
				retOK = samePath(as.Rhs[0])
			}
			return true
		})
		if name == "prepareBindingContextJsonFile" {
			prm := paramLike(f.Obj.Type().(*types.Signature), 0, typeNamed("binding_context", "BindingContextList"))
			contentOK := false
			if len(call.Args) >= 2 {
				if v, isV := eng.SelObj(info, call.Args[1]).(*types.Var); isV {
					for _, e := range eng.AssignedExprs(info, f.Decl.Body, v) {
						if cl, isC := ast.Unparen(e).(*ast.CallExpr); isC && isCallNamed(info, cl, "Json") && eng.UsesObj(info, cl, prm, false) {
							contentOK = true
						}
					}
				}
			}
			r2.Check(contentOK && retOK, f.Key+" content", call.Pos(), "content = context.Json(), the written path is returned", "the binding context file does not hold the JSON of the given contexts (or another path is returned)")
		} else {
			empty := false
			if len(call.Args) >= 2 {
				// the content argument, also when it travels through a local (a shared constructor's parameter)
				content := ast.Unparen(resolveLocal(info, f.Decl.Body, call.Args[1]))
				if cl, isC := content.(*ast.CompositeLit); isC && len(cl.Elts) == 0 {
					empty = true
				}
				if eng.IsNil(info, content) {
					empty = true
				}
			}
			r2.Check(empty && retOK, f.Key+" content", call.Pos(), "created empty, the written path is returned", "an output file is not created empty (or another path is returned): stale content would be parsed as the hook's output")
		}
	}

	// R3
	if run != nil {
		info := run.Pkg.TypesInfo
		want := map[string]string{
			"BINDING_CONTEXT_PATH": "prepareBindingContextJsonFile", "METRICS_PATH": "prepareMetricsFile", "CONVERSION_RESPONSE_PATH": "prepareConversionResponseFile",
			"VALIDATING_RESPONSE_PATH": "prepareAdmissionResponseFile", "ADMISSION_RESPONSE_PATH": "prepareAdmissionResponseFile", "KUBERNETES_PATCH_PATH": "prepareObjectPatchFile",
		}
		got := map[string]types.Object{}
		var envsVar types.Object
		eng.InspectNoLit(run.Decl.Body, func(n ast.Node) bool {
			as, ok := n.(*ast.AssignStmt)
			if !ok || len(as.Rhs) != 1 {
				return true
			}
			ap := builtinCall(info, as.Rhs[0], "append")
			if ap == nil || len(ap.Args) < 2 || ap.Ellipsis.IsValid() {
				return true
			}
			for _, a := range ap.Args[1:] {
				if name, val, isB := envBinding(info, a); isB {
					got[name] = pathObj(info, run.Decl.Body, val, pathVarOf)
					envsVar = eng.SelObj(info, as.Lhs[0])
				}
			}
			return true
		})
		for _, name := range []string{"BINDING_CONTEXT_PATH", "METRICS_PATH", "CONVERSION_RESPONSE_PATH", "VALIDATING_RESPONSE_PATH", "ADMISSION_RESPONSE_PATH", "KUBERNETES_PATCH_PATH"} {
			v := got[name]
			r3.Check(v != nil && v == pathVarOf[want[name]], run.Key+" env "+name, run.Decl.Pos(), "bound to the path created by "+want[name], name+" is not exported, or is bound to a file other than the one created by "+want[name])
		}
		// read back
		for _, rb := range []struct{ callee, prep string }{{"MetricOperationsFromFile", "prepareMetricsFile"}, {"ResponseFromFile@admission", "prepareAdmissionResponseFile"}, {"ResponseFromFile@conversion", "prepareConversionResponseFile"}, {"ReadFile", "prepareObjectPatchFile"}} {
			name := strings.Split(rb.callee, "@")[0]
			pkgHint := ""
			if strings.Contains(rb.callee, "@") {
				pkgHint = strings.Split(rb.callee, "@")[1]
			}
			ok := false
			for _, call := range callsIn(info, run.Decl.Body, func(o types.Object, _ *ast.CallExpr) bool {
				return o != nil && o.Name() == name && (pkgHint == "" || (o.Pkg() != nil && strings.HasSuffix(o.Pkg().Path(), pkgHint)))
			}) {
				if len(call.Args) == 1 && pathObj(info, run.Decl.Body, call.Args[0], pathVarOf) == pathVarOf[rb.prep] && pathVarOf[rb.prep] != nil {
					ok = true
				}
			}
			r3.Check(ok, run.Key+" reads back "+rb.callee, run.Decl.Pos(), "output read from the path that was exported", "the output parsed by "+name+" is not read from the file created by "+rb.prep)
		}
		// executor
		pathFld := p.Field(pkgHook, "Hook", "Path")
		ok := false
		for _, call := range callsDeep(info, run.Decl.Body, func(o types.Object, _ *ast.CallExpr) bool { return o != nil && nameOf(o) == "NewExecutor" }) {
			if len(call.Args) == 4 {
				dir, isC := ast.Unparen(call.Args[0]).(*ast.CallExpr)
				dirOK := isC && (eng.IsPkgFunc(eng.CalleeOf(info, dir), "path", "Dir") || eng.IsPkgFunc(eng.CalleeOf(info, dir), "path/filepath", "Dir")) && eng.IsField(info, dir.Args[0], pathFld)
				ok = dirOK && eng.IsField(info, call.Args[1], pathFld) && eng.SelObj(info, call.Args[3]) == envsVar && envsVar != nil
			}
		}
		r3.Check(ok, run.Key+" executor", run.Decl.Pos(), "NewExecutor(dir(h.Path), h.Path, ..., envs)", "the hook process is not started in the hook's own directory with the hook as executable and the prepared environment")
		// the environment is built in a slice this execution owns: every assignment of the variable is a fresh slice
		// (make, literal, nil, os.Environ(), slices.Clone, an append onto one of those) or an append onto itself. A
		// base that lives longer than the execution (a package variable, a cached slice with spare capacity) makes
		// concurrent executions write their *_PATH variables into the same array.
		if ev, isV := envsVar.(*types.Var); isV {
			shared := sharedSliceSource(info, run.Decl.Body, ev)
			pos := run.Decl.Pos()
			detail := ""
			if shared != nil {
				pos = shared.Pos()
				detail = "`" + eng.Short(p.Fset, shared) + "`"
			}
			r3.Check(shared == nil, run.Key+" env slice owned by the execution", pos, "every assignment of the environment is a fresh slice or an append onto itself", "the environment of an execution is built on a slice that outlives it ("+detail+"): two hooks that run at the same time in different queues append their *_PATH variables into the same backing array and one of them starts with the other's files")
		}
		// precedence: os/exec uses the last value of a duplicated key, so the per-execution variables must come after
		// anything inherited from the operator's own environment, in Run and in NewExecutor
		g := p.GraphOf(run)
		isEnviron := func(n *eng.GNode) bool {
			return len(g.CallsAt(n, func(o types.Object, _ *ast.CallExpr) bool {
				return o != nil && nameOf(o) == "Environ" && o.Pkg() != nil && (o.Pkg().Path() == "os" || o.Pkg().Path() == "os/exec")
			})) > 0
		}
		isContract := func(n *eng.GNode) bool {
			as, isA := n.Node.(*ast.AssignStmt)
			if !isA || len(as.Rhs) != 1 {
				return false
			}
			ap := builtinCall(info, as.Rhs[0], "append")
			if ap == nil || len(ap.Args) < 2 || ap.Ellipsis.IsValid() {
				return false
			}
			for _, a := range ap.Args[1:] {
				if name, _, isB := envBinding(info, a); isB && strings.HasSuffix(name, "_PATH") {
					return true
				}
			}
			return false
		}
		var contract []*eng.GNode
		for _, n := range g.Nodes {
			if isContract(n) {
				contract = append(contract, n)
			}
		}
		late := false
		for n := range g.Reach(eng.Query{From: contract}) {
			if isEnviron(n) {
				late = true
			}
		}
		r3.Check(!late && len(contract) > 0, run.Key+" env precedence", run.Decl.Pos(), "the operator's own environment is added before the per-execution variables", "the operator's environment is appended after the per-execution *_PATH variables: a variable of the same name in the operator's environment (e.g. METRICS_PATH in the Pod spec) overrides the unique path of this execution")
		if ne, _ := p.Object("pkg/executor", "NewExecutor").(*types.Func); ne == nil {
			r3.Unknown("anchor:NewExecutor", token.NoPos, "not found")
		} else if nf := p.FuncOf(ne); nf != nil {
			c.Touch(nf)
			ninfo := nf.Pkg.TypesInfo
			envsPrm := ne.Type().(*types.Signature).Params().At(3)
			okTail, nstores := true, 0
			ast.Inspect(nf.Decl.Body, func(x ast.Node) bool {
				as, isA := x.(*ast.AssignStmt)
				if !isA || len(as.Lhs) != 1 || len(as.Rhs) != 1 {
					return true
				}
				sel, isS := ast.Unparen(as.Lhs[0]).(*ast.SelectorExpr)
				if !isS || sel.Sel.Name != "Env" {
					return true
				}
				rhs := as.Rhs[0]
				if lv, isV := eng.SelObj(ninfo, rhs).(*types.Var); isV && !lv.IsField() {
					if es := eng.AssignedExprs(ninfo, nf.Decl.Body, lv); len(es) == 1 {
						rhs = es[0]
					}
				}
				if !eng.UsesObj(ninfo, rhs, envsPrm, false) {
					return true
				}
				nstores++
				ap := builtinCall(ninfo, rhs, "append")
				if ap == nil || len(ap.Args) != 2 || !ap.Ellipsis.IsValid() || eng.SelObj(ninfo, ap.Args[1]) != types.Object(envsPrm) || eng.UsesObj(ninfo, ap.Args[0], envsPrm, false) {
					okTail = false
				}
				return true
			})
			r3.Check(okTail && nstores > 0, nf.Key+" env precedence", nf.Decl.Pos(), "cmd.Env = append(<inherited>, envs...)", "NewExecutor does not put the caller's variables last in cmd.Env: inherited variables of the same name win over the per-execution ones")
		}
	}

	// R4 error flow of Run + RunAndLogLines
	r4 := c.Rule("C12.R4", "I:error-flow", "non-zero exit -> error; after a zero exit each output is read and a parse/read error is returned (Hook.Run, RunAndLogLines)", 6)
	runHookFailureIsError(c, r4)
	// a malformed metrics file fails the execution: the stream is decoded to its end
	streamDecodedToEOF(c, r4, pkgMOp+".MetricOperationsFromReader")

	// R6 a zero exit is a success: nothing makes Wait fail after the process has exited with status 0
	r6 := c.Rule("C12.R6", "G:who-may-write", "no product code sets os/exec.Cmd.WaitDelay or Cmd.Cancel: with either, Wait reports an error (ErrWaitDelay, the Cancel error) for a process that exited with status 0", 1)
	runC12R6(c, r6)

	// R5 who runs hooks
	r5 := c.Rule("C12.R5", "C:who-calls", "Hook.Run is called only from handleRunHook; the hook executable is started for --config only from loadHook", 2)
	whoCalls(c, r5, p.Method(pkgHook, "Hook", "Run"), "Hook.Run", map[string]string{pkgOp + ".(*ShellOperator).handleRunHook": "the single place that executes a hook for a task"},
		"a hook process is started outside handleRunHook: the execution bypasses rate limiting, result handling and the task queue")
	// and once: a second execution in the same handler (a warm-up, a retry in place) runs the hook with other inputs
	// than the task's and outside the result handling
	if run := p.Method(pkgHook, "Hook", "Run"); run != nil {
		n := 0
		inLoop := false
		for _, s := range p.SitesDyn(run) {
			if s.In != nil && s.In.Key == pkgOp+".(*ShellOperator).handleRunHook" {
				n++
				if eng.LoopOf(s.In.Decl.Body, s.Call.Pos()) != nil {
					inLoop = true
				}
			}
		}
		r5.Check(n == 1 && !inLoop, "Hook.Run once per handleRunHook", token.NoPos, "one call, outside loops", fmt.Sprintf("handleRunHook executes the hook at %d places (in a loop: %v): a task must lead to exactly one execution", n, inLoop))
	}
	whoCalls(c, r5, p.Method(pkgHook, "Manager", "execCommandOutput"), "Manager.execCommandOutput", map[string]string{pkgHook + ".(*Manager).loadHook": "--config at load time"},
		"the hook executable is started from an unexpected place")
}

// whoCalls records one obligation per call site of fn: allowed callers are listed with a reason.
func whoCalls(c *eng.Ctx, r *eng.RuleCtx, fn *types.Func, what string, allowed map[string]string, badDetail string) {
	p := c.P
	if fn == nil {
		r.Unknown("anchor:"+what, token.NoPos, "not found")
		return
	}
	for _, ref := range p.Refs(fn) {
		r.Bad("value-ref:"+ref.Where()+"->"+what, ref.Node.Pos(), what+" is taken as a function value: its callers cannot be enumerated")
	}
	sites := p.SitesDyn(fn)
	for _, s := range sites {
		if s.In == nil {
			continue
		}
		c.Touch(s.In)
		construct := "call:" + s.Where() + "->" + what
		if why, ok := allowed[s.In.Key]; ok {
			r.Ok(construct, s.Call.Pos(), "allowed caller: "+why)
		} else {
			r.Bad(construct, s.Call.Pos(), badDetail)
		}
	}
	if len(sites) == 0 {
		r.Unknown("callers of "+what, token.NoPos, "no call site found (the anchor is not used any more?)")
	}
}

// envBinding recognises one `NAME=value` element of an environment list: fmt.Sprintf("NAME=%s", v) or the
// concatenation <constant ending in "="> + v (the constant part may be built from named constants).
func envBinding(info *types.Info, e ast.Expr) (string, ast.Expr, bool) {
	e = ast.Unparen(e)
	if cl, isC := e.(*ast.CallExpr); isC && eng.IsPkgFunc(eng.CalleeOf(info, cl), "fmt", "Sprintf") && len(cl.Args) == 2 {
		if fs, isS := eng.ConstStr(info, cl.Args[0]); isS && strings.HasSuffix(fs, "=%s") {
			return strings.TrimSuffix(fs, "=%s"), cl.Args[1], true
		}
	}
	if b, isB := e.(*ast.BinaryExpr); isB && b.Op == token.ADD {
		if pre, isS := eng.ConstStr(info, b.X); isS && strings.HasSuffix(pre, "=") && len(pre) > 1 {
			return strings.TrimSuffix(pre, "="), b.Y, true
		}
	}
	return "", nil, false
}

// runHookFailureIsError is the body of C12.R4, shared as C14.R8 and C15.R8: a hook process that does not end with a
// zero exit (also one killed by a signal: cmd.Run's error, not a comparison of exit codes, decides) is an error of
// RunAndLogLines and of Hook.Run, and so are unreadable or malformed output files; the webhook handlers turn that
// error into a denial (C14.R2) resp. a Failed answer (C15.R5).
func runHookFailureIsError(c *eng.Ctx, r4 *eng.RuleCtx) {
	p := c.P
	if run := p.Func(pkgHook + ".(*Hook).Run"); run != nil {
		names := map[string]bool{"RunAndLogLines": true, "MetricOperationsFromFile": true, "ResponseFromFile": true, "ReadFile": true}
		checkErrSites(r4, run, func(o types.Object) bool { return names[o.Name()] }, nil, nil)
	}
	if f := r4.NeedFunc(pkgExec + ".(*Executor).RunAndLogLines"); f != nil {
		checkErrSites(r4, f, func(o types.Object) bool { return nameOf(o) == "Run" }, nil, nil)
	}
}

// runC12R6: exec.Cmd.Wait returns nil for exit status 0 unless the pipes cannot be drained in WaitDelay (a hook that
// leaves a background process holding its stdout) or Cancel was invoked. Both are opt-in fields of exec.Cmd; the
// property "non-zero exit is a failure, after a zero exit the outputs are parsed" needs them unset (or zero).
func runC12R6(c *eng.Ctx, r *eng.RuleCtx) {
	p := c.P
	cmd, _ := p.ExtObject("os/exec", "Cmd").(*types.TypeName)
	if cmd == nil {
		r.Unknown("anchor:os/exec.Cmd", token.NoPos, "type not found")
		return
	}
	st, _ := cmd.Type().Underlying().(*types.Struct)
	flds := map[*types.Var]bool{}
	for i := 0; st != nil && i < st.NumFields(); i++ {
		if n := st.Field(i).Name(); n == "WaitDelay" || n == "Cancel" {
			flds[st.Field(i)] = true
		}
	}
	if len(flds) != 2 {
		r.Unknown("anchor:os/exec.Cmd.WaitDelay/Cancel", token.NoPos, "fields not found")
		return
	}
	n := 0
	for _, pk := range p.Pkgs {
		info := pk.TypesInfo
		zero := func(e ast.Expr) bool {
			if tv, ok := info.Types[e]; ok && (tv.IsNil() || tv.Value != nil && tv.Value.String() == "0") {
				return true
			}
			return false
		}
		for _, f := range pk.Syntax {
			if strings.HasSuffix(p.Fset.Position(f.Pos()).Filename, "_test.go") {
				continue
			}
			ast.Inspect(f, func(nd ast.Node) bool {
				switch t := nd.(type) {
				case *ast.AssignStmt:
					for i, l := range t.Lhs {
						sel, ok := ast.Unparen(l).(*ast.SelectorExpr)
						if !ok {
							continue
						}
						if v, _ := info.Uses[sel.Sel].(*types.Var); v != nil && flds[v] {
							if len(t.Lhs) == len(t.Rhs) && zero(t.Rhs[i]) {
								continue
							}
							n++
							r.Bad("exec.Cmd."+v.Name()+" set", t.Pos(), "a hook that exits with status 0 can now be reported as failed (Wait returns an error although the exit status is 0): its outputs are not applied and the task is retried")
						}
					}
				case *ast.KeyValueExpr:
					if id, ok := t.Key.(*ast.Ident); ok {
						if v, _ := info.Uses[id].(*types.Var); v != nil && flds[v] && !zero(t.Value) {
							n++
							r.Bad("exec.Cmd."+v.Name()+" set", t.Pos(), "a hook that exits with status 0 can now be reported as failed (Wait returns an error although the exit status is 0): its outputs are not applied and the task is retried")
						}
					}
				}
				return true
			})
		}
	}
	r.Ok("stores to exec.Cmd.WaitDelay / Cancel enumerated", token.NoPos, fmt.Sprintf("%d non-zero store(s) in the product packages", n))
}

// pathObj names the variable behind e: e itself, or - when e is a local that is assigned exactly once from another
// variable (a copy made by a helper's parameter or a result struct) - the first variable of that chain that is one of
// the path variables.
func pathObj(info *types.Info, body ast.Node, e ast.Expr, pathVars map[string]types.Object) types.Object {
	first := eng.SelObj(info, e)
	for i := 0; i < 4; i++ {
		o := eng.SelObj(info, e)
		for _, pv := range pathVars {
			if o != nil && pv == o {
				return o
			}
		}
		id, ok := ast.Unparen(e).(*ast.Ident)
		if !ok {
			break
		}
		v, isV := info.ObjectOf(id).(*types.Var)
		if !isV || v.IsField() {
			break
		}
		es := eng.AssignedExprs(info, body, v)
		if len(es) != 1 {
			break
		}
		e = es[0]
	}
	return first
}
