package rules

import (
	"fmt"
	"go/ast"
	"go/token"
	"go/types"
	"sort"
	"strings"

	"sopverif/eng"
)

func init() {
	register(&Property{
		ID:    "C02",
		Title: "Synchronization objects and snapshots equal the set of matching objects",
		Explanation: "Decided on monitor.Snapshot, the informer cache maintenance, the ordering type, UpdateSnapshots and the config group merge: " +
			"(R1) a snapshot is the concatenation of the caches of every static and every varying informer, sorted before it is returned; " +
			"(R2) the initial list stages every listed object and copies every staged entry into the cache; Added/Modified always store the " +
			"object's fresh filter result under resourceId(obj), Deleted always deletes that key; (R3) the comparator reads namespace and " +
			"name of both operands, resourceId is built from namespace, kind and name only; (R4) inside one execution a binding's snapshot " +
			"is fetched at most once: every SnapshotsFor call is guarded by a miss in a cache map created once per UpdateSnapshots call, " +
			"snapshots entries and refreshed Synchronization objects are read from that cache, and each context gets a fresh snapshots " +
			"map filled from its own (type, name); (R5) getIncludeSnapshotsFrom covers every binding type that can carry snapshots, the " +
			"five group-merge loops and the Check* functions agree; (R6) the cache is copied under its lock; (R7) one informer per " +
			"distinct name/namespace (de-duplicating producer). (R8) shared-informer lifetime as in C01.R13; (R9) every watch event updates the cache before the handler can return. NOT decided: equality with the real cluster once quiet and after restart " +
			"(API server / informer semantics), consistency of a snapshot read while changes arrive beyond 'copied under the lock'.",
		Run: runC02,
	})
}

func runC02(c *eng.Ctx) {
	p := c.P
	// ---- R1
	r1 := c.Rule("C02.R1", "B:must-pass", "monitor.Snapshot appends getCachedObjects() of every static and every varying informer and sorts before returning", 3)
	if f := r1.NeedFunc(pkgKem + ".(*monitor).Snapshot"); f != nil {
		info := f.Pkg.TypesInfo
		g := p.GraphOf(f)
		resInf := p.Field(pkgKem, "monitor", "ResourceInformers")
		getCached := p.Method(pkgKem, "resourceInformer", "getCachedObjects")
		rangeValue := p.Method(pkgKem, "varyingInformers", "RangeValue")
		res := resultVarOf(f)
		appendsCache := func(gr *eng.Graph, isElem func(ast.Expr) bool) func(*eng.GNode) bool {
			return func(n *eng.GNode) bool {
				as, ok := n.Node.(*ast.AssignStmt)
				if !ok || len(as.Lhs) != 1 || eng.SelObj(info, as.Lhs[0]) != res {
					return false
				}
				ap := builtinCall(info, as.Rhs[0], "append")
				if ap == nil || len(ap.Args) != 2 || !ap.Ellipsis.IsValid() || eng.SelObj(info, ap.Args[0]) != res {
					return false
				}
				cl, isC := ast.Unparen(ap.Args[1]).(*ast.CallExpr)
				if !isC || eng.CalleeOf(info, cl) != getCached {
					return false
				}
				s, isS := ast.Unparen(cl.Fun).(*ast.SelectorExpr)
				return isS && isElem(s.X)
			}
		}
		static := false
		for _, el := range elemLoopsOver(info, f.Decl.Body, func(x ast.Expr) bool { return eng.IsField(info, x, resInf) }) {
			static = loopNoEarlyExit(g, el.Stmt) && loopBodyMustPass(g, el.Stmt, appendsCache(g, el.IsElem))
		}
		r1.Check(static, f.Key+" static-informers", f.Decl.Pos(), "every static informer's cache is appended", "the caches of the static informers are not all part of the snapshot")
		varying := false
		for _, l := range litsPassedTo(f, info, rangeValue) {
			lg := p.GraphOfLit(l)
			for _, el := range elemLoopsOver(info, l.Lit.Body, func(ast.Expr) bool { return true }) {
				varying = loopNoEarlyExit(lg, el.Stmt) && loopBodyMustPass(lg, el.Stmt, appendsCache(lg, el.IsElem))
			}
			if n := g.NodeOf(l.ArgOf); n != nil && varying {
				varying = g.MustPassToExit(eng.Query{FromEntry: true}, func(m *eng.GNode) bool { return m == n }) == nil
			}
		}
		r1.Check(varying, f.Key+" varying-informers", f.Decl.Pos(), "every varying informer's cache is appended", "objects of dynamically discovered namespaces are missing from snapshots")
		isSort := func(n *eng.GNode) bool {
			return len(g.CallsAt(n, func(o types.Object, call *ast.CallExpr) bool {
				fn, ok := o.(*types.Func)
				if !ok || fn.Pkg() == nil || (fn.Pkg().Path() != "sort" && fn.Pkg().Path() != "slices") {
					return false
				}
				return len(call.Args) >= 1 && eng.UsesObj(info, call.Args[0], res, false)
			})) > 0
		}
		okSort := true
		nret := 0
		for _, n := range g.Nodes {
			if r, isR := n.Node.(*ast.ReturnStmt); isR && len(r.Results) == 1 && eng.SelObj(info, r.Results[0]) == res {
				nret++
				if !g.OnlyVia(n, isSort, nil) {
					okSort = false
				}
			}
		}
		r1.Check(okSort && nret > 0, f.Key+" sorted", f.Decl.Pos(), "sorted before it is returned", "the snapshot is returned unsorted: its order depends on map iteration and informer order")
	}

	// ---- R2
	r2 := c.Rule("C02.R2", "B+D", "cache maintenance: initial list stages and copies every object; Added/Modified always store, Deleted always deletes, under the key resourceId(obj), the value being applyFilter's result for that object", 4)
	runC02R2(c, r2)

	// ---- R3
	r3 := c.Rule("C02.R3", "D:provenance", "ByNamespaceAndName.Less reads GetNamespace and GetName of both operands (and only those plus ResourceId); resourceId = namespace/kind/name", 2)
	if f := r3.NeedFunc(pkgKemT + ".(ByNamespaceAndName).Less"); f != nil {
		info := f.Pkg.TypesInfo
		reads := map[string]map[string]bool{"GetNamespace": {}, "GetName": {}}
		other := []string{}
		ast.Inspect(f.Decl.Body, func(n ast.Node) bool {
			cl, ok := n.(*ast.CallExpr)
			if !ok {
				return true
			}
			s, isS := ast.Unparen(cl.Fun).(*ast.SelectorExpr)
			if !isS {
				return true
			}
			if m, has := reads[s.Sel.Name]; has {
				// receiver root variable (p or q)
				root := ""
				ast.Inspect(s.X, func(x ast.Node) bool {
					if id, isI := x.(*ast.Ident); isI && root == "" {
						if _, isV := info.Uses[id].(*types.Var); isV {
							root = id.Name
						}
					}
					return true
				})
				m[root] = true
			} else if strings.HasPrefix(s.Sel.Name, "Get") {
				other = append(other, s.Sel.Name)
			}
			return true
		})
		ok := len(reads["GetNamespace"]) >= 2 && len(reads["GetName"]) >= 2 && len(other) == 0
		r3.Check(ok, f.Key, f.Decl.Pos(), "total on (namespace, name) of both operands", fmt.Sprintf("the comparator does not read namespace and name of both operands (namespace of %d, name of %d operands, other getters %v): with an unstable sort the order of a snapshot depends on the input permutation", len(reads["GetNamespace"]), len(reads["GetName"]), other))
	}
	if fo, _ := p.Object(pkgKem, "resourceId").(*types.Func); fo == nil {
		r3.Unknown("anchor:resourceId", token.NoPos, "not found")
	} else {
		f := p.FuncOf(fo)
		c.Touch(f)
		var names []string
		ast.Inspect(f.Decl.Body, func(n ast.Node) bool {
			if cl, ok := n.(*ast.CallExpr); ok {
				if s, isS := ast.Unparen(cl.Fun).(*ast.SelectorExpr); isS && strings.HasPrefix(s.Sel.Name, "Get") {
					names = append(names, s.Sel.Name)
				}
			}
			return true
		})
		sort.Strings(names)
		r3.Check(strings.Join(names, ",") == "GetKind,GetName,GetNamespace", f.Key, f.Decl.Pos(), "namespace/kind/name", fmt.Sprintf("resourceId is built from %v instead of namespace, kind and name: two objects can share a cache key (or one object gets two)", names))
	}

	// ---- R4
	r4 := c.Rule("C02.R4", "B+D", "UpdateSnapshots: SnapshotsFor only on a miss of a per-call cache map; results read from the cache; a fresh snapshots map per context built from its own type and name", 5)
	runC02R4(c, r4)

	// ---- R5
	r5 := c.Rule("C02.R5", "F:table agreement", "getIncludeSnapshotsFrom has an arm for every binding type that carries snapshots; the five group-merge loops and the four Check* functions agree", 12)
	runC02R5(c, r5)

	// ---- R6
	r6 := c.Rule("C02.R6", "A:lockset", "guarded-by: resourceInformer.cachedObjects (cacheLock)", 8)
	guardedBy(r6, pkgKem, "resourceInformer", "cachedObjects", "cacheLock")

	// ---- R7
	r7 := c.Rule("C02.R7", "D+F:dedupe", "informers are created per distinct name and namespace: MonitorConfig.names()/namespaces() return MatchNames only through a de-duplicating producer", 3)
	runC02R7(c, r7)

	// ---- R8 shared informer lifetime (shared with C01.R13): a stopped shared informer freezes the snapshots of the
	// bindings that still use it
	r8 := c.Rule("C02.R8", "D:provenance+C", "a shared informer runs under its factory's detached context and is cancelled only when its last handler registration is removed", 3)
	runSharedInformerLifetime(c, r8)

	// ---- R9 every watch event updates the cache before the handler can return (shared with C01.R4 / C08.R1): an
	// early return (e.g. for a tombstone that is not unwrapped) leaves a deleted object in snapshots for ever
	r9 := c.Rule("C02.R9", "B:must-pass", "handleWatchEvent: every exit other than `stopped` and the filter error is preceded by the cache update", 1)
	if hwe := r9.NeedFunc(pkgKem + ".(*resourceInformer).handleWatchEvent"); hwe != nil {
		evNode, _ := hweEventNode(p, hwe)
		cacheBeforeExit(c, r9, hwe, evNode)
	}

	// ---- R10: a snapshot belongs to the caller
	r11 := c.Rule("C02.R11", "H:idiom", "(shared with C01.R14) the OnAdd handlers do not skip the informer's initial list: a namespace or object that appears between the two lists would stay out of every snapshot", 2)
	runInitialListHandled(c, r11)
	r10 := c.Rule("C02.R10", "D:ownership", "monitor.Snapshot and resourceInformer.getCachedObjects return a slice allocated by that call (a caller renders it later, while other queues take their own snapshots of the same binding)", 2)
	for _, key := range []string{pkgKem + ".(*monitor).Snapshot", pkgKem + ".(*resourceInformer).getCachedObjects"} {
		f := r10.NeedFunc(key)
		if f == nil {
			continue
		}
		info := f.Pkg.TypesInfo
		var bad ast.Expr
		nret := 0
		eng.InspectNoLit(f.Decl.Body, func(n ast.Node) bool {
			ret, isR := n.(*ast.ReturnStmt)
			if !isR || len(ret.Results) != 1 {
				return true
			}
			nret++
			res := ast.Unparen(ret.Results[0])
			if v, isV := eng.SelObj(info, res).(*types.Var); isV && !v.IsField() && isDeclaredIn(info, f.Decl.Body, v) {
				if _, isId := res.(*ast.Ident); isId {
					if e := sharedSliceSource(info, f.Decl.Body, v); e != nil && bad == nil {
						bad = e
					}
					return true
				}
			}
			if !eng.IsNil(info, res) {
				if _, isLit := res.(*ast.CompositeLit); !isLit && builtinCall(info, res, "make") == nil && bad == nil {
					bad = res
				}
			}
			return true
		})
		pos := f.Decl.Pos()
		detail := ""
		if bad != nil {
			pos = bad.Pos()
			detail = "`" + eng.Short(p.Fset, bad) + "`"
		}
		r10.Check(bad == nil && nret > 0, f.Key+" returns its own slice", pos, "the returned slice is allocated by the call", "the snapshot is built on memory that outlives the call ("+detail+"): a later snapshot of the same binding rewrites and re-sorts the list an earlier caller is still rendering - objects appear twice or disappear from that hook run")
	}
}

func runC02R2(c *eng.Ctx, r *eng.RuleCtx) {
	p := c.P
	cached := p.Field(pkgKem, "resourceInformer", "cachedObjects")
	applyF, _ := p.Object(pkgKem, "applyFilter").(*types.Func)
	resID, _ := p.Object(pkgKem, "resourceId").(*types.Func)
	if f := r.NeedFunc(pkgKem + ".(*resourceInformer).loadExistedObjects"); f != nil {
		info := f.Pkg.TypesInfo
		g := p.GraphOf(f)
		// staging loop over the listed items
		var loop ast.Stmt
		for _, el := range elemLoopsOver(info, f.Decl.Body, func(x ast.Expr) bool {
			s, isS := ast.Unparen(x).(*ast.SelectorExpr)
			return isS && s.Sel.Name == "Items"
		}) {
			loop = el.Stmt
		}
		var staged types.Object
		okStage := false
		if loop != nil {
			isStage := func(n *eng.GNode) bool {
				as, ok := n.Node.(*ast.AssignStmt)
				if !ok || len(as.Lhs) != 1 {
					return false
				}
				ix, isIx := ast.Unparen(as.Lhs[0]).(*ast.IndexExpr)
				if !isIx {
					return false
				}
				if v, isV := eng.SelObj(info, ix.X).(*types.Var); isV && !v.IsField() {
					staged = v
					return true
				}
				return eng.IsField(info, ix.X, cached)
			}
			// error returns are the only way around
			bodyEntry := loopBodyEntryOf(g, loop)
			isHead := isLoopHeadOf(loop)
			if bodyEntry != nil {
				okStage = true
				reach := g.Reach(eng.Query{From: []*eng.GNode{bodyEntry}, AvoidNode: isStage})
				for m := range reach {
					if isHead(m) {
						okStage = false
					}
				}
			}
		}
		r.Check(okStage, f.Key+" stages-every-item", f.Decl.Pos(), "every listed object is staged (or the load fails)", "an initially listed object can be skipped: it is missing from the Synchronization objects and from snapshots until it changes")
		okCopy := false
		if staged != nil {
			eng.InspectNoLit(f.Decl.Body, func(n ast.Node) bool {
				rs, ok := n.(*ast.RangeStmt)
				if !ok || eng.SelObj(info, rs.X) != staged || rs.Key == nil || rs.Value == nil {
					return true
				}
				k, v := eng.SelObj(info, rs.Key), eng.SelObj(info, rs.Value)
				okCopy = loopNoEarlyExit(g, rs) && loopBodyMustPass(g, rs, func(m *eng.GNode) bool {
					as, isA := m.Node.(*ast.AssignStmt)
					if !isA || len(as.Lhs) != 1 {
						return false
					}
					ix, isIx := ast.Unparen(as.Lhs[0]).(*ast.IndexExpr)
					return isIx && eng.IsField(info, ix.X, cached) && eng.SelObj(info, ix.Index) == k && eng.SelObj(info, as.Rhs[0]) == v
				})
				return true
			})
		} else if okStage {
			okCopy = true // stored directly into the cache
		}
		if !okCopy && staged != nil {
			// the library form: maps.Copy(ei.cachedObjects, staged) on every path to a normal return
			isCopy := func(m *eng.GNode) bool {
				return len(g.CallsAt(m, func(o types.Object, call *ast.CallExpr) bool {
					return eng.IsPkgFunc(o, "maps", "Copy") && len(call.Args) == 2 && eng.IsField(info, call.Args[0], cached) && eng.SelObj(info, call.Args[1]) == staged
				})) > 0
			}
			hasCopy := false
			for _, m := range g.Nodes {
				if isCopy(m) {
					hasCopy = true
				}
			}
			if hasCopy && loop != nil {
				okCopy = true
				// once the staging loop is done, every return of a nil error passes the copy
				var done []*eng.GNode
				for _, m := range g.Nodes {
					if m.Node == nil && m.Block.Stmt == loop {
						if k := m.Block.Kind.String(); k == "RangeDone" || k == "ForDone" {
							done = append(done, m)
						}
					}
				}
				if len(done) == 0 {
					okCopy = false
				}
				for m := range g.Reach(eng.Query{From: done, AvoidNode: isCopy}) {
					if ret, isR := eng.IsReturn(m); isR && len(ret.Results) > 0 && eng.IsNil(info, ret.Results[len(ret.Results)-1]) {
						okCopy = false
					}
				}
			}
		}
		r.Check(okCopy, f.Key+" copies-all-staged", f.Decl.Pos(), "every staged entry is copied into cachedObjects", "staged objects are not all copied into the cache")
	}
	if f := r.NeedFunc(pkgKem + ".(*resourceInformer).handleWatchEvent"); f != nil {
		info := f.Pkg.TypesInfo
		g := p.GraphOf(f)
		wAdded := p.Object(pkgKemT, "WatchEventAdded")
		wModified := p.Object(pkgKemT, "WatchEventModified")
		wDeleted := p.Object(pkgKemT, "WatchEventDeleted")
		// key variable: assigned from resourceId(obj)
		var keyVar, resVar types.Object
		eng.InspectNoLit(f.Decl.Body, func(n ast.Node) bool {
			if as, ok := n.(*ast.AssignStmt); ok && len(as.Lhs) == 1 && len(as.Rhs) == 1 && isCallTo(info, as.Rhs[0], resID) {
				keyVar = eng.SelObj(info, as.Lhs[0])
			}
			return true
		})
		// result of applyFilter (assigned inside an invoked literal)
		ast.Inspect(f.Decl.Body, func(n ast.Node) bool {
			if as, ok := n.(*ast.AssignStmt); ok && len(as.Lhs) == 2 && len(as.Rhs) == 1 && isCallTo(info, as.Rhs[0], applyF) {
				resVar = eng.SelObj(info, as.Lhs[0])
			}
			return true
		})
		sameObj := copyAliases(info, f.Decl.Body)
		isStore := func(n *eng.GNode) bool {
			as, ok := n.Node.(*ast.AssignStmt)
			if !ok || len(as.Lhs) != 1 {
				return false
			}
			ix, isIx := ast.Unparen(as.Lhs[0]).(*ast.IndexExpr)
			return isIx && eng.IsField(info, ix.X, cached) && keyVar != nil && eng.SelObj(info, ix.Index) == keyVar && resVar != nil && sameObj(eng.SelObj(info, as.Rhs[0]), resVar)
		}
		isDelete := func(*eng.GNode) bool { return false }
		if keyVar != nil {
			isDelete = newMustEffect(p, f, true, func(info *types.Info, n ast.Node, key types.Object) bool {
				es, ok := n.(*ast.ExprStmt)
				if !ok {
					return false
				}
				d := builtinCall(info, es.X, "delete")
				return d != nil && eng.IsField(info, d.Args[0], cached) && key != nil && eng.SelObj(info, d.Args[1]) == key
			}).Node(f, keyVar)
		}
		caseEdge := func(objs ...types.Object) (out []*eng.GEdge) {
			for _, n := range g.Nodes {
				for _, e := range n.Succ {
					if e.Tag != nil && e.Taken {
						for _, o := range objs {
							if eng.SelObj(info, e.Cond) == o {
								out = append(out, e)
							}
						}
					}
				}
			}
			return
		}
		check := func(edges []*eng.GEdge, via func(*eng.GNode) bool, name, okMsg, badMsg string) {
			if len(edges) == 0 {
				r.Unknown(f.Key+" "+name, f.Decl.Pos(), "switch arm not found")
				return
			}
			ok := true
			for _, e := range edges {
				n := e.From
				q := eng.Query{From: []*eng.GNode{n}, AvoidEdge: func(x *eng.GEdge) bool { return x.From == n && x != e }}
				if g.MustPassToExit(q, via) != nil {
					ok = false
				}
			}
			r.Check(ok, f.Key+" "+name, f.Decl.Pos(), okMsg, badMsg)
		}
		check(caseEdge(wAdded, wModified), isStore, "added/modified-store", "cachedObjects[resourceId(obj)] = applyFilter(obj) on every path of the Added/Modified arm", "an Added/Modified change can leave the arm without storing the object's fresh state under its resource id (e.g. kept when the checksum is equal): the full object and anything outside the jq projection go stale in snapshots")
		check(caseEdge(wDeleted), isDelete, "deleted-delete", "delete(cachedObjects, resourceId(obj)) on every path of the Deleted arm", "a Deleted change can leave the arm without removing the object from the cache: it stays in snapshots for ever")
	}
}

func runC02R4(c *eng.Ctx, r *eng.RuleCtx) {
	p := c.P
	f := r.NeedFunc(pkgCtrl + ".(*HookController).UpdateSnapshots")
	if f == nil {
		return
	}
	info := f.Pkg.TypesInfo
	g := p.GraphOf(f)
	snapFor := p.Method(pkgCtrl, "KubernetesBindingsController", "SnapshotsFor")
	snapForC := p.Method(pkgCtrl, "kubernetesBindingsController", "SnapshotsFor")
	getIncl := p.Method(pkgCtrl, "HookController", "getIncludeSnapshotsFrom")
	snapshotsFld := p.Field(pkgBctx, "BindingContext", "Snapshots")
	objectsFld := p.Field(pkgBctx, "BindingContext", "Objects")
	// call sites of SnapshotsFor inside package controller's HookController (excluding SnapshotsFrom of the bindings controller)
	n := 0
	var cacheVars []types.Object
	fetched := map[*types.Var]bool{} // locals that hold a snapshot which is stored into the cache right after it was fetched
	for _, fn := range []*types.Func{snapFor, snapForC} {
		for _, s := range p.Sites(fn) {
			if s.In == nil || !strings.Contains(s.In.Key, "(*HookController)") {
				continue
			}
			n++
			construct := fmt.Sprintf("call:%s->SnapshotsFor#%d", s.Where(), n)
			if s.In != f {
				r.Bad(construct, s.Call.Pos(), "a snapshot is fetched from a helper outside UpdateSnapshots: when the helper runs once per binding context its cache does not span the execution, and the same binding can appear with two different snapshots in one binding context file")
				continue
			}
			sg := g
			if s.InLit != nil {
				sg = p.GraphOfLit(s.InLit)
			}
			node := sg.NodeOf(s.Call)
			// stored into M[key] and guarded by a miss of M[key]
			var m types.Object
			var key ast.Expr
			if as, ok := node.Node.(*ast.AssignStmt); ok && len(as.Lhs) == 1 {
				if ix, isIx := ast.Unparen(as.Lhs[0]).(*ast.IndexExpr); isIx {
					m, key = eng.SelObj(info, ix.X), ix.Index
				} else if lv, isV := eng.SelObj(info, as.Lhs[0]).(*types.Var); isV && !lv.IsField() {
					// v = SnapshotsFor(k) ... M[k] = v : the store must follow on every path before the iteration ends
					var storeNode *eng.GNode
					for _, sn := range sg.Nodes {
						st, isA := sn.Node.(*ast.AssignStmt)
						if !isA || len(st.Lhs) != 1 || len(st.Rhs) != 1 || eng.SelObj(info, st.Rhs[0]) != types.Object(lv) {
							continue
						}
						if ix, isIx := ast.Unparen(st.Lhs[0]).(*ast.IndexExpr); isIx {
							if tv, has := info.Types[ix.X]; has {
								if _, isMap := tv.Type.Underlying().(*types.Map); isMap {
									storeNode = sn
									m, key = eng.SelObj(info, ix.X), ix.Index
								}
							}
						}
					}
					if storeNode != nil {
						reach := sg.Reach(eng.Query{From: []*eng.GNode{node}, AvoidNode: func(x *eng.GNode) bool { return x == storeNode }})
						for x := range reach {
							if x != storeNode && (x.Exit || (x.Node == nil && strings.HasSuffix(x.Block.Kind.String(), "Loop"))) {
								m = nil // a path leaves the iteration without storing the fetched snapshot
							}
						}
					}
					if m != nil {
						fetched[lv] = true
					}
				}
			}
			if m == nil {
				r.Bad(construct, s.Call.Pos(), "the fetched snapshot is not stored in the per-call cache")
				continue
			}
			argOK := len(s.Call.Args) == 1 && eng.Src(p.Fset, s.Call.Args[0]) == eng.Src(p.Fset, key)
			miss := sg.FactEdge(func(fc eng.Fact) bool {
				if fc.Pos || fc.Y != nil {
					return false
				}
				hv := eng.SelObj(info, fc.X)
				found := false
				ast.Inspect(f.Decl.Body, func(x ast.Node) bool {
					if as, ok := x.(*ast.AssignStmt); ok && len(as.Lhs) == 2 && len(as.Rhs) == 1 && eng.SelObj(info, as.Lhs[1]) == hv {
						if ix, isIx := ast.Unparen(as.Rhs[0]).(*ast.IndexExpr); isIx && eng.SelObj(info, ix.X) == m && eng.Src(p.Fset, ix.Index) == eng.Src(p.Fset, key) {
							found = true
						}
					}
					return true
				})
				return found
			})
			guarded := sg.OnlyVia(node, nil, miss)
			r.Check(guarded && argOK, construct, s.Call.Pos(), "fetched only on a cache miss and stored under the same key", "SnapshotsFor is called although the binding's snapshot may already be in the per-call cache (or stored under another key): the same binding can show two different snapshots inside one execution")
			cacheVars = append(cacheVars, m)
		}
	}
	if n == 0 {
		r.Bad(f.Key+" fetches", f.Decl.Pos(), "UpdateSnapshots never fetches snapshots")
		return
	}
	// the cache map is created once per call: a make directly in the function body, outside loops
	for _, m := range cacheVars {
		mv, _ := m.(*types.Var)
		ok := false
		if mv != nil {
			for _, e := range eng.AssignedExprs(info, f.Decl.Body, mv) {
				if mk := builtinCall(info, e, "make"); mk != nil && eng.LoopOf(f.Decl.Body, mk.Pos()) == nil && !insideLit(f, mk.Pos()) {
					ok = true
				} else {
					ok = false
					break
				}
			}
		}
		r.Check(ok, f.Key+" cache-per-call "+m.Name(), m.Pos(), "the cache map is created once per UpdateSnapshots call", "the snapshot cache does not live for exactly one UpdateSnapshots call (created per context, or shared between calls)")
		break
	}
	// reads from the cache: Snapshots[...] entries and Objects
	cacheSet := map[types.Object]bool{}
	for _, m := range cacheVars {
		cacheSet[m] = true
	}
	okObj, okSnap, freshSnap := false, false, true
	nSnapAssign := 0
	eng.InspectNoLit(f.Decl.Body, func(x ast.Node) bool {
		as, ok := x.(*ast.AssignStmt)
		if !ok || len(as.Lhs) != 1 || len(as.Rhs) != 1 {
			return true
		}
		var fromCacheD func(e ast.Expr, depth int) bool
		fromCacheD = func(e ast.Expr, depth int) bool {
			if ix, isIx := ast.Unparen(e).(*ast.IndexExpr); isIx {
				return cacheSet[eng.SelObj(info, ix.X)]
			}
			// a local all of whose values are cache entries (looked up, or fetched and stored into the cache)
			lv, isV := eng.SelObj(info, e).(*types.Var)
			if !isV || lv.IsField() || depth > 3 {
				return false
			}
			exprs := eng.AssignedExprs(info, f.Decl.Body, lv)
			if len(exprs) == 0 {
				return false
			}
			nCache := 0
			for _, x := range exprs {
				if cl, isC := ast.Unparen(x).(*ast.CallExpr); isC && fetched[lv] && (eng.CalleeOf(info, cl) == types.Object(snapFor) || eng.CalleeOf(info, cl) == types.Object(snapForC)) {
					nCache++
					continue
				}
				// the empty list that stands in for "no snapshot" (`if s == nil { s = make([]T, 0) }`)
				if mk := builtinCall(info, x, "make"); mk != nil && len(mk.Args) == 2 {
					if k, isK := eng.ConstInt(info, mk.Args[1]); isK && k == 0 {
						continue
					}
				}
				if !fromCacheD(x, depth+1) {
					return false
				}
				nCache++
			}
			return nCache > 0
		}
		fromCache := func(e ast.Expr) bool { return fromCacheD(e, 0) }
		snapAlias := copyAliases(info, f.Decl.Body)
		if eng.IsField(info, as.Lhs[0], objectsFld) && fromCache(as.Rhs[0]) {
			okObj = true
		}
		// an entry stored into the context's snapshots map, or into the local map that becomes it
		if ix, isIx := ast.Unparen(as.Lhs[0]).(*ast.IndexExpr); isIx && (eng.IsField(info, ix.X, snapshotsFld) || snapAlias(eng.SelObj(info, ix.X), snapshotsFld)) && fromCache(as.Rhs[0]) {
			okSnap = true
		}
		if eng.IsField(info, as.Lhs[0], snapshotsFld) {
			nSnapAssign++
			fresh := builtinCall(info, as.Rhs[0], "make") != nil
			if !fresh {
				if v, isV := eng.SelObj(info, as.Rhs[0]).(*types.Var); isV && !v.IsField() {
					fresh = true
					for _, e := range eng.AssignedExprs(info, f.Decl.Body, v) {
						if builtinCall(info, e, "make") == nil {
							fresh = false
						}
					}
				}
			}
			if !fresh || eng.LoopOf(f.Decl.Body, as.Pos()) == nil {
				freshSnap = false
			}
		}
		return true
	})
	r.Check(okObj && okSnap, f.Key+" reads-from-cache", f.Decl.Pos(), "snapshots entries and refreshed objects are read from the cache", "the snapshots entries or the refreshed Synchronization objects are not taken from the per-call cache")
	r.Check(freshSnap && nSnapAssign > 0, f.Key+" fresh-snapshots-map", f.Decl.Pos(), "each context gets its own new snapshots map", "a binding context does not get its own freshly built `snapshots` map (a map memoised by binding name is shared): contexts of different binding types with the same name receive each other's snapshot keys")
	// keys: one per element of getIncludeSnapshotsFrom(bc.Metadata.BindingType, bc.Binding)
	okKeys := false
	for _, el := range elemLoopsOver(info, f.Decl.Body, func(ast.Expr) bool { return true }) {
		el := el
		src := el.Base
		if v, isV := eng.SelObj(info, el.Base).(*types.Var); isV && !v.IsField() {
			as := eng.AssignedExprs(info, f.Decl.Body, v)
			if len(as) == 1 {
				src = as[0]
			}
		}
		cl, isC := ast.Unparen(src).(*ast.CallExpr)
		if !isC || eng.CalleeOf(info, cl) != getIncl || len(cl.Args) != 2 {
			continue
		}
		s0, ok0 := ast.Unparen(cl.Args[0]).(*ast.SelectorExpr)
		s1, ok1 := ast.Unparen(cl.Args[1]).(*ast.SelectorExpr)
		if !(ok0 && ok1 && s0.Sel.Name == "BindingType" && s1.Sel.Name == "Binding") {
			continue
		}
		okKeys = loopNoEarlyExit(g, el.Stmt) && loopBodyMustPass(g, el.Stmt, func(m *eng.GNode) bool {
			as, isA := m.Node.(*ast.AssignStmt)
			if !isA || len(as.Lhs) != 1 {
				return false
			}
			ix, isIx := ast.Unparen(as.Lhs[0]).(*ast.IndexExpr)
			return isIx && el.IsElem(ix.Index) && (eng.IsField(info, ix.X, snapshotsFld) || eng.SelObj(info, ix.X) != nil)
		})
	}
	r.Check(okKeys, f.Key+" one-key-per-included-binding", f.Decl.Pos(), "one snapshots key for every name in getIncludeSnapshotsFrom(type, binding)", "the keys of `snapshots` are not exactly the bindings listed for this context's (type, name)")
}

func insideLit(f *eng.Func, pos token.Pos) bool {
	for _, l := range f.Lits {
		if l.Lit.Pos() <= pos && pos < l.Lit.End() {
			return true
		}
	}
	return false
}

func runC02R5(c *eng.Ctx, r *eng.RuleCtx) {
	p := c.P
	if f := r.NeedFunc(pkgCtrl + ".(*HookController).getIncludeSnapshotsFrom"); f != nil {
		info := f.Pkg.TypesInfo
		arms := map[string]bool{}
		eng.InspectNoLit(f.Decl.Body, func(n ast.Node) bool {
			if sw, ok := n.(*ast.SwitchStmt); ok {
				for _, cl := range sw.Body.List {
					for _, e := range cl.(*ast.CaseClause).List {
						if o := eng.SelObj(info, e); o != nil {
							arms[o.Name()] = true
						}
					}
				}
			}
			return true
		})
		// all constants of BindingType
		bt := p.Named(pkgHTypes, "BindingType")
		pk := p.Pkg(pkgHTypes)
		for _, name := range pk.Types.Scope().Names() {
			cn, ok := pk.Types.Scope().Lookup(name).(*types.Const)
			if !ok || bt == nil || !types.Identical(cn.Type(), bt) {
				continue
			}
			if name == "OnStartup" {
				r.Check(!arms[name], f.Key+" arm "+name, f.Decl.Pos(), "onStartup carries no snapshots", "onStartup has a snapshots arm")
				continue
			}
			r.Check(arms[name], f.Key+" arm "+name, f.Decl.Pos(), "covered", "binding type "+name+" has no arm in getIncludeSnapshotsFrom: contexts of that type never get their snapshots")
		}
	}
	if f := r.NeedFunc(pkgCfg + ".(*HookConfigV1).ConvertAndCheck"); f != nil {
		info := f.Pkg.TypesInfo
		merge, _ := p.Object(pkgCfg, "MergeArrays").(*types.Func)
		for _, fld := range []string{"OnKubernetesEvents", "Schedules", "KubernetesValidating", "KubernetesMutating", "KubernetesConversion"} {
			fv := p.Field(pkgCfg, "HookConfig", fld)
			ok := false
			for _, el := range elemLoopsOver(info, f.Decl.Body, func(x ast.Expr) bool { return eng.IsField(info, x, fv) }) {
				for _, call := range callsIn(info, el.Body, isObj(merge)) {
					if len(call.Args) == 2 {
						if s, isS := ast.Unparen(call.Args[0]).(*ast.SelectorExpr); isS && s.Sel.Name == "IncludeSnapshotsFrom" && el.IsElem(s.X) {
							ok = true
						}
					}
				}
			}
			r.Check(ok, f.Key+" group-merge "+fld, f.Decl.Pos(), "MergeArrays(cfg.IncludeSnapshotsFrom, group snapshots)", "bindings of kind "+fld+" that share a group do not receive the snapshots of the group's kubernetes bindings")
		}
	}
	check, _ := p.Object(pkgCfg, "CheckIncludeSnapshots").(*types.Func)
	for _, name := range []string{"CheckSchedule", "CheckAdmission", "CheckConversion"} {
		f := r.NeedFunc(pkgCfg + ".(*HookConfigV1)." + name)
		if f == nil {
			continue
		}
		g := p.GraphOf(f)
		n := 0
		ok := true
		for _, call := range callsIn(f.Pkg.TypesInfo, f.Decl.Body, isObj(check)) {
			n++
			if v := errHandled(g, call, nil); !v.OK {
				ok = false
			}
		}
		r.Check(ok && n > 0, f.Key+" checks includeSnapshotsFrom", f.Decl.Pos(), "CheckIncludeSnapshots with the error returned", "unknown or ambiguous includeSnapshotsFrom names are not rejected for this binding kind")
	}
}

func runC02R7(c *eng.Ctx, r *eng.RuleCtx) {
	p := c.P
	for _, name := range []string{"names", "namespaces"} {
		f := r.NeedFunc(pkgKem + ".(*MonitorConfig)." + name)
		if f == nil {
			continue
		}
		info := f.Pkg.TypesInfo
		ok := true
		n := 0
		check := func(e ast.Expr, pos token.Pos) {
			// an expression that carries MatchNames must be wrapped by a de-duplicating function
			mentions := false
			ast.Inspect(e, func(x ast.Node) bool {
				if s, isS := x.(*ast.SelectorExpr); isS && s.Sel.Name == "MatchNames" {
					mentions = true
				}
				return true
			})
			if !mentions {
				return
			}
			n++
			cl, isC := ast.Unparen(e).(*ast.CallExpr)
			if !isC {
				ok = false
				return
			}
			fn, _ := eng.CalleeOf(info, cl).(*types.Func)
			if fn == nil || !isDedupe(p, fn) {
				ok = false
			}
		}
		eng.InspectNoLit(f.Decl.Body, func(x ast.Node) bool {
			switch t := x.(type) {
			case *ast.ReturnStmt:
				for _, e := range t.Results {
					check(e, t.Pos())
				}
			case *ast.AssignStmt:
				for _, e := range t.Rhs {
					// len(...MatchNames) tests are fine
					if builtinCall(info, e, "len") != nil {
						continue
					}
					check(e, t.Pos())
				}
			}
			return true
		})
		r.Check(ok && n > 0, f.Key, f.Decl.Pos(), "MatchNames leave the function only through a de-duplicating producer", "matchNames are handed out as given: a repeated name creates two informers for the same objects, every object appears twice in every snapshot and every change fires twice")
	}
	if fo, _ := p.Object(pkgKem, "uniqueNames").(*types.Func); fo != nil {
		r.Check(isDedupe(p, fo), "pkg/kube_events_manager.uniqueNames", fo.Pos(), "append guarded by a miss in a seen-set keyed by the element", "uniqueNames does not de-duplicate")
	} else {
		r.Unknown("anchor:uniqueNames", token.NoPos, "de-duplicating helper not found")
	}
}

// isDedupe: the function returns a slice built by appends that are reachable only on a miss of a map keyed by the
// appended element (or uses slices.Compact on a sorted copy).
func isDedupe(p *eng.Prog, fn *types.Func) bool {
	f := p.FuncOf(fn)
	if f == nil || f.Decl.Body == nil {
		return false
	}
	info := f.Pkg.TypesInfo
	g := p.GraphOf(f)
	ok := false
	for _, n := range g.Nodes {
		as, isA := n.Node.(*ast.AssignStmt)
		if !isA || len(as.Rhs) != 1 {
			continue
		}
		ap := builtinCall(info, as.Rhs[0], "append")
		if ap == nil || len(ap.Args) != 2 {
			continue
		}
		elem := eng.SelObj(info, ap.Args[1])
		if elem == nil {
			return false
		}
		miss := g.FactEdge(func(fc eng.Fact) bool {
			if fc.Pos || fc.Y != nil {
				return false
			}
			hv := eng.SelObj(info, fc.X)
			found := false
			eng.InspectNoLit(f.Decl.Body, func(x ast.Node) bool {
				if st, isS := x.(*ast.AssignStmt); isS && len(st.Lhs) == 2 && len(st.Rhs) == 1 && eng.SelObj(info, st.Lhs[1]) == hv {
					if ix, isIx := ast.Unparen(st.Rhs[0]).(*ast.IndexExpr); isIx && eng.SelObj(info, ix.Index) == elem {
						found = true
					}
				}
				return true
			})
			return found
		})
		if !g.OnlyVia(n, nil, miss) {
			return false
		}
		// the element is recorded as seen
		rec := false
		eng.InspectNoLit(f.Decl.Body, func(x ast.Node) bool {
			if st, isS := x.(*ast.AssignStmt); isS && len(st.Lhs) == 1 {
				if ix, isIx := ast.Unparen(st.Lhs[0]).(*ast.IndexExpr); isIx && eng.SelObj(info, ix.Index) == elem {
					rec = true
				}
			}
			return true
		})
		if !rec {
			return false
		}
		ok = true
	}
	return ok
}
