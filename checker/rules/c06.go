package rules

import (
	"fmt"
	"go/ast"
	"go/token"
	"go/types"

	"sopverif/eng"
)

func init() {
	register(&Property{
		ID:    "C06",
		Title: "Startup order: onStartup by (order, name), then Synchronization, then the rest",
		Explanation: "Decided on hook_manager, operator bootstrap and the binding controllers: (R1) onStartup hooks are sorted by a stable sort " +
			"over the path-sorted registration order (or by a comparator that reads the name); (R2) Init sorts the discovered paths before " +
			"loading and registers hooks in iteration order; (R3) bootstrapMainQueue queues every onStartup hook (one AddLast per name) " +
			"before the enable tasks, and per hook EnableKubernetesBindings before EnableScheduleBindings; (R4) Start: bootstrap < " +
			"StartMain < events handler < schedule manager; (R5) Synchronization tasks are head tasks of `main` carrying the monitor id and " +
			"executeHookOnSynchronization of their binding; (R6) a Synchronization for v0 hooks or with executeHookOnSynchronization=false " +
			"never reaches handleRunHook; (R7) the combine stop predicate refuses Synchronization tasks that must not run; (R8) schedules " +
			"are registered only by the EnableScheduleBindings task and schedule links exist only while enabled. (R10) every iteration over a hook's kubernetes bindings yields that binding's Synchronization info unless the enable task fails. NOT decided: the order of " +
			"actual executions (needs C03/C05 behaviour), at-least-once under retries.",
		Run: runC06,
	})
}

func runC06(c *eng.Ctx) {
	p := c.P
	// ---- R1
	r1 := c.Rule("C06.R1", "H1:sort idiom", "GetHooksInOrder: the sort of onStartup hooks is stable, or its comparator reads the hook name as a tie-break", 1)
	if f := r1.NeedFunc(pkgHook + ".(*Manager).GetHooksInOrder"); f != nil {
		info := f.Pkg.TypesInfo
		hookName := p.Field(pkgHook, "Hook", "Name")
		n := 0
		for _, call := range callsIn(info, f.Decl.Body, func(o types.Object, _ *ast.CallExpr) bool {
			fn, ok := o.(*types.Func)
			return ok && fn.Pkg() != nil && (fn.Pkg().Path() == "sort" || fn.Pkg().Path() == "slices")
		}) {
			fn := eng.CalleeOf(info, call).(*types.Func)
			n++
			name := fn.Pkg().Path() + "." + fn.Name()
			switch name {
			case "sort.SliceStable", "sort.Stable", "slices.SortStableFunc":
				r1.Ok(f.Key+" "+name, call.Pos(), "stable sort keeps the alphabetical registration order among equal ORDER")
			case "sort.Slice", "sort.Sort", "slices.SortFunc":
				tie := false
				for _, a := range call.Args {
					if fl, ok := ast.Unparen(a).(*ast.FuncLit); ok && eng.MentionsField(info, fl, hookName, true) {
						tie = true
					}
				}
				r1.Check(tie, f.Key+" "+name, call.Pos(), "unstable sort with a name tie-break", "an unstable sort with a comparator on ORDER only: with more than 12 onStartup hooks, hooks of equal ORDER are no longer executed alphabetically by path")
			default:
				r1.Unknown(f.Key+" "+name, call.Pos(), "unrecognised sorting call")
			}
		}
		if n == 0 {
			r1.Bad(f.Key+" no-sort", f.Decl.Pos(), "onStartup hooks are not sorted by ORDER at all")
		}
	}

	// ---- R2
	r2 := c.Rule("C06.R2", "B:order", "Manager.Init: the discovered paths are sorted before the load loop; every iteration registers the hook name (in iteration order)", 2)
	if f := r2.NeedFunc(pkgHook + ".(*Manager).Init"); f != nil {
		info := f.Pkg.TypesInfo
		g := p.GraphOf(f)
		loadHook := p.Method(pkgHook, "Manager", "loadHook")
		namesInOrder := p.Field(pkgHook, "Manager", "hookNamesInOrder")
		var el *eng.ElemLoop
		for _, call := range callsIn(info, f.Decl.Body, isObj(loadHook)) {
			if l := elemLoopAt(info, f.Decl.Body, call.Pos()); l != nil && len(call.Args) == 1 && l.IsElem(call.Args[0]) {
				el = l
			}
		}
		if el == nil {
			r2.Bad(f.Key+" load-loop", f.Decl.Pos(), "no loop over the discovered paths calling loadHook(path)")
		} else {
			loop := el.Stmt
			pathsVar := eng.SelObj(info, el.Base)
			isSort := func(n *eng.GNode) bool {
				return len(g.CallsAt(n, func(o types.Object, call *ast.CallExpr) bool {
					fn, ok := o.(*types.Func)
					if !ok || fn.Pkg() == nil || len(call.Args) < 1 || eng.SelObj(info, call.Args[0]) != pathsVar {
						return false
					}
					full := fn.Pkg().Path() + "." + fn.Name()
					return full == "sort.Strings" || full == "slices.Sort"
				})) > 0
			}
			head := loopBodyEntryOf(g, loop)
			r2.Check(head != nil && !el.Desc && pathsVar != nil && g.OnlyVia(head, isSort, nil), f.Key+" sorted-before-load", loop.Pos(), "sort.Strings(paths) dominates the ascending load loop", "hooks are loaded without sorting the discovered paths first: load (and enable) order depends on the directory walk")
			regs := func(n *eng.GNode) bool {
				as, ok := n.Node.(*ast.AssignStmt)
				if !ok || len(as.Lhs) != 1 || !eng.IsField(info, as.Lhs[0], namesInOrder) {
					return false
				}
				ap := builtinCall(info, as.Rhs[0], "append")
				return ap != nil && len(ap.Args) == 2 && eng.IsField(info, ap.Args[0], namesInOrder)
			}
			// error returns are the only other way out of an iteration
			okReg := true
			bodyEntry := loopBodyEntryOf(g, loop)
			isHead := isLoopHeadOf(loop)
			if bodyEntry == nil {
				okReg = false
			} else {
				reach := g.Reach(eng.Query{From: []*eng.GNode{bodyEntry}, AvoidNode: regs})
				for m := range reach {
					if isHead(m) {
						okReg = false
					}
				}
			}
			r2.Check(okReg, f.Key+" registers-in-order", loop.Pos(), "every completed iteration appends the hook name to hookNamesInOrder", "an iteration can complete without registering the hook in hookNamesInOrder (or not by append)")
		}
	}

	// ---- R3
	r3 := c.Rule("C06.R3", "B:order", "bootstrapMainQueue: the onStartup loop (one AddLast per name from GetHooksInOrder(OnStartup)) precedes the enable loop over GetHookNames(); per hook the kubernetes enable task is queued before the schedule enable task", 3)
	runC06R3(c, r3)

	// ---- R4
	r4 := c.Rule("C06.R4", "B:order", "ShellOperator.Start: bootstrapMainQueue < StartMain < ManagerEventsHandler.Start < ScheduleManager.Start", 3)
	if f := r4.NeedFunc(pkgOp + ".(*ShellOperator).Start"); f != nil {
		g := p.GraphOf(f)
		find := func(name string, recv string) *eng.GNode {
			var out *eng.GNode
			for _, n := range g.Nodes {
				if len(g.CallsAt(n, func(o types.Object, _ *ast.CallExpr) bool {
					fn, ok := o.(*types.Func)
					if !ok || fn.Name() != name {
						return false
					}
					rn := eng.RecvNamed(fn)
					return rn != nil && rn.Obj().Name() == recv
				})) > 0 {
					out = n
				}
			}
			return out
		}
		chain := []struct{ name, recv string }{{"bootstrapMainQueue", "ShellOperator"}, {"StartMain", "TaskQueueSet"}, {"Start", "ManagerEventsHandler"}, {"Start", "ScheduleManager"}}
		var prev *eng.GNode
		prevName := ""
		for _, st := range chain {
			n := find(st.name, st.recv)
			label := st.recv + "." + st.name
			if n == nil {
				r4.Bad(f.Key+" calls "+label, f.Decl.Pos(), "Start does not call "+label)
				prev = nil
				continue
			}
			if prev != nil {
				pn := prev
				r4.Check(g.OnlyVia(n, func(m *eng.GNode) bool { return m == pn }, nil), f.Key+" "+prevName+" < "+label, n.Node.Pos(), "ordered", label+" can run before "+prevName+": events or ticks could produce tasks before the startup tasks are queued")
			}
			prev, prevName = n, label
		}
	}

	// ---- R5
	r5 := c.Rule("C06.R5", "D1:propagation", "taskHandleEnableKubernetesBindings: one HookRun task per binding, queue constant \"main\", returned as HeadTasks, carrying BindingContext, AllowFailure, Binding, Group, MonitorIDs and ExecuteOnSynchronization of the binding", 8)
	runC06R5(c, r5)

	// ---- R6 / R7
	r6 := c.Rule("C06.R6", "B:flags", "taskHandleHookRun: handleRunHook is unreachable for a Synchronization when the hook is v0 or ExecuteOnSynchronization is false", 2)
	r7 := c.Rule("C06.R7", "D5:decision homogeneity", "the combine stop predicate refuses a following Synchronization task whose ExecuteOnSynchronization is false", 1)
	if f := r6.NeedFunc(pkgOp + ".(*ShellOperator).taskHandleHookRun"); f != nil {
		info := f.Pkg.TypesInfo
		g := p.GraphOf(f)
		handleRun := p.Method(pkgOp, "ShellOperator", "handleRunHook")
		isSyncM := p.Method(pkgMeta, "HookMetadata", "IsSynchronization")
		execOnSync := p.Field(pkgMeta, "HookMetadata", "ExecuteOnSynchronization")
		version := p.Field(pkgCfg, "HookConfig", "Version")
		var runNode *eng.GNode
		for _, n := range g.NodesCalling(handleRun) {
			runNode = n
		}
		isSyncFact := func(fc eng.Fact) bool {
			if fc.Y != nil {
				return false
			}
			if isCallTo(info, fc.X, isSyncM) {
				return true
			}
			if v, ok := eng.SelObj(info, fc.X).(*types.Var); ok && !v.IsField() {
				as := eng.AssignedExprs(info, f.Decl, v)
				return len(as) == 1 && isCallTo(info, as[0], isSyncM)
			}
			return false
		}
		if runNode == nil {
			r6.Unknown(f.Key+" handleRunHook", f.Decl.Pos(), "call not found")
		} else {
			// assume: the task is a Synchronization and ExecuteOnSynchronization is false. Every edge that contradicts
			// the assumption (three-valued evaluation of the conditions, flags and named conditions included) is removed;
			// the hook run must then be unreachable.
			execAtom := func(fc eng.Fact) bool { return fc.Y == nil && eng.IsField(info, fc.X, execOnSync) }
			assume1 := func(fc eng.Fact) bool {
				if isSyncFact(fc) {
					return fc.Pos
				}
				if execAtom(fc) {
					return !fc.Pos
				}
				return false
			}
			reach := g.Reach(eng.Query{FromEntry: true, Assume: assume1, AvoidEdge: g.Infeasible(assume1)})
			r6.Check(!reach[runNode], f.Key+" sync-with-execute=false", runNode.Node.Pos(), "not executed", "a Synchronization of a binding with executeHookOnSynchronization=false can reach handleRunHook")
			isV0 := fieldEqConst(info, version, "v0", true)
			notV0 := fieldEqConst(info, version, "v0", false)
			assume2 := func(fc eng.Fact) bool {
				if isSyncFact(fc) {
					return fc.Pos
				}
				return isV0(fc) && !notV0(fc)
			}
			reach2 := g.Reach(eng.Query{FromEntry: true, Assume: assume2, AvoidEdge: g.Infeasible(assume2)})
			r6.Check(!reach2[runNode], f.Key+" sync-for-v0", runNode.Node.Pos(), "not executed", "a Synchronization can be executed for a configVersion v0 hook")
		}
		// R7
		combine := p.Method(pkgOp, "ShellOperator", "combineBindingContextForHook")
		combineX := p.Method(pkgOp, "ShellOperator", "CombineBindingContextForHook")
		calls := callsIn(info, f.Decl.Body, func(o types.Object, _ *ast.CallExpr) bool { return o != nil && (o == combine || o == combineX) })
		if len(calls) == 0 {
			r7.Ok(f.Key+" no-combine", f.Decl.Pos(), "tasks are not combined")
		}
		for _, call := range calls {
			stop := call.Args[len(call.Args)-1]
			var lit *ast.FuncLit
			if fl, isL := ast.Unparen(stop).(*ast.FuncLit); isL {
				lit = fl
			} else if v, isV := eng.SelObj(info, stop).(*types.Var); isV {
				for _, e := range eng.AssignedExprs(info, f.Decl.Body, v) {
					if fl, isL := ast.Unparen(e).(*ast.FuncLit); isL {
						lit = fl
					}
				}
			}
			ok := false
			if lit != nil {
				// some return of the predicate depends on !ExecuteOnSynchronization of the inspected task
				ast.Inspect(lit.Body, func(n ast.Node) bool {
					if u, isU := n.(*ast.UnaryExpr); isU && u.Op == token.NOT && eng.IsField(info, u.X, execOnSync) {
						ok = true
					}
					return true
				})
			}
			r7.Check(ok, f.Key+" combine-stop-predicate", call.Pos(), "a following Synchronization with ExecuteOnSynchronization=false is not merged", "shouldRunHook is decided from the head task only, but the stop predicate merges any following task: a grouped Synchronization head delivers the Synchronization of a binding with executeHookOnSynchronization=false")
		}
	}

	// ---- R9 (shared with C04.R5)
	r9 := c.Rule("C06.R9", "B:must-pass", "combined Synchronization contexts and monitor ids are written back to the task before the hook runs: a failed first execution is retried with every merged binding's Synchronization", 1)
	if f := r9.NeedFunc(pkgOp + ".(*ShellOperator).taskHandleHookRun"); f != nil {
		combinedWrittenBack(c, r9, f, true)
	}

	// ---- R8
	r8 := c.Rule("C06.R8", "C:who-calls/who-writes", "ScheduleManager.Add is reached only through EnableScheduleBindings, which only the EnableScheduleBindings task arm calls; ScheduleLinks entries are created only there (a hook has no schedule links before it is enabled)", 3)
	runC06R8(c, r8)

	// ---- R10 one Synchronization per binding, also when the enable task is retried
	r10 := c.Rule("C06.R10", "B:must-pass", "EnableKubernetesBindings: every iteration over the hook's kubernetes bindings that does not return an error appends the Synchronization execution info of that binding", 1)
	if f := r10.NeedFunc(pkgCtrl + ".(*kubernetesBindingsController).EnableKubernetesBindings"); f != nil {
		info := f.Pkg.TypesInfo
		g := p.GraphOf(f)
		bindings := p.Field(pkgCtrl, "kubernetesBindingsController", "KubernetesBindings")
		ok := false
		var pos token.Pos = f.Decl.Pos()
		for _, el := range elemLoopsOver(info, f.Decl.Body, func(x ast.Expr) bool { return eng.IsField(info, x, bindings) }) {
			pos = el.Stmt.Pos()
			isApp := func(n *eng.GNode) bool {
				as, isA := n.Node.(*ast.AssignStmt)
				if !isA || len(as.Lhs) != 1 || len(as.Rhs) != 1 {
					return false
				}
				ap := builtinCall(info, as.Rhs[0], "append")
				return ap != nil && len(ap.Args) == 2 && eng.SelObj(info, as.Lhs[0]) != nil && eng.SelObj(info, as.Lhs[0]) == eng.SelObj(info, ap.Args[0])
			}
			entry := loopBodyEntryOf(g, el.Stmt)
			isHead := isLoopHeadOf(el.Stmt)
			if entry == nil {
				continue
			}
			ok = true
			for n := range g.Reach(eng.Query{From: []*eng.GNode{entry}, AvoidNode: isApp}) {
				if isHead(n) {
					ok = false
				}
			}
		}
		r10.Check(ok, f.Key+" one Synchronization per binding", pos, "only an error return leaves an iteration without appending the binding's Synchronization info",
			"an iteration over the kubernetes bindings can complete without producing the binding's Synchronization (e.g. a binding whose monitor already exists from a failed earlier attempt is skipped): after a retried start the hook never receives that Synchronization and the binding's events stay locked for ever")
	}
}

func runC06R3(c *eng.Ctx, r *eng.RuleCtx) {
	p := c.P
	f := r.NeedFunc(pkgOp + ".(*ShellOperator).bootstrapMainQueue")
	if f == nil {
		return
	}
	info := f.Pkg.TypesInfo
	g := p.GraphOf(f)
	getInOrder := p.Method(pkgHook, "Manager", "GetHooksInOrder")
	getNames := p.Method(pkgHook, "Manager", "GetHookNames")
	addLast := p.Method(pkgQueue, "TaskQueue", "AddLast")
	onStartup := p.Object(pkgHTypes, "OnStartup")
	enKube := p.Object(pkgMeta, "EnableKubernetesBindings")
	enSched := p.Object(pkgMeta, "EnableScheduleBindings")
	var startupEl, enableEl *eng.ElemLoop
	for _, el := range elemLoopsOver(info, f.Decl.Body, func(ast.Expr) bool { return true }) {
		if isCallTo(info, el.Base, getNames) {
			enableEl = el
		}
		if v, isV := eng.SelObj(info, el.Base).(*types.Var); isV {
			for _, e := range eng.AssignedExprs(info, f.Decl.Body, v) {
				if cl, isC := ast.Unparen(e).(*ast.CallExpr); isC && eng.CalleeOf(info, cl) == getInOrder && len(cl.Args) == 1 && eng.SelObj(info, cl.Args[0]) == onStartup {
					startupEl = el
				}
				if isCallTo(info, e, getNames) {
					enableEl = el
				}
			}
		}
	}
	if startupEl == nil || enableEl == nil {
		r.Bad(f.Key+" loops", f.Decl.Pos(), fmt.Sprintf("expected a loop over GetHooksInOrder(OnStartup) (found=%v) and a loop over GetHookNames() (found=%v)", startupEl != nil, enableEl != nil))
		return
	}
	startupLoop, enableLoop := startupEl.Stmt, enableEl.Stmt
	// Tasks may be queued directly (AddLast in the two loops) or staged: appended to local slices that a final
	// ascending whole-slice loop queues with AddLast(element). Staging keeps the order when the onStartup tasks and
	// the enable tasks go into one slice (possibly through copies), or into two that are joined exactly once as
	// `first = append(first, second...)` with the onStartup slice first.
	sameSlice := copyAliases(info, f.Decl.Body)
	var drain *eng.ElemLoop
	for _, el := range elemLoopsOver(info, f.Decl.Body, func(ast.Expr) bool { return true }) {
		if el == startupEl || el == enableEl || el.Desc || !loopNoEarlyExit(g, el.Stmt) {
			continue
		}
		el := el
		if loopBodyMustPass(g, el.Stmt, func(n *eng.GNode) bool {
			for _, m := range g.CallsAt(n, isObj(addLast)) {
				if len(m.Call.Args) == 1 && el.IsElem(m.Call.Args[0]) {
					return true
				}
			}
			return false
		}) {
			drain = el
		}
	}
	// a staged add: `S = append(S, x)` with one element; returns the slice variable and the element
	stagedAdd := func(n *eng.GNode) (types.Object, ast.Expr) {
		as, ok := n.Node.(*ast.AssignStmt)
		if !ok || len(as.Lhs) != 1 || len(as.Rhs) != 1 || drain == nil {
			return nil, nil
		}
		ap := builtinCall(info, as.Rhs[0], "append")
		if ap == nil || len(ap.Args) != 2 || ap.Ellipsis.IsValid() {
			return nil, nil
		}
		sv := eng.SelObj(info, as.Lhs[0])
		if sv == nil || eng.SelObj(info, ap.Args[0]) != sv {
			return nil, nil
		}
		return sv, ap.Args[1]
	}
	// the one join of two staging slices, if any: first = append(first, second...)
	var joinFirst, joinSecond types.Object
	var joinNode *eng.GNode
	njoin := 0
	for _, n := range g.Nodes {
		as, ok := n.Node.(*ast.AssignStmt)
		if !ok || len(as.Lhs) != 1 || len(as.Rhs) != 1 {
			continue
		}
		if ap := builtinCall(info, as.Rhs[0], "append"); ap != nil && len(ap.Args) == 2 && ap.Ellipsis.IsValid() {
			x, y := eng.SelObj(info, ap.Args[0]), eng.SelObj(info, ap.Args[1])
			if x != nil && y != nil && eng.SelObj(info, as.Lhs[0]) == x {
				joinFirst, joinSecond, joinNode = x, y, n
				njoin++
			}
		}
	}
	drained := func(sv types.Object) (first, second bool) {
		if drain == nil || sv == nil {
			return false, false
		}
		base := eng.SelObj(info, drain.Base)
		if njoin == 0 {
			return sameSlice(sv, base), false
		}
		if njoin == 1 && sameSlice(joinFirst, base) {
			return sameSlice(sv, joinFirst), sameSlice(sv, joinSecond)
		}
		return false, false
	}
	staged := false
	isAdd := func(n *eng.GNode) bool {
		if len(g.CallsAt(n, isObj(addLast))) > 0 {
			return drain == nil || eng.LoopOf(f.Decl.Body, n.Node.Pos()) != drain.Stmt
		}
		if sv, _ := stagedAdd(n); sv != nil {
			a, b := drained(sv)
			if a || b {
				staged = true
				return true
			}
		}
		return false
	}
	okStartup := !startupEl.Desc && loopNoEarlyExit(g, startupLoop) && loopBodyMustPass(g, startupLoop, isAdd)
	// the task of the iteration names the hook of the iteration
	if okStartup {
		uses := false
		eng.InspectNoLit(startupEl.Body, func(n ast.Node) bool {
			if kv, ok := n.(*ast.KeyValueExpr); ok {
				if id, isI := kv.Key.(*ast.Ident); isI && id.Name == "HookName" && startupEl.IsElem(kv.Value) {
					uses = true
				}
			}
			return true
		})
		okStartup = uses
	}
	r.Check(okStartup, f.Key+" onStartup-loop", startupLoop.Pos(), "one AddLast per onStartup hook, ascending", "the onStartup loop does not queue exactly one task per hook name in order")
	head2 := loopBodyEntryOf(g, enableLoop)
	isHead1 := func(n *eng.GNode) bool {
		if n.Node != nil || n.Block.Stmt != startupLoop {
			return false
		}
		k := n.Block.Kind.String()
		return k == "RangeDone" || k == "ForDone"
	}
	okOrder := head2 != nil && g.OnlyVia(head2, isHead1, nil)
	if okOrder && staged {
		// staged: the onStartup tasks are in the slice that comes first, the join (if any) and the draining loop come
		// after both loops
		for _, n := range g.Nodes {
			sv, _ := stagedAdd(n)
			if sv == nil || n.Node == nil {
				continue
			}
			first, second := drained(sv)
			switch eng.LoopOf(f.Decl.Body, n.Node.Pos()) {
			case startupLoop:
				if !first || (njoin == 1 && second && !sameSlice(joinFirst, joinSecond)) {
					okOrder = false
				}
			case enableLoop:
				if njoin == 1 && !second && !first {
					okOrder = false
				}
			}
		}
		enableDone := func(n *eng.GNode) bool {
			if n.Node != nil || n.Block.Stmt != enableLoop {
				return false
			}
			k := n.Block.Kind.String()
			return k == "RangeDone" || k == "ForDone"
		}
		if joinNode != nil && !g.OnlyVia(joinNode, enableDone, nil) {
			okOrder = false
		}
		if dh := loopBodyEntryOf(g, drain.Stmt); dh == nil || !g.OnlyVia(dh, enableDone, nil) || (joinNode != nil && !g.OnlyVia(dh, func(n *eng.GNode) bool { return n == joinNode }, nil)) {
			okOrder = false
		}
	}
	r.Check(okOrder, f.Key+" onStartup-before-enable", enableLoop.Pos(), "the enable loop starts only after the onStartup loop is done", "enable tasks can be queued before (or without) the onStartup tasks")
	// kubernetes before schedule within an iteration
	var kubeNode, schedNode *eng.GNode
	for _, n := range g.Nodes {
		if !isAdd(n) || eng.LoopOf(f.Decl.Body, n.Node.Pos()) != enableLoop {
			continue
		}
		var arg ast.Expr
		for _, m := range g.CallsAt(n, isObj(addLast)) {
			arg = m.Call.Args[0]
		}
		if _, x := stagedAdd(n); x != nil {
			arg = x
		}
		or := p.Origins(f, arg, 0)
		// origins are flow-insensitive over variables named alike; use the defining statement in the same block instead
		_ = or
		if v, isV := eng.SelObj(info, arg).(*types.Var); isV {
			for _, e := range eng.AssignedExprs(info, f.Decl.Body, v) {
				if eng.UsesObj(info, e, enKube, false) {
					kubeNode = n
				}
				if eng.UsesObj(info, e, enSched, false) {
					schedNode = n
				}
			}
		}
	}
	if kubeNode == nil || schedNode == nil {
		r.Bad(f.Key+" enable-tasks", enableLoop.Pos(), fmt.Sprintf("enable tasks not found (kubernetes=%v schedule=%v)", kubeNode != nil, schedNode != nil))
		return
	}
	reach := g.Reach(eng.Query{From: []*eng.GNode{schedNode}, AvoidNode: isLoopHeadOf(enableLoop)})
	r.Check(!reach[kubeNode] && !enableEl.Desc && loopNoEarlyExit(g, enableLoop), f.Key+" kubernetes-before-schedule", kubeNode.Node.Pos(), "per hook: EnableKubernetesBindings is queued before EnableScheduleBindings, for every hook in order", "for one hook the schedule enable task can be queued before the kubernetes enable task (its schedules would produce tasks before its Synchronization), or the loop does not visit every hook")
}

// enclosingBlockOf returns the innermost block statement containing pos.
func enclosingBlockOf(body *ast.BlockStmt, pos token.Pos) ast.Node {
	// the chain of nodes that contain pos, outermost first
	var chain []ast.Node
	ast.Inspect(body, func(n ast.Node) bool {
		if n == nil || !(n.Pos() <= pos && pos < n.End()) {
			return false
		}
		chain = append(chain, n)
		return true
	})
	i := -1
	for k, n := range chain {
		if _, ok := n.(*ast.BlockStmt); ok {
			i = k
		}
	}
	if i < 0 {
		return body
	}
	// a bare block (a statement of another block) and the wrapper the normaliser puts around an inlined body
	// (`L: switch { default: { ... } }`) are transparent: the statements belong to the surrounding block
	for i > 0 {
		if _, ok := chain[i-1].(*ast.BlockStmt); ok {
			i--
			continue
		}
		if cc, ok := chain[i-1].(*ast.CaseClause); ok && cc.List == nil && i >= 4 {
			sb, ok1 := chain[i-2].(*ast.BlockStmt)
			sw, ok2 := chain[i-3].(*ast.SwitchStmt)
			if ok1 && ok2 && len(sb.List) == 1 && sw.Tag == nil && sw.Init == nil {
				j := i - 4
				if _, isL := chain[j].(*ast.LabeledStmt); isL && j > 0 {
					j--
				}
				if _, isB := chain[j].(*ast.BlockStmt); isB {
					i = j
					continue
				}
			}
		}
		// a bare block that is a statement of a case / comm clause: the clause body is the surrounding block
		if i >= 1 {
			switch chain[i-1].(type) {
			case *ast.CaseClause, *ast.CommClause:
				if i >= 2 {
					if _, isB := chain[i].(*ast.BlockStmt); isB {
						if _, swBody := chain[i-2].(*ast.BlockStmt); swBody && i-1 > 0 {
							return chain[i-1]
						}
					}
				}
			}
		}
		break
	}
	return chain[i]
}

func runC06R5(c *eng.Ctx, r *eng.RuleCtx) {
	p := c.P
	f := r.NeedFunc(pkgOp + ".(*ShellOperator).taskHandleEnableKubernetesBindings")
	if f == nil {
		return
	}
	info := f.Pkg.TypesInfo
	handleEnable := p.Method(pkgCtrl, "HookController", "HandleEnableKubernetesBindings")
	withQueueName := p.Method(pkgTask, "BaseTask", "WithQueueName")
	headTasks := p.Field(pkgQueue, "TaskResult", "HeadTasks")
	hookRun := p.Object(pkgMeta, "HookRun")
	var lit *eng.Lit
	for _, l := range litsPassedTo(f, info, handleEnable) {
		lit = l
	}
	if lit == nil {
		r.Bad(f.Key+" creator", f.Decl.Pos(), "no task-creating literal passed to HandleEnableKubernetesBindings")
		return
	}
	var infoPrm types.Object
	if lit.Lit.Type.Params != nil && len(lit.Lit.Type.Params.List) == 1 && len(lit.Lit.Type.Params.List[0].Names) == 1 {
		infoPrm = info.Defs[lit.Lit.Type.Params.List[0].Names[0]]
	}
	// metadata literal
	metaT := p.Named(pkgMeta, "HookMetadata")
	var meta *ast.CompositeLit
	ast.Inspect(lit.Lit.Body, func(n ast.Node) bool {
		if cl, ok := n.(*ast.CompositeLit); ok {
			if tv, has := info.Types[cl]; has && metaT != nil && types.Identical(tv.Type, metaT) {
				meta = cl
			}
		}
		return true
	})
	if meta == nil || infoPrm == nil {
		r.Bad(f.Key+" metadata", lit.Lit.Pos(), "HookMetadata literal not found in the creator")
		return
	}
	want := map[string]string{
		"BindingContext":           "BindingContext",
		"AllowFailure":             "AllowFailure",
		"Binding":                  "Binding",
		"Group":                    "Group",
		"MonitorIDs":               "MonitorId",
		"ExecuteOnSynchronization": "ExecuteHookOnSynchronization",
	}
	got := map[string]ast.Expr{}
	for _, el := range meta.Elts {
		if kv, ok := el.(*ast.KeyValueExpr); ok {
			if id, isI := kv.Key.(*ast.Ident); isI {
				got[id.Name] = kv.Value
			}
		}
	}
	for _, k := range []string{"BindingContext", "AllowFailure", "Binding", "Group", "MonitorIDs", "ExecuteOnSynchronization"} {
		v := got[k]
		ok := false
		if v != nil && eng.UsesObj(info, v, infoPrm, false) {
			ast.Inspect(v, func(n ast.Node) bool {
				if s, isS := n.(*ast.SelectorExpr); isS && s.Sel.Name == want[k] {
					ok = true
				}
				return true
			})
		}
		r.Check(ok, f.Key+" metadata."+k, posOf(v), "taken from the binding's execution info", "the Synchronization task does not carry "+k+" of its binding (info."+want[k]+")")
	}
	// task type, queue, head tasks
	okType := eng.UsesObj(info, lit.Lit.Body, hookRun, false)
	okQueue := false
	for _, call := range callsDeep(info, lit.Lit.Body, isObj(withQueueName)) {
		if s, isC := eng.ConstStr(info, call.Args[0]); isC && s == "main" {
			okQueue = true
		}
	}
	r.Check(okType && okQueue, f.Key+" HookRun-in-main", lit.Lit.Pos(), "HookRun task with queue \"main\"", "Synchronization tasks are not HookRun tasks of the main queue")
	// the slice the literal appends to is stored into res.HeadTasks
	var slice types.Object
	ast.Inspect(lit.Lit.Body, func(n ast.Node) bool {
		if as, ok := n.(*ast.AssignStmt); ok && len(as.Rhs) == 1 {
			if ap := builtinCall(info, as.Rhs[0], "append"); ap != nil {
				slice = eng.SelObj(info, as.Lhs[0])
			}
		}
		return true
	})
	okHead := false
	sameSlice := copyAliases(info, f.Decl.Body) // the slice may be handed over through copies (a collect phase returning it)
	eng.InspectNoLit(f.Decl.Body, func(n ast.Node) bool {
		if as, ok := n.(*ast.AssignStmt); ok && len(as.Lhs) == 1 && eng.IsField(info, as.Lhs[0], headTasks) && slice != nil && sameSlice(eng.SelObj(info, as.Rhs[0]), slice) {
			okHead = true
		}
		return true
	})
	r.Check(okHead, f.Key+" HeadTasks", f.Decl.Pos(), "returned as HeadTasks (run right after the enable task, before anything else of main)", "Synchronization tasks are not returned as HeadTasks: other tasks of the main queue would run before the Synchronization")
}

func runC06R8(c *eng.Ctx, r *eng.RuleCtx) {
	p := c.P
	addI := p.Method(pkgSched, "ScheduleManager", "Add")
	addC := p.Method(pkgSched, "scheduleManager", "Add")
	enableC := p.Method(pkgCtrl, "scheduleBindingsController", "EnableScheduleBindings")
	enableI := p.Method(pkgCtrl, "ScheduleBindingsController", "EnableScheduleBindings")
	enableH := p.Method(pkgCtrl, "HookController", "EnableScheduleBindings")
	links := p.Field(pkgCtrl, "scheduleBindingsController", "ScheduleLinks")
	if addI == nil || addC == nil || enableC == nil || enableI == nil || enableH == nil || links == nil {
		r.Unknown("anchor:schedule enable chain", token.NoPos, "methods/fields not found")
		return
	}
	allowed := func(objs []*types.Func, ok map[string]string, what string) {
		for _, o := range objs {
			for _, ref := range p.Refs(o) {
				r.Bad("value-ref:"+ref.Where()+"->"+what, ref.Node.Pos(), what+" taken as a value")
			}
			for _, s := range p.Sites(o) {
				fn := s.In.Key
				construct := "call:" + s.Where() + "->" + what
				c.Touch(s.In)
				if why, is := ok[fn]; is {
					r.Ok(construct, s.Call.Pos(), why)
				} else {
					r.Bad(construct, s.Call.Pos(), what+" is called outside the enable path: the hook's schedules would produce tasks before its bindings were enabled in order")
				}
			}
		}
	}
	allowed([]*types.Func{addI, addC}, map[string]string{pkgCtrl + ".(*scheduleBindingsController).EnableScheduleBindings": "the controller's enable method"}, "ScheduleManager.Add")
	allowed([]*types.Func{enableC, enableI}, map[string]string{pkgCtrl + ".(*HookController).EnableScheduleBindings": "hook controller facade"}, "ScheduleBindingsController.EnableScheduleBindings")
	// the facade is called from the EnableScheduleBindings arm of taskHandler only
	th := p.Func(pkgOp + ".(*ShellOperator).taskHandler")
	for _, s := range p.Sites(enableH) {
		construct := "call:" + s.Where() + "->HookController.EnableScheduleBindings"
		if s.In != th || th == nil {
			r.Bad(construct, s.Call.Pos(), "schedule bindings are enabled outside the EnableScheduleBindings task: schedules start before the hook's turn in the startup order")
			continue
		}
		g := p.GraphOf(th)
		n := g.NodeOf(s.Call)
		enSched := p.Object(pkgMeta, "EnableScheduleBindings")
		only := n != nil && g.OnlyVia(n, nil, g.FactEdge(func(fc eng.Fact) bool {
			return fc.Y != nil && fc.Pos && eng.SelObj(th.Pkg.TypesInfo, fc.Y) == enSched
		}))
		r.Check(only, construct, s.Call.Pos(), "only in the EnableScheduleBindings arm", "EnableScheduleBindings is called outside the task arm of that type")
	}
	for _, ref := range p.Refs(enableH) {
		r.Bad("value-ref:"+ref.Where()+"->HookController.EnableScheduleBindings", ref.Node.Pos(), "taken as a value")
	}
	// who creates schedule links
	for _, ref := range p.Refs(links) {
		if !ref.Write || ref.Lit {
			continue
		}
		construct := "ScheduleLinks write in " + ref.Where()
		fn := ""
		if ref.In != nil {
			fn = ref.In.Key
		}
		switch fn {
		case pkgCtrl + ".(*scheduleBindingsController).EnableScheduleBindings", pkgCtrl + ".(*scheduleBindingsController).DisableScheduleBindings":
			r.Ok(construct, ref.Node.Pos(), "links exist exactly while the bindings are enabled")
		default:
			r.Bad(construct, ref.Node.Pos(), "schedule links are created outside Enable/DisableScheduleBindings: CanHandleEvent answers true for a hook that is not enabled yet, and a crontab shared with an enabled hook produces tasks for it before its Synchronization")
		}
	}
}
