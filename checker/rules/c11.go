package rules

import (
	"fmt"
	"go/ast"
	"go/token"
	"go/types"

	"sopverif/eng"
)

func init() {
	register(&Property{
		ID:    "C11",
		Title: "Schedules: one task per binding per tick; crontabs are reference-counted",
		Explanation: "Decided on scheduleManager, the schedule bindings controller, the config converters and the schedule task producer: (R1) " +
			"Add registers a cron function only on a miss of Entries[crontab] and records the id on both paths; Remove stops the cron job " +
			"only after deleting a *registered* id and only when no id is left, unknown crontabs/ids return first; (R2) every field of a " +
			"schedule link is written from the binding config and read back into the execution info / binding context; a link is " +
			"selected by equality of its crontab; every matching link yields exactly one info (no break/return in the loop); (R3) the " +
			"schedule task producer copies hook name, binding type, contexts, allowFailure, binding, group and queue name from the info; " +
			"(R4) ScheduleLinks only under its mutex; (R5) link ids derive from a uuid generated per binding, so no two bindings share a " +
			"link key or a reference-count id. (R6) every tick asks every schedule hook whether it handles the crontab now. NOT decided: firing behaviour of robfig/cron, 1:1 mapping of ticks to channel sends under " +
			"back-pressure.",
		Run: runC11,
	})
}

func runC11(c *eng.Ctx) {
	p := c.P
	entries := p.Field(pkgSched, "scheduleManager", "Entries")
	ids := p.Field(pkgSched, "CronEntry", "Ids")

	r1 := c.Rule("C11.R1", "B:control-dependence", "scheduleManager.Add / Remove implement reference counting per crontab", 5)
	if f := r1.NeedFunc(pkgSched + ".(*scheduleManager).Add"); f != nil && entries != nil {
		info := f.Pkg.TypesInfo
		g := p.GraphOf(f)
		// the comma-ok lookup of Entries[crontab]
		var hasVar types.Object
		eng.InspectNoLit(f.Decl.Body, func(n ast.Node) bool {
			if as, ok := n.(*ast.AssignStmt); ok && len(as.Lhs) == 2 && len(as.Rhs) == 1 {
				if ix, isIx := ast.Unparen(as.Rhs[0]).(*ast.IndexExpr); isIx && eng.IsField(info, ix.X, entries) {
					hasVar = eng.SelObj(info, as.Lhs[1])
				}
			}
			return true
		})
		miss := g.FactEdge(func(fc eng.Fact) bool {
			return !fc.Pos && fc.Y == nil && hasVar != nil && eng.SelObj(info, fc.X) == hasVar
		})
		var addFunc, store *eng.GNode
		for _, n := range g.Nodes {
			if len(g.CallsAt(n, func(o types.Object, _ *ast.CallExpr) bool {
				return o != nil && (nameOf(o) == "AddFunc" || nameOf(o) == "AddJob" || nameOf(o) == "Schedule")
			})) > 0 {
				addFunc = n
			}
			if as, ok := n.Node.(*ast.AssignStmt); ok && len(as.Lhs) == 1 {
				if ix, isIx := ast.Unparen(as.Lhs[0]).(*ast.IndexExpr); isIx && eng.IsField(info, ix.X, entries) {
					store = n
				}
			}
		}
		if addFunc == nil {
			r1.Bad(f.Key+" registers", f.Decl.Pos(), "Add never registers a cron function")
		} else {
			r1.Check(g.OnlyVia(addFunc, nil, miss), f.Key+" AddFunc-only-on-miss", addFunc.Node.Pos(), "cron.AddFunc only when the crontab has no entry yet", "the cron function is registered although the crontab already has an entry: the same crontab fires twice per tick")
			okStore := store != nil && g.OnlyVia(store, func(n *eng.GNode) bool { return n == addFunc }, nil)
			// after a registration the entry is always stored
			if okStore {
				ex := g.MustPassToExit(eng.Query{From: []*eng.GNode{addFunc}}, func(n *eng.GNode) bool { return n == store })
				okStore = ex == nil
			}
			r1.Check(okStore, f.Key+" entry-stored", addFunc.Node.Pos(), "the new cron entry is stored under the crontab", "a registered cron function is not recorded in Entries: it can never be removed and is registered again by the next Add")
		}
		// id recorded on both paths: every exit is preceded by a store of the id into an Ids map (literal with the id, or Ids[id] = true)
		idFld := extOrLocalField(p, "pkg/schedule_manager/types", "ScheduleEntry", "Id")
		recordsID := func(n *eng.GNode) bool {
			if n.Node == nil {
				return false
			}
			found := false
			ast.Inspect(n.Node, func(m ast.Node) bool {
				switch t := m.(type) {
				case *ast.KeyValueExpr:
					if eng.IsField(info, t.Key, idFld) {
						found = true
					}
				case *ast.AssignStmt:
					for _, l := range t.Lhs {
						if ix, isIx := ast.Unparen(l).(*ast.IndexExpr); isIx && eng.IsField(info, ix.Index, idFld) && eng.MentionsField(info, ix.X, ids, false) {
							found = true
						}
					}
				}
				return true
			})
			return found
		}
		// the "id already present" edge needs no store
		var hasID types.Object
		eng.InspectNoLit(f.Decl.Body, func(n ast.Node) bool {
			if as, ok := n.(*ast.AssignStmt); ok && len(as.Lhs) == 2 && len(as.Rhs) == 1 {
				if ix, isIx := ast.Unparen(as.Rhs[0]).(*ast.IndexExpr); isIx && eng.MentionsField(info, ix.X, ids, false) {
					hasID = eng.SelObj(info, as.Lhs[1])
				}
			}
			return true
		})
		present := g.FactEdge(func(fc eng.Fact) bool {
			return fc.Pos && fc.Y == nil && hasID != nil && eng.SelObj(info, fc.X) == hasID
		})
		ex := g.MustPassToExit(eng.Query{FromEntry: true, AvoidEdge: present}, recordsID)
		r1.Check(ex == nil, f.Key+" id-recorded", f.Decl.Pos(), "the binding id is recorded for the crontab on every path", "Add can return without recording the binding id for the crontab: removing another binding of the same crontab stops the job while this binding is still registered")
	}
	if f := r1.NeedFunc(pkgSched + ".(*scheduleManager).Remove"); f != nil && entries != nil && ids != nil {
		info := f.Pkg.TypesInfo
		g := p.GraphOf(f)
		// an expression that denotes the Ids map of an entry: mentions the field, possibly through a local (ids := entry.Ids)
		isIds := func(x ast.Expr) bool {
			return eng.MentionsField(info, x, ids, false) || eng.MentionsField(info, resolveLocal(info, f.Decl.Body, x), ids, false)
		}
		var hasEntry, hasID types.Object
		eng.InspectNoLit(f.Decl.Body, func(n ast.Node) bool {
			if as, ok := n.(*ast.AssignStmt); ok && len(as.Lhs) == 2 && len(as.Rhs) == 1 {
				if ix, isIx := ast.Unparen(as.Rhs[0]).(*ast.IndexExpr); isIx {
					if eng.IsField(info, ix.X, entries) {
						hasEntry = eng.SelObj(info, as.Lhs[1])
					} else if isIds(ix.X) {
						hasID = eng.SelObj(info, as.Lhs[1])
					}
				}
			}
			return true
		})
		var cronRemove, delEntry, delID *eng.GNode
		for _, n := range g.Nodes {
			if len(g.CallsAt(n, func(o types.Object, _ *ast.CallExpr) bool {
				fn, ok := o.(*types.Func)
				return ok && nameOf(fn) == "Remove" && fn.Pkg() != nil && fn.Pkg().Path() != full(pkgSched)
			})) > 0 {
				cronRemove = n
			}
			if es, ok := n.Node.(*ast.ExprStmt); ok {
				if d := builtinCall(info, es.X, "delete"); d != nil {
					if eng.IsField(info, d.Args[0], entries) {
						delEntry = n
					} else if isIds(d.Args[0]) {
						delID = n
					}
				}
			}
		}
		if cronRemove == nil || delEntry == nil || delID == nil {
			r1.Bad(f.Key+" shape", f.Decl.Pos(), fmt.Sprintf("Remove does not `delete the id, then stop the job and delete the entry when no id is left` (cron.Remove=%v delete(Entries)=%v delete(Ids)=%v)", cronRemove != nil, delEntry != nil, delID != nil))
		} else {
			empty := g.FactEdge(func(fc eng.Fact) bool {
				nonEmpty, ok := lenFact(info, fc, isIds)
				return ok && !nonEmpty
			})
			known := g.FactEdge(func(fc eng.Fact) bool {
				return fc.Pos && fc.Y == nil && hasID != nil && eng.SelObj(info, fc.X) == hasID
			})
			knownEntry := g.FactEdge(func(fc eng.Fact) bool {
				return fc.Pos && fc.Y == nil && hasEntry != nil && eng.SelObj(info, fc.X) == hasEntry
			})
			for _, n := range []*eng.GNode{cronRemove, delEntry} {
				what := "cron.Remove"
				if n == delEntry {
					what = "delete(Entries)"
				}
				ok := g.OnlyVia(n, nil, empty) && g.OnlyVia(n, func(m *eng.GNode) bool { return m == delID }, nil) && g.OnlyVia(n, nil, known) && g.OnlyVia(n, nil, knownEntry)
				r1.Check(ok, f.Key+" "+what, n.Node.Pos(), "only after a registered id was deleted and no id is left", what+" can happen although ids are left, or for an id / crontab that was never registered: the crontab stops firing while a binding is still registered for it")
			}
			// when the last id goes, the job is stopped: from delID, on the len==0 edge, cron.Remove is passed
			notEmpty := g.FactEdge(func(fc eng.Fact) bool {
				nonEmpty, ok := lenFact(info, fc, isIds)
				return ok && nonEmpty
			})
			ex := g.MustPassToExit(eng.Query{From: []*eng.GNode{delID}, AvoidEdge: notEmpty}, func(m *eng.GNode) bool { return m == cronRemove })
			r1.Check(ex == nil, f.Key+" stops-when-last", delID.Node.Pos(), "removing the last id stops the cron job", "after the last id was removed the cron job can stay registered (it keeps firing for nobody)")
		}
	}

	// ---- R2
	r2 := c.Rule("C11.R2", "D1+F:propagation", "every ScheduleBindingToCrontabLink field is written in EnableScheduleBindings and read in HandleEvent; selection by crontab equality; one info per matching link", 9)
	linkT := p.Named(pkgCtrl, "ScheduleBindingToCrontabLink")
	en := r2.NeedFunc(pkgCtrl + ".(*scheduleBindingsController).EnableScheduleBindings")
	he := r2.NeedFunc(pkgCtrl + ".(*scheduleBindingsController).HandleEvent")
	if linkT != nil && en != nil && he != nil {
		st := linkT.Underlying().(*types.Struct)
		einfo, hinfo := en.Pkg.TypesInfo, he.Pkg.TypesInfo
		var lit *ast.CompositeLit
		ast.Inspect(en.Decl.Body, func(n ast.Node) bool {
			if cl, ok := n.(*ast.CompositeLit); ok {
				if tv, has := einfo.Types[cl]; has && types.Identical(tv.Type, linkT) {
					lit = cl
				}
			}
			return true
		})
		var cfgVar types.Object
		if loop := firstRange(en.Decl.Body); loop != nil && loop.Value != nil {
			cfgVar = eng.SelObj(einfo, loop.Value)
		}
		for i := 0; i < st.NumFields(); i++ {
			fld := st.Field(i)
			written := false
			if lit != nil {
				if v := litKeyValue(einfo, lit, fld); v != nil && cfgVar != nil && eng.UsesObj(einfo, v, cfgVar, false) {
					written = true
				}
			}
			read := eng.MentionsField(hinfo, he.Decl.Body, fld, true)
			r2.Check(written && read, "link."+fld.Name(), fld.Pos(), "written from the binding config and read when the crontab fires", fmt.Sprintf("link field %s is not propagated (written from config=%v, read in HandleEvent=%v): the task of a schedule binding loses its %s", fld.Name(), written, read, fld.Name()))
		}
		// selection and one append per match
		g := p.GraphOf(he)
		loop := firstRange(he.Decl.Body)
		crontabFld := p.Field(pkgCtrl, "ScheduleBindingToCrontabLink", "Crontab")
		prm := he.Obj.Type().(*types.Signature).Params().At(0)
		okSel := false
		if loop != nil && loop.Value != nil {
			elem := eng.SelObj(hinfo, loop.Value)
			var app *eng.GNode
			napp := 0
			for _, n := range g.Nodes {
				if as, ok := n.Node.(*ast.AssignStmt); ok && len(as.Rhs) == 1 && builtinCall(hinfo, as.Rhs[0], "append") != nil && eng.LoopOf(he.Decl.Body, as.Pos()) == ast.Stmt(loop) {
					app = n
					napp++
				}
			}
			match := func(pos bool) func(fc eng.Fact) bool {
				return func(fc eng.Fact) bool {
					x, y, eq, ok := eng.EqAtom(fc)
					if !ok || eq != pos {
						return false
					}
					isLC := func(e ast.Expr) bool {
						s, isS := ast.Unparen(e).(*ast.SelectorExpr)
						return isS && hinfo.Uses[s.Sel] == crontabFld && eng.SelObj(hinfo, s.X) == elem
					}
					return (isLC(x) && eng.SelObj(hinfo, y) == prm) || (isLC(y) && eng.SelObj(hinfo, x) == prm)
				}
			}
			if app != nil && napp == 1 {
				only := g.OnlyVia(app, nil, g.FactEdge(match(true)))
				always := loopNoEarlyExit(g, loop)
				var bodyEntry *eng.GNode
				for _, gn := range g.Nodes {
					if gn.Node == nil && gn.Block.Stmt == ast.Stmt(loop) && gn.Block.Kind.String() == "RangeBody" {
						bodyEntry = gn
					}
				}
				if bodyEntry != nil && always {
					reach := g.Reach(eng.Query{From: []*eng.GNode{bodyEntry}, AvoidEdge: g.Infeasible(match(true)), AvoidNode: func(m *eng.GNode) bool { return m == app }})
					for m := range reach {
						if m != app && m.Node == nil && m.Block.Stmt == ast.Stmt(loop) && m.Block.Kind.String() == "RangeLoop" {
							always = false
						}
					}
				}
				okSel = only && always
			}
		}
		r2.Check(okSel, he.Key+" selection", he.Decl.Pos(), "exactly one info for every link whose crontab equals the fired crontab", "HandleEvent does not produce `exactly one task for every enabled binding with that crontab and none for others`")
		// info and context carry the link's attributes
		infoT := p.Named(pkgCtrl, "BindingExecutionInfo")
		for _, kv := range [][2]string{{"AllowFailure", "AllowFailure"}, {"QueueName", "QueueName"}, {"Binding", "BindingName"}, {"Group", "Group"}, {"IncludeSnapshots", "IncludeSnapshots"}} {
			ok := false
			ast.Inspect(he.Decl.Body, func(n ast.Node) bool {
				cl, isC := n.(*ast.CompositeLit)
				if !isC {
					return true
				}
				if tv, has := hinfo.Types[cl]; !has || infoT == nil || !types.Identical(tv.Type, infoT) {
					return true
				}
				for _, el := range cl.Elts {
					if kvx, isKV := el.(*ast.KeyValueExpr); isKV {
						if id, isI := kvx.Key.(*ast.Ident); isI && id.Name == kv[0] {
							if s, isS := ast.Unparen(kvx.Value).(*ast.SelectorExpr); isS && s.Sel.Name == kv[1] {
								ok = true
							}
						}
					}
				}
				return true
			})
			r2.Check(ok, he.Key+" info."+kv[0], he.Decl.Pos(), "= link."+kv[1], "BindingExecutionInfo."+kv[0]+" is not taken from the link's "+kv[1])
		}
	}

	// ---- R3 producer
	r3 := c.Rule("C11.R3", "D1:sibling agreement", "the schedule and kubernetes task producers copy HookName, BindingType, BindingContext, AllowFailure, Binding, Group from the info and place the task with WithQueueName(info.QueueName)", 2)
	if f := r3.NeedFunc(pkgOp + ".(*ShellOperator).initHookManager"); f != nil {
		info := f.Pkg.TypesInfo
		metaT := p.Named(pkgMeta, "HookMetadata")
		n := 0
		ast.Inspect(f.Decl.Body, func(m ast.Node) bool {
			cl, ok := m.(*ast.CompositeLit)
			if !ok {
				return true
			}
			if tv, has := info.Types[cl]; !has || metaT == nil || !types.Identical(tv.Type, metaT) {
				return true
			}
			n++
			want := map[string]string{"HookName": "Name", "BindingContext": "BindingContext", "AllowFailure": "AllowFailure", "Binding": "Binding", "Group": "Group"}
			var missing []string
			for k, src := range want {
				okK := false
				for _, el := range cl.Elts {
					if kv, isKV := el.(*ast.KeyValueExpr); isKV {
						if id, isI := kv.Key.(*ast.Ident); isI && id.Name == k {
							if s, isS := ast.Unparen(kv.Value).(*ast.SelectorExpr); isS && s.Sel.Name == src {
								okK = true
							}
						}
					}
				}
				if !okK {
					missing = append(missing, k)
				}
			}
			hasBT := false
			for _, el := range cl.Elts {
				if kv, isKV := el.(*ast.KeyValueExpr); isKV {
					if id, isI := kv.Key.(*ast.Ident); isI && id.Name == "BindingType" {
						hasBT = true
					}
				}
			}
			if !hasBT {
				missing = append(missing, "BindingType")
			}
			r3.Check(len(missing) == 0, fmt.Sprintf("%s producer#%d", f.Key, n), cl.Pos(), "all attributes copied from the execution info", fmt.Sprintf("a task producer does not copy %v from the binding's execution info", missing))
			return true
		})
		if n < 2 {
			r3.Bad(f.Key+" producers", f.Decl.Pos(), "expected two task producers (kubernetes, schedule)")
		}
	}

	// ---- R4
	r4 := c.Rule("C11.R4", "A:lockset", "guarded-by: scheduleBindingsController.ScheduleLinks (l)", 4)
	guardedBy(r4, pkgCtrl, "scheduleBindingsController", "ScheduleLinks", "l")

	// ---- R5
	r5 := c.Rule("C11.R5", "D2:derived-from", "ScheduleEntry.Id of every schedule binding comes from ScheduleID(), which derives from uuid.NewV4(); links are keyed by that id", 4)
	if fo, _ := p.Object(pkgCfg, "ScheduleID").(*types.Func); fo == nil {
		r5.Unknown("anchor:ScheduleID", token.NoPos, "not found")
	} else {
		f := p.FuncOf(fo)
		c.Touch(f)
		ok := true
		nret := 0
		eng.InspectNoLit(f.Decl.Body, func(n ast.Node) bool {
			if r, isR := n.(*ast.ReturnStmt); isR && len(r.Results) == 1 {
				nret++
				if !p.Origins(f, r.Results[0], 0).HasCallTo("github.com/gofrs/uuid/v5", "NewV4") {
					ok = false
				}
			}
			return true
		})
		ok = ok && nret > 0
		sig := fo.Type().(*types.Signature)
		r5.Check(ok && sig.Params().Len() == 0, f.Key, f.Decl.Pos(), "a fresh uuid per call", "schedule ids are not fresh uuids (e.g. derived from the binding name and crontab): bindings with the same name share a reference-count id and a link key, so disabling one hook stops the crontab for another and same-named bindings overwrite each other")
		idFld := extOrLocalField(p, "pkg/schedule_manager/types", "ScheduleEntry", "Id")
		for _, key := range []string{pkgCfg + ".(*HookConfigV1).ConvertSchedule", pkgCfg + ".(*HookConfigV0).ConvertSchedule"} {
			cf := p.Func(key)
			if cf == nil {
				// name may differ: search functions of the package that build a ScheduleEntry
				continue
			}
			_ = cf
		}
		n := 0
		for _, cf := range funcsOfPkg(p, pkgCfg) {
			if cf.Decl.Body == nil {
				continue
			}
			cinfo := cf.Pkg.TypesInfo
			ast.Inspect(cf.Decl.Body, func(m ast.Node) bool {
				cl, isC := m.(*ast.CompositeLit)
				if !isC {
					return true
				}
				if v := litKeyValue(cinfo, cl, idFld); v != nil {
					n++
					r5.Check(isCallTo(cinfo, v, fo), cf.Key+" ScheduleEntry.Id", v.Pos(), "Id: ScheduleID()", "a schedule binding's id is not generated by ScheduleID()")
				}
				return true
			})
		}
		if n == 0 {
			r5.Unknown("ScheduleEntry literals", token.NoPos, "no ScheduleEntry{Id: ...} literal found in the config converters")
		}
		// link key
		if en != nil {
			einfo := en.Pkg.TypesInfo
			links := p.Field(pkgCtrl, "scheduleBindingsController", "ScheduleLinks")
			ok := false
			eng.InspectNoLit(en.Decl.Body, func(m ast.Node) bool {
				if as, isA := m.(*ast.AssignStmt); isA && len(as.Lhs) == 1 {
					if ix, isIx := ast.Unparen(as.Lhs[0]).(*ast.IndexExpr); isIx && eng.IsField(einfo, ix.X, links) && eng.IsField(einfo, ix.Index, idFld) {
						ok = true
					}
				}
				return true
			})
			r5.Check(ok, en.Key+" link-key", en.Decl.Pos(), "ScheduleLinks[config.ScheduleEntry.Id]", "schedule links are not keyed by the binding's unique id")
		}
	}

	// ---- R6 every tick asks every schedule hook
	// ---- R7: a schedule is identified by its crontab string as written
	r7 := c.Rule("C11.R7", "D:provenance", "the schedule manager keys its entries by ScheduleEntry.Crontab itself and the tick carries that same string (the bindings controllers select their links by comparing it, unchanged, with their own copy)", 2)
	runC11R7(c, r7)

	r6 := c.Rule("C11.R6", "B:must-pass", "Manager.HandleScheduleEvent: on every path every hook registered for schedule bindings is asked CanHandleScheduleEvent for this tick (the answer depends on which bindings are enabled now and must not be remembered)", 1)
	if f := r6.NeedFunc(pkgHook + ".(*Manager).HandleScheduleEvent"); f != nil {
		canHandle := p.Method(pkgCtrl, "HookController", "CanHandleScheduleEvent")
		inOrder := p.Field(pkgHook, "Manager", "hooksInOrder")
		getInOrder := p.Method(pkgHook, "Manager", "GetHooksInOrder")
		// loops of fn over the schedule hooks in every iteration of which CanHandleScheduleEvent(<string param>) is called
		askLoops := func(fn *eng.Func) []ast.Stmt {
			info := fn.Pkg.TypesInfo
			g := p.GraphOf(fn)
			var out []ast.Stmt
			for _, el := range elemLoopsOver(info, fn.Decl.Body, func(x ast.Expr) bool {
				if ix, ok := ast.Unparen(x).(*ast.IndexExpr); ok && eng.IsField(info, ix.X, inOrder) {
					return true
				}
				if isCallTo(info, x, getInOrder) {
					return true
				}
				if v, isV := eng.SelObj(info, x).(*types.Var); isV && !v.IsField() {
					for _, e := range eng.AssignedExprs(info, fn.Decl.Body, v) {
						if isCallTo(info, e, getInOrder) {
							return true
						}
						if ix, ok := ast.Unparen(e).(*ast.IndexExpr); ok && eng.IsField(info, ix.X, inOrder) {
							return true
						}
					}
				}
				return false
			}) {
				if loopNoEarlyExit(g, el.Stmt) && loopBodyMustPass(g, el.Stmt, func(n *eng.GNode) bool { return len(g.CallsAt(n, isObj(canHandle))) > 0 }) {
					out = append(out, el.Stmt)
				}
			}
			return out
		}
		mustAsk := func(fn *eng.Func, helpers map[*eng.Func]bool) bool {
			g := p.GraphOf(fn)
			info := fn.Pkg.TypesInfo
			var heads []func(*eng.GNode) bool
			for _, l := range askLoops(fn) {
				heads = append(heads, isLoopHeadOf(l))
			}
			pred := func(n *eng.GNode) bool {
				for _, h := range heads {
					if h(n) {
						return true
					}
				}
				if n.Node == nil || helpers == nil {
					return false
				}
				for _, m := range g.CallsAt(n, func(o types.Object, _ *ast.CallExpr) bool {
					fo, ok := o.(*types.Func)
					return ok && helpers[p.FuncOf(fo)]
				}) {
					_ = m
					return true
				}
				_ = info
				return false
			}
			return g.MustPassToExit(eng.Query{FromEntry: true}, pred) == nil
		}
		helpers := map[*eng.Func]bool{}
		for _, hf := range funcsOfPkg(p, pkgHook) {
			if hf != f && hf.Decl.Body != nil && hf.Obj != nil && eng.RecvNamed(hf.Obj) == eng.RecvNamed(f.Obj) && mustAsk(hf, nil) {
				helpers[hf] = true
			}
		}
		r6.Check(mustAsk(f, helpers), f.Key+" asks every schedule hook on every tick", f.Decl.Pos(), "a loop over the hooks with schedule bindings calling CanHandleScheduleEvent lies on every path",
			"a tick can be dispatched without asking every schedule hook whether it handles this crontab now (e.g. the list of hooks per crontab is computed once and remembered): hooks whose schedule bindings are enabled later never receive tasks for a crontab that already fired")
	}
}

func firstRange(body *ast.BlockStmt) *ast.RangeStmt {
	var out *ast.RangeStmt
	eng.InspectNoLit(body, func(n ast.Node) bool {
		if rs, ok := n.(*ast.RangeStmt); ok && out == nil {
			out = rs
		}
		return true
	})
	return out
}

func extOrLocalField(p *eng.Prog, pkgShort, typ, field string) *types.Var {
	if v := p.Field(pkgShort, typ, field); v != nil {
		return v
	}
	return extField(p, full(pkgShort), typ, field)
}

// runC11R7: every key used with scheduleManager.Entries in Add / Remove (index, store, delete) is the Crontab field
// of the entry passed in, possibly held in a local; the value sent on ScheduleCh by the scheduled function is that
// field too. A normalised or otherwise derived key makes the manager and the controllers disagree on which bindings
// a tick belongs to.
func runC11R7(c *eng.Ctx, r *eng.RuleCtx) {
	p := c.P
	entries := p.Field(pkgSched, "scheduleManager", "Entries")
	ch := p.Field(pkgSched, "scheduleManager", "ScheduleCh")
	crontab := extOrLocalField(p, "pkg/schedule_manager/types", "ScheduleEntry", "Crontab")
	if entries == nil || crontab == nil || ch == nil {
		r.Unknown("anchor:scheduleManager.Entries/ScheduleEntry.Crontab", token.NoPos, "not found")
		return
	}
	for _, name := range []string{"Add", "Remove"} {
		f := r.NeedFunc(pkgSched + ".(*scheduleManager)." + name)
		if f == nil {
			continue
		}
		info := f.Pkg.TypesInfo
		isCrontab := func(e ast.Expr) bool {
			return eng.IsField(info, resolveLocal(info, f.Decl.Body, e), crontab)
		}
		n, bad := 0, 0
		var pos token.Pos = f.Decl.Pos()
		ast.Inspect(f.Decl.Body, func(x ast.Node) bool {
			switch t := x.(type) {
			case *ast.IndexExpr:
				if eng.IsField(info, t.X, entries) {
					n++
					if !isCrontab(t.Index) {
						bad++
						pos = t.Pos()
					}
				}
			case *ast.CallExpr:
				if d := builtinCall(info, t, "delete"); d != nil && len(d.Args) == 2 && eng.IsField(info, d.Args[0], entries) {
					n++
					if !isCrontab(d.Args[1]) {
						bad++
						pos = t.Pos()
					}
				}
			case *ast.SendStmt:
				if fieldOrAccessor(p, info, t.Chan, ch) {
					n++
					if !isCrontab(t.Value) {
						bad++
						pos = t.Pos()
					}
				}
			}
			return true
		})
		if name == "Add" {
			// the scheduled function sends the tick on every activation
			addFunc := 0
			for _, l := range f.Lits {
				if l.ArgOf == nil || eng.CalleeOf(info, l.ArgOf) == nil || eng.CalleeOf(info, l.ArgOf).Name() != "AddFunc" {
					continue
				}
				addFunc++
				lg := p.GraphOfLit(l)
				sends := func(gn *eng.GNode) bool {
					st, isS := gn.Node.(*ast.SendStmt)
					return isS && fieldOrAccessor(p, info, st.Chan, ch)
				}
				r.Check(lg.MustPassToExit(eng.Query{FromEntry: true}, sends) == nil, f.Key+" every activation sends the tick", l.Lit.Pos(), "the scheduled function always sends on ScheduleCh", "the scheduled function can return without sending the tick (a debounce, a filter): a legitimate activation of the crontab produces no task")
			}
			if addFunc == 0 {
				r.Unknown(f.Key+" scheduled function", f.Decl.Pos(), "no function literal passed to cron.AddFunc")
			}
		}
		r.Check(n > 0 && bad == 0, f.Key+" keys", pos, fmt.Sprintf("%d uses of Entries / ScheduleCh, all with the entry's Crontab", n),
			fmt.Sprintf("%d of %d keys of scheduleManager.Entries (or values sent as the tick) are not the entry's Crontab string itself: the manager and the bindings controllers no longer agree on what identifies a schedule, a binding whose crontab is spelled differently gets no tasks", bad, n))
	}
}
