package rules

import (
	"fmt"
	"go/ast"
	"go/token"
	"go/types"
	"strings"

	"sopverif/eng"
)

func init() {
	register(&Property{
		ID:    "C04",
		Title: "Failed runs are retried until success and block the queue unless allowFailure",
		Explanation: "Decided on the queue worker, waitForTask, taskHandleHookRun, handleRunHook, Hook.Run and RunAndLogLines: (R1) the " +
			"Fail arm computes the delay from ExponentialBackoffFn(failure count) and increments the count, the delay variable has exactly " +
			"the three documented sources and reaches waitForTask on every iteration, waitForTask returns a task early only when no " +
			"delay was requested and otherwise only after elapsed >= waitUntil, and the only thing that shortens a wait is " +
			"CancelTaskDelay, which nothing in the product calls; (R2) after a failed run Success is stored only under AllowFailure, " +
			"otherwise Fail; (R3) no error on the execution path is dropped; (R4) tasks are combined only when their AllowFailure agrees " +
			"with the head task's; (R5) the combined contexts are written back to the task before the hook runs, so a retry executes " +
			"the same contexts. Every assignment of the returned back-off delay keeps the initial delay as a summand (R6). NOT decided: the numeric bound 'never shorter than the initial delay', wall-clock behaviour.",
		Run: runC04,
	})
}

func runC04(c *eng.Ctx) {
	p := c.P
	r1 := c.Rule("C04.R1", "B+C", "worker: Fail -> delay = ExponentialBackoffFn(t.GetFailureCount()), IncrementFailureCount; delay sources are exactly {backoff under Fail, DelayOnRepeat under Repeat, DelayBeforeNextTask when non-zero}; the delay reaches waitForTask; waitForTask honours it; only CancelTaskDelay cuts it short and nobody calls it", 9)
	runC04R1(c, r1)

	r2 := c.Rule("C04.R2", "B:control-dependence", "taskHandleHookRun: on the error edge of handleRunHook, Status=Success is stored only under hookMeta.AllowFailure, otherwise Status=Fail", 2)
	runC04R2(c, r2)

	r3 := c.Rule("C04.R3", "I:error-flow", "errors on the execution path (Hook.Run, handleRunHook, RunAndLogLines) are bound, tested and returned", 14)
	runC04R3(c, r3)

	r4 := c.Rule("C04.R4", "D5:decision homogeneity", "the combine call in taskHandleHookRun passes a stop predicate that refuses tasks whose AllowFailure differs from the head task's", 1)
	r5 := c.Rule("C04.R5", "B:must-pass", "after combining, t.UpdateMetadata(hookMeta) is passed on every path to handleRunHook (the retried task carries the combined contexts)", 1)
	if f := r4.NeedFunc(pkgOp + ".(*ShellOperator).taskHandleHookRun"); f != nil {
		info := f.Pkg.TypesInfo
		_ = p
		combine := p.Method(pkgOp, "ShellOperator", "combineBindingContextForHook")
		combineX := p.Method(pkgOp, "ShellOperator", "CombineBindingContextForHook")
		allowFailure := p.Field(pkgMeta, "HookMetadata", "AllowFailure")
		calls := callsIn(info, f.Decl.Body, func(o types.Object, _ *ast.CallExpr) bool { return o != nil && (o == combine || o == combineX) })
		if len(calls) == 0 {
			r4.Ok(f.Key+" no-combine", f.Decl.Pos(), "tasks are not combined at all")
			r5.Ok(f.Key+" no-combine", f.Decl.Pos(), "tasks are not combined at all")
		}
		for _, call := range calls {
			stop := call.Args[len(call.Args)-1]
			ok := false
			detail := "the stop predicate is nil: every following task of the hook is merged, but allowFailure is decided from the head task alone"
			var lit *ast.FuncLit
			if fl, isL := ast.Unparen(stop).(*ast.FuncLit); isL {
				lit = fl
			} else if v, isV := eng.SelObj(info, stop).(*types.Var); isV {
				for _, e := range eng.AssignedExprs(info, f.Decl.Body, v) {
					if fl, isL := ast.Unparen(e).(*ast.FuncLit); isL {
						lit = fl
					}
				}
			}
			if lit != nil {
				detail = "the stop predicate does not compare the next task's AllowFailure with the head task's"
				ast.Inspect(lit.Body, func(n ast.Node) bool {
					b, isB := n.(*ast.BinaryExpr)
					if isB && (b.Op == token.NEQ || b.Op == token.EQL) && eng.IsField(info, b.X, allowFailure) && eng.IsField(info, b.Y, allowFailure) {
						// the comparison must decide the result: returned true on difference
						ok = true
					}
					return true
				})
			}
			r4.Check(ok, f.Key+" combine-stop-predicate", call.Pos(), "tasks with a different AllowFailure are not merged", detail+": a failed run of [allowFailure, !allowFailure] is reported as Success and the contexts of the binding that does not allow failure are discarded")
		}
		combinedWrittenBack(c, r5, f, len(calls) > 0)
	}

	r7 := c.Rule("C04.R7", "D:provenance", "(shared with C03.R11) tasks run outside a queue stay outside: a webhook run must not take a failed, waiting task out of its queue (it would never be retried and its contexts are lost if the webhook run fails)", 4)
	runOutsideQueueTasks(c, r7)
	r6 := c.Rule("C04.R6", "D:provenance", "the back-off function of a queue derives from CalculateDelay(DefaultInitialDelayOnFailedTask, failureCount); CalculateDelayWithMax returns the initial delay for retry 0 and adds it to every later delay", 3)
	runC04R6(c, r6)
}

func runC04R1(c *eng.Ctx, r *eng.RuleCtx) {
	p := c.P
	f := r.NeedFunc(pkgQueue + ".(*TaskQueue).Start")
	w := r.NeedFunc(pkgQueue + ".(*TaskQueue).waitForTask")
	if f == nil || w == nil {
		return
	}
	info := f.Pkg.TypesInfo
	status := p.Field(pkgQueue, "TaskResult", "Status")
	backoffFn := p.Field(pkgQueue, "TaskQueue", "ExponentialBackoffFn")
	delayOnRepeat := p.Field(pkgQueue, "TaskQueue", "DelayOnRepeat")
	delayBefore := p.Field(pkgQueue, "TaskResult", "DelayBeforeNextTask")
	handler := p.Field(pkgQueue, "TaskQueue", "Handler")
	getFC := p.Method(pkgTask, "Task", "GetFailureCount")
	incFC := p.Method(pkgTask, "Task", "IncrementFailureCount")
	waitFor := p.Method(pkgQueue, "TaskQueue", "waitForTask")
	gl := goLits(f)
	if len(gl) != 1 {
		r.Unknown(f.Key, f.Decl.Pos(), "expected one worker goroutine literal")
		return
	}
	worker := gl[0]
	g := p.GraphOfLit(worker)
	var taskVar types.Object
	var handlerNode *eng.GNode
	for _, s := range p.Sites(handler) {
		if s.InLit == worker && len(s.Call.Args) == 1 {
			taskVar = eng.SelObj(info, s.Call.Args[0])
			handlerNode = g.NodeOf(s.Call)
		}
	}
	if taskVar == nil || handlerNode == nil {
		r.Unknown(f.Key+"$worker", worker.Lit.Pos(), "Handler call not found")
		return
	}
	failEdge := g.FactEdge(fieldEqConst(info, status, "Fail", true))
	repeatEdge := g.FactEdge(fieldEqConst(info, status, "Repeat", true))
	// the waitForTask call and its argument variable
	var waitCall *ast.CallExpr
	for _, call := range callsIn(info, worker.Lit.Body, isObj(waitFor)) {
		waitCall = call
	}
	if waitCall == nil || len(waitCall.Args) != 1 {
		r.Bad(f.Key+"$worker waits", worker.Lit.Pos(), "the worker does not obtain its task from waitForTask(delay)")
		return
	}
	sleepVar, _ := eng.SelObj(info, waitCall.Args[0]).(*types.Var)
	if sleepVar == nil {
		r.Unknown(f.Key+"$worker waits", waitCall.Pos(), "waitForTask argument is not a variable")
		return
	}
	// delay variable chain: sleepVar <- nextVar
	var nextVar *types.Var
	var copyNode *eng.GNode
	for _, n := range g.Nodes {
		as, ok := n.Node.(*ast.AssignStmt)
		if ok && len(as.Lhs) == 1 && eng.SelObj(info, as.Lhs[0]) == sleepVar {
			if v, isV := eng.SelObj(info, as.Rhs[0]).(*types.Var); isV && !v.IsField() {
				nextVar = v
				copyNode = n
			}
		}
	}
	if nextVar == nil {
		nextVar = sleepVar
	}
	// (a) sources of the delay variable
	nsrc := 0
	var backoffNode *eng.GNode
	for _, n := range g.Nodes {
		as, ok := n.Node.(*ast.AssignStmt)
		if !ok || len(as.Lhs) != 1 || eng.SelObj(info, as.Lhs[0]) != nextVar {
			continue
		}
		rhs := ast.Unparen(as.Rhs[0])
		nsrc++
		construct := fmt.Sprintf("%s$worker delay source `%s`", f.Key, eng.Short(p.Fset, rhs))
		switch {
		case func() bool {
			cl, ok := rhs.(*ast.CallExpr)
			if !ok || eng.CalleeOf(info, cl) != backoffFn || len(cl.Args) != 1 {
				return false
			}
			a, ok := ast.Unparen(resolveLocal(info, worker.Lit.Body, cl.Args[0])).(*ast.CallExpr)
			if !ok || eng.CalleeOf(info, a) != getFC {
				return false
			}
			s, ok := ast.Unparen(a.Fun).(*ast.SelectorExpr)
			return ok && eng.SelObj(info, s.X) == taskVar
		}():
			backoffNode = n
			r.Check(g.OnlyVia(n, nil, failEdge), construct, as.Pos(), "exponential back-off of the task's failure count, under Status==Fail", "the back-off assignment is not confined to Status==Fail")
		case eng.IsField(info, rhs, delayOnRepeat):
			r.Check(g.OnlyVia(n, nil, repeatEdge), construct, as.Pos(), "DelayOnRepeat under Status==Repeat", "DelayOnRepeat is applied outside Status==Repeat (it would replace the back-off of a failed task)")
		case eng.IsField(info, rhs, delayBefore):
			nz := g.FactEdge(func(fc eng.Fact) bool {
				x, y, eq, ok := eng.EqAtom(fc)
				if !ok || eq {
					return false
				}
				v, isC := eng.ConstInt(info, y)
				return eng.IsField(info, x, delayBefore) && isC && v == 0
			})
			r.Check(g.OnlyVia(n, nil, nz), construct, as.Pos(), "handler-requested delay, only when non-zero", "DelayBeforeNextTask overrides the delay even when it is zero: the back-off of a failed task is cancelled")
		default:
			if tv, ok := info.Types[rhs]; ok && tv.Value != nil {
				// constant delay
				r.Bad(construct, as.Pos(), "the delay before the next attempt is set to a constant: a failed task is retried without the exponential back-off")
			} else {
				r.Bad(construct, as.Pos(), "unknown source for the delay before the next attempt (allowed: ExponentialBackoffFn(t.GetFailureCount()) under Fail, DelayOnRepeat under Repeat, DelayBeforeNextTask when non-zero)")
			}
		}
	}
	if backoffNode == nil {
		r.Bad(f.Key+"$worker backoff", worker.Lit.Pos(), "no `delay = q.ExponentialBackoffFn(t.GetFailureCount())` in the worker: failed tasks are retried without back-off")
	} else {
		// on the Fail edge the back-off assignment and the increment are always executed
		for _, n := range g.Nodes {
			for _, e := range n.Succ {
				if !failEdge(e) {
					continue
				}
				q := eng.Query{From: []*eng.GNode{n}, AvoidEdge: func(x *eng.GEdge) bool { return x.From == n && x != e }}
				isInc := func(m *eng.GNode) bool {
					return len(g.CallsAt(m, func(o types.Object, call *ast.CallExpr) bool {
						s, isS := ast.Unparen(call.Fun).(*ast.SelectorExpr)
						return o == incFC && isS && eng.SelObj(info, s.X) == taskVar
					})) > 0
				}
				isLoopBack := func(m *eng.GNode) bool { return m == g.NodeOf(waitCall) }
				reachNoBackoff := g.Reach(eng.Query{From: q.From, AvoidEdge: q.AvoidEdge, AvoidNode: func(m *eng.GNode) bool { return m == backoffNode }})
				reachNoInc := g.Reach(eng.Query{From: q.From, AvoidEdge: q.AvoidEdge, AvoidNode: isInc})
				bad1, bad2 := false, false
				for m := range reachNoBackoff {
					if isLoopBack(m) && m != backoffNode {
						bad1 = true
					}
				}
				for m := range reachNoInc {
					if isLoopBack(m) {
						bad2 = true
					}
				}
				r.Check(!bad1 && !bad2, f.Key+"$worker fail-arm", backoffNode.Node.Pos(), "on Status==Fail the back-off is computed and the failure count incremented before the next wait", fmt.Sprintf("after a failed task the worker can reach the next wait without computing the back-off (%v) or without IncrementFailureCount (%v)", bad1, bad2))
			}
		}
	}
	if nsrc == 0 {
		r.Unknown(f.Key+"$worker delay sources", worker.Lit.Pos(), "no assignment to the delay variable found")
	}
	// (b) the delay reaches waitForTask on every iteration
	if copyNode != nil {
		reach := g.Reach(eng.Query{From: []*eng.GNode{handlerNode}, AvoidNode: func(m *eng.GNode) bool { return m == copyNode }})
		bad := false
		for m := range reach {
			if m == g.NodeOf(waitCall) {
				bad = true
			}
		}
		r.Check(!bad, f.Key+"$worker delay-reaches-wait", copyNode.Node.Pos(), "the computed delay is copied to the waitForTask argument on every iteration", "an iteration can reach waitForTask without copying the computed delay: the previous (or zero) delay is used")
	} else {
		r.Ok(f.Key+"$worker delay-reaches-wait", waitCall.Pos(), "waitForTask is called with the delay variable itself")
	}

	// (c) waitForTask honours the delay
	winfo := w.Pkg.TypesInfo
	wg := p.GraphOf(w)
	getFirst := p.Method(pkgQueue, "TaskQueue", "GetFirst")
	delayPrm := w.Obj.Type().(*types.Signature).Params().At(0)
	var waitUntil *types.Var
	for _, n := range wg.Nodes {
		as, ok := n.Node.(*ast.AssignStmt)
		if ok && len(as.Lhs) == 1 && eng.SelObj(winfo, as.Rhs[0]) == delayPrm {
			waitUntil, _ = eng.SelObj(winfo, as.Lhs[0]).(*types.Var)
			nz := wg.FactEdge(func(fc eng.Fact) bool {
				x, y, eq, ok := eng.EqAtom(fc)
				v, isC := eng.ConstInt(winfo, y)
				return ok && !eq && eng.SelObj(winfo, x) == delayPrm && isC && v == 0
			})
			_ = nz
		}
	}
	nret := 0
	for _, n := range wg.Nodes {
		ret, ok := n.Node.(*ast.ReturnStmt)
		if !ok || len(ret.Results) != 1 || !isCallTo(winfo, ret.Results[0], getFirst) {
			continue
		}
		nret++
		zero := wg.FactEdge(func(fc eng.Fact) bool {
			x, y, eq, ok := eng.EqAtom(fc)
			v, isC := eng.ConstInt(winfo, y)
			return ok && eq && eng.SelObj(winfo, x) == delayPrm && isC && v == 0
		})
		elapsed := wg.FactEdge(func(fc eng.Fact) bool {
			if !fc.Pos || fc.Y != nil || waitUntil == nil {
				return false
			}
			b, isB := ast.Unparen(fc.X).(*ast.BinaryExpr)
			return isB && (b.Op == token.GEQ || b.Op == token.GTR) && eng.SelObj(winfo, b.Y) == waitUntil
		})
		// the wait-loop return depends on elapsed >= waitUntil through the checkTask flag: use the flag-sensitive query with
		// the edge removed
		okZero := wg.OnlyVia(n, nil, zero)
		okElapsed := waitUntil != nil && wg.OnlyVia(n, nil, elapsed)
		if !okZero && !okElapsed && waitUntil != nil {
			// by assumption: a delay was requested and `elapsed >= waitUntil` never holds; conditions and flag
			// assignments are evaluated under it (a flag assigned from the comparison is then false)
			never := func(fc eng.Fact) bool {
				if fc.Y != nil {
					return false
				}
				if x, y, eq, ok := eng.EqAtom(fc); ok {
					if v, isC := eng.ConstInt(winfo, y); isC && v == 0 && eng.SelObj(winfo, x) == delayPrm {
						return !eq // sleepDelay != 0
					}
				}
				if b, isB := ast.Unparen(fc.X).(*ast.BinaryExpr); isB && eng.SelObj(winfo, b.Y) == types.Object(waitUntil) {
					switch b.Op {
					case token.GEQ, token.GTR:
						return !fc.Pos
					case token.LSS, token.LEQ:
						return fc.Pos
					}
				}
				return false
			}
			reach := wg.Reach(eng.Query{FromEntry: true, Assume: never, AvoidEdge: wg.Infeasible(never)})
			okElapsed = !reach[n]
		}
		construct := fmt.Sprintf("%s return-head#%d", w.Key, nret)
		r.Check(okZero || okElapsed, construct, ret.Pos(), map[bool]string{true: "shortcut only when no delay was requested", false: "returned only after elapsed >= waitUntil"}[okZero],
			"waitForTask can return the head task although a delay was requested and has not elapsed: the failed task is retried immediately")
	}
	if nret == 0 {
		r.Unknown(w.Key+" returns", w.Decl.Pos(), "no `return q.GetFirst()` found")
	}
	// waitUntil initialised from the requested delay
	r.Check(waitUntil != nil, w.Key+" waitUntil<-delay", w.Decl.Pos(), "waitUntil is set from the requested delay", "the requested delay never reaches the wait loop's deadline")
	// (d) who can cut the wait short
	cancelDelay := p.Field(pkgQueue, "TaskQueue", "cancelDelay")
	cancelFn := p.Method(pkgQueue, "TaskQueue", "CancelTaskDelay")
	if cancelFn == nil {
		r.Unknown("anchor:CancelTaskDelay", token.NoPos, "method not found")
		return
	}
	if cancelDelay == nil {
		// the request flag has another representation (an enumeration of wait states, say): every field of the queue
		// that the wait loop itself writes is its state - outside of it only CancelTaskDelay (and constructors) may write it
		n := 0
		if tq := p.Named(pkgQueue, "TaskQueue"); tq != nil {
			if st, isS := tq.Underlying().(*types.Struct); isS {
				for i := 0; i < st.NumFields(); i++ {
					fld := st.Field(i)
					owned := false
					for _, ref := range p.Refs(fld) {
						if ref.Write && ref.In == w {
							owned = true
						}
					}
					if !owned {
						continue
					}
					for _, ref := range p.Refs(fld) {
						if !ref.Write || ref.In == w {
							continue
						}
						n++
						ok := ref.In == nil || ref.In.Obj == cancelFn || (ref.In.Obj != nil && ref.In.Decl.Recv == nil && strings.HasPrefix(ref.In.Obj.Name(), "New"))
						r.Check(ok, "wait state "+fld.Name()+" written in "+ref.Where(), ref.Node.Pos(), "only CancelTaskDelay requests an early wake-up", "the wait of a queue (including the back-off after a failure) is cut short from outside CancelTaskDelay")
					}
				}
			}
		}
		if n == 0 {
			r.Unknown("anchor:cancelDelay", token.NoPos, "no field through which CancelTaskDelay reaches the wait loop was found")
			return
		}
	}
	for _, ref := range p.Refs(cancelDelay) {
		if !ref.Write {
			continue
		}
		val := storedValue(ref)
		b, isC := false, false
		if val != nil {
			b, isC = constBool(ref.Pkg.TypesInfo, val)
		}
		if isC && !b {
			continue
		}
		construct := "cancelDelay=true in " + ref.Where()
		r.Check(ref.In != nil && ref.In.Obj == cancelFn, construct, ref.Node.Pos(), "only CancelTaskDelay requests an early wake-up", "the wait of a queue (including the back-off after a failure) is cut short from outside CancelTaskDelay")
	}
	sites := p.Sites(cancelFn)
	refs := p.Refs(cancelFn)
	if len(sites) == 0 && len(refs) == 0 {
		r.Ok("callers of CancelTaskDelay", token.NoPos, "no product code calls CancelTaskDelay (it is an API for embedding programs)")
	}
	for _, s := range sites {
		r.Bad("call:"+s.Where()+"->CancelTaskDelay", s.Call.Pos(), "product code cancels the delay of a queue: when this happens during the back-off of a failed task the task is retried before the back-off has elapsed")
	}
	for _, ref := range refs {
		r.Bad("value-ref:"+ref.Where()+"->CancelTaskDelay", ref.Node.Pos(), "CancelTaskDelay is taken as a value")
	}
}

func runC04R2(c *eng.Ctx, r *eng.RuleCtx) {
	p := c.P
	f := r.NeedFunc(pkgOp + ".(*ShellOperator).taskHandleHookRun")
	if f == nil {
		return
	}
	info := f.Pkg.TypesInfo
	g := p.GraphOf(f)
	status := p.Field(pkgQueue, "TaskResult", "Status")
	allowFailure := p.Field(pkgMeta, "HookMetadata", "AllowFailure")
	handleRun := p.Method(pkgOp, "ShellOperator", "handleRunHook")
	var runNode *eng.GNode
	var errVar types.Object
	for _, n := range g.NodesCalling(handleRun) {
		runNode = n
		if as, ok := n.Node.(*ast.AssignStmt); ok && len(as.Lhs) == 1 {
			errVar = eng.SelObj(info, as.Lhs[0])
		}
	}
	if runNode == nil || errVar == nil {
		r.Unknown(f.Key+" handleRunHook", f.Decl.Pos(), "`err = op.handleRunHook(...)` not found")
		return
	}
	isStore := func(val string) func(n *eng.GNode) bool {
		return func(n *eng.GNode) bool {
			as, ok := n.Node.(*ast.AssignStmt)
			if !ok || len(as.Lhs) != 1 || !eng.IsField(info, as.Lhs[0], status) {
				return false
			}
			s, isC := eng.ConstStr(info, as.Rhs[0])
			return isC && s == val
		}
	}
	errNonNil := func(pos bool) func(*eng.GEdge) bool {
		return g.FactEdge(func(fc eng.Fact) bool {
			x, y, eq, ok := eng.EqAtom(fc)
			if !ok || !(eng.SelObj(info, x) == errVar && eng.IsNil(info, y)) {
				return false
			}
			return (!eq) == pos
		})
	}
	allow := g.FactEdge(func(fc eng.Fact) bool { return fc.Pos && fc.Y == nil && eng.IsField(info, fc.X, allowFailure) })
	notAllow := g.FactEdge(func(fc eng.Fact) bool { return !fc.Pos && fc.Y == nil && eng.IsField(info, fc.X, allowFailure) })
	// the test node of the error and its two edges
	var test *eng.GNode
	var errEdge, okEdge *eng.GEdge
	for n := range g.Reach(eng.Query{From: []*eng.GNode{runNode}}) {
		for _, e := range n.Succ {
			if errNonNil(true)(e) {
				test, errEdge = n, e
			}
			if errNonNil(false)(e) {
				okEdge = e
			}
		}
	}
	if test == nil || errEdge == nil || okEdge == nil {
		r.Unknown(f.Key+" error test", runNode.Node.Pos(), "`if err != nil` after handleRunHook not found")
		return
	}
	onlyEdge := func(keep *eng.GEdge, extra func(*eng.GEdge) bool) func(*eng.GEdge) bool {
		return func(e *eng.GEdge) bool {
			if e.From == test && e != keep {
				return true
			}
			return extra != nil && extra(e)
		}
	}
	_, _ = onlyEdge, isStore
	// scenario: the run failed and the bindings do not allow failure - at every exit the status is Fail
	notAllowed := func(fc eng.Fact) bool {
		return fc.Y == nil && eng.IsField(info, fc.X, allowFailure) && !fc.Pos
	}
	okFail, pos, why := finalStoreIs(g, info, runNode, eng.Query{NonNil: []types.Object{errVar}, Assume: notAllowed, AvoidEdge: g.Infeasible(notAllowed)}, status, "Fail")
	if pos == token.NoPos {
		pos = runNode.Node.Pos()
	}
	r.Check(okFail, f.Key+" success-only-if-allowed", pos, "after a failed run without AllowFailure no path ends with Status=Success", "a failed hook run is turned into Success without looking at allowFailure: the task is dropped and its binding contexts are discarded ("+why+")")
	r.Check(okFail, f.Key+" fail-otherwise", runNode.Node.Pos(), "without AllowFailure a failed run ends with Status=Fail on every path", "after a failed run that is not allowed to fail the status is not set to Fail: the task would be removed instead of retried ("+why+")")
	_ = notAllow
	_ = allow
}

func runC04R3(c *eng.Ctx, r *eng.RuleCtx) {
	p := c.P
	type spec struct {
		fn    string
		names map[string]bool
	}
	specs := []spec{
		{pkgHook + ".(*Hook).Run", map[string]bool{"RunAndLogLines": true, "MetricOperationsFromFile": true, "ResponseFromFile": true, "ReadFile": true,
			"prepareBindingContextJsonFile": true, "prepareMetricsFile": true, "prepareAdmissionResponseFile": true, "prepareConversionResponseFile": true, "prepareObjectPatchFile": true}},
		{pkgOp + ".(*ShellOperator).handleRunHook", map[string]bool{"Run": true, "ParseOperations": true, "ExecuteOperations": true, "SendBatch": true}},
		{pkgExec + ".(*Executor).RunAndLogLines", map[string]bool{"Run": true}},
	}
	for _, s := range specs {
		f := r.NeedFunc(s.fn)
		if f == nil {
			continue
		}
		names := s.names
		checkErrSites(r, f, func(o types.Object) bool { return names[o.Name()] }, nil, nil)
	}
	// taskHandleEnableKubernetesBindings: the error of HandleEnableKubernetesBindings leads to Status=Fail
	if f := r.NeedFunc(pkgOp + ".(*ShellOperator).taskHandleEnableKubernetesBindings"); f != nil {
		info := f.Pkg.TypesInfo
		status := p.Field(pkgQueue, "TaskResult", "Status")
		failStore := func(g *eng.Graph) func(*eng.GNode) bool {
			return func(n *eng.GNode) bool {
				as, ok := n.Node.(*ast.AssignStmt)
				if !ok || len(as.Lhs) != 1 || !eng.IsField(info, as.Lhs[0], status) {
					return false
				}
				s, isC := eng.ConstStr(info, as.Rhs[0])
				return isC && s == "Fail"
			}
		}
		checkErrSites(r, f, func(o types.Object) bool { return nameOf(o) == "HandleEnableKubernetesBindings" }, failStore, nil)
	}
}

func runC04R6(c *eng.Ctx, r *eng.RuleCtx) {
	p := c.P
	// constructor sets ExponentialBackoffFn to CalculateDelay(DefaultInitialDelayOnFailedTask, failureCount)
	backoffFn := p.Field(pkgQueue, "TaskQueue", "ExponentialBackoffFn")
	calc, _ := p.Object(pkgBackoff, "CalculateDelay").(*types.Func)
	calcMax, _ := p.Object(pkgBackoff, "CalculateDelayWithMax").(*types.Func)
	initial := p.Object(pkgQueue, "DefaultInitialDelayOnFailedTask")
	if backoffFn == nil || calc == nil || calcMax == nil || initial == nil {
		r.Unknown("anchor:backoff", token.NoPos, "ExponentialBackoffFn/CalculateDelay/DefaultInitialDelayOnFailedTask not found")
		return
	}
	n := 0
	for _, ref := range p.Refs(backoffFn) {
		if !ref.Write {
			continue
		}
		n++
		val := storedValue(ref)
		ok := false
		if fl, isL := ast.Unparen(val).(*ast.FuncLit); isL && val != nil {
			info := ref.Pkg.TypesInfo
			var prm types.Object
			if fl.Type.Params != nil && len(fl.Type.Params.List) == 1 && len(fl.Type.Params.List[0].Names) == 1 {
				prm = info.Defs[fl.Type.Params.List[0].Names[0]]
			}
			ast.Inspect(fl.Body, func(m ast.Node) bool {
				ret, isR := m.(*ast.ReturnStmt)
				if !isR || len(ret.Results) != 1 {
					return true
				}
				cl, isC := ast.Unparen(ret.Results[0]).(*ast.CallExpr)
				if isC && eng.CalleeOf(info, cl) == calc && len(cl.Args) == 2 && eng.SelObj(info, cl.Args[0]) == initial && eng.SelObj(info, cl.Args[1]) == prm {
					ok = true
				}
				return true
			})
		}
		r.Check(ok, "ExponentialBackoffFn set in "+ref.Where(), ref.Node.Pos(), "CalculateDelay(DefaultInitialDelayOnFailedTask, failureCount)", "the queue's back-off function is not CalculateDelay(DefaultInitialDelayOnFailedTask, failureCount)")
	}
	if n == 0 {
		r.Bad("ExponentialBackoffFn never set", token.NoPos, "no constructor sets ExponentialBackoffFn: the worker would call a nil function")
	}
	f := p.FuncOf(calcMax)
	if f == nil {
		r.Unknown("anchor:CalculateDelayWithMax", token.NoPos, "declaration not found")
		return
	}
	c.Touch(f)
	info := f.Pkg.TypesInfo
	g := p.GraphOf(f)
	sig := calcMax.Type().(*types.Signature)
	init, max, retry := sig.Params().At(0), sig.Params().At(1), sig.Params().At(2)
	// retry 0 returns the initial delay
	ok0 := false
	for _, gn := range g.Nodes {
		ret, isR := gn.Node.(*ast.ReturnStmt)
		if !isR || len(ret.Results) != 1 || eng.SelObj(info, ret.Results[0]) != init {
			continue
		}
		ok0 = g.OnlyVia(gn, nil, g.FactEdge(func(fc eng.Fact) bool {
			x, y, eq, ok := eng.EqAtom(fc)
			v, isC := eng.ConstInt(info, y)
			return ok && eq && eng.SelObj(info, x) == retry && isC && v == 0
		}))
	}
	r.Check(ok0, f.Key+" retry0", f.Decl.Pos(), "retryCount == 0 returns initialDelay", "the first retry does not wait for the initial delay")
	// every other return is max or a variable whose defining expression adds initialDelay
	okRest := true
	eng.InspectNoLit(f.Decl.Body, func(n ast.Node) bool {
		ret, isR := n.(*ast.ReturnStmt)
		if !isR || len(ret.Results) != 1 {
			return true
		}
		res := ret.Results[0]
		// `return min(delay, maxDelay)`: the cap is applied in the return
		if mc := builtinCall(info, res, "min"); mc != nil && len(mc.Args) == 2 {
			if eng.SelObj(info, mc.Args[0]) == max {
				res = mc.Args[1]
			} else if eng.SelObj(info, mc.Args[1]) == max {
				res = mc.Args[0]
			}
		}
		o := eng.SelObj(info, res)
		if o == init || o == max {
			return true
		}
		v, isV := o.(*types.Var)
		if !isV {
			okRest = false
			return true
		}
		// every assignment of the returned variable either builds it as a sum with initialDelay as a summand, or only
		// post-processes the variable itself (v.Truncate(..), min(v, maxDelay)); any other assignment (half of it plus
		// jitter, a fresh value) can fall below the initial delay
		adds := false
		var isSumWithInit func(e ast.Expr) bool
		isSumWithInit = func(e ast.Expr) bool {
			e = ast.Unparen(e)
			if eng.SelObj(info, e) == init {
				if _, isIdent := e.(*ast.Ident); isIdent {
					return true
				}
			}
			if b, isB := e.(*ast.BinaryExpr); isB && b.Op == token.ADD {
				return isSumWithInit(b.X) || isSumWithInit(b.Y)
			}
			return false
		}
		plusAssigned := map[ast.Expr]bool{} // right-hand sides of `v += e`: further summands
		ast.Inspect(f.Decl.Body, func(m ast.Node) bool {
			if as, isA := m.(*ast.AssignStmt); isA && as.Tok == token.ADD_ASSIGN && len(as.Lhs) == 1 && len(as.Rhs) == 1 && eng.SelObj(info, as.Lhs[0]) == types.Object(v) {
				plusAssigned[as.Rhs[0]] = true
			}
			return true
		})
		for _, e := range eng.AssignedExprs(info, f.Decl.Body, v) {
			if plusAssigned[e] {
				continue
			}
			ex := ast.Unparen(e)
			if eng.SelObj(info, ex) == init {
				if _, isIdent := ex.(*ast.Ident); isIdent {
					adds = true // v := initialDelay, extended with += afterwards
					continue
				}
			}
			if b, isB := ex.(*ast.BinaryExpr); isB && b.Op == token.ADD && isSumWithInit(b) {
				adds = true
				continue
			}
			if cl, isC := ex.(*ast.CallExpr); isC {
				if sel, isS := ast.Unparen(cl.Fun).(*ast.SelectorExpr); isS && (sel.Sel.Name == "Truncate" || sel.Sel.Name == "Round") {
					if eng.SelObj(info, sel.X) == types.Object(v) {
						continue
					}
					// (initialDelay + a + b).Truncate(step)
					if b, isB := ast.Unparen(sel.X).(*ast.BinaryExpr); isB && b.Op == token.ADD && isSumWithInit(b) {
						adds = true
						continue
					}
				}
				if mc := builtinCall(info, ex, "max"); mc != nil {
					hasInit := false
					for _, a := range mc.Args {
						if eng.SelObj(info, a) == init {
							hasInit = true
						}
					}
					if hasInit {
						adds = true
						continue
					}
				}
				if mc := builtinCall(info, ex, "min"); mc != nil && len(mc.Args) == 2 && (eng.SelObj(info, mc.Args[0]) == types.Object(v) || eng.SelObj(info, mc.Args[1]) == types.Object(v)) {
					continue
				}
			}
			okRest = false
		}
		if !adds {
			okRest = false
		}
		return true
	})
	r.Check(okRest, f.Key+" later-retries", f.Decl.Pos(), "later delays are initialDelay + exponential part (capped by maxDelay)", "a later delay is not built on top of the initial delay")
}

// combinedWrittenBack: after combining, t.UpdateMetadata(hookMeta) lies on every path from the store of the combined
// contexts to handleRunHook.
func combinedWrittenBack(c *eng.Ctx, r5 *eng.RuleCtx, f *eng.Func, combines bool) {
	p := c.P
	info := f.Pkg.TypesInfo
	g := p.GraphOf(f)
	if !combines {
		return
	}
	bcField := p.Field(pkgMeta, "HookMetadata", "BindingContext")
	combBC := p.Field(pkgOp, "CombineResult", "BindingContexts")
	updateMeta := p.Method(pkgTask, "Task", "UpdateMetadata")
	handleRun := p.Method(pkgOp, "ShellOperator", "handleRunHook")
	var store *eng.GNode
	var metaVar types.Object
	for _, n := range g.Nodes {
		as, ok := n.Node.(*ast.AssignStmt)
		if ok && len(as.Lhs) == 1 && eng.IsField(info, as.Lhs[0], bcField) && eng.IsField(info, as.Rhs[0], combBC) {
			store = n
			if s, isS := ast.Unparen(as.Lhs[0]).(*ast.SelectorExpr); isS {
				metaVar = eng.SelObj(info, s.X)
			}
		}
	}
	if store == nil {
		r5.Bad(f.Key+" combined-contexts-stored", f.Decl.Pos(), "the combined binding contexts are never stored in the task metadata")
		return
	}
	isUpdate := func(n *eng.GNode) bool {
		return len(g.CallsAt(n, func(o types.Object, call *ast.CallExpr) bool {
			return o == updateMeta && len(call.Args) == 1 && eng.SelObj(info, call.Args[0]) == metaVar
		})) > 0
	}
	reach := g.Reach(eng.Query{From: []*eng.GNode{store}, AvoidNode: isUpdate})
	bad := false
	for n := range reach {
		if len(g.CallsAt(n, isObj(handleRun))) > 0 {
			bad = true
		}
	}
	r5.Check(!bad, f.Key+" combined-contexts-written-back", store.Node.Pos(), "UpdateMetadata(hookMeta) lies on every path from the combine to the hook run",
		"the hook can be run with combined contexts that were not written back to the task: the merged tasks are already removed from the queue, so when this run fails the retry executes only the head task's own contexts (and monitor ids) and the others are lost - merged Synchronizations are never delivered and their monitors never unlocked")
}
