package rules

import (
	"fmt"
	"go/ast"
	"go/token"
	"go/types"
	"strings"

	"sopverif/eng"
)

func init() {
	register(&Property{
		ID:    "C14",
		Title: "Admission webhooks fail closed and relay the hook's verdict faithfully",
		Explanation: "Decided on the admission handler, the operator's admission event handler, handleRunHook, the admission bindings " +
			"controller and the response decoder: (R1) no constant true (nor any computed value) reaches an Allowed field: the only source " +
			"is the decoded response copied field to field, and nobody edits a decoded response; (R2) the event handler returns the hook's " +
			"response only when the task did not fail and the prop holds a *Response, returns a constant deny on Fail, and errors otherwise; " +
			"errored() denies; once handleRunHook has stored a response in the task the run cannot fail any more; (R3) the answer reads " +
			"Allowed, Message, Warnings and Patch of the hook's response, sets PatchType=JSONPatch exactly when a patch is present, and the " +
			"request UID is echoed on every path before encoding; (R4) routing requires equality of configuration id and webhook id; " +
			"(R5) an empty response file is (nil, nil), a malformed one an error; (R6) registry inserts keyed by the non-injective " +
			"SafeURLString(binding name) overwrite silently. NOT decided: HTTP/TLS layer, chi routing, JSON codec.",
		Run: runC14,
	})
}

func runC14(c *eng.Ctx) {
	p := c.P
	respT := p.Named(pkgAdm, "Response")
	allowedR := p.Field(pkgAdm, "Response", "Allowed")
	allowedK := extField(p, "k8s.io/api/admission/v1", "AdmissionResponse", "Allowed")

	// ---- R1
	r1 := c.Rule("C14.R1", "D4:no constant reaches sink", "every store to admission.Response.Allowed / AdmissionResponse.Allowed is the constant false or a field-to-field copy of the decoded response; the other fields of a decoded Response are never modified", 3)
	if allowedR == nil || allowedK == nil || respT == nil {
		r1.Unknown("anchor:Allowed fields", token.NoPos, "not found")
	} else {
		n := 0
		for _, fld := range []*types.Var{allowedR, allowedK} {
			for _, ref := range p.Refs(fld) {
				if !ref.Write || ref.In == nil {
					continue
				}
				n++
				val := storedValue(ref)
				info := ref.Pkg.TypesInfo
				construct := fmt.Sprintf("Allowed store#%d in %s", n, ref.Where())
				c.Touch(ref.In)
				if val == nil {
					r1.Bad(construct, ref.Node.Pos(), "unrecognised store to Allowed")
					continue
				}
				if b, isC := constBool(info, val); isC {
					r1.Check(!b, construct, ref.Node.Pos(), "constant false", "a constant `true` is stored into Allowed: the request is admitted without (or regardless of) the hook's verdict")
					continue
				}
				r1.Check(eng.IsField(info, val, allowedR), construct, ref.Node.Pos(), "copied from the hook's decoded response", fmt.Sprintf("Allowed is computed from `%s` instead of being copied from the hook's response", eng.Short(p.Fset, val)))
			}
		}
		if n == 0 {
			r1.Unknown("Allowed stores", token.NoPos, "no store to an Allowed field found")
		}
		// nobody edits a decoded response
		st := respT.Underlying().(*types.Struct)
		edits := 0
		for i := 0; i < st.NumFields(); i++ {
			for _, ref := range p.Refs(st.Field(i)) {
				if ref.Write && !ref.Lit && ref.In != nil {
					edits++
					r1.Bad("Response."+st.Field(i).Name()+" modified in "+ref.Where(), ref.Node.Pos(), "a field of the hook's admission response is modified after decoding: the answer no longer relays the hook's own message, warnings or patch")
				}
			}
		}
		if edits == 0 {
			r1.Ok("decoded Response is never modified", token.NoPos, "no assignment to a field of admission.Response outside composite literals")
		}
	}

	// ---- R2
	r2 := c.Rule("C14.R2", "B+I", "admission event handler: deny on Fail, hook response only when not failed and of the right type, error otherwise; errored() denies; no failure possible after the response was stored in the task", 5)
	runC14R2(c, r2)

	// ---- R3
	r3 := c.Rule("C14.R3", "D1:propagation", "handleReviewRequest copies Allowed, Warnings, Patch, Message; PatchType=JSONPatch iff a patch is present; serveReviewRequest echoes Request.UID before encoding on every path", 5)
	if f := r3.NeedFunc(pkgAdm + ".(*WebhookHandler).handleReviewRequest"); f != nil && respT != nil {
		info := f.Pkg.TypesInfo
		g := p.GraphOf(f)
		st := respT.Underlying().(*types.Struct)
		for i := 0; i < st.NumFields(); i++ {
			fld := st.Field(i)
			read := eng.MentionsField(info, f.Decl.Body, fld, true)
			r3.Check(read, f.Key+" reads Response."+fld.Name(), f.Decl.Pos(), "relayed", "the hook's "+strings.ToLower(fld.Name())+" is not relayed in the AdmissionResponse")
		}
		patchR := p.Field(pkgAdm, "Response", "Patch")
		patchTypeK := extField(p, "k8s.io/api/admission/v1", "AdmissionResponse", "PatchType")
		var ptNode *eng.GNode
		for _, n := range g.Nodes {
			if as, ok := n.Node.(*ast.AssignStmt); ok && len(as.Lhs) == 1 && eng.IsField(info, as.Lhs[0], patchTypeK) {
				ptNode = n
			}
		}
		hasPatch := func(fc eng.Fact) bool {
			if fc.Y != nil || !fc.Pos {
				return false
			}
			b, isB := ast.Unparen(fc.X).(*ast.BinaryExpr)
			if !isB || (b.Op != token.GTR && b.Op != token.NEQ) {
				return false
			}
			cl := builtinCall(info, b.X, "len")
			v, isC := eng.ConstInt(info, b.Y)
			return cl != nil && eng.IsField(info, cl.Args[0], patchR) && isC && v == 0
		}
		okPT := false
		if ptNode != nil {
			okPT = g.OnlyVia(ptNode, nil, g.FactEdge(hasPatch))
			// and always when a patch is present
			reach := g.Reach(eng.Query{FromEntry: true, AvoidEdge: g.Infeasible(hasPatch), AvoidNode: func(m *eng.GNode) bool { return m == ptNode }})
			for m := range reach {
				if r, isR := m.Node.(*ast.ReturnStmt); isR && len(r.Results) == 2 && eng.IsNil(info, r.Results[1]) {
					okPT = false
				}
			}
			// the stored type is the JSONPatch constant
			as := ptNode.Node.(*ast.AssignStmt)
			or := p.Origins(f, as.Rhs[0], 0)
			if !or.HasConst(`"JSONPatch"`) {
				okPT = false
			}
		}
		r3.Check(okPT, f.Key+" PatchType", f.Decl.Pos(), "PatchType = JSONPatch exactly when the hook returned a patch", "patchType is not set to JSONPatch exactly when a patch is present: the API server ignores the mutation or rejects the response")
	}
	if f := r3.NeedFunc(pkgAdm + ".(*WebhookHandler).serveReviewRequest"); f != nil {
		info := f.Pkg.TypesInfo
		g := p.GraphOf(f)
		uidK := extField(p, "k8s.io/api/admission/v1", "AdmissionResponse", "UID")
		uidReq := extField(p, "k8s.io/api/admission/v1", "AdmissionRequest", "UID")
		isEcho := func(n *eng.GNode) bool {
			as, ok := n.Node.(*ast.AssignStmt)
			return ok && len(as.Lhs) == 1 && eng.IsField(info, as.Lhs[0], uidK) && eng.IsField(info, as.Rhs[0], uidReq)
		}
		ok := true
		nenc := 0
		for _, n := range g.Nodes {
			if len(g.CallsAt(n, func(o types.Object, _ *ast.CallExpr) bool { return o != nil && nameOf(o) == "Encode" })) > 0 {
				nenc++
				if !g.OnlyVia(n, isEcho, nil) {
					ok = false
				}
			}
		}
		r3.Check(ok && nenc > 0, f.Key+" UID echoed", f.Decl.Pos(), "Response.UID = Request.UID before the review is encoded", "the answer can be encoded without echoing the request UID: the API server discards the response")
		// error edge -> errored(err)
		handle := p.Method(pkgAdm, "WebhookHandler", "handleReviewRequest")
		erroredF, _ := p.Object(pkgAdm, "errored").(*types.Func)
		for _, call := range callsIn(info, f.Decl.Body, isObj(handle)) {
			v := errHandled(g, call, func(n *eng.GNode) bool {
				as, isA := n.Node.(*ast.AssignStmt)
				return isA && len(as.Rhs) == 1 && isCallTo(info, as.Rhs[0], erroredF)
			})
			r3.Check(v.OK, f.Key+" handler error -> errored()", call.Pos(), "an internal error answers with errored(err)", "an error of the review handler does not lead to the errored (denying) response: "+v.Detail)
		}
	}

	// ---- R4
	r4 := c.Rule("C14.R4", "D:control-dependence", "AdmissionBindingsController.CanHandleEvent is true only for an equal configuration id and a known webhook id; HandleEvent builds the context of the link stored under the event's webhook id", 2)
	if f := r4.NeedFunc(pkgCtrl + ".(*AdmissionBindingsController).CanHandleEvent"); f != nil {
		info := f.Pkg.TypesInfo
		g := p.GraphOf(f)
		confID := p.Field(pkgCtrl, "AdmissionBindingsController", "ConfigurationId")
		links := p.Field(pkgCtrl, "AdmissionBindingsController", "AdmissionLinks")
		confEq := func(fc eng.Fact) bool {
			x, y, eq, isEq := eng.EqAtom(fc)
			if !isEq || !eq {
				return false
			}
			isEv := func(e ast.Expr) bool {
				s, isS := ast.Unparen(e).(*ast.SelectorExpr)
				return isS && s.Sel.Name == "ConfigurationId" && !eng.IsField(info, e, confID)
			}
			return (eng.IsField(info, x, confID) && isEv(y)) || (eng.IsField(info, y, confID) && isEv(x))
		}
		ok := true
		nret := 0
		// (a) assuming the configuration ids differ, the result cannot be true
		confDiffers := func(fc eng.Fact) bool {
			x, y, eq, isEq := eng.EqAtom(fc)
			if !isEq {
				return false
			}
			isEv := func(e ast.Expr) bool {
				s, isS := ast.Unparen(e).(*ast.SelectorExpr)
				return isS && s.Sel.Name == "ConfigurationId" && !eng.IsField(info, e, confID)
			}
			if (eng.IsField(info, x, confID) && isEv(y)) || (eng.IsField(info, y, confID) && isEv(x)) {
				return !eq // the fact that holds is the inequality
			}
			return false
		}
		if canTrue, _ := g.BoolResultUnder(confDiffers); canTrue {
			ok = false
		}
		_ = confEq
		// (b) a result that can be true requires the comma-ok of the lookup by the event's webhook id: the returned
		// expression (through locals) is that value, or a conjunction one of whose operands is
		isLookupOK := func(e ast.Expr) bool {
			srcs := valueSources(info, f.Decl.Body, e, 4)
			if len(srcs) == 0 {
				return false
			}
			for _, src := range srcs {
				if b, isC := constBool(info, src); isC && !b {
					continue
				}
				ix, isIx := ast.Unparen(src).(*ast.IndexExpr)
				if !isIx || !eng.IsField(info, ix.X, links) {
					return false
				}
				if sx, isS := ast.Unparen(ix.Index).(*ast.SelectorExpr); !isS || sx.Sel.Name != "WebhookId" {
					return false
				}
			}
			return true
		}
		var conjuncts func(e ast.Expr) []ast.Expr
		conjuncts = func(e ast.Expr) []ast.Expr {
			e = ast.Unparen(e)
			if b, isB := e.(*ast.BinaryExpr); isB && b.Op == token.LAND {
				return append(conjuncts(b.X), conjuncts(b.Y)...)
			}
			return []ast.Expr{e}
		}
		for _, n := range g.Nodes {
			ret, isR := n.Node.(*ast.ReturnStmt)
			if !isR || len(ret.Results) != 1 {
				continue
			}
			nret++
			if b, isC := constBool(info, ret.Results[0]); isC && !b {
				continue
			}
			found := false
			for _, src := range valueSources(info, f.Decl.Body, ret.Results[0], 4) {
				if b, isC := constBool(info, src); isC && !b {
					found = true
					continue
				}
				found = false
				for _, cj := range conjuncts(src) {
					if isLookupOK(cj) {
						found = true
					}
				}
				if !found {
					break
				}
			}
			if !found {
				ok = false
			}
		}
		r4.Check(ok && nret > 0, f.Key, f.Decl.Pos(), "configuration id equal && webhook id known", "CanHandleEvent does not require both the configuration id and the webhook id of the request to match: a request can be handed to a hook/binding that did not register that path")
	}
	if f := r4.NeedFunc(pkgCtrl + ".(*AdmissionBindingsController).HandleEvent"); f != nil {
		info := f.Pkg.TypesInfo
		links := p.Field(pkgCtrl, "AdmissionBindingsController", "AdmissionLinks")
		ok := false
		eng.InspectNoLit(f.Decl.Body, func(x ast.Node) bool {
			if as, isA := x.(*ast.AssignStmt); isA && len(as.Rhs) == 1 {
				if ix, isIx := ast.Unparen(as.Rhs[0]).(*ast.IndexExpr); isIx && eng.IsField(info, ix.X, links) {
					if s, isS := ast.Unparen(ix.Index).(*ast.SelectorExpr); isS && s.Sel.Name == "WebhookId" {
						ok = true
					}
				}
			}
			return true
		})
		r4.Check(ok, f.Key, f.Decl.Pos(), "link := AdmissionLinks[event.WebhookId]", "the binding context is not built from the link registered under the request's webhook id")
	}

	// ---- R5
	r5 := c.Rule("C14.R5", "I:error-flow", "ResponseFromFile: read error -> error, empty file -> (nil, nil), otherwise the decoder's (response, error); FromReader returns the decode error", 3)
	if f := r5.NeedFunc(pkgAdm + ".ResponseFromFile"); f != nil {
		info := f.Pkg.TypesInfo
		g := p.GraphOf(f)
		checkErrSites(r5, f, func(o types.Object) bool { return nameOf(o) == "ReadFile" }, nil, nil)
		okEmpty := false
		for _, n := range g.Nodes {
			ret, isR := n.Node.(*ast.ReturnStmt)
			if isR && len(ret.Results) == 2 && eng.IsNil(info, ret.Results[0]) && eng.IsNil(info, ret.Results[1]) {
				okEmpty = g.OnlyVia(n, nil, g.FactEdge(func(fc eng.Fact) bool {
					x, y, eq, isEq := eng.EqAtom(fc)
					v, isC := eng.ConstInt(info, y)
					return isEq && eq && builtinCall(info, x, "len") != nil && isC && v == 0
				}))
			}
		}
		r5.Check(okEmpty, f.Key+" empty", f.Decl.Pos(), "(nil, nil) only for an empty file", "a nil response without error is returned for something other than an empty file")
	}
	if f := r5.NeedFunc(pkgAdm + ".FromReader"); f != nil {
		checkErrSites(r5, f, func(o types.Object) bool { return nameOf(o) == "Decode" }, nil, nil)
	}

	// ---- R6 registry inserts
	r7 := c.Rule("C14.R7", "D:provenance", "(shared with C03.R11) the task that answers an admission request is run with its own context only: it has no queue name, so it is combined with no queued task (group compaction could otherwise drop the Validating context and the answer becomes a 500)", 4)
	runOutsideQueueTasks(c, r7)
	r8 := c.Rule("C14.R8", "I:error-flow", "(shared with C12.R4) a hook run that does not end with exit status 0 - also one killed by a signal - or whose output cannot be read is an error of Hook.Run: only then can the handler deny", 6)
	runHookFailureIsError(c, r8)
	r6 := c.Rule("C14.R6", "H:insert without presence check", "registries keyed by the webhook id (derived with the non-injective SafeURLString from a binding name that is not unique across hooks) are written only after a presence check", 4)
	links := p.Field(pkgCtrl, "AdmissionBindingsController", "AdmissionLinks")
	hooksV := p.Field(pkgAdm, "ValidatingWebhookResource", "hooks")
	hooksM := p.Field(pkgAdm, "MutatingWebhookResource", "hooks")
	for _, fld := range []*types.Var{links, hooksV, hooksM} {
		if fld == nil {
			r6.Unknown("anchor:webhook registries", token.NoPos, "registry field not found")
			continue
		}
		for _, ref := range p.Refs(fld) {
			if !ref.Write || ref.Lit || ref.In == nil {
				continue
			}
			// map element store?
			g := p.GraphOf(ref.In)
			node := g.NodeOf(ref.Node)
			as, isA := node.Node.(*ast.AssignStmt)
			if !isA {
				continue
			}
			isElem := false
			for _, l := range as.Lhs {
				if ix, isIx := ast.Unparen(l).(*ast.IndexExpr); isIx && ast.Unparen(ix.X) == ref.Node {
					isElem = true
				}
			}
			if !isElem {
				continue
			}
			info := ref.Pkg.TypesInfo
			guarded := g.OnlyVia(node, nil, g.FactEdge(func(fc eng.Fact) bool {
				if fc.Pos || fc.Y != nil {
					return false
				}
				hv := eng.SelObj(info, fc.X)
				found := false
				eng.InspectNoLit(ref.In.Decl.Body, func(x ast.Node) bool {
					if st, isS := x.(*ast.AssignStmt); isS && len(st.Lhs) == 2 && len(st.Rhs) == 1 && eng.SelObj(info, st.Lhs[1]) == hv {
						if ix, isIx := ast.Unparen(st.Rhs[0]).(*ast.IndexExpr); isIx && eng.IsField(info, ix.X, fld) {
							found = true
						}
					}
					return true
				})
				return found
			}))
			where := strings.TrimPrefix(strings.TrimPrefix(ref.In.Key, pkgCtrl+"."), pkgAdm+".")
			c.Touch(ref.In)
			r6.Check(guarded, "insert:"+where, ref.Node.Pos(), "insert only when the id is not registered yet", "the registry entry for a webhook id is overwritten without a presence check: the id is SafeURLString(binding name), which maps different names to one id, and names are not checked across hooks - only the last registered webhook is reachable, requests for the others' resources are never reviewed")
		}
	}
}

func runC14R2(c *eng.Ctx, r *eng.RuleCtx) {
	p := c.P
	f := r.NeedFunc(pkgOp + ".(*ShellOperator).initValidatingWebhookManager")
	if f == nil {
		return
	}
	info := f.Pkg.TypesInfo
	withHandler := p.Method(pkgAdm, "WebhookManager", "WithAdmissionEventHandler")
	status := p.Field(pkgQueue, "TaskResult", "Status")
	allowedR := p.Field(pkgAdm, "Response", "Allowed")
	var lit *eng.Lit
	for _, l := range litsPassedTo(f, info, withHandler) {
		lit = l
	}
	if lit == nil {
		r.Unknown(f.Key+" handler", f.Decl.Pos(), "admission event handler literal not found")
		return
	}
	g := p.GraphOfLit(lit)
	failAssumed := fieldEqConst(info, status, "Fail", true)
	nresp := 0
	for _, site := range resultSites(g, info, lit.Lit.Body) {
		n := site.Node
		if len(site.Vals) != 2 || !eng.IsNil(info, site.Vals[1]) {
			continue
		}
		ret := struct {
			Results []ast.Expr
			Pos     func() token.Pos
		}{site.Vals, n.Node.Pos}
		nresp++
		construct := fmt.Sprintf("%s$handler response-return#%d", f.Key, nresp)
		// (i) a literal deny
		if v := litKeyValue(info, ret.Results[0], allowedR); v != nil {
			b, isC := constBool(info, v)
			r.Check(isC && !b && g.OnlyVia(n, nil, g.FactEdge(failAssumed)), construct, ret.Pos(), "constant deny under Status==Fail", "a constructed response is returned that is not `the constant deny under res.Status == Fail`")
			continue
		}
		// (ii) the hook's response: from the prop, asserted, and not when the task failed
		rv, _ := eng.SelObj(info, ret.Results[0]).(*types.Var)
		fromProp, okVar := false, types.Object(nil)
		if rv != nil {
			ast.Inspect(lit.Lit.Body, func(x ast.Node) bool {
				if as, isA := x.(*ast.AssignStmt); isA && len(as.Lhs) == 2 && len(as.Rhs) == 1 && eng.SelObj(info, as.Lhs[0]) == rv {
					if ta, isT := ast.Unparen(as.Rhs[0]).(*ast.TypeAssertExpr); isT {
						okVar = eng.SelObj(info, as.Lhs[1])
						or := p.Origins(f, ta.X, 0)
						for o := range or.Objs {
							if nameOf(o) == "GetProp" {
								fromProp = true
							}
						}
					}
				}
				return true
			})
		}
		asserted := okVar != nil && g.OnlyVia(n, nil, g.FactEdge(func(fc eng.Fact) bool { return fc.Pos && fc.Y == nil && eng.SelObj(info, fc.X) == okVar }))
		reachOnFail := g.Reach(eng.Query{FromEntry: true, AvoidEdge: g.Infeasible(failAssumed)})
		notOnFail := !reachOnFail[n]
		r.Check(fromProp && asserted && notOnFail, construct, ret.Pos(), "the hook's *Response from the task prop, only when the task did not fail", fmt.Sprintf("the hook's response is returned although the task may have failed or the prop is not a *Response (fromTaskProp=%v typeAsserted=%v unreachableOnFail=%v): a hook whose run failed after it wrote `allowed: true` would admit the request", fromProp, asserted, notOnFail))
	}
	if nresp < 2 {
		r.Bad(f.Key+"$handler responses", lit.Lit.Pos(), "expected a deny return and a hook-response return")
	}
	// errored denies
	if fo, _ := p.Object(pkgAdm, "errored").(*types.Func); fo != nil {
		ef := p.FuncOf(fo)
		c.Touch(ef)
		einfo := ef.Pkg.TypesInfo
		allowedK := extField(p, "k8s.io/api/admission/v1", "AdmissionResponse", "Allowed")
		ok := true
		nlit := 0
		ast.Inspect(ef.Decl.Body, func(x ast.Node) bool {
			if cl, isC := x.(*ast.CompositeLit); isC {
				if tv, has := einfo.Types[cl]; has && strings.HasSuffix(tv.Type.String(), "AdmissionResponse") {
					nlit++
					if v := litKeyValue(einfo, cl, allowedK); v != nil {
						if b, isB := constBool(einfo, v); !isB || b {
							ok = false
						}
					}
				}
			}
			return true
		})
		r.Check(ok && nlit > 0, ef.Key, ef.Decl.Pos(), "errored() builds a denying response", "errored() does not deny")
	}
	// handleRunHook: after a response was stored in the task no failing return is reachable
	if h := r.NeedFunc(pkgOp + ".(*ShellOperator).handleRunHook"); h != nil {
		hinfo := h.Pkg.TypesInfo
		hg := p.GraphOf(h)
		n := 0
		for _, gn := range hg.Nodes {
			calls := hg.CallsAt(gn, func(o types.Object, call *ast.CallExpr) bool {
				if o == nil || nameOf(o) != "SetProp" || len(call.Args) != 2 {
					return false
				}
				s, isS := eng.ConstStr(hinfo, call.Args[0])
				return isS && (s == "admissionResponse" || s == "conversionResponse")
			})
			if len(calls) == 0 {
				continue
			}
			n++
			ok := true
			for m := range hg.Reach(eng.Query{From: []*eng.GNode{gn}}) {
				if ret, isR := m.Node.(*ast.ReturnStmt); isR && len(ret.Results) == 1 && !eng.IsNil(hinfo, ret.Results[0]) {
					ok = false
				}
			}
			key, _ := eng.ConstStr(hinfo, calls[0].Call.Args[0])
			r.Check(ok, h.Key+" SetProp("+key+") is final", gn.Node.Pos(), "stored only after patch and metrics were applied: no failing return can follow", "the hook's response is stored in the task before everything that can still fail (patch, metrics): a run that fails afterwards leaves an `allowed: true` response behind")
		}
		if n == 0 {
			r.Bad(h.Key+" stores response", h.Decl.Pos(), "handleRunHook never stores the admission response in the task")
		}
	}
}
