package rules

import "sopverif/eng"

// Thorough adds the thorough-tier work of a property (see thorough_*.go).
func Thorough(c *eng.Ctx, pr *Property) {
	for _, fn := range thoroughHooks {
		fn(c, pr)
	}
}

var thoroughHooks []func(c *eng.Ctx, pr *Property)
