package rules

import (
	"fmt"
	"go/ast"
	"go/token"
	"go/types"

	"sopverif/eng"
)

// Error discipline (kind I). For a call whose last result is an error:
//   - the error must be bound to a variable (or returned directly with `return f()`),
//   - every path from the binding reaches a nil-test of that variable before the variable is overwritten or the
//     function exits,
//   - on the non-nil edge every path to an exit passes a failing action: a return whose error result is not the
//     constant nil, or an action accepted by the rule (failOK).
// Accepted idioms: `x, err := f(); if err != nil { return ..., err|fmt.Errorf(...) }`, `if err := f(); err != nil {...}`,
// `err = f()` followed by the test, `return f()`, multierror-style accumulation when the rule says so via failOK.

type errVerdict struct {
	OK     bool
	Detail string
}

var errorType = types.Universe.Lookup("error").Type()

func isErrorType(t types.Type) bool { return t != nil && types.Identical(t, errorType) }

// returnsNonNilError: the return statement's last result is an error expression other than the constant nil.
func returnsNonNilError(info *types.Info, fnType *types.Signature, ret *ast.ReturnStmt) bool {
	if fnType == nil || fnType.Results().Len() == 0 {
		return false
	}
	last := fnType.Results().At(fnType.Results().Len() - 1)
	if !isErrorType(last.Type()) {
		return false
	}
	if len(ret.Results) == 0 {
		return false // naked return: unknown, not accepted
	}
	if len(ret.Results) == 1 && fnType.Results().Len() > 1 {
		// return f() forwarding several results
		return true
	}
	e := ret.Results[len(ret.Results)-1]
	return !eng.IsNil(info, e)
}

func sigOfGraph(g *eng.Graph) *types.Signature {
	if g.Lit != nil {
		if tv, ok := g.Info.Types[g.Lit.Lit]; ok {
			s, _ := tv.Type.(*types.Signature)
			return s
		}
		return nil
	}
	if g.Fn != nil && g.Fn.Obj != nil {
		return g.Fn.Obj.Type().(*types.Signature)
	}
	return nil
}

// errHandled decides the discipline for one call inside graph g. failOK (optional) accepts additional failing
// actions on the error edge (e.g. a store of Status=Fail).
func errHandled(g *eng.Graph, call *ast.CallExpr, failOK func(*eng.GNode) bool) errVerdict {
	info := g.Info
	p := g.P
	node := g.NodeOf(call)
	if node == nil {
		return errVerdict{false, "call not found in the control-flow graph"}
	}
	sig := sigOfGraph(g)
	var errVar types.Object
	switch st := node.Node.(type) {
	case *ast.ReturnStmt:
		// return f() / return x, f()
		for _, r := range st.Results {
			if ast.Unparen(r) == ast.Expr(call) {
				return errVerdict{true, "error returned directly"}
			}
		}
		return errVerdict{false, "call nested in a return expression"}
	case *ast.AssignStmt:
		idx := -1
		if len(st.Rhs) == 1 && ast.Unparen(st.Rhs[0]) == ast.Expr(call) {
			idx = len(st.Lhs) - 1
		} else {
			for i, r := range st.Rhs {
				if ast.Unparen(r) == ast.Expr(call) && len(st.Lhs) == len(st.Rhs) {
					idx = i
				}
			}
		}
		if idx < 0 {
			return errVerdict{false, fmt.Sprintf("unrecognised idiom: call nested in `%s`", eng.Short(p.Fset, st))}
		}
		lhs := st.Lhs[idx]
		if id, ok := ast.Unparen(lhs).(*ast.Ident); ok && id.Name == "_" {
			return errVerdict{false, "the error is assigned to _"}
		}
		errVar = eng.SelObj(info, lhs)
		if errVar == nil {
			return errVerdict{false, "error bound to a non-variable"}
		}
		if tv, ok := info.Types[lhs]; ok && !isErrorType(tv.Type) {
			if v, isV := errVar.(*types.Var); !isV || !isErrorType(v.Type()) {
				return errVerdict{false, "last result is not bound to an error variable"}
			}
		}
	case *ast.ExprStmt:
		return errVerdict{false, "the error result is discarded (call used as a statement)"}
	case *ast.ValueSpec:
		if len(st.Values) == 1 && ast.Unparen(st.Values[0]) == ast.Expr(call) {
			errVar = info.Defs[st.Names[len(st.Names)-1]]
		}
		if errVar == nil {
			return errVerdict{false, "unrecognised var declaration idiom"}
		}
	case *ast.DeferStmt, *ast.GoStmt:
		return errVerdict{false, "the error result is discarded (defer/go)"}
	default:
		return errVerdict{false, fmt.Sprintf("unrecognised idiom at `%s`", eng.Short(p.Fset, node.Node))}
	}
	// the error may be handed on through plain copies (the result temporaries of an inlined helper): for the
	// structural first pass a test or return of any variable of that copy chain counts; what the test *does* is
	// decided by the second, valuation-sensitive pass, which follows the copies exactly
	sameErr := func(o types.Object) bool { return o == errVar }
	if body := eng.BodyOf(g); body != nil {
		alias := copyAliases(info, body)
		sameErr = func(o types.Object) bool { return o != nil && (o == errVar || alias(o, errVar)) }
	}
	// nil-tests of errVar: edges with an (in)equality fact between errVar and nil
	isTestEdge := func(e *eng.GEdge) (nonNil bool, ok bool) {
		for _, f := range g.EdgeFacts(e) {
			x, y, eq, isEq := eng.EqAtom(f)
			if !isEq {
				continue
			}
			if (sameErr(eng.SelObj(info, x)) && eng.IsNil(info, y)) || (sameErr(eng.SelObj(info, y)) && eng.IsNil(info, x)) {
				return !eq, true
			}
		}
		return false, false
	}
	// a boolean computed from the nil test of the error (`ok := err == nil`, a helper that reports success as a flag)
	// is the test by proxy: the flag-sensitive second pass follows what is done with it
	proxyTest := func(n *eng.GNode) bool {
		var rhs []ast.Expr
		switch st := n.Node.(type) {
		case *ast.AssignStmt:
			rhs = st.Rhs
		case *ast.DeclStmt:
			if gd, ok := st.Decl.(*ast.GenDecl); ok {
				for _, sp := range gd.Specs {
					if vs, ok := sp.(*ast.ValueSpec); ok {
						rhs = append(rhs, vs.Values...)
					}
				}
			}
		}
		found := false
		for _, r := range rhs {
			ast.Inspect(r, func(x ast.Node) bool {
				if _, isLit := x.(*ast.FuncLit); isLit {
					return false
				}
				if b, ok := x.(*ast.BinaryExpr); ok && (b.Op == token.EQL || b.Op == token.NEQ) {
					if (eng.SelObj(info, b.X) == errVar && eng.IsNil(info, b.Y)) || (eng.SelObj(info, b.Y) == errVar && eng.IsNil(info, b.X)) {
						found = true
					}
				}
				return !found
			})
		}
		return found
	}
	isTestNode := func(n *eng.GNode) bool {
		for _, e := range n.Succ {
			if _, ok := isTestEdge(e); ok {
				return true
			}
		}
		return n.Node != nil && proxyTest(n)
	}
	overwrites := func(n *eng.GNode) bool {
		if n == node {
			return true // reached again through a loop: the next iteration overwrites the error
		}
		if n.Node == nil {
			return false
		}
		switch st := n.Node.(type) {
		case *ast.AssignStmt:
			for i, l := range st.Lhs {
				if eng.SelObj(info, l) == errVar {
					// wrapping the error (err = wrap(err, ...)) keeps it
					if len(st.Lhs) == len(st.Rhs) && eng.UsesObj(info, st.Rhs[i], errVar, false) {
						continue
					}
					return true
				}
			}
		}
		return false
	}
	// the returned/forwarded variable counts as a test too: `return x, err`
	returnsVar := func(n *eng.GNode) bool {
		ret, ok := n.Node.(*ast.ReturnStmt)
		if !ok || len(ret.Results) == 0 {
			return false
		}
		return sameErr(eng.SelObj(info, ret.Results[len(ret.Results)-1]))
	}
	reach := g.Reach(eng.Query{From: []*eng.GNode{node}, AvoidNode: func(n *eng.GNode) bool { return isTestNode(n) || overwrites(n) || returnsVar(n) }, NoFlags: true})
	tested := false
	for n := range reach {
		if isTestNode(n) {
			tested = true
			continue
		}
		if returnsVar(n) {
			continue
		}
		if overwrites(n) {
			return errVerdict{false, fmt.Sprintf("the error variable is overwritten at %s before it is tested", g.Describe(n))}
		}
		if n.Exit {
			return errVerdict{false, fmt.Sprintf("a path reaches the exit at %s without testing the error", g.Describe(n))}
		}
	}
	// assuming the error is non-nil, every path from the binding fails before the function exits or the variable is
	// overwritten (a test such as `err != nil && other` leaves its false edge feasible: the error can slip through)
	assumedNonNil := func(f eng.Fact) bool {
		x, y, eq, isEq := eng.EqAtom(f)
		if !isEq || eq {
			return false
		}
		return (eng.SelObj(info, x) == errVar && eng.IsNil(info, y)) || (eng.SelObj(info, y) == errVar && eng.IsNil(info, x))
	}
	via := func(m *eng.GNode) bool {
		if failOK != nil && failOK(m) {
			return true
		}
		if ret, isR := m.Node.(*ast.ReturnStmt); isR {
			return returnsNonNilError(info, sig, ret)
		}
		return false
	}
	infeasible := g.Infeasible(assumedNonNil)
	reach2 := g.Reach(eng.Query{From: []*eng.GNode{node}, NonNil: []types.Object{errVar}, AvoidEdge: infeasible, AvoidNode: func(n *eng.GNode) bool { return via(n) || overwrites(n) }})
	for n := range reach2 {
		if via(n) {
			continue
		}
		if overwrites(n) {
			return errVerdict{false, fmt.Sprintf("with a non-nil error the variable can be overwritten at %s before a failing return", g.Describe(n))}
		}
		if n.Exit {
			return errVerdict{false, fmt.Sprintf("with a non-nil error a path reaches %s without returning a non-nil error", g.Describe(n))}
		}
	}
	_ = tested
	return errVerdict{true, "bound, tested and returned"}
}

// errSitesIn returns the calls in f (body and literals) whose callee satisfies match and whose last result is error.
type errSite struct {
	G    *eng.Graph
	Call *ast.CallExpr
	Name string
}

func errSitesIn(p *eng.Prog, f *eng.Func, match func(types.Object) bool) []errSite {
	var out []errSite
	info := f.Pkg.TypesInfo
	collect := func(g *eng.Graph, body *ast.BlockStmt) {
		eng.InspectNoLit(body, func(n ast.Node) bool {
			c, ok := n.(*ast.CallExpr)
			if !ok {
				return true
			}
			o := eng.CalleeOf(info, c)
			if o == nil || !match(o) {
				return true
			}
			var sig *types.Signature
			switch t := o.(type) {
			case *types.Func:
				sig = t.Type().(*types.Signature)
			case *types.Var:
				sig, _ = t.Type().Underlying().(*types.Signature)
			}
			if sig == nil || sig.Results().Len() == 0 || !isErrorType(sig.Results().At(sig.Results().Len()-1).Type()) {
				return true
			}
			out = append(out, errSite{G: g, Call: c, Name: o.Name()})
			return true
		})
	}
	collect(p.GraphOf(f), f.Decl.Body)
	for _, l := range f.Lits {
		collect(p.GraphOfLit(l), l.Lit.Body)
	}
	return out
}

// checkErrSites runs the discipline over the matched sites of f and records one obligation per site.
func checkErrSites(r *eng.RuleCtx, f *eng.Func, match func(types.Object) bool, failOK func(*eng.Graph) func(*eng.GNode) bool, allow map[string]string) int {
	p := r.C.P
	n := 0
	for _, s := range errSitesIn(p, f, match) {
		n++
		construct := fmt.Sprintf("%s -> %s", f.Key, s.Name)
		if why, ok := allow[construct]; ok {
			r.Ok(construct, s.Call.Pos(), "allow-listed: "+why)
			continue
		}
		var fo func(*eng.GNode) bool
		if failOK != nil {
			fo = failOK(s.G)
		}
		v := errHandled(s.G, s.Call, fo)
		if v.OK {
			r.Ok(construct, s.Call.Pos(), v.Detail)
		} else {
			r.Bad(construct, s.Call.Pos(), fmt.Sprintf("error of %s is not propagated: %s", s.Name, v.Detail))
		}
	}
	return n
}
