// sopverif: static verification of the properties in /verif/properties.jsonl against /repo's current
// source. Usage:
//
//	sopverif check --property C05 --tier quick|thorough
//	sopverif explain <violation.json>
//	sopverif list
package main

import (
	_ "embed"
	"flag"
	"fmt"
	"os"
	"path/filepath"
	"runtime/debug"
	"strconv"
	"strings"
	"time"

	"sopverif/eng"
	"sopverif/rules"
)

// baselineFuncs lists the functions (and local closures, "func$name") of the product packages on the reference tree;
// calls of functions that are not listed are inlined before the analysis (see eng/inline.go). Regenerate with
// `sopverif baseline > checker/baseline_funcs.txt` when the reference tree changes (e.g. after a fix commit).
//
//go:embed baseline_funcs.txt
var baselineFuncs string

func baseline() map[string]bool {
	m := map[string]bool{}
	for _, l := range strings.Split(baselineFuncs, "\n") {
		l = strings.TrimSpace(l)
		if l != "" && !strings.HasPrefix(l, "#") {
			m[l] = true
		}
	}
	return m
}

func main() {
	if len(os.Args) < 2 {
		usage()
	}
	switch os.Args[1] {
	case "check":
		os.Exit(check(os.Args[2:]))
	case "explain":
		if len(os.Args) < 3 {
			usage()
		}
		b, err := os.ReadFile(os.Args[2])
		if err != nil {
			fmt.Fprintln(os.Stderr, err)
			os.Exit(2)
		}
		os.Stdout.Write(b)
		fmt.Println()
	case "locks":
		os.Exit(locksCmd("/repo"))
	case "normalize":
		// sopverif normalize <repo> [file-suffix]: prints what the normalisation inlines (and the normalised file)
		repo := "/repo"
		if len(os.Args) > 2 {
			repo = os.Args[2]
		}
		p, rep, err := eng.Normalize(repo, nil, baseline())
		if err != nil {
			fmt.Fprintln(os.Stderr, err)
			os.Exit(2)
		}
		for _, l := range rep.Inlined {
			fmt.Println("inlined:", l)
		}
		for _, l := range rep.Skipped {
			fmt.Println("skipped:", l)
		}
		fmt.Println("rounds:", rep.Rounds, "failed:", rep.Failed, "dropped:", rep.Dropped, "renamed:", rep.Renamed)
		if len(os.Args) > 3 {
			for name, src := range p.Overlay {
				if strings.HasSuffix(name, os.Args[3]) {
					os.Stdout.Write(src)
				}
			}
		}
	case "baseline":
		p, err := eng.Load("/repo", nil)
		if err != nil {
			fmt.Fprintln(os.Stderr, err)
			os.Exit(2)
		}
		fmt.Println("# functions and local closures of the product packages on the reference tree (sopverif baseline)")
		for _, k := range eng.BaselineKeys(p) {
			fmt.Println(k)
		}
	case "mutants":
		os.Exit(mutantsCmd(os.Args[2:]))
	case "list":
		for _, id := range rules.IDs() {
			fmt.Println(id, rules.Get(id).Title)
		}
	default:
		usage()
	}
}

func usage() {
	fmt.Fprintln(os.Stderr, "usage: sopverif check --property Cxx [--tier quick|thorough] | explain <file> | list")
	os.Exit(2)
}

func check(args []string) int {
	fs := flag.NewFlagSet("check", flag.ExitOnError)
	prop := fs.String("property", "", "property id (C01..C20) or 'all'")
	tier := fs.String("tier", "", "quick | thorough (default: $VERIF_TIER or quick)")
	repo := fs.String("repo", "", "repository to analyse (default: $VERIF_REPO or /repo)")
	verif := fs.String("verif", "", "verif directory (default: $VERIF_DIR or /verif)")
	verbose := fs.Bool("v", false, "print the per-rule summary")
	_ = fs.Parse(args)
	if *tier == "" {
		*tier = os.Getenv("VERIF_TIER")
	}
	if *tier == "" {
		*tier = "quick"
	}
	if *tier != "quick" && *tier != "thorough" {
		fmt.Fprintln(os.Stderr, "bad tier", *tier)
		return 2
	}
	if *repo == "" {
		*repo = os.Getenv("VERIF_REPO")
	}
	if *repo == "" {
		*repo = "/repo"
	}
	if *verif == "" {
		*verif = os.Getenv("VERIF_DIR")
	}
	if *verif == "" {
		*verif = "/verif"
	}
	seed, _ := strconv.ParseInt(os.Getenv("VERIF_SEED"), 10, 64)
	var ids []string
	if *prop == "all" {
		ids = rules.IDs()
	} else {
		if rules.Get(*prop) == nil {
			fmt.Fprintln(os.Stderr, "unknown property", *prop)
			return 2
		}
		ids = []string{*prop}
	}
	start := time.Now()
	known, err := eng.LoadKnown(filepath.Join(*verif, "known_findings.json"))
	if err != nil {
		fmt.Fprintln(os.Stderr, "known findings:", err)
		return fail(ids, *verif, "cannot read known_findings.json: "+err.Error())
	}
	p, inl, err := eng.Normalize(*repo, nil, baseline())
	if err != nil {
		fmt.Fprintln(os.Stderr, "load:", err)
		return fail(ids, *verif, "cannot load/type-check the repository: "+err.Error())
	}
	loadS := time.Since(start).Seconds()
	rc := 0
	for _, id := range ids {
		st := time.Now()
		if len(ids) == 1 {
			st = start
		}
		pr := rules.Get(id)
		c := eng.NewCtx(p, id, *tier)
		c.Extra["load_s"] = loadS
		if inl != nil && (len(inl.Inlined) > 0 || inl.Failed != "" || len(inl.Renamed) > 0) {
			c.Extra["normalisation"] = map[string]any{"inlined": inl.Inlined, "rounds": inl.Rounds, "failed": inl.Failed, "skipped": inl.Skipped, "dropped": inl.Dropped, "renamed": inl.Renamed}
		}
		func() {
			defer func() {
				if r := recover(); r != nil {
					rr := c.Rule(id+".PANIC", "engine", "the analyser must not panic", 0)
					rr.Unknown("analyser", 0, fmt.Sprintf("analyser panic: %v", r))
					if os.Getenv("SOPVERIF_DEBUG") != "" {
						fmt.Fprintf(os.Stderr, "%s\n", debug.Stack())
					}
				}
			}()
			pr.Run(c)
			if *tier == "thorough" {
				rules.Thorough(c, pr)
			}
		}()
		if *tier == "thorough" {
			sensitivity(c, *repo, *verif, id, known)
		}
		res := c.Finish(*verif, known, seed, st, pr.Assumptions, pr.Explanation)
		for _, l := range res.Lines {
			fmt.Println(l)
		}
		if *verbose || res.Violations > 0 {
			fmt.Print(c.Summary())
		}
		nobl := 0
		for _, r := range c.Rules {
			nobl += len(r.Obs)
		}
		fmt.Printf("%s %s: rules=%d obligations=%d violations=%d (%.1fs)\n", id, *tier, len(c.Rules), nobl, res.Violations, time.Since(st).Seconds())
		if res.Violations > 0 {
			rc = 1
		}
	}
	return rc
}

// fail writes a violation for every requested property when the program cannot even be loaded.
func fail(ids []string, verif, msg string) int {
	for _, id := range ids {
		dir := filepath.Join(verif, "evidence", "violations")
		_ = os.MkdirAll(dir, 0o755)
		path := filepath.Join(dir, id+"-1.json")
		_ = os.WriteFile(path, []byte(fmt.Sprintf("{\"property\": %q, \"status\": \"undecided\", \"detail\": %q}\n", id, msg)), 0o644)
		fmt.Printf("VIOLATION property=%s replay=%s\n", id, path)
		ev := fmt.Sprintf("{\"property_id\": %q, \"tier\": \"quick\", \"seed\": 0, \"level\": \"other\", \"coverage\": {\"explanation\": %q}, \"wall_s\": 0, \"violations\": 1}\n", id, "analysis did not run: "+msg)
		_ = os.WriteFile(filepath.Join(verif, "evidence", id+".json"), []byte(ev), 0o644)
	}
	return 1
}
