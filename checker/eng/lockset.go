package eng

import (
	"fmt"
	"go/ast"
	"go/token"
	"go/types"
	"sort"
)

// Lock-set analysis (kind A). Lock identity is the mutex *field object* (struct type + field):
// a must-analysis over the node graph of every body, with
//   - Lock/RLock/Unlock/RUnlock on a mutex field, `defer x.mu.Unlock()` keeps the lock to the exits;
//   - lock wrappers recognised by shape: a function-typed parameter that is called only while lock L is
//     held makes every literal passed for it start with L;
//   - literals invoked immediately inherit the state at the invocation;
//   - a function that touches a guarded field without holding the guard "requires" it: the obligation
//     moves to every call site (static and interface-dispatched), transitively.

const (
	ModeR = 1
	ModeW = 2
)

type Held struct {
	Mode int
	Acq  map[*ast.CallExpr]bool // acquire sites that may have taken it (nil when inherited from the caller)
}

type LockState map[*types.Var]Held // nil = unreachable

func (s LockState) clone() LockState {
	if s == nil {
		return nil
	}
	o := LockState{}
	for k, v := range s {
		a := map[*ast.CallExpr]bool{}
		for c := range v.Acq {
			a[c] = true
		}
		o[k] = Held{Mode: v.Mode, Acq: a}
	}
	return o
}

func joinLS(a, b LockState) LockState {
	if a == nil {
		return b.clone()
	}
	if b == nil {
		return a.clone()
	}
	o := LockState{}
	for k, va := range a {
		vb, ok := b[k]
		if !ok {
			continue
		}
		m := va.Mode
		if vb.Mode < m {
			m = vb.Mode
		}
		acq := map[*ast.CallExpr]bool{}
		for c := range va.Acq {
			acq[c] = true
		}
		for c := range vb.Acq {
			acq[c] = true
		}
		o[k] = Held{Mode: m, Acq: acq}
	}
	return o
}

func equalLS(a, b LockState) bool {
	if (a == nil) != (b == nil) {
		return false
	}
	if len(a) != len(b) {
		return false
	}
	for k, va := range a {
		vb, ok := b[k]
		if !ok || va.Mode != vb.Mode || len(va.Acq) != len(vb.Acq) {
			return false
		}
		for c := range va.Acq {
			if !vb.Acq[c] {
				return false
			}
		}
	}
	return true
}

func (s LockState) String() string {
	var parts []string
	for k, v := range s {
		m := "R"
		if v.Mode == ModeW {
			m = "W"
		}
		parts = append(parts, k.Name()+":"+m)
	}
	sort.Strings(parts)
	return fmt.Sprint(parts)
}

type Locks struct {
	P          *Prog
	in         map[*GNode]LockState // state before the node
	entry      map[*Graph]LockState
	exit       map[*Graph]LockState
	paramUnder map[*types.Var]LockState // func-typed parameter -> locks held at every call of it
	paramSync  map[*types.Var]bool      // parameter is only called synchronously (never escapes)
	graphs     []*Graph
	graphOfLit map[*Lit]*Graph
	graphOfFn  map[*Func]*Graph
	Rounds     int
}

// MutexOp classifies a call as a mutex operation on a mutex field.
func MutexOp(info *types.Info, call *ast.CallExpr) (mu *types.Var, op string) {
	sel, ok := ast.Unparen(call.Fun).(*ast.SelectorExpr)
	if !ok {
		return nil, ""
	}
	fn, ok := info.Uses[sel.Sel].(*types.Func)
	if !ok || fn.Pkg() == nil || fn.Pkg().Path() != "sync" {
		return nil, ""
	}
	switch fn.Name() {
	case "Lock", "Unlock", "RLock", "RUnlock":
	default:
		return nil, ""
	}
	rn := RecvNamed(fn)
	if rn == nil || (rn.Obj().Name() != "Mutex" && rn.Obj().Name() != "RWMutex") {
		return nil, ""
	}
	// explicit field: x.mu.Lock()
	if inner, ok := ast.Unparen(sel.X).(*ast.SelectorExpr); ok {
		if v, ok := info.Uses[inner.Sel].(*types.Var); ok && v.IsField() {
			return v, fn.Name()
		}
	}
	// embedded mutex: x.Lock()
	if s, ok := info.Selections[sel]; ok && len(s.Index()) > 1 {
		t := s.Recv()
		var fld *types.Var
		idx := s.Index()
		for i := 0; i < len(idx)-1; i++ {
			if p, ok := t.Underlying().(*types.Pointer); ok {
				t = p.Elem()
			}
			st, ok := t.Underlying().(*types.Struct)
			if !ok {
				return nil, ""
			}
			fld = st.Field(idx[i])
			t = fld.Type()
		}
		if fld != nil {
			return fld, fn.Name()
		}
	}
	// package-level or local mutex variable
	if id, ok := ast.Unparen(sel.X).(*ast.Ident); ok {
		if v, ok := info.Uses[id].(*types.Var); ok {
			return v, fn.Name()
		}
	}
	return nil, ""
}

var syncHigherOrder = map[string]bool{
	"sort.Slice": true, "sort.SliceStable": true, "slices.SortFunc": true, "slices.SortStableFunc": true,
	"(*sync.Once).Do": true, "(*sync.Map).Range": true, "sort.Search": true,
	"path/filepath.Walk": true, "path/filepath.WalkDir": true,
}

// Locks computes (once) the lock-set analysis over all product code.
func (p *Prog) Locks() *Locks {
	if p.ssaState != nil && p.ssaState.locks != nil {
		return p.ssaState.locks
	}
	la := &Locks{P: p, in: map[*GNode]LockState{}, entry: map[*Graph]LockState{}, exit: map[*Graph]LockState{},
		paramUnder: map[*types.Var]LockState{}, paramSync: map[*types.Var]bool{},
		graphOfLit: map[*Lit]*Graph{}, graphOfFn: map[*Func]*Graph{}}
	var keys []string
	for k := range p.Funcs {
		keys = append(keys, k)
	}
	sort.Strings(keys)
	for _, k := range keys {
		f := p.Funcs[k]
		if g := p.GraphOf(f); g != nil {
			la.graphs = append(la.graphs, g)
			la.graphOfFn[f] = g
		}
		for _, l := range f.Lits {
			g := p.GraphOfLit(l)
			la.graphs = append(la.graphs, g)
			la.graphOfLit[l] = g
		}
	}
	for round := 0; round < 6; round++ {
		la.Rounds = round + 1
		changed := false
		for _, g := range la.graphs {
			e := la.entryFor(g)
			if old, ok := la.entry[g]; !ok || !equalLS(old, e) {
				changed = true
			}
			la.entry[g] = e
			la.solve(g, e)
		}
		if la.summarise() {
			changed = true
		}
		if !changed {
			break
		}
	}
	if p.ssaState == nil {
		p.ssaState = &ssaState{}
	}
	p.ssaState.locks = la
	return la
}

func (la *Locks) graphContaining(l *Lit) *Graph {
	if l.Parent != nil {
		return la.graphOfLit[l.Parent]
	}
	return la.graphOfFn[l.Outer]
}

func (la *Locks) entryFor(g *Graph) LockState {
	if g.Lit == nil {
		return LockState{}
	}
	l := g.Lit
	outer := la.graphContaining(l)
	stateAtCall := func(call *ast.CallExpr) LockState {
		if outer == nil {
			return LockState{}
		}
		n := outer.NodeOf(call)
		if n == nil {
			return LockState{}
		}
		s := la.in[n]
		if s == nil {
			return LockState{}
		}
		// inherited locks lose their acquire sites identity? keep them: they are the same critical section.
		return s.clone()
	}
	switch {
	case l.Invoked != nil && !l.Go && !l.Defer:
		return stateAtCall(l.Invoked)
	case l.Invoked != nil:
		return LockState{}
	case l.ArgOf != nil:
		callee := CalleeOf(g.Info, l.ArgOf)
		if fn, ok := callee.(*types.Func); ok {
			if la.P.FuncOf(fn) != nil {
				sig := fn.Type().(*types.Signature)
				idx := l.ArgIndex
				if idx >= sig.Params().Len() {
					idx = sig.Params().Len() - 1
				}
				if idx >= 0 {
					param := sig.Params().At(idx)
					res := LockState{}
					if pu, ok := la.paramUnder[param]; ok && pu != nil {
						res = pu.clone()
						// acquire sites inside the wrapper identify the section
					}
					if la.paramSync[param] {
						for k, v := range stateAtCall(l.ArgOf) {
							if _, ok := res[k]; !ok {
								res[k] = v
							}
						}
					}
					return res
				}
			} else if syncHigherOrder[fn.FullName()] {
				return stateAtCall(l.ArgOf)
			}
		}
		return LockState{}
	}
	return LockState{}
}

// solve runs the forward must-analysis on g.
func (la *Locks) solve(g *Graph, entry LockState) {
	for _, n := range g.Nodes {
		delete(la.in, n)
	}
	la.in[g.Entry] = entry.clone()
	work := []*GNode{g.Entry}
	inWork := map[*GNode]bool{g.Entry: true}
	for len(work) > 0 {
		n := work[0]
		work = work[1:]
		inWork[n] = false
		out := la.transfer(g, n, la.in[n])
		for _, e := range n.Succ {
			old, seen := la.in[e.To]
			var nw LockState
			if !seen {
				nw = out.clone()
			} else {
				nw = joinLS(old, out)
			}
			if !seen || !equalLS(old, nw) {
				la.in[e.To] = nw
				if !inWork[e.To] {
					inWork[e.To] = true
					work = append(work, e.To)
				}
			}
		}
	}
	var ex LockState
	for _, n := range g.Nodes {
		if n.Exit {
			if s, ok := la.in[n]; ok {
				ex = joinLS(ex, la.transfer(g, n, s))
			}
		}
	}
	la.exit[g] = ex
}

func (la *Locks) transfer(g *Graph, n *GNode, in LockState) LockState {
	if n.Node == nil || in == nil {
		return in
	}
	out := in
	copied := false
	cow := func() {
		if !copied {
			out = in.clone()
			copied = true
		}
	}
	var deferCall *ast.CallExpr
	if d, ok := n.Node.(*ast.DeferStmt); ok {
		deferCall = d.Call
	}
	if _, ok := n.Node.(*ast.GoStmt); ok {
		return in
	}
	for _, c := range CallsIn(n.Node) {
		mu, op := MutexOp(g.Info, c)
		if mu == nil {
			continue
		}
		if c == deferCall {
			continue // deferred unlock: the lock stays held to the exits
		}
		cow()
		switch op {
		case "Lock":
			out[mu] = Held{Mode: ModeW, Acq: map[*ast.CallExpr]bool{c: true}}
		case "RLock":
			out[mu] = Held{Mode: ModeR, Acq: map[*ast.CallExpr]bool{c: true}}
		case "Unlock", "RUnlock":
			delete(out, mu)
		}
	}
	return out
}

// litSync reports whether literal l (and every literal around it) runs synchronously inside its declaring
// function: invoked on the spot, or passed to a function that is known to call its parameter synchronously.
func (la *Locks) litSync(info *types.Info, l *Lit) bool {
	for ; l != nil; l = l.Parent {
		switch {
		case l.Invoked != nil:
			if l.Go {
				return false
			}
		case l.ArgOf != nil:
			fn, ok := CalleeOf(info, l.ArgOf).(*types.Func)
			if !ok {
				return false
			}
			if la.P.FuncOf(fn) == nil {
				if !syncHigherOrder[fn.FullName()] {
					return false
				}
				continue
			}
			cs := fn.Type().(*types.Signature)
			ix := l.ArgIndex
			if ix >= cs.Params().Len() {
				ix = cs.Params().Len() - 1
			}
			if ix < 0 || !la.paramSync[cs.Params().At(ix)] {
				return false
			}
		default:
			return false
		}
	}
	return true
}

// summarise recomputes the wrapper summaries; reports whether anything changed.
func (la *Locks) summarise() bool {
	changed := false
	newUnder := map[*types.Var]LockState{}
	newSync := map[*types.Var]bool{}
	for _, f := range la.P.Funcs {
		if f.Obj == nil || f.Decl.Body == nil {
			continue
		}
		info := f.Pkg.TypesInfo
		sig := f.Obj.Type().(*types.Signature)
		for i := 0; i < sig.Params().Len(); i++ {
			prm := sig.Params().At(i)
			if _, ok := prm.Type().Underlying().(*types.Signature); !ok {
				continue
			}
			var acc LockState
			first := true
			sync := true
			ast.Inspect(f.Decl.Body, func(m ast.Node) bool {
				id, ok := m.(*ast.Ident)
				if !ok || info.Uses[id] != prm {
					return true
				}
				site := la.callWithFun(f, id)
				if site == nil {
					if !la.isNilCompare(f, id) {
						sync = false // the parameter escapes
					}
					return true
				}
				if site.Go || (site.InLit != nil && !la.litSync(info, site.InLit)) {
					sync = false
				}
				g := la.GraphFor(f, site.InLit)
				st := LockState{}
				if g != nil && !site.Defer && !site.Go {
					if n := g.NodeOf(site.Call); n != nil && la.in[n] != nil {
						st = la.in[n]
					}
				}
				if first {
					acc = st.clone()
					first = false
				} else {
					acc = joinLS(acc, st)
				}
				return true
			})
			if first {
				acc = LockState{}
			}
			newUnder[prm] = acc
			newSync[prm] = sync
			if old, ok := la.paramUnder[prm]; !ok || !equalLS(old, acc) {
				changed = true
			}
			if old, ok := la.paramSync[prm]; !ok || old != sync {
				changed = true
			}
		}
	}
	la.paramUnder = newUnder
	la.paramSync = newSync
	return changed
}

func (la *Locks) callWithFun(f *Func, id *ast.Ident) *Site {
	for _, s := range la.P.sitesBy[f.Pkg.TypesInfo.Uses[id]] {
		if ast.Unparen(s.Call.Fun) == ast.Expr(id) {
			return s
		}
	}
	return nil
}

func (la *Locks) isNilCompare(f *Func, id *ast.Ident) bool {
	ok := false
	ast.Inspect(f.Decl.Body, func(m ast.Node) bool {
		if b, isB := m.(*ast.BinaryExpr); isB && (b.Op == token.EQL || b.Op == token.NEQ) {
			if ast.Unparen(b.X) == ast.Expr(id) || ast.Unparen(b.Y) == ast.Expr(id) {
				ok = true
			}
		}
		return !ok
	})
	return ok
}

// GraphFor returns the graph of the innermost body containing the reference / site.
func (la *Locks) GraphFor(f *Func, l *Lit) *Graph {
	if l != nil {
		return la.graphOfLit[l]
	}
	return la.graphOfFn[f]
}

// StateAt returns the lock state before the graph node containing x.
func (la *Locks) StateAt(g *Graph, x ast.Node) (LockState, *GNode) {
	if g == nil {
		return nil, nil
	}
	n := g.NodeOf(x)
	if n == nil {
		return nil, nil
	}
	return la.in[n], n
}

// StateAtNode: state before node n.
func (la *Locks) StateAtNode(n *GNode) LockState { return la.in[n] }

// StateAfterNode: state after executing n.
func (la *Locks) StateAfterNode(g *Graph, n *GNode) LockState { return la.transfer(g, n, la.in[n]) }

// ParamUnder returns the lock summary of a function-typed parameter.
func (la *Locks) ParamUnder(prm *types.Var) (LockState, bool) {
	s, ok := la.paramUnder[prm]
	return s, ok && la.paramSync[prm]
}

// isFreshBase reports whether the base of selector sel is a local variable that was initialised in the same
// body from a composite literal / new (constructor code touching a value nobody else can see yet).
func isFreshBase(g *Graph, sel *ast.SelectorExpr) bool {
	id, ok := ast.Unparen(sel.X).(*ast.Ident)
	if !ok {
		return false
	}
	v, ok := g.Info.Uses[id].(*types.Var)
	if !ok || v.IsField() {
		return false
	}
	fresh := false
	other := false
	inspectNoLit(g.Body, func(m ast.Node) bool {
		as, ok := m.(*ast.AssignStmt)
		if !ok {
			return true
		}
		for i, l := range as.Lhs {
			lid, ok := ast.Unparen(l).(*ast.Ident)
			if !ok {
				continue
			}
			var o types.Object = g.Info.Defs[lid]
			if o == nil {
				o = g.Info.Uses[lid]
			}
			if o != v {
				continue
			}
			if len(as.Lhs) != len(as.Rhs) {
				other = true
				continue
			}
			r := ast.Unparen(as.Rhs[i])
			if u, ok := r.(*ast.UnaryExpr); ok && u.Op == token.AND {
				r = ast.Unparen(u.X)
			}
			switch t := r.(type) {
			case *ast.CompositeLit:
				fresh = true
			case *ast.CallExpr:
				if fid, ok := t.Fun.(*ast.Ident); ok && fid.Name == "new" {
					fresh = true
				} else {
					other = true
				}
			default:
				other = true
			}
		}
		return true
	})
	return fresh && !other
}

// Access is one use of a guarded field with the verdict of the lock-set rule.
type Access struct {
	Ref   *Ref
	Write bool
	OK    bool
	Via   string // how it was discharged / why not
	Chain []string
}

// CheckGuarded decides, for every use of field fld in product code, that mutex mu is held (exclusively
// for writes). Uses inside functions that do not hold the lock are pushed to the callers (depth-bounded).
func (la *Locks) CheckGuarded(fld, mu *types.Var, maxDepth int) []Access {
	var out []Access
	for _, ref := range la.P.Refs(fld) {
		if ref.Lit {
			continue // composite literal key: constructor
		}
		a := Access{Ref: ref, Write: ref.Write || ref.Addr}
		g := la.GraphFor(ref.In, ref.InLit)
		if g == nil {
			a.Via = "no graph (package-level initialiser)"
			a.OK = ref.In == nil
			out = append(out, a)
			continue
		}
		if sel, ok := ref.Node.(*ast.SelectorExpr); ok && isFreshBase(g, sel) {
			a.OK, a.Via = true, "fresh value (constructor)"
			out = append(out, a)
			continue
		}
		need := ModeR
		if a.Write {
			need = ModeW
		}
		st, _ := la.StateAt(g, ref.Node)
		if h, ok := st[mu]; ok && h.Mode >= need {
			a.OK, a.Via = true, "held in "+ref.Where()
			out = append(out, a)
			continue
		}
		// requirement moves to the callers
		ok, chain, why := la.callersHold(ref.In, ref.InLit, mu, need, maxDepth, map[string]bool{})
		a.OK, a.Chain, a.Via = ok, chain, why
		out = append(out, a)
	}
	return out
}

// callersHold: every way to enter body (f, l) holds mu in mode >= need.
func (la *Locks) callersHold(f *Func, l *Lit, mu *types.Var, need int, depth int, visiting map[string]bool) (bool, []string, string) {
	if f == nil {
		return false, nil, "not inside a function"
	}
	if l != nil {
		// a literal whose entry state lacks the lock: literal runs on its own (goroutine, stored callback) or is
		// passed to a function that calls it without the lock
		g := la.graphOfLit[l]
		if h, ok := la.entry[g][mu]; ok && h.Mode >= need {
			return true, nil, "literal entered with the lock held"
		}
		return false, []string{fmt.Sprintf("%s$%d", f.Key, l.Index)}, "function literal is entered without " + mu.Name()
	}
	if depth <= 0 {
		return false, []string{f.Key}, "caller-holds depth bound reached"
	}
	if visiting[f.Key] {
		return true, nil, "recursive"
	}
	visiting[f.Key] = true
	defer delete(visiting, f.Key)
	if f.Obj == nil {
		return false, []string{f.Key}, "no object"
	}
	// references as a value (method value, callback): entry point
	for _, r := range la.P.Refs(f.Obj) {
		return false, []string{f.Key, "value-ref@" + r.Where()}, "function is used as a value at " + la.P.Rel(r.Node.Pos()) + " (may be called without the lock)"
	}
	sites := la.P.SitesDyn(f.Obj)
	if len(sites) == 0 {
		if f.Obj.Exported() {
			return false, []string{f.Key}, "exported function touches the field without holding " + mu.Name()
		}
		return true, []string{f.Key}, "unexported function without callers (dead code)"
	}
	for _, s := range sites {
		if s.Go || s.Defer {
			// deferred call runs at exit: the state there is not tracked; go: new goroutine
			if s.Go {
				return false, []string{f.Key, "go@" + s.Where()}, "called in a new goroutine at " + la.P.Rel(s.Call.Pos())
			}
		}
		g := la.GraphFor(s.In, s.InLit)
		st, _ := la.StateAt(g, s.Call)
		if h, ok := st[mu]; ok && h.Mode >= need && !s.Defer {
			continue
		}
		ok, chain, why := la.callersHold(s.In, s.InLit, mu, need, depth-1, visiting)
		if !ok {
			return false, append([]string{f.Key + " <- " + s.Where() + "@" + la.P.Rel(s.Call.Pos())}, chain...), why
		}
	}
	if f.Obj.Exported() {
		// exported and every repo call site holds the lock; external callers cannot be seen
		return false, []string{f.Key}, "exported function relies on callers holding " + mu.Name()
	}
	return true, []string{f.Key}, "all callers hold " + mu.Name()
}

// HeldAt reports whether mu is held (mode >= need) right before the node containing x in the body (f,l),
// considering callers when the body itself does not take it.
func (la *Locks) HeldAt(f *Func, l *Lit, x ast.Node, mu *types.Var, need int, depth int) (bool, string) {
	g := la.GraphFor(f, l)
	st, _ := la.StateAt(g, x)
	if h, ok := st[mu]; ok && h.Mode >= need {
		return true, "held locally"
	}
	ok, _, why := la.callersHold(f, l, mu, need, depth, map[string]bool{})
	return ok, why
}

type ssaState struct {
	locks *Locks
}

// Reacquire is a place where a mutex that is already held is locked again (directly or through a call).
type Reacquire struct {
	Site  *Site // the call made while holding the lock (nil for a direct re-lock)
	Pos   token.Pos
	Where string
	Via   []string // callee chain down to the Lock/RLock
	Held  int      // mode held
}

// acquires: function f (its body and synchronously invoked literals) may lock mu, directly or through calls.
func (la *Locks) acquires(f *Func, mu *types.Var, depth int, seen map[*Func]bool) []string {
	if f == nil || f.Decl.Body == nil || depth < 0 || seen[f] {
		return nil
	}
	seen[f] = true
	info := f.Pkg.TypesInfo
	var chain []string
	var walk func(n ast.Node)
	walk = func(n ast.Node) {
		ast.Inspect(n, func(m ast.Node) bool {
			if chain != nil {
				return false
			}
			switch t := m.(type) {
			case *ast.GoStmt:
				return false
			case *ast.FuncLit:
				if l := la.P.LitOf(t); l != nil && (l.Go || (l.Invoked == nil && l.ArgOf == nil)) {
					return false // runs elsewhere
				}
			case *ast.CallExpr:
				if m2, op := MutexOp(info, t); m2 == mu && (op == "Lock" || op == "RLock") {
					chain = []string{f.Key + ":" + op}
					return false
				}
				if fn, ok := CalleeOf(info, t).(*types.Func); ok {
					targets := la.P.CallTargets(f, info, t, fn)
					for _, cf := range targets {
						if sub := la.acquires(cf, mu, depth-1, seen); sub != nil {
							chain = append([]string{f.Key}, sub...)
							return false
						}
					}
				}
			}
			return true
		})
	}
	walk(f.Decl.Body)
	return chain
}

// Reacquisitions finds every call made with mu held whose callee may lock mu again, and direct re-locks.
func (la *Locks) Reacquisitions(mu *types.Var, depth int) []Reacquire {
	var out []Reacquire
	for _, s := range la.P.AllSites() {
		if s.In == nil || s.Go {
			continue
		}
		g := la.GraphFor(s.In, s.InLit)
		if g == nil {
			continue
		}
		st, _ := la.StateAt(g, s.Call)
		h, held := st[mu]
		if !held {
			continue
		}
		info := s.Pkg.TypesInfo
		if m2, op := MutexOp(info, s.Call); m2 == mu && (op == "Lock" || op == "RLock") {
			out = append(out, Reacquire{Pos: s.Call.Pos(), Where: s.Where(), Via: []string{op}, Held: h.Mode})
			continue
		}
		fn, ok := s.Callee.(*types.Func)
		if !ok {
			continue
		}
		targets := la.P.CallTargets(s.In, info, s.Call, fn)
		for _, cf := range targets {
			// a lock wrapper that is passed a literal starting with the lock held is not a re-acquisition by itself;
			// what matters is whether the callee locks mu
			if chain := la.acquires(cf, mu, depth, map[*Func]bool{}); chain != nil {
				out = append(out, Reacquire{Site: s, Pos: s.Call.Pos(), Where: s.Where(), Via: chain, Held: h.Mode})
				break
			}
		}
	}
	return out
}

// HeldMutexes returns the mutexes held right before the node containing x (any mutex object).
func (la *Locks) HeldMutexes(f *Func, l *Lit, x ast.Node) []*types.Var {
	g := la.GraphFor(f, l)
	st, _ := la.StateAt(g, x)
	var out []*types.Var
	for k := range st {
		out = append(out, k)
	}
	sort.Slice(out, func(i, j int) bool { return out[i].Name() < out[j].Name() })
	return out
}
