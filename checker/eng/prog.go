// Package eng is the analysis engine of sopverif: it loads /repo's current source with
// go/packages (syntax + types for every package), indexes the repository's own functions,
// fields, call sites and field accesses by *object identity* and provides the generic
// analyses (flag-sensitive path queries over go/cfg, lock sets, provenance, who-calls)
// that the per-property rules in package rules instantiate. Nothing from /repo is executed.
package eng

import (
	"fmt"
	"go/ast"
	"go/token"
	"go/types"
	"os"
	"path/filepath"
	"sort"
	"strings"

	"golang.org/x/tools/go/packages"
	"golang.org/x/tools/go/types/typeutil"
)

const ModPath = "github.com/flant/shell-operator"

// Prog is the loaded program.
type Prog struct {
	Dir     string
	Overlay map[string][]byte
	Fset    *token.FileSet
	Roots   []*packages.Package          // all root packages of the module (incl. test/ helpers)
	Pkgs    map[string]*packages.Package // product packages (cmd/, pkg/) by import path
	All     []*packages.Package          // product packages sorted by path
	NAll    int                          // number of packages in the whole import graph

	Funcs   map[string]*Func // key -> function (declared functions and methods of product packages)
	byObj   map[*types.Func]*Func
	litOf   map[*ast.FuncLit]*Lit
	sites   []*Site // every call expression in product code
	sitesBy map[types.Object][]*Site
	refs    map[types.Object][]*Ref // non-call references to functions / uses of fields
	graphs  map[ast.Node]*Graph

	ssaState *ssaState

	Inline *InlineReport // what the normalisation by inlining did (nil when Load was used directly)
	// Baseline is the table of functions of the reference tree the normalisation was run with (nil: none).
	Baseline map[string]bool
}

// ReadAbs returns the content of a source file by absolute name, taking the overlay into account.
func (p *Prog) ReadAbs(abs string) ([]byte, error) {
	if b, ok := p.Overlay[abs]; ok {
		return b, nil
	}
	return os.ReadFile(abs)
}

// Func is a declared function or method of a product package.
type Func struct {
	Key  string // e.g. "pkg/task/queue.(*TaskQueue).Start"
	Pkg  *packages.Package
	Decl *ast.FuncDecl
	Obj  *types.Func
	Lits []*Lit // all function literals inside, in source order (nested included)
}

// Lit is a function literal inside a declared function.
type Lit struct {
	Outer  *Func
	Parent *Lit // enclosing literal or nil
	Lit    *ast.FuncLit
	Index  int // 1-based index in Outer.Lits
	// How the literal is used.
	ArgOf     *ast.CallExpr // the literal is an argument of this call (nil otherwise)
	ArgIndex  int
	Invoked   *ast.CallExpr // func(){...}() : the call that invokes it immediately
	Go, Defer bool          // the immediate invocation is a go / defer statement
	AssignTo  types.Object  // literal assigned to this variable / field (if any)
}

// Site is a call expression with its resolved callee.
type Site struct {
	Call   *ast.CallExpr
	Callee types.Object // *types.Func (static or interface method), *types.Var (func-typed field/var), *types.Builtin; nil if unknown
	In     *Func
	InLit  *Lit // innermost enclosing literal (nil when directly in the declaration body)
	Pkg    *packages.Package
	Go     bool
	Defer  bool
}

// Ref is a use of an object that is not the function position of a call.
type Ref struct {
	Obj   types.Object
	Node  ast.Node // *ast.Ident or *ast.SelectorExpr
	In    *Func
	InLit *Lit
	Pkg   *packages.Package
	Write bool // for fields/vars: appears as an assignment target (incl. map element / inc-dec / delete)
	Addr  bool // &x.f
	Lit   bool // key of a composite literal
}

func (s *Site) Where() string {
	if s.In == nil {
		return "<init>"
	}
	if s.InLit != nil {
		return fmt.Sprintf("%s$%d", s.In.Key, s.InLit.Index)
	}
	return s.In.Key
}

func (r *Ref) Where() string {
	if r.In == nil {
		return "<init>"
	}
	if r.InLit != nil {
		return fmt.Sprintf("%s$%d", r.In.Key, r.InLit.Index)
	}
	return r.In.Key
}

// IsProductPath tells whether an import path belongs to the analysed product code.
func IsProductPath(p string) bool {
	return strings.HasPrefix(p, ModPath+"/pkg/") || strings.HasPrefix(p, ModPath+"/cmd/")
}

func isGenerated(name string) bool {
	return strings.HasSuffix(name, "_mock.go") || strings.HasSuffix(name, "_test.go")
}

// Load type-checks the repository at dir. overlay (absolute file name -> content) replaces files without
// touching the disk; it is how seeded mutants are analysed.
func Load(dir string, overlay map[string][]byte) (*Prog, error) {
	env := append(os.Environ(), "GOFLAGS=-mod=mod", "GOPROXY=off", "GOWORK=off", "GOTOOLCHAIN=auto")
	// GOSUMDB must not be "off" (see DESIGN.md section 2).
	filtered := env[:0]
	for _, e := range env {
		if strings.HasPrefix(e, "GOSUMDB=") {
			continue
		}
		filtered = append(filtered, e)
	}
	fset := token.NewFileSet()
	cfg := &packages.Config{
		Mode: packages.NeedName | packages.NeedFiles | packages.NeedCompiledGoFiles | packages.NeedImports |
			packages.NeedDeps | packages.NeedTypes | packages.NeedSyntax | packages.NeedTypesInfo | packages.NeedTypesSizes | packages.NeedModule,
		Dir:     dir,
		Fset:    fset,
		Env:     filtered,
		Tests:   false,
		Overlay: overlay,
	}
	roots, err := packages.Load(cfg, "./...")
	if err != nil {
		return nil, fmt.Errorf("packages.Load: %w", err)
	}
	if len(roots) == 0 {
		return nil, fmt.Errorf("no packages loaded from %s", dir)
	}
	p := &Prog{
		Dir: dir, Fset: fset, Roots: roots, Overlay: overlay,
		Pkgs:    map[string]*packages.Package{},
		Funcs:   map[string]*Func{},
		byObj:   map[*types.Func]*Func{},
		litOf:   map[*ast.FuncLit]*Lit{},
		sitesBy: map[types.Object][]*Site{},
		refs:    map[types.Object][]*Ref{},
		graphs:  map[ast.Node]*Graph{},
	}
	var errs []string
	n := 0
	packages.Visit(roots, nil, func(pk *packages.Package) {
		n++
		if strings.HasPrefix(pk.PkgPath, ModPath) {
			for _, e := range pk.Errors {
				errs = append(errs, e.Error())
			}
		}
	})
	p.NAll = n
	if len(errs) > 0 {
		return nil, fmt.Errorf("type errors in repository packages: %s", strings.Join(errs, "; "))
	}
	for _, pk := range roots {
		if IsProductPath(pk.PkgPath) {
			p.Pkgs[pk.PkgPath] = pk
			p.All = append(p.All, pk)
		}
	}
	if len(p.All) < 20 {
		return nil, fmt.Errorf("only %d product packages loaded, expected >= 20", len(p.All))
	}
	sort.Slice(p.All, func(i, j int) bool { return p.All[i].PkgPath < p.All[j].PkgPath })
	// Build-tagged files in product packages would hide code from the analysis.
	for _, pk := range p.All {
		if len(pk.IgnoredFiles) > 0 {
			for _, f := range pk.IgnoredFiles {
				if strings.HasSuffix(f, ".go") && !strings.HasSuffix(f, "_test.go") {
					return nil, fmt.Errorf("product package %s has a file excluded by build constraints: %s", pk.PkgPath, f)
				}
			}
		}
	}
	p.index()
	return p, nil
}

func (p *Prog) Rel(pos token.Pos) string {
	if !pos.IsValid() {
		return "-"
	}
	ps := p.Fset.Position(pos)
	rel, err := filepath.Rel(p.Dir, ps.Filename)
	if err != nil {
		rel = ps.Filename
	}
	return fmt.Sprintf("%s:%d", rel, ps.Line)
}

func funcKey(pk *packages.Package, d *ast.FuncDecl) string {
	short := strings.TrimPrefix(pk.PkgPath, ModPath+"/")
	if d.Recv == nil || len(d.Recv.List) == 0 {
		return short + "." + d.Name.Name
	}
	t := d.Recv.List[0].Type
	ptr := false
	if st, ok := t.(*ast.StarExpr); ok {
		ptr = true
		t = st.X
	}
	// strip type parameters
	if ix, ok := t.(*ast.IndexExpr); ok {
		t = ix.X
	}
	if ix, ok := t.(*ast.IndexListExpr); ok {
		t = ix.X
	}
	name := "?"
	if id, ok := t.(*ast.Ident); ok {
		name = id.Name
	}
	if ptr {
		return fmt.Sprintf("%s.(*%s).%s", short, name, d.Name.Name)
	}
	return fmt.Sprintf("%s.(%s).%s", short, name, d.Name.Name)
}

func (p *Prog) index() {
	for _, pk := range p.All {
		for _, file := range pk.Syntax {
			fname := p.Fset.Position(file.Pos()).Filename
			if isGenerated(fname) {
				continue
			}
			for _, d := range file.Decls {
				fd, ok := d.(*ast.FuncDecl)
				if !ok {
					// package-level var initialisers may contain calls / literals
					p.indexNode(pk, nil, d)
					continue
				}
				obj, _ := pk.TypesInfo.Defs[fd.Name].(*types.Func)
				f := &Func{Key: funcKey(pk, fd), Pkg: pk, Decl: fd, Obj: obj}
				if _, dup := p.Funcs[f.Key]; dup {
					// init functions etc.: make the key unique
					f.Key = fmt.Sprintf("%s#%d", f.Key, p.Fset.Position(fd.Pos()).Line)
				}
				p.Funcs[f.Key] = f
				if obj != nil {
					p.byObj[obj] = f
				}
				if fd.Body != nil {
					p.indexNode(pk, f, fd.Body)
				}
			}
		}
	}
}

// indexNode walks a body, registering literals, call sites and references.
func (p *Prog) indexNode(pk *packages.Package, f *Func, root ast.Node) {
	info := pk.TypesInfo
	var litStack []*Lit
	curLit := func() *Lit {
		if len(litStack) == 0 {
			return nil
		}
		return litStack[len(litStack)-1]
	}
	callFun := map[ast.Expr]bool{} // expressions in function position of a call
	writes := map[ast.Expr]bool{}
	addrs := map[ast.Expr]bool{}
	goCalls := map[*ast.CallExpr]bool{}
	deferCalls := map[*ast.CallExpr]bool{}
	litArg := map[*ast.FuncLit]struct {
		call *ast.CallExpr
		idx  int
	}{}
	litInvoked := map[*ast.FuncLit]*ast.CallExpr{}
	litAssign := map[*ast.FuncLit]types.Object{}

	markWrite := func(e ast.Expr) {
		// x.f = v ; x.f[k] = v ; x.f++ ; *x.f = v is not a write to f itself
		for {
			switch t := e.(type) {
			case *ast.ParenExpr:
				e = t.X
				continue
			case *ast.IndexExpr:
				// map/slice element store counts as a write to the container
				e = t.X
				continue
			}
			break
		}
		writes[e] = true
	}
	objOfLHS := func(e ast.Expr) types.Object {
		switch t := ast.Unparen(e).(type) {
		case *ast.Ident:
			if o := info.Defs[t]; o != nil {
				return o
			}
			return info.Uses[t]
		case *ast.SelectorExpr:
			return info.Uses[t.Sel]
		}
		return nil
	}

	// pre-pass: classify
	ast.Inspect(root, func(n ast.Node) bool {
		switch t := n.(type) {
		case *ast.CallExpr:
			callFun[ast.Unparen(t.Fun)] = true
			if fl, ok := ast.Unparen(t.Fun).(*ast.FuncLit); ok {
				litInvoked[fl] = t
			}
			for i, a := range t.Args {
				if fl, ok := ast.Unparen(a).(*ast.FuncLit); ok {
					litArg[fl] = struct {
						call *ast.CallExpr
						idx  int
					}{t, i}
				}
			}
			if id, ok := ast.Unparen(t.Fun).(*ast.Ident); ok && id.Name == "delete" && len(t.Args) == 2 {
				if _, isB := info.Uses[id].(*types.Builtin); isB {
					markWrite(t.Args[0])
				}
			}
		case *ast.GoStmt:
			goCalls[t.Call] = true
		case *ast.DeferStmt:
			deferCalls[t.Call] = true
		case *ast.AssignStmt:
			for _, l := range t.Lhs {
				markWrite(l)
			}
			if len(t.Lhs) == len(t.Rhs) {
				for i, r := range t.Rhs {
					if fl, ok := ast.Unparen(r).(*ast.FuncLit); ok {
						litAssign[fl] = objOfLHS(t.Lhs[i])
					}
				}
			}
		case *ast.IncDecStmt:
			markWrite(t.X)
		case *ast.UnaryExpr:
			if t.Op == token.AND {
				addrs[ast.Unparen(t.X)] = true
			}
		case *ast.ValueSpec:
			if len(t.Names) == len(t.Values) {
				for i, r := range t.Values {
					if fl, ok := ast.Unparen(r).(*ast.FuncLit); ok {
						litAssign[fl] = info.Defs[t.Names[i]]
					}
				}
			}
		case *ast.KeyValueExpr:
			if fl, ok := ast.Unparen(t.Value).(*ast.FuncLit); ok {
				if id, ok := t.Key.(*ast.Ident); ok {
					litAssign[fl] = info.Uses[id]
				}
			}
		}
		return true
	})

	var visit func(n ast.Node) bool
	visit = func(n ast.Node) bool {
		switch t := n.(type) {
		case *ast.FuncLit:
			l := &Lit{Outer: f, Parent: curLit(), Lit: t}
			if a, ok := litArg[t]; ok {
				l.ArgOf, l.ArgIndex = a.call, a.idx
			}
			if c, ok := litInvoked[t]; ok {
				l.Invoked = c
				l.Go = goCalls[c]
				l.Defer = deferCalls[c]
			}
			l.AssignTo = litAssign[t]
			if f != nil {
				f.Lits = append(f.Lits, l)
				l.Index = len(f.Lits)
			}
			p.litOf[t] = l
			litStack = append(litStack, l)
			ast.Inspect(t.Body, visit)
			litStack = litStack[:len(litStack)-1]
			return false
		case *ast.CallExpr:
			s := &Site{Call: t, In: f, InLit: curLit(), Pkg: pk, Go: goCalls[t], Defer: deferCalls[t]}
			s.Callee = CalleeOf(info, t)
			p.sites = append(p.sites, s)
			if s.Callee != nil {
				p.sitesBy[s.Callee] = append(p.sitesBy[s.Callee], s)
			}
		case *ast.SelectorExpr:
			obj := info.Uses[t.Sel]
			if obj == nil {
				ast.Inspect(t.X, visit)
				return false
			}
			switch o := obj.(type) {
			case *types.Func:
				if !callFun[t] {
					p.refs[o] = append(p.refs[o], &Ref{Obj: o, Node: t, In: f, InLit: curLit(), Pkg: pk})
				}
			case *types.Var:
				if o.IsField() || (o.Pkg() != nil && o.Parent() == o.Pkg().Scope()) {
					p.refs[o] = append(p.refs[o], &Ref{Obj: o, Node: t, In: f, InLit: curLit(), Pkg: pk, Write: writes[t], Addr: addrs[t]})
				}
			}
			// the selected identifier is handled here; only the operand is visited further
			ast.Inspect(t.X, visit)
			return false
		case *ast.Ident:
			obj := info.Uses[t]
			if obj == nil {
				return true
			}
			switch o := obj.(type) {
			case *types.Func:
				if !callFun[t] {
					p.refs[o] = append(p.refs[o], &Ref{Obj: o, Node: t, In: f, InLit: curLit(), Pkg: pk})
				}
			case *types.Var:
				if !o.IsField() && o.Pkg() != nil && o.Parent() == o.Pkg().Scope() {
					p.refs[o] = append(p.refs[o], &Ref{Obj: o, Node: t, In: f, InLit: curLit(), Pkg: pk, Write: writes[t], Addr: addrs[t]})
				}
			}
		case *ast.KeyValueExpr:
			if id, ok := t.Key.(*ast.Ident); ok {
				if v, ok := info.Uses[id].(*types.Var); ok && v.IsField() {
					p.refs[v] = append(p.refs[v], &Ref{Obj: v, Node: id, In: f, InLit: curLit(), Pkg: pk, Write: true, Lit: true})
				}
			}
		}
		return true
	}
	ast.Inspect(root, visit)
}

// CalleeOf resolves the callee of a call: a *types.Func (static function, method or
// interface method), a *types.Var (call through a func-typed variable or field), a
// *types.Builtin, or nil for conversions and calls of computed function values.
func CalleeOf(info *types.Info, call *ast.CallExpr) types.Object {
	if o := typeutil.Callee(info, call); o != nil {
		if fn, ok := o.(*types.Func); ok {
			return fn.Origin()
		}
		return o
	}
	return nil
}

// Func returns a declared function by key ("pkg/task/queue.(*TaskQueue).Start").
func (p *Prog) Func(key string) *Func { return p.Funcs[key] }

func (p *Prog) FuncOf(obj *types.Func) *Func {
	if obj == nil {
		return nil
	}
	return p.byObj[obj.Origin()]
}

func (p *Prog) LitOf(l *ast.FuncLit) *Lit { return p.litOf[l] }

// Pkg returns a product package by short path ("pkg/task/queue").
func (p *Prog) Pkg(short string) *packages.Package { return p.Pkgs[ModPath+"/"+short] }

// Named looks up a named type.
func (p *Prog) Named(pkgShort, name string) *types.Named {
	pk := p.Pkg(pkgShort)
	if pk == nil {
		return nil
	}
	o := pk.Types.Scope().Lookup(name)
	if o == nil {
		return nil
	}
	n, _ := o.Type().(*types.Named)
	return n
}

// Field looks up a struct field object.
func (p *Prog) Field(pkgShort, typ, field string) *types.Var {
	n := p.Named(pkgShort, typ)
	if n == nil {
		return nil
	}
	st, ok := n.Underlying().(*types.Struct)
	if !ok {
		return nil
	}
	for i := 0; i < st.NumFields(); i++ {
		if st.Field(i).Name() == field {
			return st.Field(i)
		}
	}
	// a field of the reference tree under another name: the reference table knows the field's type; exactly one
	// field of that type that the table does not know, and no other missing field of that type
	if p.Baseline != nil {
		q := func(pk *types.Package) string { return pk.Path() }
		prefix := "fld\t" + pkgShort + "." + typ + "."
		want := ""
		known := map[string]string{} // reference field name -> type
		for k := range p.Baseline {
			if strings.HasPrefix(k, prefix) {
				parts := strings.SplitN(k[len(prefix):], "\t", 2)
				if len(parts) == 2 {
					known[parts[0]] = parts[1]
					if parts[0] == field {
						want = parts[1]
					}
				}
			}
		}
		if want != "" {
			present := map[string]bool{}
			for i := 0; i < st.NumFields(); i++ {
				present[st.Field(i).Name()] = true
			}
			missing := 0
			for name, t := range known {
				if t == want && !present[name] {
					missing++
				}
			}
			var cand *types.Var
			n := 0
			for i := 0; i < st.NumFields(); i++ {
				f := st.Field(i)
				if _, isKnown := known[f.Name()]; !isKnown && types.TypeString(f.Type(), q) == want {
					cand = f
					n++
				}
			}
			if missing == 1 && n == 1 {
				return cand
			}
		}
	}
	return nil
}

// Object looks up a package-level object (func, var, const, type name).
func (p *Prog) Object(pkgShort, name string) types.Object {
	pk := p.Pkg(pkgShort)
	if pk == nil {
		return nil
	}
	if o := pk.Types.Scope().Lookup(name); o != nil {
		return o
	}
	// a function of the reference tree that was found under another name (applyRenames)
	if f := p.Funcs[pkgShort+"."+name]; f != nil && f.Obj != nil {
		return f.Obj
	}
	return nil
}

// ExtObject looks up a package-level object of any package in the import graph.
func (p *Prog) ExtObject(pkgPath, name string) types.Object {
	var found types.Object
	packages.Visit(p.Roots, func(pk *packages.Package) bool { return found == nil }, func(pk *packages.Package) {
		if found == nil && pk.PkgPath == pkgPath && pk.Types != nil {
			found = pk.Types.Scope().Lookup(name)
		}
	})
	return found
}

// Method looks up a method (value or pointer receiver) or interface method of a named type.
func (p *Prog) Method(pkgShort, typ, method string) *types.Func {
	n := p.Named(pkgShort, typ)
	if n == nil {
		return nil
	}
	if m := MethodOf(n, method); m != nil {
		return m
	}
	// a method of the reference tree that was found under another name (applyRenames)
	for _, recv := range []string{"(*" + typ + ")", "(" + typ + ")"} {
		if f := p.Funcs[pkgShort+"."+recv+"."+method]; f != nil && f.Obj != nil {
			return f.Obj
		}
	}
	return nil
}

func MethodOf(n *types.Named, method string) *types.Func {
	if it, ok := n.Underlying().(*types.Interface); ok {
		for i := 0; i < it.NumMethods(); i++ {
			if it.Method(i).Name() == method {
				return it.Method(i)
			}
		}
		return nil
	}
	for i := 0; i < n.NumMethods(); i++ {
		if n.Method(i).Name() == method {
			return n.Method(i).Origin()
		}
	}
	return nil
}

// Sites returns all call sites in product code whose resolved callee is obj.
func (p *Prog) Sites(obj types.Object) []*Site {
	if obj == nil {
		return nil
	}
	return p.sitesBy[obj]
}

// AllSites returns every call site of product code.
func (p *Prog) AllSites() []*Site { return p.sites }

// Refs returns non-call references (functions) or uses (fields, package vars) of obj.
func (p *Prog) Refs(obj types.Object) []*Ref {
	if obj == nil {
		return nil
	}
	return p.refs[obj]
}

// Implementations returns the methods of product named types that implement the interface method m.
func (p *Prog) Implementations(m *types.Func) []*types.Func {
	recv := m.Type().(*types.Signature).Recv()
	if recv == nil {
		return nil
	}
	it, ok := recv.Type().Underlying().(*types.Interface)
	if !ok {
		return nil
	}
	var res []*types.Func
	for _, pk := range p.All {
		sc := pk.Types.Scope()
		for _, name := range sc.Names() {
			tn, ok := sc.Lookup(name).(*types.TypeName)
			if !ok {
				continue
			}
			named, ok := tn.Type().(*types.Named)
			if !ok {
				continue
			}
			if _, isIface := named.Underlying().(*types.Interface); isIface {
				continue
			}
			var T types.Type = named
			if !types.Implements(T, it) {
				T = types.NewPointer(named)
				if !types.Implements(T, it) {
					continue
				}
			}
			ms := types.NewMethodSet(T)
			if sel := ms.Lookup(m.Pkg(), m.Name()); sel != nil {
				if fn, ok := sel.Obj().(*types.Func); ok {
					res = append(res, fn.Origin())
				}
			}
		}
	}
	return res
}

// SitesDyn returns call sites that may invoke the concrete method m: static calls of m and
// calls of any interface method of a product or foreign interface that m's receiver type implements under
// the same name.
func (p *Prog) SitesDyn(m *types.Func) []*Site {
	var res []*Site
	res = append(res, p.sitesBy[m]...)
	sig := m.Type().(*types.Signature)
	if sig.Recv() == nil {
		return res
	}
	rt := sig.Recv().Type()
	for obj, ss := range p.sitesBy {
		fn, ok := obj.(*types.Func)
		if !ok || fn == m || fn.Name() != m.Name() {
			continue
		}
		fsig := fn.Type().(*types.Signature)
		if fsig.Recv() == nil {
			continue
		}
		it, ok := fsig.Recv().Type().Underlying().(*types.Interface)
		if !ok {
			continue
		}
		if types.Implements(rt, it) || types.Implements(types.NewPointer(rt), it) {
			res = append(res, ss...)
		}
	}
	sort.Slice(res, func(i, j int) bool { return res[i].Call.Pos() < res[j].Call.Pos() })
	return res
}

// Enclosing returns the innermost function body node (FuncDecl or FuncLit) key for a position.
func (p *Prog) PosIn(f *Func, pos token.Pos) bool {
	return f != nil && f.Decl.Pos() <= pos && pos < f.Decl.End()
}

// ConstString returns the constant string value of an expression, if any.
func ConstString(info *types.Info, e ast.Expr) (string, bool) {
	tv, ok := info.Types[e]
	if !ok || tv.Value == nil {
		return "", false
	}
	if tv.Value.Kind().String() != "String" {
		return "", false
	}
	s := tv.Value.ExactString()
	if len(s) >= 2 && s[0] == '"' {
		var out string
		if _, err := fmt.Sscanf(s, "%q", &out); err == nil {
			return out, true
		}
	}
	return s, true
}

// ConstVal returns the exact constant string (any kind) for an expression.
func ConstVal(info *types.Info, e ast.Expr) (string, bool) {
	tv, ok := info.Types[e]
	if !ok || tv.Value == nil {
		return "", false
	}
	return tv.Value.ExactString(), true
}

// ReadFile reads a repository file (relative path), honouring the overlay.
func (p *Prog) ReadFile(rel string) ([]byte, error) {
	abs := filepath.Join(p.Dir, rel)
	if b, ok := p.Overlay[abs]; ok {
		return b, nil
	}
	return os.ReadFile(abs)
}

// CallTargets resolves the product functions a call may invoke: the static callee, or for an interface method the
// implementing methods of product types. When the receiver is (a type assertion of / a local assigned from) an
// interface-typed struct field, the implementations are restricted to the concrete types that product code stores
// into that field (a one-level type-flow; falls back to all implementations when a stored type is unknown).
func (p *Prog) CallTargets(in *Func, info *types.Info, call *ast.CallExpr, fn *types.Func) []*Func {
	if cf := p.FuncOf(fn); cf != nil {
		return []*Func{cf}
	}
	sig, ok := fn.Type().(*types.Signature)
	if !ok || sig.Recv() == nil {
		return nil
	}
	if _, isI := sig.Recv().Type().Underlying().(*types.Interface); !isI {
		return nil
	}
	impls := p.Implementations(fn)
	var restrict map[*types.Named]bool
	if sel, ok := ast.Unparen(call.Fun).(*ast.SelectorExpr); ok {
		if fld := p.fieldBehind(in, info, sel.X, 0); fld != nil {
			if ts, known := p.FieldConcreteTypes(fld); known && len(ts) > 0 {
				restrict = map[*types.Named]bool{}
				for _, t := range ts {
					restrict[t] = true
				}
			}
		}
	}
	var out []*Func
	for _, m := range impls {
		rn := RecvNamed(m)
		if restrict != nil && (rn == nil || !restrict[rn]) {
			continue
		}
		if cf := p.FuncOf(m); cf != nil {
			out = append(out, cf)
		}
	}
	return out
}

// fieldBehind: expression e is x.F, x.F.(T), or a local variable assigned only from such an expression.
func (p *Prog) fieldBehind(in *Func, info *types.Info, e ast.Expr, depth int) *types.Var {
	e = ast.Unparen(e)
	switch t := e.(type) {
	case *ast.TypeAssertExpr:
		return p.fieldBehind(in, info, t.X, depth)
	case *ast.SelectorExpr:
		if v, ok := info.Uses[t.Sel].(*types.Var); ok && v.IsField() {
			if _, isI := v.Type().Underlying().(*types.Interface); isI {
				return v
			}
		}
	case *ast.Ident:
		v, ok := info.Uses[t].(*types.Var)
		if !ok || v.IsField() || in == nil || depth > 2 {
			return nil
		}
		as := AssignedExprs(info, in.Decl, v)
		if len(as) == 1 {
			return p.fieldBehind(in, info, as[0], depth+1)
		}
	}
	return nil
}

// FieldConcreteTypes returns the named types of the values product code stores into an interface-typed field
// (directly, or through a setter parameter one level up). known=false when some stored value's type is unknown.
func (p *Prog) FieldConcreteTypes(fld *types.Var) ([]*types.Named, bool) {
	set := map[*types.Named]bool{}
	known := true
	addType := func(t types.Type) bool {
		if ptr, ok := t.(*types.Pointer); ok {
			t = ptr.Elem()
		}
		if n, ok := t.(*types.Named); ok {
			if _, isI := n.Underlying().(*types.Interface); !isI {
				set[n] = true
				return true
			}
		}
		return false
	}
	for _, ref := range p.Refs(fld) {
		if !ref.Write || ref.In == nil {
			continue
		}
		info := ref.Pkg.TypesInfo
		var val ast.Expr
		ast.Inspect(ref.In.Decl, func(n ast.Node) bool {
			switch t := n.(type) {
			case *ast.AssignStmt:
				if len(t.Lhs) == len(t.Rhs) {
					for i, l := range t.Lhs {
						if ast.Unparen(l) == ref.Node {
							val = t.Rhs[i]
						}
					}
				}
			case *ast.KeyValueExpr:
				if t.Key == ref.Node {
					val = t.Value
				}
			}
			return val == nil
		})
		if val == nil {
			known = false
			continue
		}
		tv, ok := info.Types[val]
		if ok && (tv.IsNil() || addType(tv.Type)) {
			continue
		}
		// a parameter of the enclosing function: look at the arguments of its call sites
		prm, isV := SelObj(info, val).(*types.Var)
		idx := -1
		if isV && ref.In.Obj != nil {
			sig := ref.In.Obj.Type().(*types.Signature)
			for i := 0; i < sig.Params().Len(); i++ {
				if sig.Params().At(i) == prm {
					idx = i
				}
			}
		}
		if idx < 0 {
			known = false
			continue
		}
		sites := p.SitesDyn(ref.In.Obj)
		if len(p.Refs(ref.In.Obj)) > 0 {
			known = false // the setter escapes as a value: its callers cannot be enumerated
		}
		// a setter nobody calls stores nothing
		for _, s := range sites {
			if idx >= len(s.Call.Args) {
				known = false
				continue
			}
			atv, ok := s.Pkg.TypesInfo.Types[s.Call.Args[idx]]
			if !ok || !(atv.IsNil() || addType(atv.Type)) {
				known = false
			}
		}
	}
	var out []*types.Named
	for t := range set {
		out = append(out, t)
	}
	sort.Slice(out, func(i, j int) bool { return out[i].Obj().Name() < out[j].Obj().Name() })
	return out, known
}

// dropUnused removes from the indexes (functions, call sites, references) the functions named in keys that nothing
// outside themselves refers to any more: helpers whose every call was replaced by their body. Their text is still
// in the file, but it is dead code - a rule that counts call sites must not count it twice.
func (p *Prog) dropUnused(keys map[string]bool) []string {
	var dropped []string
	for changed := true; changed; {
		changed = false
		for key, f := range p.Funcs {
			if !keys[key] || f.Obj == nil {
				continue
			}
			used := false
			for _, s := range p.sitesBy[f.Obj] {
				if s.In != f {
					used = true
				}
			}
			for _, r := range p.refs[f.Obj] {
				if r.In != f {
					used = true
				}
			}
			if used {
				continue
			}
			delete(p.Funcs, key)
			delete(p.byObj, f.Obj)
			var sites []*Site
			for _, s := range p.sites {
				if s.In != f {
					sites = append(sites, s)
				}
			}
			p.sites = sites
			for o, ss := range p.sitesBy {
				var keep []*Site
				for _, s := range ss {
					if s.In != f {
						keep = append(keep, s)
					}
				}
				p.sitesBy[o] = keep
			}
			for o, rs := range p.refs {
				var keep []*Ref
				for _, r := range rs {
					if r.In != f {
						keep = append(keep, r)
					}
				}
				p.refs[o] = keep
			}
			dropped = append(dropped, key)
			changed = true
		}
	}
	sort.Strings(dropped)
	return dropped
}
