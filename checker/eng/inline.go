package eng

import (
	"bytes"
	"fmt"
	"go/ast"
	"go/parser"
	"go/printer"
	"go/token"
	"go/types"
	"os"
	"sort"
	"strings"

	"golang.org/x/tools/go/packages"
)

// Normalisation by inlining.
//
// The rules name the functions of the repository they reason about (anchors) and look at the statements inside
// them. The most common behaviour-preserving edit - extracting part of such a function into a new helper function,
// method or local closure - moves those statements out of sight. Instead of teaching every rule to look through
// helpers, the program is normalised before it is analysed: every call of a function that is NOT in the baseline
// table (the functions that exist on the reference tree, checker/baseline_funcs.txt) and every direct call of a local
// closure that is not in that table is replaced, in the source text, by the body of the callee; the result is loaded
// again (go/packages overlay) and the rules run on it. On the reference tree nothing is inlined.
//
// The transformation is deliberately conservative; a call is left alone unless all of this holds:
//   - the callee is declared in the same package (or is a closure of the same function), has a body, is not variadic,
//     not generic, not recursive, contains no goto/label/recover/select-less oddities, and its defers are top-level,
//     unconditional, argument-free calls (the `mu.Lock(); defer mu.Unlock()` idiom);
//   - the call is a whole statement, the only right-hand side of an assignment, the only result of a return, or the
//     (possibly negated) condition of an if;
//   - every package-level name used by the body means the same thing at the call site.
// Parameters whose arguments are plain names or field selections and that are never assigned are substituted,
// the others are bound with `var p T = arg` (left-to-right, as the call would evaluate them). `return e` becomes an
// assignment to the call's targets followed, when it is not the last statement, by `break` out of a labelled
// `switch { default: ... }` that wraps the body. Deferred calls are emitted after the body in reverse order (panics
// are outside the model of every rule). If the normalised program does not type-check, the original one is analysed.

// InlineReport says what the normalisation did.
type InlineReport struct {
	Inlined []string // "caller <- callee" for every replaced call
	Skipped []string // eligible-looking calls that were left alone, with the reason
	Rounds  int
	Failed  string   // non-empty when the normalised program did not load and the original one is used
	Dropped []string // helpers removed from the indexes: every call of them was inlined
	Renamed []string // "old key -> new key": functions of the reference tree found under another name
}

// Normalize loads dir (with overlay) and inlines calls of non-baseline helpers until none is left (at most 4 rounds).
// baseline holds function keys ("pkg/x.(*T).M") and closure keys ("pkg/x.(*T).M$name").
func Normalize(dir string, overlay map[string][]byte, baseline map[string]bool) (*Prog, *InlineReport, error) {
	rep := &InlineReport{}
	p, err := Load(dir, overlay)
	if err != nil {
		return nil, rep, err
	}
	p.Baseline = baseline
	if len(baseline) == 0 {
		return p, rep, nil
	}
	rep.Renamed = p.applyRenames(baseline)
	cur := map[string][]byte{}
	for k, v := range overlay {
		cur[k] = v
	}
	for round := 0; round < 7; round++ {
		// functions that received inlined code in an earlier round (only their pointers are forwarded)
		touched := map[string]bool{}
		for _, l := range rep.Inlined {
			if i := strings.Index(l, " <- "); i > 0 {
				touched[l[:i]] = true
			}
		}
		edits, inl, skipped := inlineRound(p, baseline, touched)
		rep.Skipped = append(rep.Skipped, skipped...)
		if len(edits) == 0 {
			break
		}
		next := map[string][]byte{}
		for k, v := range cur {
			next[k] = v
		}
		for file, src := range edits {
			next[file] = src
		}
		np, err := Load(dir, next)
		if err != nil {
			rep.Failed = err.Error()
			return p, rep, nil
		}
		rep.Inlined = append(rep.Inlined, inl...)
		rep.Rounds = round + 1
		np.Baseline = baseline
		np.applyRenames(baseline)
		p, cur = np, next
	}
	// helpers all of whose calls were inlined are dead code now
	callees := map[string]bool{}
	for _, l := range rep.Inlined {
		if i := strings.Index(l, " <- "); i >= 0 {
			callees[l[i+4:]] = true
		}
	}
	rep.Dropped = p.dropUnused(callees)
	p.Inline = rep
	return p, rep, nil
}

type inlineEdit struct {
	start, end int // byte offsets in the file
	text       string
}

// inlineRound computes one round of replacements for every product file.
func inlineRound(p *Prog, baseline map[string]bool, touched map[string]bool) (map[string][]byte, []string, []string) {
	out := map[string][]byte{}
	var inlined, skipped []string
	mergedInfoCache = map[[2]*packages.Package]*types.Info{}
	for _, pk := range p.All {
		bundle, bundled := explodeStructParams(p, pk, baseline)
		inlined = append(inlined, bundled...)
		scal, scalarized := scalarizeStructLocals(p, pk, baseline)
		inlined = append(inlined, scalarized...)
		for f, es := range scal {
			bundle[f] = append(bundle[f], es...)
		}
		fwd, forwarded := forwardPointers(p, pk, touched)
		inlined = append(inlined, forwarded...)
		for f, es := range fwd {
			bundle[f] = append(bundle[f], es...)
		}
		for _, file := range pk.Syntax {
			tf := p.Fset.File(file.Pos())
			if tf == nil {
				continue
			}
			fname := tf.Name()
			if isGenerated(fname) || strings.HasSuffix(fname, "_test.go") {
				continue
			}
			src, err := p.ReadAbs(fname)
			if err != nil {
				continue
			}
			var edits []inlineEdit
			edits = append(edits, bundle[file]...)
			needImports := map[string]string{}
			for _, d := range file.Decls {
				fd, ok := d.(*ast.FuncDecl)
				if !ok || fd.Body == nil {
					continue
				}
				caller := p.Funcs[funcKey(pk, fd)]
				if caller == nil {
					if fo, isF := pk.TypesInfo.Defs[fd.Name].(*types.Func); isF {
						caller = p.byObj[fo]
					}
				}
				ctx := &inlCtx{p: p, pk: pk, file: file, tf: tf, src: src, caller: fd, callerKey: funcKey(pk, fd), baseline: baseline, needImports: needImports}
				if caller != nil {
					ctx.callerKey = caller.Key
				}
				ctx.collectClosures()
				ctx.etaExpandArgs()
				ctx.devirtualize()
				ctx.inlineExprFuncs()
				ctx.walkStmts(fd.Body)
				ctx.finishClosures()
				edits = append(edits, ctx.edits...)
				inlined = append(inlined, ctx.inlined...)
				skipped = append(skipped, ctx.skipped...)
			}
			if len(edits) == 0 {
				continue
			}
			if len(needImports) > 0 {
				// an inlined body came from a file with imports this file does not have: a second import declaration
				// right after the package clause, each import kept alive by a blank declaration
				var names []string
				for n := range needImports {
					names = append(names, n)
				}
				sort.Strings(names)
				var sb, gb strings.Builder
				for _, n := range names {
					parts := strings.SplitN(needImports[n], "\t", 2)
					sb.WriteString("\nimport " + n + " \"" + parts[0] + "\"\n")
					gb.WriteString("\n" + parts[1] + "\n")
				}
				at := tf.Offset(file.Name.End())
				edits = append(edits, inlineEdit{start: at, end: at, text: sb.String()}, inlineEdit{start: len(src), end: len(src), text: gb.String()})
			}
			// apply non-overlapping edits from the end; an edit nested inside another one is dropped (next round)
			sort.Slice(edits, func(i, j int) bool { return edits[i].start < edits[j].start })
			var kept []inlineEdit
			lastEnd := -1
			for _, e := range edits {
				if e.start < lastEnd {
					continue
				}
				kept = append(kept, e)
				lastEnd = e.end
			}
			var buf bytes.Buffer
			pos := 0
			for _, e := range kept {
				buf.Write(src[pos:e.start])
				buf.WriteString(e.text)
				pos = e.end
			}
			buf.Write(src[pos:])
			out[fname] = buf.Bytes()
		}
	}
	return out, inlined, skipped
}

type inlCtx struct {
	p              *Prog
	pk             *packages.Package
	file           *ast.File
	tf             *token.File
	src            []byte
	caller         *ast.FuncDecl
	callerKey      string
	baseline       map[string]bool
	closures       map[types.Object]*ast.FuncLit // local closure variables eligible for inlining
	closureDef     map[types.Object]ast.Node     // the statement that defines the closure variable
	keptAlive      map[types.Object]bool
	callUses       map[types.Object]int
	inlinedUse     map[types.Object]int
	edits          []inlineEdit
	inlined        []string
	skipped        []string
	counter        int
	pendingClosure types.Object
	exprInlined    map[*ast.CallExpr]bool // calls replaced by the callee's single returned expression
	calleePk       *packages.Package      // set by calleeOf when the callee is declared in another package of the module
	needImports    map[string]string      // shared per file: package name -> "path\tguard declaration" of imports an inlined body needs
}

func (c *inlCtx) text(n ast.Node) string {
	return string(c.src[c.tf.Offset(n.Pos()):c.tf.Offset(n.End())])
}

// collectClosures finds `name := func(...) {...}` variables of the caller that are assigned exactly once, are not
// in the baseline, and are used only as the function of direct calls.
func (c *inlCtx) collectClosures() {
	info := c.pk.TypesInfo
	c.closures = map[types.Object]*ast.FuncLit{}
	c.closureDef = map[types.Object]ast.Node{}
	c.keptAlive = map[types.Object]bool{}
	c.callUses = map[types.Object]int{}
	c.inlinedUse = map[types.Object]int{}
	assigns := map[types.Object]int{}
	lit := map[types.Object]*ast.FuncLit{}
	ast.Inspect(c.caller.Body, func(n ast.Node) bool {
		switch t := n.(type) {
		case *ast.AssignStmt:
			for i, l := range t.Lhs {
				id, ok := l.(*ast.Ident)
				if !ok {
					continue
				}
				o := info.ObjectOf(id)
				if o == nil {
					continue
				}
				assigns[o]++
				if t.Tok == token.DEFINE && len(t.Lhs) == len(t.Rhs) {
					if fl, isL := t.Rhs[i].(*ast.FuncLit); isL {
						lit[o] = fl
						c.closureDef[o] = t
					}
				}
			}
		case *ast.DeclStmt:
			if gd, ok := t.Decl.(*ast.GenDecl); ok {
				for _, sp := range gd.Specs {
					if vs, ok := sp.(*ast.ValueSpec); ok {
						for _, nm := range vs.Names {
							if o := info.Defs[nm]; o != nil {
								c.closureDef[o] = t
							}
						}
					}
				}
			}
		case *ast.ValueSpec:
			for i, nm := range t.Names {
				if o := info.Defs[nm]; o != nil {
					assigns[o]++
					if len(t.Values) == len(t.Names) {
						if fl, isL := t.Values[i].(*ast.FuncLit); isL {
							lit[o] = fl
						}
					}
				}
			}
		}
		return true
	})
	// uses: only as call.Fun
	calledOnly := map[types.Object]bool{}
	for o := range lit {
		calledOnly[o] = true
	}
	argUses := map[types.Object][]*ast.Ident{} // the closure variable handed to a call as an argument
	otherUses := map[types.Object]int{}
	var parents []ast.Node
	ast.Inspect(c.caller.Body, func(n ast.Node) bool {
		if n == nil {
			parents = parents[:len(parents)-1]
			return true
		}
		if id, ok := n.(*ast.Ident); ok {
			if o := info.Uses[id]; o != nil && lit[o] != nil {
				isFun := false
				if len(parents) > 0 {
					if call, isC := parents[len(parents)-1].(*ast.CallExpr); isC && call.Fun == ast.Expr(id) {
						isFun = true
						c.callUses[o]++
					}
					// `_ = name` keeps an otherwise unused closure variable alive: not a real use
					if as, isA := parents[len(parents)-1].(*ast.AssignStmt); isA && len(as.Lhs) == 1 && len(as.Rhs) == 1 && as.Rhs[0] == ast.Expr(id) {
						if b, isB := as.Lhs[0].(*ast.Ident); isB && b.Name == "_" {
							isFun = true
						}
					}
				}
				if !isFun {
					calledOnly[o] = false
					isArg := false
					if len(parents) > 0 {
						if call, isC := parents[len(parents)-1].(*ast.CallExpr); isC {
							for _, a := range call.Args {
								if a == ast.Expr(id) {
									isArg = true
								}
							}
						}
					}
					if isArg {
						argUses[o] = append(argUses[o], id)
					} else {
						otherUses[o]++
					}
				}
			}
		}
		parents = append(parents, n)
		return true
	})
	for o, fl := range lit {
		if assigns[o] == 1 && calledOnly[o] && !c.baseline[c.callerKey+"$"+o.Name()] {
			c.closures[o] = fl
		}
	}
	// a closure variable that is also handed to calls as an argument (`xs.Range(visit)`): the literal is written at
	// those places first - evaluating the literal there yields the same function, provided every name it uses means
	// the same there; its direct calls are inlined in the next round
	for o, fl := range lit {
		if assigns[o] != 1 || calledOnly[o] || otherUses[o] > 0 || len(argUses[o]) == 0 || c.baseline[c.callerKey+"$"+o.Name()] {
			continue
		}
		selfRef := false
		ast.Inspect(fl, func(n ast.Node) bool {
			if id, isId := n.(*ast.Ident); isId && info.Uses[id] == o {
				selfRef = true
			}
			return true
		})
		if selfRef {
			continue
		}
		for _, use := range argUses[o] {
			useScope := c.pk.Types.Scope().Innermost(use.Pos())
			okNames := useScope != nil
			ast.Inspect(fl, func(n ast.Node) bool {
				id, isId := n.(*ast.Ident)
				if !isId || !okNames {
					return true
				}
				fo := info.Uses[id]
				if fo == nil || (fo.Pos() >= fl.Pos() && fo.Pos() < fl.End()) {
					return true
				}
				if _, isPN := fo.(*types.PkgName); !isPN && fo.Parent() == nil {
					return true // fields and methods
				}
				if _, at := useScope.LookupParent(id.Name, use.Pos()); at != fo {
					okNames = false
				}
				return true
			})
			if !okNames {
				continue
			}
			c.edits = append(c.edits, inlineEdit{start: c.tf.Offset(use.Pos()), end: c.tf.Offset(use.End()), text: c.text(fl)})
			c.inlined = append(c.inlined, c.callerKey+"$"+o.Name()+" (as a value)")
		}
	}
}

// inlineExprFuncs replaces, wherever they stand (a range clause, a condition, an argument, an index), the calls of
// functions the reference tree does not have whose body is one `return <expression>`: accessors such as
// `func (q *Q) tasks() []T { return q.items }` or `func (q *Q) length() int { return len(q.items) }`. The call is
// replaced by the parenthesised expression with receiver and parameters substituted; nothing is hoisted, so the order
// of evaluation is kept. Conditions: arguments and receiver are plain names, field selections or literals, each
// parameter is used at most once in the expression or its argument is free of calls (it is, being plain), no function
// literal in the expression, and every free name means the same at the call site.
func (c *inlCtx) inlineExprFuncs() {
	info := c.pk.TypesInfo
	var plain func(e ast.Expr) bool
	plain = func(e ast.Expr) bool {
		switch t := ast.Unparen(e).(type) {
		case *ast.Ident, *ast.BasicLit:
			return true
		case *ast.SelectorExpr:
			return plain(t.X)
		case *ast.StarExpr:
			return plain(t.X)
		case *ast.UnaryExpr:
			return t.Op == token.AND && plain(t.X)
		}
		return false
	}
	ast.Inspect(c.caller.Body, func(n ast.Node) bool {
		call, isCall := n.(*ast.CallExpr)
		if !isCall || call.Ellipsis.IsValid() {
			return true
		}
		fn, isFn := CalleeOf(info, call).(*types.Func)
		if !isFn || fn.Pkg() != c.pk.Types {
			return true
		}
		f := c.p.byObj[fn.Origin()]
		if f == nil || f.Decl.Body == nil || c.baseline[f.Key] || f.Decl == c.caller || len(f.Decl.Body.List) != 1 {
			return true
		}
		ret, isRet := f.Decl.Body.List[0].(*ast.ReturnStmt)
		if !isRet || len(ret.Results) != 1 {
			return true
		}
		sig, _ := fn.Type().(*types.Signature)
		if sig == nil || sig.Variadic() || sig.TypeParams() != nil || sig.RecvTypeParams() != nil {
			return true
		}
		// the callee's file and source
		var cf *ast.File
		for _, sf := range c.pk.Syntax {
			if sf.Pos() <= f.Decl.Pos() && f.Decl.Pos() < sf.End() {
				cf = sf
			}
		}
		if cf == nil {
			return true
		}
		ctf := c.p.Fset.File(cf.Pos())
		csrc, err := c.p.ReadAbs(ctf.Name())
		if err != nil {
			return true
		}
		expr := ret.Results[0]
		hasLit := false
		ast.Inspect(expr, func(m ast.Node) bool {
			if _, isL := m.(*ast.FuncLit); isL {
				hasLit = true
			}
			return !hasLit
		})
		if hasLit {
			return true
		}
		// bindings: parameter / receiver object -> argument text
		bind := map[types.Object]string{}
		okArgs := true
		if f.Decl.Recv != nil && len(f.Decl.Recv.List) == 1 {
			sel, isSel := ast.Unparen(call.Fun).(*ast.SelectorExpr)
			if !isSel || !plain(sel.X) {
				return true
			}
			if names := f.Decl.Recv.List[0].Names; len(names) == 1 && names[0].Name != "_" {
				bind[info.Defs[names[0]]] = c.text(sel.X)
			}
		}
		ai := 0
		if f.Decl.Type.Params != nil {
			for _, fl := range f.Decl.Type.Params.List {
				k := len(fl.Names)
				if k == 0 {
					k = 1
				}
				for j := 0; j < k; j++ {
					if ai >= len(call.Args) || !plain(call.Args[ai]) {
						okArgs = false
						break
					}
					if j < len(fl.Names) && fl.Names[j].Name != "_" {
						bind[info.Defs[fl.Names[j]]] = c.text(call.Args[ai])
					}
					ai++
				}
			}
		}
		if !okArgs || ai != len(call.Args) {
			return true
		}
		// free names of the expression mean the same at the call site
		callScope := c.pk.Types.Scope().Innermost(call.Pos())
		okNames := callScope != nil
		type repl struct {
			start, end int
			text       string
		}
		var repls []repl
		ast.Inspect(expr, func(m ast.Node) bool {
			if sel, isSel := m.(*ast.SelectorExpr); isSel {
				// only the operand of a selector is a free name
				ast.Inspect(sel.X, func(x ast.Node) bool { return true })
			}
			id, isId := m.(*ast.Ident)
			if !isId || !okNames {
				return true
			}
			o := info.Uses[id]
			if o == nil {
				return true
			}
			if t, bound := bind[o]; bound {
				txt := t
				if _, isPlainId := ast.Unparen(nil).(*ast.Ident); !isPlainId && strings.ContainsAny(t, ".*&") {
					txt = "(" + t + ")"
				}
				repls = append(repls, repl{ctf.Offset(id.Pos()), ctf.Offset(id.End()), txt})
				return true
			}
			if _, isPN := o.(*types.PkgName); isPN {
				_, at := callScope.LookupParent(id.Name, call.Pos())
				pn, isPN2 := at.(*types.PkgName)
				if !isPN2 || pn.Imported() != o.(*types.PkgName).Imported() {
					okNames = false
				}
				return true
			}
			if o.Parent() == nil {
				return true // field or method
			}
			if _, at := callScope.LookupParent(id.Name, call.Pos()); at != o {
				okNames = false
			}
			return true
		})
		if !okNames {
			return true
		}
		// build the text of the expression with the replacements applied
		es, ee := ctf.Offset(expr.Pos()), ctf.Offset(expr.End())
		sort.Slice(repls, func(i, j int) bool { return repls[i].start < repls[j].start })
		var sb strings.Builder
		pos := es
		for _, r := range repls {
			if r.start < pos {
				continue
			}
			sb.Write(csrc[pos:r.start])
			sb.WriteString(r.text)
			pos = r.end
		}
		sb.Write(csrc[pos:ee])
		c.edits = append(c.edits, inlineEdit{start: c.tf.Offset(call.Pos()), end: c.tf.Offset(call.End()), text: "(" + sb.String() + ")"})
		c.inlined = append(c.inlined, c.callerKey+" <- "+f.Key)
		if c.exprInlined == nil {
			c.exprInlined = map[*ast.CallExpr]bool{}
		}
		c.exprInlined[call] = true
		return false
	})
}

// etaExpandArgs: a function or method of the same package that the reference tree does not have and that is handed to a
// call as a value (`xs.Range(visit)`, `WithHandler(op.handle)`) is written as a literal that calls it
// (`func(a T) R { return visit(a) }`); the call inside is inlined in the next round. The literal denotes the same
// function; for a method value the receiver must be a plain identifier that the caller never assigns, so that
// evaluating it at call time instead of at bind time makes no difference.
func (c *inlCtx) etaExpandArgs() {
	info := c.pk.TypesInfo
	imports := map[string]string{}
	for _, is := range c.file.Imports {
		path := strings.Trim(is.Path.Value, `"`)
		if is.Name != nil {
			imports[path] = is.Name.Name
			continue
		}
		if ip := c.pk.Imports[path]; ip != nil {
			imports[path] = ip.Name
		}
	}
	assignedInCaller := func(o types.Object) bool {
		found := false
		ast.Inspect(c.caller.Body, func(n ast.Node) bool {
			switch t := n.(type) {
			case *ast.AssignStmt:
				for _, l := range t.Lhs {
					if id, ok := ast.Unparen(l).(*ast.Ident); ok && info.ObjectOf(id) == o && t.Tok != token.DEFINE {
						found = true
					}
				}
			case *ast.UnaryExpr:
				if id, ok := ast.Unparen(t.X).(*ast.Ident); ok && t.Op == token.AND && info.ObjectOf(id) == o {
					found = true
				}
			}
			return !found
		})
		return found
	}
	ast.Inspect(c.caller.Body, func(n ast.Node) bool {
		call, isCall := n.(*ast.CallExpr)
		if !isCall {
			return true
		}
		for _, a := range call.Args {
			var fn *types.Func
			switch t := ast.Unparen(a).(type) {
			case *ast.Ident:
				fn, _ = info.Uses[t].(*types.Func)
			case *ast.SelectorExpr:
				if sel := info.Selections[t]; sel != nil && sel.Kind() == types.MethodVal {
					rid, isId := ast.Unparen(t.X).(*ast.Ident)
					if !isId {
						continue
					}
					if ro := info.ObjectOf(rid); ro == nil || assignedInCaller(ro) {
						continue
					}
					fn, _ = sel.Obj().(*types.Func)
				}
			}
			if fn == nil || fn.Pkg() != c.pk.Types {
				continue
			}
			f := c.p.byObj[fn.Origin()]
			if f == nil || f.Decl.Body == nil || c.baseline[f.Key] || f.Decl == c.caller {
				continue
			}
			sig, _ := fn.Type().(*types.Signature)
			if sig == nil || sig.Variadic() || sig.TypeParams() != nil || sig.RecvTypeParams() != nil {
				continue
			}
			typeOK := true
			qual := func(pkg *types.Package) string {
				if pkg == c.pk.Types {
					return ""
				}
				if nm, ok := imports[pkg.Path()]; ok && nm != "_" && nm != "." {
					return nm
				}
				typeOK = false
				return pkg.Name()
			}
			var params, args []string
			for i := 0; i < sig.Params().Len(); i++ {
				pn := fmt.Sprintf("eta%d_p%d", c.tf.Line(a.Pos()), i)
				params = append(params, pn+" "+types.TypeString(sig.Params().At(i).Type(), qual))
				args = append(args, pn)
			}
			var results []string
			for i := 0; i < sig.Results().Len(); i++ {
				results = append(results, types.TypeString(sig.Results().At(i).Type(), qual))
			}
			if !typeOK {
				continue
			}
			res := ""
			switch len(results) {
			case 0:
			case 1:
				res = " " + results[0]
			default:
				res = " (" + strings.Join(results, ", ") + ")"
			}
			ret := ""
			if len(results) > 0 {
				ret = "return "
			}
			text := fmt.Sprintf("func(%s)%s { %s%s(%s) }", strings.Join(params, ", "), res, ret, c.text(a), strings.Join(args, ", "))
			c.edits = append(c.edits, inlineEdit{start: c.tf.Offset(a.Pos()), end: c.tf.Offset(a.End()), text: text})
			c.inlined = append(c.inlined, c.callerKey+" <- "+f.Key+" (as a value)")
		}
		return true
	})
}

// finishClosures removes the definition of a closure all of whose calls were inlined (its body would otherwise stay
// behind as dead code that the rules still read), or keeps the variable alive when some calls remain.
func (c *inlCtx) finishClosures() {
	for o, n := range c.inlinedUse {
		def := c.closureDef[o]
		if n == 0 || def == nil {
			continue
		}
		start, end := c.tf.Offset(def.Pos()), c.tf.Offset(def.End())
		as, isAssign := def.(*ast.AssignStmt)
		if n == c.callUses[o] && isAssign && len(as.Lhs) == 1 {
			// drop `name := func...` unless one of the inlined calls sits inside that very statement
			nested := false
			for _, e := range c.edits {
				if e.start >= start && e.end <= end {
					nested = true
				}
			}
			if !nested {
				c.edits = append(c.edits, inlineEdit{start: start, end: end, text: "// closure " + o.Name() + " inlined at all its call sites"})
				continue
			}
		}
		c.edits = append(c.edits, inlineEdit{start: end, end: end, text: "\n_ = " + o.Name() + "\n"})
	}
}

// walkStmts visits every statement list of the body (not inside function literals that are inlining candidates'
// own bodies - they are handled when their caller is visited in a later round).
func (c *inlCtx) walkStmts(body *ast.BlockStmt) {
	ast.Inspect(body, func(n ast.Node) bool {
		var list []ast.Stmt
		switch t := n.(type) {
		case *ast.BlockStmt:
			list = t.List
		case *ast.CaseClause:
			list = t.Body
		case *ast.CommClause:
			list = t.Body
		default:
			return true
		}
		for _, st := range list {
			c.tryStmt(st)
		}
		return true
	})
}

type callKind int

const (
	kindExpr callKind = iota
	kindAssign
	kindReturn
	kindIfCond
	kindIfInit
	kindNested // the call is a sub-expression of the statement: hoisted into a temporary
)

// tryStmt recognises the supported call contexts in one statement.
func (c *inlCtx) tryStmt(st ast.Stmt) {
	before := len(c.edits)
	c.tryStmtDirect(st)
	if len(c.edits) == before {
		c.tryNested(st)
	}
}

// tryNested hoists an inlinable call that is a sub-expression of a simple statement (`x = append(x, f(a))`,
// `return wrap(f(a))`, `if g(f(a)) {`): the call is evaluated into a temporary right before the statement. That keeps
// the order of evaluation only when nothing else in the statement can have an effect, so the statement may contain no
// other call than builtins and conversions.
func (c *inlCtx) tryNested(st ast.Stmt) {
	info := c.pk.TypesInfo
	var roots []ast.Expr
	switch t := st.(type) {
	case *ast.ExprStmt:
		roots = []ast.Expr{t.X}
	case *ast.AssignStmt:
		roots = append(roots, t.Rhs...)
		for _, l := range t.Lhs {
			if _, isIdent := l.(*ast.Ident); !isIdent {
				roots = append(roots, l)
			}
		}
	case *ast.ReturnStmt:
		roots = t.Results
	case *ast.DeclStmt:
		if gd, ok := t.Decl.(*ast.GenDecl); ok && gd.Tok == token.VAR && len(gd.Specs) == 1 {
			if vs, ok := gd.Specs[0].(*ast.ValueSpec); ok {
				roots = vs.Values
			}
		}
	case *ast.IfStmt:
		if t.Init == nil {
			roots = []ast.Expr{t.Cond}
		}
	default:
		return
	}
	// effects are ordered: hoisting the candidate in front of the statement keeps the order when no call or receive
	// of the statement completes before the candidate starts (enclosing calls run after their arguments, later calls
	// stay later), and when the candidate is evaluated unconditionally (not in the right operand of && or ||)
	var cand *ast.CallExpr
	others := 0
	var effects []ast.Node
	for _, r := range roots {
		var stack []ast.Node
		ast.Inspect(r, func(n ast.Node) bool {
			if n == nil {
				stack = stack[:len(stack)-1]
				return true
			}
			switch t := n.(type) {
			case *ast.FuncLit:
				return false // not evaluated by the statement itself
			case *ast.CallExpr:
				if tv, has := info.Types[t.Fun]; has && tv.IsType() {
					break // conversion
				}
				if id, isId := ast.Unparen(t.Fun).(*ast.Ident); isId {
					if _, isB := info.Uses[id].(*types.Builtin); isB {
						break
					}
				}
				if _, _, _, _, _, _, ok := c.calleeOf(t); ok && cand == nil {
					cand = t
					for k := len(stack) - 1; k >= 0; k-- {
						if b, isB := stack[k].(*ast.BinaryExpr); isB && (b.Op == token.LAND || b.Op == token.LOR) && t.Pos() >= b.Y.Pos() {
							others++ // conditionally evaluated
						}
					}
					// the arguments of the candidate are evaluated by the inlined bindings
					return false
				}
				effects = append(effects, t)
			case *ast.UnaryExpr:
				if t.Op == token.ARROW {
					effects = append(effects, t)
				}
			}
			stack = append(stack, n)
			return true
		})
	}
	if cand != nil {
		for _, e := range effects {
			if e.End() <= cand.Pos() {
				others++
			}
		}
	}
	if cand == nil || others > 0 {
		return
	}
	// a direct context would have been handled already: here the call is strictly nested
	c.tryCall(st, cand, kindNested, nil, false)
}

func (c *inlCtx) tryStmtDirect(st ast.Stmt) {
	switch t := st.(type) {
	case *ast.ExprStmt:
		if call, ok := ast.Unparen(t.X).(*ast.CallExpr); ok {
			c.tryCall(st, call, kindExpr, nil, false)
		}
	case *ast.AssignStmt:
		if len(t.Rhs) == 1 && (t.Tok == token.DEFINE || t.Tok == token.ASSIGN) {
			if call, ok := ast.Unparen(t.Rhs[0]).(*ast.CallExpr); ok {
				c.tryCall(st, call, kindAssign, t, false)
			}
		}
	case *ast.DeclStmt:
		// var x T = f(...)
		if gd, ok := t.Decl.(*ast.GenDecl); ok && gd.Tok == token.VAR && len(gd.Specs) == 1 {
			if vs, ok := gd.Specs[0].(*ast.ValueSpec); ok && len(vs.Values) == 1 {
				if call, ok := ast.Unparen(vs.Values[0]).(*ast.CallExpr); ok {
					var lhs []ast.Expr
					for _, nm := range vs.Names {
						lhs = append(lhs, nm)
					}
					c.tryCall(st, call, kindAssign, &ast.AssignStmt{Lhs: lhs, Tok: token.DEFINE, Rhs: vs.Values}, false)
				}
			}
		}
	case *ast.ReturnStmt:
		if len(t.Results) == 1 {
			if call, ok := ast.Unparen(t.Results[0]).(*ast.CallExpr); ok {
				c.tryCall(st, call, kindReturn, nil, false)
			}
		}
	case *ast.IfStmt:
		if t.Init != nil {
			// if x := f(); cond(x) { ... }
			if ia, ok := t.Init.(*ast.AssignStmt); ok && len(ia.Rhs) == 1 && (ia.Tok == token.DEFINE || ia.Tok == token.ASSIGN) {
				if call, ok := ast.Unparen(ia.Rhs[0]).(*ast.CallExpr); ok {
					c.tryCall(st, call, kindIfInit, ia, false)
				}
			}
			return
		}
		cond := ast.Unparen(t.Cond)
		// `if a && f(x) { S }` (no else): the same as `if a { if f(x) { S } }`, where the call is a whole condition
		if b, ok := cond.(*ast.BinaryExpr); ok && b.Op == token.LAND && t.Else == nil {
			inlinable := func(e ast.Expr) bool {
				e = ast.Unparen(e)
				if u, isU := e.(*ast.UnaryExpr); isU && u.Op == token.NOT {
					e = ast.Unparen(u.X)
				}
				call, isC := e.(*ast.CallExpr)
				if !isC {
					return false
				}
				_, _, _, _, _, _, okC := c.calleeOf(call)
				c.pendingClosure = nil
				return okC
			}
			if inlinable(b.X) || inlinable(b.Y) {
				text := "if " + c.text(b.X) + " {\nif " + c.text(b.Y) + " " + c.text(t.Body) + "\n}"
				c.edits = append(c.edits, inlineEdit{start: c.tf.Offset(t.Pos()), end: c.tf.Offset(t.End()), text: text})
				return
			}
		}
		neg := false
		if u, ok := cond.(*ast.UnaryExpr); ok && u.Op == token.NOT {
			neg = true
			cond = ast.Unparen(u.X)
		}
		if call, ok := cond.(*ast.CallExpr); ok {
			c.tryCall(st, call, kindIfCond, nil, neg)
		}
	}
}

// calleeOf resolves the callee of call to a declared function of the same package that is not in the baseline, or
// to an eligible local closure.
func (c *inlCtx) calleeOf(call *ast.CallExpr) (name string, ft *ast.FuncType, body *ast.BlockStmt, recv *ast.Field, calleeFile *ast.File, sig *types.Signature, ok bool) {
	info := c.pk.TypesInfo
	if id, isId := ast.Unparen(call.Fun).(*ast.Ident); isId {
		if o := info.Uses[id]; o != nil {
			if fl := c.closures[o]; fl != nil {
				s, _ := info.Types[fl].Type.(*types.Signature)
				c.pendingClosure = o
				return c.callerKey + "$" + o.Name(), fl.Type, fl.Body, nil, c.file, s, s != nil
			}
		}
	}
	c.calleePk = nil
	fn, isFn := CalleeOf(info, call).(*types.Func)
	if !isFn || fn.Pkg() == nil {
		return
	}
	f := c.p.byObj[fn]
	if f == nil || f.Decl.Body == nil || c.baseline[f.Key] {
		return
	}
	if f.Decl == c.caller {
		return // recursion
	}
	srcPk := c.pk
	if fn.Pkg() != c.pk.Types {
		// a new function of another package of the module (logic moved onto the type that owns the data): inlined when
		// its body only uses what the calling package could write itself (checked by tryCall)
		if f.Pkg == nil || f.Pkg.Types != fn.Pkg() {
			return
		}
		srcPk = f.Pkg
		c.calleePk = f.Pkg
	}
	var cf *ast.File
	for _, sf := range srcPk.Syntax {
		if sf.Pos() <= f.Decl.Pos() && f.Decl.Pos() < sf.End() {
			cf = sf
		}
	}
	var r *ast.Field
	if f.Decl.Recv != nil && len(f.Decl.Recv.List) == 1 {
		r = f.Decl.Recv.List[0]
	}
	s, _ := fn.Type().(*types.Signature)
	return f.Key, f.Decl.Type, f.Decl.Body, r, cf, s, cf != nil && s != nil
}

func (c *inlCtx) skip(call *ast.CallExpr, name, why string) {
	c.skipped = append(c.skipped, fmt.Sprintf("%s <- %s at %s: %s", c.callerKey, name, c.p.Rel(call.Pos()), why))
}

// tryCall generates the replacement of st when call is an inlinable call.
func (c *inlCtx) tryCall(st ast.Stmt, call *ast.CallExpr, kind callKind, as *ast.AssignStmt, neg bool) {
	c.pendingClosure = nil
	if c.exprInlined[call] {
		return // already replaced in place by the callee's returned expression
	}
	name, ft, body, recv, calleeFile, sig, ok := c.calleeOf(call)
	if !ok {
		return
	}
	info := c.pk.TypesInfo
	calleePk := c.calleePk
	crossQual := ""
	if calleePk != nil {
		info = mergedInfo(c.pk, calleePk)
		// the name of the callee's package in this file
		for _, is := range c.file.Imports {
			if strings.Trim(is.Path.Value, `"`) == calleePk.PkgPath {
				if is.Name != nil {
					crossQual = is.Name.Name
				} else {
					crossQual = calleePk.Name
				}
			}
		}
		if crossQual == "" || crossQual == "_" || crossQual == "." {
			c.skip(call, name, "callee of another package that this file does not import by name")
			return
		}
	}
	if sig.RecvTypeParams() != nil {
		c.skip(call, name, "method of a generic type")
		return
	}
	// a generic function: the type arguments of this call (explicit or inferred) stand for the type parameters, in the
	// types that are printed and in the body
	tparamText := map[string]string{}
	tparamObj := map[types.Object]int{}
	var targs *types.TypeList
	if sig.TypeParams() != nil {
		var fid *ast.Ident
		fun := ast.Unparen(call.Fun)
		if ix, isIx := fun.(*ast.IndexExpr); isIx {
			fun = ast.Unparen(ix.X)
		}
		if ix, isIx := fun.(*ast.IndexListExpr); isIx {
			fun = ast.Unparen(ix.X)
		}
		switch t := fun.(type) {
		case *ast.Ident:
			fid = t
		case *ast.SelectorExpr:
			fid = t.Sel
		}
		inst, has := info.Instances[fid]
		if fid == nil || !has || inst.TypeArgs == nil || inst.TypeArgs.Len() != sig.TypeParams().Len() {
			c.skip(call, name, "generic call without resolved type arguments")
			return
		}
		targs = inst.TypeArgs
		for i := 0; i < sig.TypeParams().Len(); i++ {
			tparamObj[sig.TypeParams().At(i).Obj()] = i
		}
	}
	calleeTF := c.p.Fset.File(body.Pos())
	calleeSrc, err := c.p.ReadAbs(calleeTF.Name())
	if err != nil {
		return
	}
	// ---- safety checks on the callee body
	var defers []*ast.DeferStmt
	bad := ""
	selfCall := false
	ast.Inspect(body, func(n ast.Node) bool {
		switch t := n.(type) {
		case *ast.FuncLit:
			return false
		case *ast.LabeledStmt:
			bad = "label"
		case *ast.BranchStmt:
			if t.Tok == token.GOTO || t.Label != nil {
				bad = "goto / labelled branch"
			}
		case *ast.DeferStmt:
			top := false
			for _, s := range body.List {
				if s == ast.Stmt(t) {
					top = true
				}
			}
			if !top || len(t.Call.Args) != 0 {
				bad = "defer that is not a top-level argument-free call"
			}
			if _, isLit := t.Call.Fun.(*ast.FuncLit); isLit {
				bad = "deferred function literal"
			}
			defers = append(defers, t)
		case *ast.CallExpr:
			if id, isId := ast.Unparen(t.Fun).(*ast.Ident); isId {
				if b, isB := info.Uses[id].(*types.Builtin); isB && b.Name() == "recover" {
					bad = "recover"
				}
			}
			if o := CalleeOf(info, t); o != nil && recv == nil && ft != nil {
				if fo, isF := o.(*types.Func); isF {
					if f := c.p.byObj[fo]; f != nil && f.Decl.Body == body {
						selfCall = true
					}
				}
			}
		}
		return true
	})
	if o := CalleeOf(info, call); o != nil {
		if fo, isF := o.(*types.Func); isF {
			if f := c.p.byObj[fo]; f != nil {
				ast.Inspect(f.Decl.Body, func(n ast.Node) bool {
					if cl, isC := n.(*ast.CallExpr); isC && CalleeOf(info, cl) == o {
						selfCall = true
					}
					return true
				})
			}
		}
	}
	if selfCall {
		bad = "recursive"
	}
	// a defer must precede every return / branch of the body (it is then unconditional)
	for _, d := range defers {
		for _, s := range body.List {
			if s == ast.Stmt(d) {
				break
			}
			hasExit := false
			ast.Inspect(s, func(n ast.Node) bool {
				switch n.(type) {
				case *ast.FuncLit:
					return false
				case *ast.ReturnStmt:
					hasExit = true
				}
				return true
			})
			if hasExit {
				bad = "defer after a return"
			}
		}
	}
	if bad != "" {
		c.skip(call, name, bad)
		return
	}
	// ---- free names mean the same at the call site
	callScope := c.pk.Types.Scope().Innermost(call.Pos())
	okNames := true
	badName := ""
	wantImports := map[string]string{}
	guards := map[string]string{}
	qualified := map[*ast.Ident]bool{}
	crossIds := map[*ast.Ident]bool{} // package-level names of the callee's package (another package): written qualified
	ast.Inspect(body, func(n ast.Node) bool {
		if sel, isSel := n.(*ast.SelectorExpr); isSel {
			if x, isX := sel.X.(*ast.Ident); isX {
				if _, isPN := info.Uses[x].(*types.PkgName); isPN {
					qualified[sel.Sel] = true // pkg.Name: the name belongs to the other package, only `pkg` must resolve
				}
				if _, isPN := info.Uses[x].(*types.PkgName); isPN && guards[x.Name] == "" {
					switch info.Uses[sel.Sel].(type) {
					case *types.TypeName:
						guards[x.Name] = "var _ *" + x.Name + "." + sel.Sel.Name
					case *types.Func, *types.Var, *types.Const:
						guards[x.Name] = "var _ = " + x.Name + "." + sel.Sel.Name
					}
				}
			}
		}
		id, isId := n.(*ast.Ident)
		if !isId || qualified[id] {
			return true
		}
		o := info.Uses[id]
		if o == nil {
			return true
		}
		switch t := o.(type) {
		case *types.PkgName:
			_, at := callScope.LookupParent(id.Name, call.Pos())
			pn, isPN := at.(*types.PkgName)
			if at == nil && c.needImports != nil {
				// the callee lives in a file that imports a package this file does not: import it here too
				wantImports[id.Name] = t.Imported().Path()
			} else if !isPN || pn.Imported() != t.Imported() {
				okNames, badName = false, id.Name
			}
		default:
			if calleePk != nil && o.Pkg() == calleePk.Types {
				// what belongs to the callee's package must be visible from here: package-level names are written
				// qualified, fields and methods must be exported
				if o.Parent() == calleePk.Types.Scope() {
					if !o.Exported() {
						okNames, badName = false, id.Name
					} else {
						crossIds[id] = true
					}
					return true
				}
				if v, isV := o.(*types.Var); isV && v.IsField() && !o.Exported() {
					okNames, badName = false, id.Name
				}
				if fo, isF := o.(*types.Func); isF && fo.Type().(*types.Signature).Recv() != nil && !o.Exported() {
					okNames, badName = false, id.Name
				}
			}
			if o.Parent() == c.pk.Types.Scope() || o.Parent() == types.Universe {
				_, at := callScope.LookupParent(id.Name, call.Pos())
				if at != o {
					okNames, badName = false, id.Name
				}
			} else if v, isV := o.(*types.Var); isV && !v.IsField() && recv == nil && (o.Pos() < ft.Pos() || o.Pos() > body.End()) {
				// a variable of the enclosing function captured by a closure: it must be the same variable at the call
				_, at := callScope.LookupParent(id.Name, call.Pos())
				if at != o {
					okNames, badName = false, id.Name
				}
			}
		}
		return true
	})
	for n := range wantImports {
		if guards[n] == "" {
			okNames, badName = false, n
		}
	}
	if !okNames {
		c.skip(call, name, "a package-level name used by the callee is shadowed or not imported at the call site: "+badName)
		return
	}
	for n, path := range wantImports {
		c.needImports[n] = path + "\t" + guards[n]
	}
	_ = calleeFile
	// ---- parameters
	type binding struct {
		obj      types.Object
		name     string
		arg      ast.Expr
		subst    bool
		variadic []ast.Expr // the arguments gathered by a variadic parameter (arg is nil)
		isVar    bool
	}
	var binds []binding
	rootIdent := func(e ast.Expr) *ast.Ident {
		for {
			switch t := ast.Unparen(e).(type) {
			case *ast.Ident:
				return t
			case *ast.SelectorExpr:
				e = t.X
			case *ast.IndexExpr:
				e = t.X
			default:
				return nil
			}
		}
	}
	isValueAggregate := func(obj types.Object) bool {
		if obj == nil {
			return false
		}
		switch obj.Type().Underlying().(type) {
		case *types.Struct, *types.Array:
			return true
		}
		return false
	}
	assigned := func(obj types.Object) bool {
		found := false
		ast.Inspect(body, func(n ast.Node) bool {
			switch t := n.(type) {
			case *ast.AssignStmt:
				for _, l := range t.Lhs {
					if id, ok := ast.Unparen(l).(*ast.Ident); ok && info.ObjectOf(id) == obj {
						found = true
					}
					// a field / element of a by-value aggregate: the callee works on its own copy
					if id := rootIdent(l); id != nil && info.ObjectOf(id) == obj && isValueAggregate(obj) {
						found = true
					}
				}
			case *ast.IncDecStmt:
				if id, ok := ast.Unparen(t.X).(*ast.Ident); ok && info.ObjectOf(id) == obj {
					found = true
				}
			case *ast.UnaryExpr:
				if t.Op == token.AND {
					if id, ok := ast.Unparen(t.X).(*ast.Ident); ok && info.ObjectOf(id) == obj {
						found = true
					}
				}
			case *ast.RangeStmt:
				for _, e := range []ast.Expr{t.Key, t.Value} {
					if id, ok := e.(*ast.Ident); ok && info.ObjectOf(id) == obj {
						found = true
					}
				}
			}
			return !found
		})
		return found
	}
	var simple func(e ast.Expr) bool
	simple = func(e ast.Expr) bool {
		switch t := ast.Unparen(e).(type) {
		case *ast.Ident:
			return true
		case *ast.SelectorExpr:
			return simple(t.X)
		case *ast.BasicLit:
			return true
		}
		return false
	}
	// a method expression (`(*T).m`, `T.m`) is a constant function value
	methodExpr := func(e ast.Expr) (string, bool) {
		sel, ok := ast.Unparen(e).(*ast.SelectorExpr)
		if !ok {
			return "", false
		}
		if s := info.Selections[sel]; s != nil && s.Kind() == types.MethodExpr {
			return sel.Sel.Name, true
		}
		return "", false
	}
	// names declared inside the callee body (capture check for substituted arguments); named results are declared
	// at the top of the inlined block and capture a target of the same name just the same
	declared := map[string]bool{}
	ast.Inspect(body, func(n ast.Node) bool {
		if id, ok := n.(*ast.Ident); ok {
			if o := info.Defs[id]; o != nil {
				declared[id.Name] = true
			}
		}
		return true
	})
	if ft.Results != nil {
		for _, fl := range ft.Results.List {
			for _, nm := range fl.Names {
				if nm.Name != "_" {
					declared[nm.Name] = true
				}
			}
		}
	}
	argIdents := func(e ast.Expr) []string {
		var out []string
		ast.Inspect(e, func(n ast.Node) bool {
			if sel, ok := n.(*ast.SelectorExpr); ok {
				ast.Inspect(sel.X, func(m ast.Node) bool {
					if id, ok := m.(*ast.Ident); ok {
						out = append(out, id.Name)
					}
					return true
				})
				return false
			}
			if id, ok := n.(*ast.Ident); ok {
				out = append(out, id.Name)
			}
			return true
		})
		return out
	}
	addBind := func(nameId *ast.Ident, arg ast.Expr) {
		if nameId == nil || nameId.Name == "_" {
			// still evaluate the argument if it may have effects: only simple arguments are accepted for unnamed params
			if !simple(arg) {
				bad = "argument with possible side effects for an unnamed parameter"
			}
			return
		}
		obj := info.Defs[nameId]
		b := binding{obj: obj, name: nameId.Name, arg: arg}
		if simple(arg) && !assigned(obj) {
			b.subst = true
			for _, id := range argIdents(arg) {
				if declared[id] && id != nameId.Name {
					b.subst = false
				}
			}
			// untyped constants keep their parameter type only through a typed binding
			if tv, has := info.Types[arg]; has && tv.Value != nil {
				if _, isLit := ast.Unparen(arg).(*ast.BasicLit); isLit {
					b.subst = false
				}
			}
			// the same for the untyped nil (`f(nil)` with a slice parameter: generic callees could not infer from it)
			if tv, has := info.Types[arg]; has && tv.IsNil() {
				b.subst = false
			}
		}
		binds = append(binds, b)
	}
	if recv != nil {
		sel, isSel := ast.Unparen(call.Fun).(*ast.SelectorExpr)
		if !isSel {
			c.skip(call, name, "method value call")
			return
		}
		var rid *ast.Ident
		if len(recv.Names) == 1 {
			rid = recv.Names[0]
		}
		// value receivers copy: only pointer receivers or receivers never assigned are substituted (checked by assigned)
		addBind(rid, sel.X)
	}
	ai := 0
	if ft.Params != nil {
		for _, fl := range ft.Params.List {
			if len(fl.Names) == 0 {
				if ai < len(call.Args) {
					addBind(nil, call.Args[ai])
				}
				ai++
				continue
			}
			for _, nm := range fl.Names {
				if _, isEll := fl.Type.(*ast.Ellipsis); isEll && sig.Variadic() && !call.Ellipsis.IsValid() {
					// `f(a, b, c)` with `xs ...T`: the parameter is the slice []T{b, c} (nil without arguments)
					rest := call.Args[min(ai, len(call.Args)):]
					if nm.Name == "_" {
						for _, a := range rest {
							if !simple(a) {
								bad = "argument with possible side effects for an unnamed parameter"
							}
						}
					} else {
						binds = append(binds, binding{obj: info.Defs[nm], name: nm.Name, variadic: rest, isVar: true})
					}
					ai = len(call.Args)
					continue
				}
				if ai >= len(call.Args) {
					c.skip(call, name, "argument count")
					return
				}
				addBind(nm, call.Args[ai])
				ai++
			}
		}
	}
	if bad != "" {
		c.skip(call, name, bad)
		return
	}
	if ai != len(call.Args) {
		c.skip(call, name, "argument count (call with a multi-value argument)")
		return
	}
	// ---- type printing relative to the caller's file
	imports := map[string]string{} // path -> local name
	for _, is := range c.file.Imports {
		path := strings.Trim(is.Path.Value, `"`)
		if is.Name != nil {
			imports[path] = is.Name.Name
			continue
		}
		if ip := c.pk.Imports[path]; ip != nil {
			imports[path] = ip.Name
		}
	}
	typeOK := true
	var curType types.Type
	typeImports := map[string]string{}
	qual := func(pkg *types.Package) string {
		if pkg == c.pk.Types {
			return ""
		}
		if n, ok := imports[pkg.Path()]; ok && n != "_" {
			if n == "." {
				return "" // dot import: the names are visible unqualified
			}
			return n
		}
		// not imported in this file: import it under its own name when that name is free here (the declaration the
		// type is printed for keeps the import alive; a blank declaration of the first named type does so for sure)
		if c.needImports != nil && curType != nil {
			if _, at := c.pk.Types.Scope().Innermost(call.Pos()).LookupParent(pkg.Name(), call.Pos()); at == nil {
				if nt := namedFrom(curType, pkg); nt != "" {
					typeImports[pkg.Name()] = pkg.Path() + "\tvar _ *" + pkg.Name() + "." + nt
					return pkg.Name()
				}
			}
		}
		typeOK = false
		return pkg.Name()
	}
	typeStr0 := func(t types.Type) string {
		curType = t
		defer func() { curType = nil }()
		return types.TypeString(t, qual)
	}
	if targs != nil {
		for i := 0; i < sig.TypeParams().Len(); i++ {
			tparamText[sig.TypeParams().At(i).Obj().Name()] = typeStr0(targs.At(i))
		}
	}
	typeStr := func(t types.Type) string {
		out := typeStr0(t)
		if len(tparamText) == 0 {
			return out
		}
		// a type parameter is printed by its name: replace whole identifiers that are not qualified
		var sb strings.Builder
		for i := 0; i < len(out); {
			ch := out[i]
			if ch == '_' || ch >= 'a' && ch <= 'z' || ch >= 'A' && ch <= 'Z' {
				j := i
				for j < len(out) && (out[j] == '_' || out[j] >= 'a' && out[j] <= 'z' || out[j] >= 'A' && out[j] <= 'Z' || out[j] >= '0' && out[j] <= '9') {
					j++
				}
				word := out[i:j]
				if rep, isTP := tparamText[word]; isTP && (i == 0 || out[i-1] != '.') {
					sb.WriteString(rep)
				} else {
					sb.WriteString(word)
				}
				i = j
				continue
			}
			sb.WriteByte(ch)
			i++
		}
		return sb.String()
	}
	// ---- targets of the results
	nres := sig.Results().Len()
	c.counter++
	tag := fmt.Sprintf("inl%d_%d", c.tf.Line(call.Pos()), c.counter)
	var pre, post []string // statements before / after the inlined block
	var complexBack []string
	var targets []string // assignment targets for `return e...` inside the body
	switch kind {
	case kindExpr:
		for i := 0; i < nres; i++ {
			targets = append(targets, "_")
		}
	case kindAssign, kindIfInit:
		if len(as.Lhs) != nres {
			c.skip(call, name, "result count")
			return
		}
		for i, l := range as.Lhs {
			id, isId := l.(*ast.Ident)
			if as.Tok == token.DEFINE {
				if !isId {
					c.skip(call, name, "define with a non-identifier target")
					return
				}
				if id.Name != "_" && info.Defs[id] != nil {
					vt := sig.Results().At(i).Type()
					if dv, isV := info.Defs[id].(*types.Var); isV && dv.Type() != nil {
						vt = dv.Type() // `var x T = f()` declares x with T, which may be an interface the result implements
					}
					pre = append(pre, fmt.Sprintf("var %s %s", id.Name, typeStr(vt)))
				}
				targets = append(targets, id.Name)
			} else {
				if !simple(l) {
					// m[k] = f(), x.f[i] = f(): through a temporary, when the target's operands are free of calls
					hasCall := false
					ast.Inspect(l, func(n ast.Node) bool {
						switch n.(type) {
						case *ast.CallExpr, *ast.FuncLit:
							hasCall = true
						}
						return !hasCall
					})
					if hasCall {
						c.skip(call, name, "assignment to a target that contains a call")
						return
					}
					tmp := fmt.Sprintf("%s_a%d", tag, i)
					pre = append(pre, fmt.Sprintf("var %s %s", tmp, typeStr(sig.Results().At(i).Type())))
					complexBack = append(complexBack, fmt.Sprintf("%s = %s", c.text(l), tmp))
					targets = append(targets, tmp)
					continue
				}
				targets = append(targets, c.text(l))
			}
		}
	case kindReturn:
		for i := 0; i < nres; i++ {
			t := fmt.Sprintf("%s_r%d", tag, i)
			pre = append(pre, fmt.Sprintf("var %s %s", t, typeStr(sig.Results().At(i).Type())))
			targets = append(targets, t)
		}
		post = append(post, "return "+strings.Join(targets, ", "))
	case kindNested:
		if nres != 1 {
			c.skip(call, name, "nested call with several results")
			return
		}
		t := tag + "_v"
		pre = append(pre, fmt.Sprintf("var %s %s", t, typeStr(sig.Results().At(0).Type())))
		targets = append(targets, t)
	case kindIfCond:
		if nres != 1 {
			c.skip(call, name, "condition call with several results")
			return
		}
		t := tag + "_c"
		pre = append(pre, fmt.Sprintf("var %s %s", t, typeStr(sig.Results().At(0).Type())))
		targets = append(targets, t)
	}
	// result unification: `y := f(...)` where f builds a local x and every return is `return x`. Then x *is* y: the
	// local is renamed to the target, its declaration becomes an assignment and the returns need no copy. The inlined
	// code reads like the code before the helper was extracted, and the rules keep following one variable.
	var unified types.Object
	unifiedDecl := -1
	if kind == kindAssign && as.Tok == token.DEFINE && nres == 1 && len(targets) == 1 && targets[0] != "_" {
		if tid, isId := as.Lhs[0].(*ast.Ident); isId && info.Defs[tid] != nil {
			var retObj types.Object
			okU := true
			ast.Inspect(body, func(n ast.Node) bool {
				switch t := n.(type) {
				case *ast.FuncLit:
					return false
				case *ast.ReturnStmt:
					if len(t.Results) != 1 {
						okU = false
						return true
					}
					id, isId := ast.Unparen(t.Results[0]).(*ast.Ident)
					if !isId {
						okU = false
						return true
					}
					o, isV := info.Uses[id].(*types.Var)
					if !isV || o.IsField() || o.Pos() < body.Pos() || o.Pos() > body.End() {
						okU = false
						return true
					}
					if retObj != nil && retObj != types.Object(o) {
						okU = false
					}
					retObj = o
				}
				return true
			})
			if okU && retObj != nil {
				for i, st := range body.List {
					switch d := st.(type) {
					case *ast.AssignStmt:
						if d.Tok == token.DEFINE && len(d.Lhs) == 1 && len(d.Rhs) == 1 {
							if id, isId := d.Lhs[0].(*ast.Ident); isId && info.Defs[id] == retObj {
								unifiedDecl = i
							}
						}
					case *ast.DeclStmt:
						if gd, isG := d.Decl.(*ast.GenDecl); isG && gd.Tok == token.VAR && len(gd.Specs) == 1 {
							if vs, isV := gd.Specs[0].(*ast.ValueSpec); isV && len(vs.Names) == 1 && len(vs.Values) <= 1 && info.Defs[vs.Names[0]] == retObj {
								unifiedDecl = i
							}
						}
					}
				}
				// the target's type must be the local's type (no implicit conversion through the result type)
				if unifiedDecl >= 0 && types.Identical(retObj.Type(), sig.Results().At(0).Type()) {
					unified = retObj
				}
			}
		}
	}
	// a target whose name is also declared inside the callee body would be captured by that declaration: such results
	// go through temporaries that are copied to the real targets after the inlined block
	var copyBack []string
	for i, t := range targets {
		if unified != nil {
			break
		}
		if t == "_" || !declared[strings.SplitN(t, ".", 2)[0]] {
			continue
		}
		tmp := fmt.Sprintf("%s_t%d", tag, i)
		pre = append(pre, fmt.Sprintf("var %s %s", tmp, typeStr(sig.Results().At(i).Type())))
		copyBack = append(copyBack, fmt.Sprintf("%s = %s", t, tmp))
		targets[i] = tmp
	}
	// ---- fresh copy of the callee body, rewritten
	bodyText := string(calleeSrc[calleeTF.Offset(body.Lbrace) : calleeTF.Offset(body.Rbrace)+1])
	fset := token.NewFileSet()
	pf, err := parser.ParseFile(fset, "callee.go", "package p\nfunc _() "+bodyText, parser.SkipObjectResolution)
	if err != nil {
		c.skip(call, name, "cannot re-parse the callee body")
		return
	}
	fresh := pf.Decls[0].(*ast.FuncDecl).Body
	// parallel walk: original identifiers / returns <-> fresh ones
	var origIds, freshIds []*ast.Ident
	ast.Inspect(body, func(n ast.Node) bool {
		if id, ok := n.(*ast.Ident); ok {
			origIds = append(origIds, id)
		}
		return true
	})
	ast.Inspect(fresh, func(n ast.Node) bool {
		if id, ok := n.(*ast.Ident); ok {
			freshIds = append(freshIds, id)
		}
		return true
	})
	if len(origIds) != len(freshIds) {
		c.skip(call, name, "internal: identifier count mismatch")
		return
	}
	// a parameter bound to a method expression and used only as the function of calls: `fn(x, a)` with
	// fn = (*T).m is written `x.m(a)`
	methParam := map[types.Object]string{}
	for _, b := range binds {
		if b.isVar {
			continue
		}
		mname, isME := methodExpr(b.arg)
		if !isME || b.obj == nil || assigned(b.obj) {
			continue
		}
		onlyCalled := true
		var stack []ast.Node
		ast.Inspect(body, func(n ast.Node) bool {
			if n == nil {
				stack = stack[:len(stack)-1]
				return true
			}
			if id, ok := n.(*ast.Ident); ok && info.Uses[id] == b.obj {
				parent, _ := stack[len(stack)-1].(*ast.CallExpr)
				if parent == nil || parent.Fun != ast.Expr(id) || len(parent.Args) == 0 || parent.Ellipsis.IsValid() {
					onlyCalled = false
				}
			}
			stack = append(stack, n)
			return true
		})
		if onlyCalled {
			methParam[b.obj] = mname
		}
	}
	if len(methParam) > 0 {
		var origCalls, freshCalls []*ast.CallExpr
		ast.Inspect(body, func(n ast.Node) bool {
			if cl, ok := n.(*ast.CallExpr); ok {
				origCalls = append(origCalls, cl)
			}
			return true
		})
		ast.Inspect(fresh, func(n ast.Node) bool {
			if cl, ok := n.(*ast.CallExpr); ok {
				freshCalls = append(freshCalls, cl)
			}
			return true
		})
		if len(origCalls) != len(freshCalls) {
			c.skip(call, name, "internal: call count mismatch")
			return
		}
		for i, oc := range origCalls {
			id, isId := oc.Fun.(*ast.Ident)
			if !isId {
				continue
			}
			if mname, ok := methParam[info.Uses[id]]; ok {
				fc := freshCalls[i]
				fc.Fun = &ast.SelectorExpr{X: &ast.ParenExpr{X: fc.Args[0]}, Sel: ast.NewIdent(mname)}
				fc.Args = fc.Args[1:]
			}
		}
	}
	substText := map[types.Object]string{}
	var bindDecls []string
	for _, b := range binds {
		if _, isMP := methParam[b.obj]; isMP {
			continue
		}
		if b.subst {
			at := c.text(b.arg)
			if at != b.name {
				if _, isIdent := ast.Unparen(b.arg).(*ast.Ident); !isIdent {
					at = "(" + at + ")"
				}
				substText[b.obj] = at
			}
			continue
		}
		t := ""
		if v, ok := b.obj.(*types.Var); ok {
			t = typeStr(v.Type())
		}
		if b.isVar {
			val := "nil"
			if len(b.variadic) > 0 {
				var parts []string
				for _, a := range b.variadic {
					parts = append(parts, c.text(a))
				}
				val = t + "{" + strings.Join(parts, ", ") + "}"
			}
			bindDecls = append(bindDecls, fmt.Sprintf("var %s %s = %s", b.name, t, val))
		} else {
			bindDecls = append(bindDecls, fmt.Sprintf("var %s %s = %s", b.name, t, c.text(b.arg)))
		}
		used := false
		for _, id := range origIds {
			if info.Uses[id] == b.obj {
				used = true
			}
		}
		_, isFuncTyped := b.obj.Type().Underlying().(*types.Signature)
		if !used || isFuncTyped {
			// a function-typed binding may lose its last use when its calls are inlined in the next round
			bindDecls = append(bindDecls, fmt.Sprintf("_ = %s", b.name))
		}
	}
	for i, id := range origIds {
		if o := info.Uses[id]; o != nil {
			if k, isTP := tparamObj[o]; isTP {
				freshIds[i].Name = "(" + tparamText[sig.TypeParams().At(k).Obj().Name()] + ")"
			}
		}
		if crossIds[id] {
			freshIds[i].Name = crossQual + "." + id.Name
		}
		if o := info.Uses[id]; o != nil {
			if t, ok := substText[o]; ok {
				freshIds[i].Name = t
			}
		}
		if unified != nil && (info.Uses[id] == unified || info.Defs[id] == unified) {
			freshIds[i].Name = targets[0]
		}
	}
	if unified != nil {
		switch d := fresh.List[unifiedDecl].(type) {
		case *ast.AssignStmt:
			d.Tok = token.ASSIGN
		case *ast.DeclStmt:
			vs := d.Decl.(*ast.GenDecl).Specs[0].(*ast.ValueSpec)
			if len(vs.Values) == 1 {
				fresh.List[unifiedDecl] = &ast.AssignStmt{Lhs: []ast.Expr{ast.NewIdent(targets[0])}, Tok: token.ASSIGN, Rhs: vs.Values}
			} else {
				fresh.List[unifiedDecl] = &ast.EmptyStmt{Implicit: false}
			}
		}
	}
	// named results become locals of the block
	var resultNames []string
	if ft.Results != nil {
		for _, fl := range ft.Results.List {
			for _, nm := range fl.Names {
				resultNames = append(resultNames, nm.Name)
			}
		}
	}
	if len(resultNames) > 0 {
		if len(resultNames) != nres {
			c.skip(call, name, "partly named results")
			return
		}
		for i, rn := range resultNames {
			if rn != "_" {
				bindDecls = append(bindDecls, fmt.Sprintf("var %s %s", rn, typeStr(sig.Results().At(i).Type())), fmt.Sprintf("_ = %s", rn))
			}
		}
	}
	if !typeOK {
		c.skip(call, name, "a type needed for the inlined code is not importable by name in the caller's file")
		return
	}
	for n, v := range typeImports {
		c.needImports[n] = v
	}
	// returns: every return that is not the last statement of the body needs the labelled wrapper
	label := tag + "_L"
	needLabel := false
	var rewriteReturns func(list []ast.Stmt, top bool) []ast.Stmt
	mkAssign := func(ret *ast.ReturnStmt) []ast.Stmt {
		var out []ast.Stmt
		if unified != nil {
			return nil // `return x` with x unified with the target: nothing to copy
		}
		if nres > 0 {
			var rhs []ast.Expr
			if len(ret.Results) == 0 {
				for _, rn := range resultNames {
					rhs = append(rhs, ast.NewIdent(rn))
				}
			} else {
				rhs = ret.Results
			}
			allBlank := true
			for _, t := range targets {
				if t != "_" {
					allBlank = false
				}
			}
			if len(rhs) == len(targets) {
				var lhs, keep []ast.Expr
				for i, t := range targets {
					// `_ = nil` does not type-check: an untyped nil handed to a blank target is dropped
					if id, isId := ast.Unparen(rhs[i]).(*ast.Ident); isId && id.Name == "nil" && t == "_" {
						continue
					}
					lhs = append(lhs, ast.NewIdent(t))
					keep = append(keep, rhs[i])
				}
				_ = allBlank
				if len(lhs) > 0 {
					out = append(out, &ast.AssignStmt{Lhs: lhs, Tok: token.ASSIGN, Rhs: keep})
				}
			} else if len(rhs) == 1 {
				// return f() forwarding several results
				var lhs []ast.Expr
				for _, t := range targets {
					lhs = append(lhs, ast.NewIdent(t))
				}
				out = append(out, &ast.AssignStmt{Lhs: lhs, Tok: token.ASSIGN, Rhs: rhs})
			}
		}
		return out
	}
	var rewriteStmt func(s ast.Stmt, last bool) []ast.Stmt
	rewriteBlock := func(b *ast.BlockStmt, last bool) {
		if b != nil {
			b.List = rewriteReturns(b.List, last)
		}
	}
	rewriteStmt = func(s ast.Stmt, last bool) []ast.Stmt {
		switch t := s.(type) {
		case *ast.ReturnStmt:
			out := mkAssign(t)
			if !last {
				needLabel = true
				out = append(out, &ast.BranchStmt{Tok: token.BREAK, Label: ast.NewIdent(label)})
			}
			return out
		case *ast.BlockStmt:
			rewriteBlock(t, last)
		case *ast.IfStmt:
			rewriteBlock(t.Body, last)
			if t.Else != nil {
				r := rewriteStmt(t.Else, last)
				if len(r) == 1 {
					t.Else = r[0]
				} else {
					t.Else = &ast.BlockStmt{List: r}
				}
			}
		case *ast.ForStmt:
			rewriteBlock(t.Body, false)
		case *ast.RangeStmt:
			rewriteBlock(t.Body, false)
		case *ast.SwitchStmt:
			for _, cl := range t.Body.List {
				cc := cl.(*ast.CaseClause)
				cc.Body = rewriteReturns(cc.Body, false)
			}
		case *ast.TypeSwitchStmt:
			for _, cl := range t.Body.List {
				cc := cl.(*ast.CaseClause)
				cc.Body = rewriteReturns(cc.Body, false)
			}
		case *ast.SelectStmt:
			for _, cl := range t.Body.List {
				cc := cl.(*ast.CommClause)
				cc.Body = rewriteReturns(cc.Body, false)
			}
		case *ast.DeferStmt:
			return nil // emitted after the body
		}
		return []ast.Stmt{s}
	}
	rewriteReturns = func(list []ast.Stmt, last bool) []ast.Stmt {
		var out []ast.Stmt
		for i, s := range list {
			out = append(out, rewriteStmt(s, last && i == len(list)-1)...)
		}
		return out
	}
	// a return inside a nested block that is the last statement of the body still falls through to the end: only the
	// syntactically last top-level statement counts as "last" for if/else chains (handled by `last` propagation)
	fresh.List = rewriteReturns(fresh.List, true)
	var pb bytes.Buffer
	if err := printer.Fprint(&pb, fset, fresh); err != nil {
		c.skip(call, name, "cannot print the rewritten body")
		return
	}
	inner := pb.String() // "{ ... }"
	// deferred calls, reversed (their text comes from the callee source)
	var deferTexts []string
	for i := len(defers) - 1; i >= 0; i-- {
		d := defers[i]
		dt := string(calleeSrc[calleeTF.Offset(d.Call.Pos()):calleeTF.Offset(d.Call.End())])
		// apply receiver/param substitution textually for the simple `x.mu.Unlock()` shape
		for o, t := range substText {
			dt = replaceIdent(dt, o.Name(), t)
		}
		deferTexts = append(deferTexts, dt)
	}
	var sb strings.Builder
	sb.WriteString("{ // inlined " + name + "\n")
	for _, l := range pre {
		sb.WriteString(l + "\n")
	}
	sb.WriteString("{\n")
	for _, l := range bindDecls {
		sb.WriteString(l + "\n")
	}
	if needLabel {
		sb.WriteString(label + ":\nswitch {\ndefault:\n")
	}
	sb.WriteString(inner + "\n")
	if needLabel {
		sb.WriteString("}\n")
	}
	for _, d := range deferTexts {
		sb.WriteString(d + "\n")
	}
	sb.WriteString("}\n")
	for _, l := range copyBack {
		sb.WriteString(l + "\n")
	}
	for _, l := range complexBack {
		sb.WriteString(l + "\n")
	}
	switch kind {
	case kindNested:
		sb.WriteString(string(c.src[c.tf.Offset(st.Pos()):c.tf.Offset(call.Pos())]) + targets[0] + string(c.src[c.tf.Offset(call.End()):c.tf.Offset(st.End())]) + "\n")
	case kindIfInit:
		ifs := st.(*ast.IfStmt)
		sb.WriteString("if " + string(c.src[c.tf.Offset(ifs.Cond.Pos()):c.tf.Offset(ifs.End())]) + "\n")
	case kindIfCond:
		ifs := st.(*ast.IfStmt)
		condText := targets[0]
		if neg {
			condText = "!" + condText
		}
		sb.WriteString(string(c.src[c.tf.Offset(ifs.Pos()):c.tf.Offset(ifs.Cond.Pos())]) + condText + string(c.src[c.tf.Offset(ifs.Cond.End()):c.tf.Offset(ifs.End())]) + "\n")
	}
	for _, l := range post {
		sb.WriteString(l + "\n")
	}
	// for `x := f()` the declared variables must stay visible after the block: the outer braces are dropped
	text := sb.String()
	if kind == kindAssign && as.Tok == token.DEFINE || kind == kindReturn || kind == kindNested {
		text = strings.TrimPrefix(text, "{ // inlined "+name+"\n")
		text = "// inlined " + name + "\n" + text
	} else {
		text += "}\n"
	}
	// resynchronise line numbers after the replacement
	endLine := c.p.Fset.Position(st.End()).Line
	lineFile := c.p.Fset.Position(st.End()).Filename
	text += fmt.Sprintf("//line %s:%d\n", lineFile, endLine+1)
	// the replacement must start at the beginning of the statement and swallow the rest of its last line's newline
	start := c.tf.Offset(st.Pos())
	end := c.tf.Offset(st.End())
	// extend to the end of line if only whitespace / a comment follows
	e2 := end
	for e2 < len(c.src) && c.src[e2] != '\n' {
		e2++
	}
	rest := strings.TrimSpace(string(c.src[end:e2]))
	if rest == "" || strings.HasPrefix(rest, "//") {
		if e2 < len(c.src) {
			e2++
		}
		end = e2
	} else {
		// something else follows on the line (e.g. `}`): no line directive games
		text = strings.TrimSuffix(text, fmt.Sprintf("//line %s:%d\n", lineFile, endLine+1))
	}
	c.edits = append(c.edits, inlineEdit{start: start, end: end, text: text})
	c.inlined = append(c.inlined, fmt.Sprintf("%s <- %s", c.callerKey, name))
	if o := c.pendingClosure; o != nil && strings.HasSuffix(name, "$"+o.Name()) {
		c.inlinedUse[o]++
	}
}

// replaceIdent replaces whole-word occurrences of name in s.
func replaceIdent(s, name, with string) string {
	if name == "" || name == with {
		return s
	}
	var out strings.Builder
	i := 0
	isWord := func(b byte) bool {
		return b == '_' || (b >= '0' && b <= '9') || (b >= 'a' && b <= 'z') || (b >= 'A' && b <= 'Z')
	}
	for i < len(s) {
		if strings.HasPrefix(s[i:], name) && (i == 0 || (!isWord(s[i-1]) && s[i-1] != '.')) && (i+len(name) == len(s) || !isWord(s[i+len(name)])) {
			out.WriteString(with)
			i += len(name)
			continue
		}
		out.WriteByte(s[i])
		i++
	}
	return out.String()
}

// BaselineKeys lists the declared functions and the local closure variables of the product packages.
func BaselineKeys(p *Prog) []string {
	var out []string
	for k, f := range p.Funcs {
		out = append(out, k)
		if f.Obj != nil {
			out = append(out, "sig\t"+k+"\t"+SigString(f.Obj)+"\t"+strings.Join(calleeFingerprint(f), ","))
		}
		if f.Decl.Body == nil {
			continue
		}
		info := f.Pkg.TypesInfo
		seen := map[string]bool{}
		ast.Inspect(f.Decl.Body, func(n ast.Node) bool {
			switch t := n.(type) {
			case *ast.AssignStmt:
				if len(t.Lhs) == len(t.Rhs) {
					for i, l := range t.Lhs {
						if id, ok := l.(*ast.Ident); ok {
							if _, isL := t.Rhs[i].(*ast.FuncLit); isL && info.ObjectOf(id) != nil && !seen[id.Name] {
								seen[id.Name] = true
								out = append(out, k+"$"+id.Name)
							}
						}
					}
				}
			case *ast.ValueSpec:
				if len(t.Values) == len(t.Names) {
					for i, nm := range t.Names {
						if _, isL := t.Values[i].(*ast.FuncLit); isL && !seen[nm.Name] {
							seen[nm.Name] = true
							out = append(out, k+"$"+nm.Name)
						}
					}
				}
			}
			return true
		})
	}
	// struct fields of the product packages ("fld <pkg>.<Type>.<Field> <type>"), for renamed fields
	for _, pk := range p.All {
		scope := pk.Types.Scope()
		for _, name := range scope.Names() {
			tn, isT := scope.Lookup(name).(*types.TypeName)
			if !isT {
				continue
			}
			st, isS := tn.Type().Underlying().(*types.Struct)
			if !isS {
				continue
			}
			short := strings.TrimPrefix(pk.PkgPath, ModPath+"/")
			for i := 0; i < st.NumFields(); i++ {
				out = append(out, "fld\t"+short+"."+name+"."+st.Field(i).Name()+"\t"+types.TypeString(st.Field(i).Type(), func(q *types.Package) string { return q.Path() }))
			}
		}
	}
	// functions of the shell framework ("sh:<name>")
	shAll := map[string]*ShCmd{}
	for _, rel := range ShellFiles {
		if f, err := ParseShell(p, rel); err == nil {
			for name, fn := range f.Funcs {
				shAll[name] = fn
			}
		}
	}
	for name, fn := range shAll {
		out = append(out, "sh:"+name)
		out = append(out, "shsig\t"+name+"\t"+strings.Join(ShFingerprint(fn, shAll), ","))
	}
	sort.Strings(out)
	return out
}

// ShellFiles are the bash files of the shell framework.
var ShellFiles = []string{"frameworks/shell/hook.sh", "frameworks/shell/context.sh", "shell_lib.sh"}

// SigString renders the signature of fn without parameter names and without the receiver (package paths in full).
func SigString(fn *types.Func) string {
	sig, ok := fn.Type().(*types.Signature)
	if !ok {
		return ""
	}
	q := func(p *types.Package) string { return p.Path() }
	var ps, rs []string
	for i := 0; i < sig.Params().Len(); i++ {
		t := types.TypeString(sig.Params().At(i).Type(), q)
		if sig.Variadic() && i == sig.Params().Len()-1 {
			t = "..." + strings.TrimPrefix(t, "[]")
		}
		ps = append(ps, t)
	}
	for i := 0; i < sig.Results().Len(); i++ {
		rs = append(rs, types.TypeString(sig.Results().At(i).Type(), q))
	}
	return "(" + strings.Join(ps, ",") + ")(" + strings.Join(rs, ",") + ")"
}

// applyRenames finds functions of the reference tree that exist under another name: a reference key that is
// missing, and exactly one function of the same package and receiver with the same signature that the reference
// tree does not have (and no second missing key that it could be). Such a function is indexed under its reference
// key - rules name their anchors by that key - and is not inlined.
func (p *Prog) applyRenames(baseline map[string]bool) []string {
	sigs := map[string]string{}
	prints := map[string][]string{}
	for k := range baseline {
		if strings.HasPrefix(k, "sig\t") {
			parts := strings.Split(k, "\t")
			if len(parts) >= 3 {
				sigs[parts[1]] = parts[2]
			}
			if len(parts) >= 4 && parts[3] != "" {
				prints[parts[1]] = strings.Split(parts[3], ",")
			}
		}
	}
	if len(sigs) == 0 {
		return nil
	}
	owner := func(key string) string { // package + receiver type (a value receiver may have become a pointer receiver)
		if i := strings.LastIndex(key, "."); i >= 0 {
			key = key[:i]
		}
		return strings.Replace(key, ".(*", ".(", 1)
	}
	similarity := func(a, b []string) float64 {
		if len(a) == 0 && len(b) == 0 {
			return 0
		}
		set := map[string]bool{}
		for _, x := range a {
			set[x] = true
		}
		inter := 0
		for _, x := range b {
			if set[x] {
				inter++
			}
		}
		return float64(inter) / float64(len(a)+len(b)-inter)
	}
	type cand struct{ key, owner, sig string }
	var missing, added []cand
	for k, sg := range sigs {
		if _, has := p.Funcs[k]; !has {
			missing = append(missing, cand{k, owner(k), sg})
		}
	}
	for k, f := range p.Funcs {
		if !baseline[k] && f.Obj != nil {
			added = append(added, cand{k, owner(k), SigString(f.Obj)})
		}
	}
	var out []string
	taken := map[string]bool{}
	sort.Slice(missing, func(i, j int) bool { return missing[i].key < missing[j].key })
	sort.Slice(added, func(i, j int) bool { return added[i].key < added[j].key })
	for _, m := range missing {
		var match []cand
		for _, a := range added {
			if a.owner == m.owner && a.sig == m.sig && !taken[a.key] {
				match = append(match, a)
			}
		}
		rivals := 0
		for _, m2 := range missing {
			if m2.owner == m.owner && m2.sig == m.sig {
				rivals++
			}
		}
		if len(match) == 0 {
			continue
		}
		if len(match) != 1 || rivals != 1 {
			// several functions of that shape were renamed at once: tell them apart by what they call (the set of
			// callees outside the package recorded for the reference tree); the best candidate must be clearly
			// better than the second one and must not suit another missing function better
			best, second := -1.0, -1.0
			bi := -1
			for i, a := range match {
				sc := similarity(prints[m.key], calleeFingerprint(p.Funcs[a.key]))
				if sc > best {
					best, second, bi = sc, best, i
				} else if sc > second {
					second = sc
				}
			}
			if bi < 0 || best < 0.5 || best-second < 0.2 {
				continue
			}
			better := false
			for _, m2 := range missing {
				if m2.key != m.key && m2.owner == m.owner && m2.sig == m.sig && similarity(prints[m2.key], calleeFingerprint(p.Funcs[match[bi].key])) > best {
					better = true
				}
			}
			if better {
				continue
			}
			match = []cand{match[bi]}
		}
		taken[match[0].key] = true
		f := p.Funcs[match[0].key]
		if f == nil {
			continue
		}
		delete(p.Funcs, match[0].key)
		f.Key = m.key
		p.Funcs[m.key] = f
		out = append(out, m.key+" -> "+match[0].key)
	}
	// second pass - a method moved onto another type of the same package (or made a plain function with the same
	// parameters): the only new function of the package with that signature stands for the only missing one. A wrong
	// guess cannot hide anything: the rules then judge the candidate by what it does.
	pkgOf := func(key string) string {
		if i := strings.Index(key, ".("); i >= 0 {
			return key[:i]
		}
		if i := strings.LastIndex(key, "."); i >= 0 {
			return key[:i]
		}
		return key
	}
	for _, m := range missing {
		if _, has := p.Funcs[m.key]; has {
			continue
		}
		var match []cand
		for _, a := range added {
			if !taken[a.key] && a.sig == m.sig && pkgOf(a.key) == pkgOf(m.key) && p.Funcs[a.key] != nil {
				match = append(match, a)
			}
		}
		rivals := 0
		for _, m2 := range missing {
			if _, has := p.Funcs[m2.key]; !has && m2.sig == m.sig && pkgOf(m2.key) == pkgOf(m.key) {
				rivals++
			}
		}
		if len(match) != 1 || rivals != 1 {
			continue
		}
		taken[match[0].key] = true
		f := p.Funcs[match[0].key]
		delete(p.Funcs, match[0].key)
		f.Key = m.key
		p.Funcs[m.key] = f
		out = append(out, m.key+" -> "+match[0].key)
	}
	// third pass - a function that moved onto another type and changed its parameter list on the way keeps, as a rule,
	// its name: the only new function of the package with the name of the only missing one of that name
	baseName := func(key string) string {
		if i := strings.LastIndex(key, "."); i >= 0 {
			return key[i+1:]
		}
		return key
	}
	for _, m := range missing {
		if _, has := p.Funcs[m.key]; has {
			continue
		}
		var match []cand
		for _, a := range added {
			if !taken[a.key] && baseName(a.key) == baseName(m.key) && pkgOf(a.key) == pkgOf(m.key) && p.Funcs[a.key] != nil {
				match = append(match, a)
			}
		}
		rivals := 0
		for _, m2 := range missing {
			if _, has := p.Funcs[m2.key]; !has && baseName(m2.key) == baseName(m.key) && pkgOf(m2.key) == pkgOf(m.key) {
				rivals++
			}
		}
		if len(match) != 1 || rivals != 1 {
			continue
		}
		taken[match[0].key] = true
		f := p.Funcs[match[0].key]
		delete(p.Funcs, match[0].key)
		f.Key = m.key
		p.Funcs[m.key] = f
		out = append(out, m.key+" -> "+match[0].key)
	}
	sort.Strings(out)
	return out
}

// calleeFingerprint lists (sorted, without duplicates) the functions of other packages that f calls, as
// "pkgpath.Name" or "pkgpath.Type.Name": a cheap description of what a function does that survives renaming the
// function and its locals.
func calleeFingerprint(f *Func) []string {
	if f == nil || f.Decl.Body == nil {
		return nil
	}
	info := f.Pkg.TypesInfo
	set := map[string]bool{}
	ast.Inspect(f.Decl.Body, func(n ast.Node) bool {
		call, ok := n.(*ast.CallExpr)
		if !ok {
			return true
		}
		fn, isF := CalleeOf(info, call).(*types.Func)
		if !isF || fn.Pkg() == nil || fn.Pkg() == f.Pkg.Types {
			return true
		}
		name := fn.Pkg().Path() + "."
		if rn := RecvNamed(fn); rn != nil {
			name += rn.Obj().Name() + "."
		}
		set[name+fn.Name()] = true
		return true
	})
	var out []string
	for k := range set {
		out = append(out, k)
	}
	sort.Strings(out)
	return out
}

// explodeStructParams undoes "bundle the parameters into a small struct": for a struct type T that the reference tree
// does not have, a function with a by-value parameter `p T` that only selects fields of p, and whose every call passes a
// keyed (or complete positional) literal T{...} at that position, gets the fields as separate parameters in field
// order (`p_f1 T1, p_f2 T2`), `p.f` becomes `p_f` and the calls pass the field values (the zero value for a field the
// literal leaves out). The rules then see the function with plain parameters again. The edits of one function are all
// made or none is.
func explodeStructParams(p *Prog, pk *packages.Package, baseline map[string]bool) (map[*ast.File][]inlineEdit, []string) {
	out := map[*ast.File][]inlineEdit{}
	var done []string
	info := pk.TypesInfo
	short := strings.TrimPrefix(pk.PkgPath, ModPath+"/")
	fileOf := func(pos token.Pos) *ast.File {
		for _, f := range pk.Syntax {
			if f.Pos() <= pos && pos < f.End() {
				return f
			}
		}
		return nil
	}
	text := func(n ast.Node) (string, bool) {
		tf := p.Fset.File(n.Pos())
		if tf == nil {
			return "", false
		}
		src, err := p.ReadAbs(tf.Name())
		if err != nil {
			return "", false
		}
		return string(src[tf.Offset(n.Pos()):tf.Offset(n.End())]), true
	}
	knownStruct := func(name string) bool {
		prefix := "fld\t" + short + "." + name + "."
		for k := range baseline {
			if strings.HasPrefix(k, prefix) {
				return true
			}
		}
		return false
	}
	for _, f := range p.Funcs {
		if f.Pkg != pk || f.Decl.Body == nil || f.Obj == nil || f.Decl.Type.Params == nil {
			continue
		}
		if len(p.refs[f.Obj]) > 0 {
			continue
		}
		sig := f.Obj.Type().(*types.Signature)
		if sig.Variadic() {
			continue
		}
		idx := 0
		for _, fl := range f.Decl.Type.Params.List {
			k := len(fl.Names)
			if k == 0 {
				k = 1
			}
			at := idx
			idx += k
			if len(fl.Names) != 1 || fl.Names[0].Name == "_" {
				continue
			}
			named, isN := info.TypeOf(fl.Type).(*types.Named)
			if !isN || named.Obj().Pkg() != pk.Types || knownStruct(named.Obj().Name()) {
				continue
			}
			st, isS := named.Underlying().(*types.Struct)
			if !isS || st.NumFields() == 0 {
				continue
			}
			embedded := false
			for i := 0; i < st.NumFields(); i++ {
				if st.Field(i).Embedded() {
					embedded = true
				}
			}
			if embedded {
				continue
			}
			prm := info.Defs[fl.Names[0]]
			pname := fl.Names[0].Name
			// the type's declaration, for the source text of the field types
			var stDecl *ast.StructType
			for _, sf := range pk.Syntax {
				for _, d := range sf.Decls {
					if gd, isG := d.(*ast.GenDecl); isG {
						for _, sp := range gd.Specs {
							if ts, isT := sp.(*ast.TypeSpec); isT && info.Defs[ts.Name] == types.Object(named.Obj()) {
								stDecl, _ = ts.Type.(*ast.StructType)
							}
						}
					}
				}
			}
			if stDecl == nil || fileOf(stDecl.Pos()) != fileOf(f.Decl.Pos()) {
				// the field types are copied as written: only safe when the imports are those of the same file
				continue
			}
			var fieldNames, fieldTypes []string
			okDecl := true
			for _, fd := range stDecl.Fields.List {
				tt, okT := text(fd.Type)
				if !okT || len(fd.Names) == 0 {
					okDecl = false
					break
				}
				for _, nm := range fd.Names {
					fieldNames = append(fieldNames, nm.Name)
					fieldTypes = append(fieldTypes, tt)
				}
			}
			if !okDecl || len(fieldNames) != st.NumFields() {
				continue
			}
			// uses of the parameter: only as the operand of a field selection
			type edit struct {
				file *ast.File
				e    inlineEdit
			}
			var edits []edit
			okUses := true
			var stack []ast.Node
			ast.Inspect(f.Decl.Body, func(n ast.Node) bool {
				if n == nil {
					stack = stack[:len(stack)-1]
					return true
				}
				if id, isId := n.(*ast.Ident); isId && info.Uses[id] == prm {
					sel, isSel := stack[len(stack)-1].(*ast.SelectorExpr)
					if !isSel || sel.X != ast.Expr(id) {
						okUses = false
					} else if len(stack) >= 2 {
						if u, isU := stack[len(stack)-2].(*ast.UnaryExpr); isU && u.Op == token.AND {
							okUses = false
						}
					}
					if okUses {
						tf := p.Fset.File(sel.Pos())
						edits = append(edits, edit{fileOf(sel.Pos()), inlineEdit{tf.Offset(sel.Pos()), tf.Offset(sel.End()), pname + "_" + sel.Sel.Name}})
					}
				}
				stack = append(stack, n)
				return true
			})
			if !okUses {
				continue
			}
			// the calls
			okCalls := len(p.sitesBy[f.Obj]) > 0
			for _, s := range p.sitesBy[f.Obj] {
				if s.Pkg != pk || at >= len(s.Call.Args) || s.Call.Ellipsis.IsValid() {
					okCalls = false
					break
				}
				lit, isLit := ast.Unparen(s.Call.Args[at]).(*ast.CompositeLit)
				if !isLit || !types.Identical(info.TypeOf(lit), named) {
					okCalls = false
					break
				}
				vals := make([]string, len(fieldNames))
				for i := range vals {
					vals[i] = "*new(" + fieldTypes[i] + ")"
				}
				if fileOf(lit.Pos()) != fileOf(stDecl.Pos()) {
					// the zero-value texts use the declaration's type spelling: same-file only
					for _, e := range lit.Elts {
						if _, isKV := e.(*ast.KeyValueExpr); !isKV || len(lit.Elts) != len(fieldNames) {
							okCalls = false
						}
					}
				}
				for i, e := range lit.Elts {
					if kv, isKV := e.(*ast.KeyValueExpr); isKV {
						key, isId := kv.Key.(*ast.Ident)
						pos := -1
						for j, nm := range fieldNames {
							if isId && nm == key.Name {
								pos = j
							}
						}
						vt, okT := text(kv.Value)
						if pos < 0 || !okT {
							okCalls = false
							break
						}
						vals[pos] = vt
					} else {
						vt, okT := text(e)
						if !okT || len(lit.Elts) != len(fieldNames) {
							okCalls = false
							break
						}
						vals[i] = vt
					}
				}
				if !okCalls {
					break
				}
				tf := p.Fset.File(lit.Pos())
				edits = append(edits, edit{fileOf(lit.Pos()), inlineEdit{tf.Offset(lit.Pos()), tf.Offset(lit.End()), strings.Join(vals, ", ")}})
			}
			if !okCalls {
				continue
			}
			// the declaration
			var ps []string
			for i := range fieldNames {
				ps = append(ps, pname+"_"+fieldNames[i]+" "+fieldTypes[i])
			}
			tf := p.Fset.File(fl.Pos())
			edits = append(edits, edit{fileOf(fl.Pos()), inlineEdit{tf.Offset(fl.Pos()), tf.Offset(fl.End()), strings.Join(ps, ", ")}})
			for _, e := range edits {
				if e.file == nil {
					okCalls = false
				}
			}
			if !okCalls {
				continue
			}
			for _, e := range edits {
				out[e.file] = append(out[e.file], e.e)
			}
			done = append(done, f.Key+" <- parameters of "+named.Obj().Name()+" (unbundled)")
			break // one parameter of a function per round
		}
	}
	return out, done
}

// ShFingerprint is the sorted multiset of the external command names a shell function runs (calls of other
// functions of the same file set are left out: they may be renamed together with it).
func ShFingerprint(fn *ShCmd, funcs map[string]*ShCmd) []string {
	var out []string
	if fn == nil || fn.Func == nil {
		return out
	}
	ShWalk(&ShList{Items: []*ShAndOr{{Pipes: []*ShPipe{{Cmds: []*ShCmd{fn.Func}}}}}}, "", func(x *ShCmd, _ string) {
		if n := x.CmdName(); n != "" && funcs[n] == nil {
			out = append(out, n)
		} else if x.Kind != "simple" {
			out = append(out, "<"+x.Kind+">")
		}
	})
	sort.Strings(out)
	return out
}

// scalarizeStructLocals undoes "let the phases talk through a small result struct": a local variable v of a struct type T
// that the reference tree does not have, which is only ever (a) declared with `var v T` or `v := T{...}`, (b) assigned a
// literal `v = T{...}`, (c) used as the operand of a field selection `v.f` (never &v, never passed or returned whole,
// no method call), is replaced by one local per field (`v_f`). `v = T{a: x}` becomes the parallel assignment
// `v_a, v_b = x, *new(Tb)` (fields the literal leaves out take their zero value). The rules then see plain locals,
// which the value and flag tracking understand. All edits of one variable are made or none is; one variable per
// function and round.
func scalarizeStructLocals(p *Prog, pk *packages.Package, baseline map[string]bool) (map[*ast.File][]inlineEdit, []string) {
	out := map[*ast.File][]inlineEdit{}
	var done []string
	info := pk.TypesInfo
	short := strings.TrimPrefix(pk.PkgPath, ModPath+"/")
	fileOf := func(pos token.Pos) *ast.File {
		for _, f := range pk.Syntax {
			if f.Pos() <= pos && pos < f.End() {
				return f
			}
		}
		return nil
	}
	text := func(n ast.Node) (string, bool) {
		tf := p.Fset.File(n.Pos())
		if tf == nil {
			return "", false
		}
		src, err := p.ReadAbs(tf.Name())
		if err != nil {
			return "", false
		}
		return string(src[tf.Offset(n.Pos()):tf.Offset(n.End())]), true
	}
	knownStruct := func(name string) bool {
		prefix := "fld\t" + short + "." + name + "."
		for k := range baseline {
			if strings.HasPrefix(k, prefix) {
				return true
			}
		}
		return false
	}
	structDecl := func(named *types.Named) *ast.StructType {
		for _, sf := range pk.Syntax {
			for _, d := range sf.Decls {
				if gd, isG := d.(*ast.GenDecl); isG {
					for _, sp := range gd.Specs {
						if ts, isT := sp.(*ast.TypeSpec); isT && info.Defs[ts.Name] == types.Object(named.Obj()) {
							st, _ := ts.Type.(*ast.StructType)
							return st
						}
					}
				}
			}
		}
		return nil
	}
	for _, file := range pk.Syntax {
		tf := p.Fset.File(file.Pos())
		if tf == nil || isGenerated(tf.Name()) || strings.HasSuffix(tf.Name(), "_test.go") {
			continue
		}
		for _, d := range file.Decls {
			fd, ok := d.(*ast.FuncDecl)
			if !ok || fd.Body == nil {
				continue
			}
			// candidate variables: locals of an unknown named struct type of this package
			cands := map[*types.Var]*types.Named{}
			viaPtr := map[*types.Var]bool{}
			var order []*types.Var
			ast.Inspect(fd.Body, func(n ast.Node) bool {
				id, isId := n.(*ast.Ident)
				if !isId {
					return true
				}
				v, isV := info.Defs[id].(*types.Var)
				if !isV || v.IsField() {
					return true
				}
				vt := v.Type()
				if ptr, isP := vt.(*types.Pointer); isP {
					vt = ptr.Elem() // `x := &T{...}` used only through its fields: the same, the literal is behind a pointer
					viaPtr[v] = true
				}
				named, isN := vt.(*types.Named)
				if !isN || named.Obj().Pkg() != pk.Types || named.TypeArgs().Len() > 0 || knownStruct(named.Obj().Name()) {
					return true
				}
				if st, isS := named.Underlying().(*types.Struct); isS && st.NumFields() > 0 {
					if _, dup := cands[v]; !dup {
						cands[v] = named
						order = append(order, v)
					}
				}
				return true
			})
		nextVar:
			for _, v := range order {
				named := cands[v]
				st := named.Underlying().(*types.Struct)
				for i := 0; i < st.NumFields(); i++ {
					if st.Field(i).Embedded() {
						continue nextVar
					}
				}
				stDecl := structDecl(named)
				if stDecl == nil || fileOf(stDecl.Pos()) != file {
					continue
				}
				var fieldNames, fieldTypes []string
				for _, f := range stDecl.Fields.List {
					tt, okT := text(f.Type)
					if !okT || len(f.Names) == 0 {
						continue nextVar
					}
					for _, nm := range f.Names {
						fieldNames = append(fieldNames, nm.Name)
						fieldTypes = append(fieldTypes, tt)
					}
				}
				if len(fieldNames) != st.NumFields() {
					continue
				}
				name := v.Name()
				ptrVar := viaPtr[v]
				// the literal behind an assigned value: T{...}, or &T{...} for a pointer variable
				litOf := func(e ast.Expr) *ast.CompositeLit {
					e = ast.Unparen(e)
					if ptrVar {
						u, isU := e.(*ast.UnaryExpr)
						if !isU || u.Op != token.AND {
							return nil
						}
						e = ast.Unparen(u.X)
					}
					lit, _ := e.(*ast.CompositeLit)
					return lit
				}
				litVals := func(lit *ast.CompositeLit) ([]string, bool) {
					if !types.Identical(info.TypeOf(lit), named) {
						return nil, false
					}
					vals := make([]string, len(fieldNames))
					for i := range vals {
						vals[i] = "*new(" + fieldTypes[i] + ")"
					}
					for i, e := range lit.Elts {
						if kv, isKV := e.(*ast.KeyValueExpr); isKV {
							key, isId := kv.Key.(*ast.Ident)
							pos := -1
							for j, nm := range fieldNames {
								if isId && nm == key.Name {
									pos = j
								}
							}
							vt, okT := text(kv.Value)
							if pos < 0 || !okT {
								return nil, false
							}
							vals[pos] = vt
						} else {
							vt, okT := text(e)
							if !okT || len(lit.Elts) != len(fieldNames) {
								return nil, false
							}
							vals[i] = vt
						}
					}
					return vals, true
				}
				// a literal value must not mention the variable itself (the parallel assignment would still be right, but
				// keep the transformation obviously safe)
				mentions := func(e ast.Node) bool {
					found := false
					ast.Inspect(e, func(n ast.Node) bool {
						if id, isId := n.(*ast.Ident); isId && info.Uses[id] == types.Object(v) {
							found = true
						}
						return !found
					})
					return found
				}
				var names []string
				for _, fn := range fieldNames {
					names = append(names, name+"_"+fn)
				}
				// no name clash with anything visible in the function
				clash := false
				ast.Inspect(fd, func(n ast.Node) bool {
					if id, isId := n.(*ast.Ident); isId {
						for _, nn := range names {
							if id.Name == nn {
								clash = true
							}
						}
					}
					return !clash
				})
				if clash {
					continue
				}
				var edits []inlineEdit
				okUses := true
				handled := map[*ast.Ident]bool{}
				// declarations and whole assignments: statements of a block
				ast.Inspect(fd.Body, func(n ast.Node) bool {
					var list []ast.Stmt
					switch b := n.(type) {
					case *ast.BlockStmt:
						list = b.List
					case *ast.CaseClause:
						list = b.Body
					case *ast.CommClause:
						list = b.Body
					}
					for _, s := range list {
						switch t := s.(type) {
						case *ast.DeclStmt:
							gd, isG := t.Decl.(*ast.GenDecl)
							if !isG || gd.Tok != token.VAR || len(gd.Specs) != 1 {
								continue
							}
							vs, isVS := gd.Specs[0].(*ast.ValueSpec)
							if !isVS || len(vs.Names) != 1 || info.Defs[vs.Names[0]] != types.Object(v) {
								continue
							}
							var sb strings.Builder
							if len(vs.Values) == 0 {
								for i := range names {
									sb.WriteString("var " + names[i] + " " + fieldTypes[i] + "\n")
								}
							} else if lit := func() *ast.CompositeLit {
								if len(vs.Values) == 1 {
									return litOf(vs.Values[0])
								}
								return nil
							}(); lit != nil && !mentions(lit) {
								vals, okV := litVals(lit)
								if !okV {
									okUses = false
									continue
								}
								for i := range names {
									sb.WriteString("var " + names[i] + " " + fieldTypes[i] + " = " + vals[i] + "\n")
								}
							} else {
								okUses = false
								continue
							}
							sb.WriteString("_ = []any{" + strings.Join(names, ", ") + "}")
							handled[vs.Names[0]] = true
							edits = append(edits, inlineEdit{tf.Offset(t.Pos()), tf.Offset(t.End()), sb.String()})
						case *ast.AssignStmt:
							if len(t.Lhs) != 1 || len(t.Rhs) != 1 {
								continue
							}
							id, isId := t.Lhs[0].(*ast.Ident)
							if !isId || (info.Defs[id] != types.Object(v) && info.Uses[id] != types.Object(v)) {
								continue
							}
							lit := litOf(t.Rhs[0])
							if lit == nil || mentions(lit) {
								okUses = false
								continue
							}
							vals, okV := litVals(lit)
							if !okV {
								okUses = false
								continue
							}
							handled[id] = true
							if t.Tok == token.DEFINE {
								var sb strings.Builder
								for i := range names {
									sb.WriteString("var " + names[i] + " " + fieldTypes[i] + " = " + vals[i] + "\n")
								}
								sb.WriteString("_ = []any{" + strings.Join(names, ", ") + "}")
								edits = append(edits, inlineEdit{tf.Offset(t.Pos()), tf.Offset(t.End()), sb.String()})
							} else {
								edits = append(edits, inlineEdit{tf.Offset(t.Pos()), tf.Offset(t.End()), strings.Join(names, ", ") + " = " + strings.Join(vals, ", ")})
							}
						}
					}
					return true
				})
				if !okUses {
					continue
				}
				// every other mention: the operand of a field selection that is not a method value and whose address is not taken
				var stack []ast.Node
				ast.Inspect(fd.Body, func(n ast.Node) bool {
					if n == nil {
						stack = stack[:len(stack)-1]
						return true
					}
					if id, isId := n.(*ast.Ident); isId && !handled[id] && (info.Uses[id] == types.Object(v) || info.Defs[id] == types.Object(v)) {
						sel, isSel := stack[len(stack)-1].(*ast.SelectorExpr)
						if !isSel || sel.X != ast.Expr(id) {
							okUses = false
						} else {
							if s := info.Selections[sel]; s == nil || s.Kind() != types.FieldVal {
								okUses = false
							}
							if len(stack) >= 2 {
								if u, isU := stack[len(stack)-2].(*ast.UnaryExpr); isU && u.Op == token.AND {
									okUses = false
								}
							}
						}
						if okUses {
							edits = append(edits, inlineEdit{tf.Offset(sel.Pos()), tf.Offset(sel.End()), name + "_" + sel.Sel.Name})
						}
					}
					stack = append(stack, n)
					return true
				})
				if !okUses || len(edits) == 0 {
					continue
				}
				// the whole-value edits contain selections of their own only when a literal mentions v, which was refused
				out[file] = append(out[file], edits...)
				key := funcKey(pk, fd)
				done = append(done, key+" <- local "+name+" of "+named.Obj().Name()+" (one variable per field)")
				break // one variable of a function per round
			}
		}
	}
	return out, done
}

// devirtualize undoes "replace the type switch by an interface method": a statement `return v.m(a)`, `v.m(a)` or
// `x = v.m(a)` whose receiver v is a plain identifier of an interface type, where every implementation of m in the
// program is a function of this package that the reference tree does not have, is wrapped into a type switch over the
// implementing types that shadows v (`switch v := v.(type) { case *A: return v.m(a) ... default: return v.m(a) }`).
// In the arms the call is static and the next round inlines it; the default arm keeps the dynamic call (a nil value or
// a type the program does not have behave as before).
func (c *inlCtx) devirtualize() {
	info := c.pk.TypesInfo
	// the default arm of a type switch that binds a name (written by an earlier round, or by hand) keeps its dynamic call
	boundDefault := map[*ast.CaseClause]string{}
	ast.Inspect(c.caller.Body, func(n ast.Node) bool {
		if ts, ok := n.(*ast.TypeSwitchStmt); ok {
			if as, isAs := ts.Assign.(*ast.AssignStmt); isAs && len(as.Lhs) == 1 {
				if id, isId := as.Lhs[0].(*ast.Ident); isId {
					for _, cl := range ts.Body.List {
						if cc, isCC := cl.(*ast.CaseClause); isCC && cc.List == nil {
							boundDefault[cc] = id.Name
						}
					}
				}
			}
		}
		return true
	})
	ast.Inspect(c.caller.Body, func(n ast.Node) bool {
		var list []ast.Stmt
		skipName := ""
		switch b := n.(type) {
		case *ast.BlockStmt:
			list = b.List
		case *ast.CaseClause:
			list = b.Body
			skipName = boundDefault[b]
		case *ast.CommClause:
			list = b.Body
		}
		for _, st := range list {
			var call *ast.CallExpr
			switch t := st.(type) {
			case *ast.ExprStmt:
				call, _ = ast.Unparen(t.X).(*ast.CallExpr)
			case *ast.ReturnStmt:
				if len(t.Results) == 1 {
					call, _ = ast.Unparen(t.Results[0]).(*ast.CallExpr)
				}
			case *ast.AssignStmt:
				if len(t.Rhs) == 1 && t.Tok == token.ASSIGN {
					call, _ = ast.Unparen(t.Rhs[0]).(*ast.CallExpr)
				}
			}
			if call == nil {
				continue
			}
			sel, isSel := ast.Unparen(call.Fun).(*ast.SelectorExpr)
			if !isSel {
				continue
			}
			recv, isId := ast.Unparen(sel.X).(*ast.Ident)
			if !isId || recv.Name == skipName {
				continue
			}
			rv, isV := info.Uses[recv].(*types.Var)
			if !isV || rv.IsField() {
				continue
			}
			if _, isIface := rv.Type().Underlying().(*types.Interface); !isIface {
				continue
			}
			m, isM := info.Uses[sel.Sel].(*types.Func)
			if !isM {
				continue
			}
			impls := c.p.Implementations(m)
			if len(impls) == 0 {
				continue
			}
			ok := true
			var typeNames []string
			for _, im := range impls {
				f := c.p.byObj[im]
				if f == nil || im.Pkg() != c.pk.Types || c.baseline[f.Key] || f.Decl.Body == nil {
					ok = false
					break
				}
				r := im.Type().(*types.Signature).Recv()
				if r == nil {
					ok = false
					break
				}
				switch rt := r.Type().(type) {
				case *types.Pointer:
					if nm, isN := rt.Elem().(*types.Named); isN && nm.TypeArgs().Len() == 0 {
						typeNames = append(typeNames, "*"+nm.Obj().Name())
					} else {
						ok = false
					}
				case *types.Named:
					if rt.TypeArgs().Len() != 0 {
						ok = false
					}
					typeNames = append(typeNames, rt.Obj().Name(), "*"+rt.Obj().Name())
				default:
					ok = false
				}
			}
			if !ok {
				continue
			}
			// the receiver must not be mentioned elsewhere in the statement in a way the shadowing changes: it is the
			// same value in every arm, only its static type differs - any mention stays valid except as an assignment target
			if as, isAs := st.(*ast.AssignStmt); isAs {
				if id, isLhsId := ast.Unparen(as.Lhs[0]).(*ast.Ident); isLhsId && info.Uses[id] == types.Object(rv) {
					continue
				}
			}
			sort.Strings(typeNames)
			text := c.text(st)
			var sb strings.Builder
			sb.WriteString("switch " + recv.Name + " := " + recv.Name + ".(type) {\n")
			for _, tn := range typeNames {
				sb.WriteString("case " + tn + ":\n" + text + "\n")
			}
			sb.WriteString("default:\n" + text + "\n}")
			c.edits = append(c.edits, inlineEdit{start: c.tf.Offset(st.Pos()), end: c.tf.Offset(st.End()), text: sb.String()})
			c.inlined = append(c.inlined, fmt.Sprintf("%s <- %s.%s (type switch over %d implementations)", c.callerKey, rv.Name(), m.Name(), len(impls)))
		}
		return true
	})
}

var mergedInfoCache = map[[2]*packages.Package]*types.Info{}

// mergedInfo is a types.Info that answers for the syntax of both packages (the nodes are distinct, so the maps can
// simply be united): used while a callee of another package is examined together with its call site.
func mergedInfo(a, b *packages.Package) *types.Info {
	key := [2]*packages.Package{a, b}
	if m := mergedInfoCache[key]; m != nil {
		return m
	}
	m := &types.Info{
		Types:      map[ast.Expr]types.TypeAndValue{},
		Instances:  map[*ast.Ident]types.Instance{},
		Defs:       map[*ast.Ident]types.Object{},
		Uses:       map[*ast.Ident]types.Object{},
		Implicits:  map[ast.Node]types.Object{},
		Selections: map[*ast.SelectorExpr]*types.Selection{},
		Scopes:     map[ast.Node]*types.Scope{},
	}
	for _, pk := range []*packages.Package{a, b} {
		ti := pk.TypesInfo
		for k, v := range ti.Types {
			m.Types[k] = v
		}
		for k, v := range ti.Instances {
			m.Instances[k] = v
		}
		for k, v := range ti.Defs {
			m.Defs[k] = v
		}
		for k, v := range ti.Uses {
			m.Uses[k] = v
		}
		for k, v := range ti.Implicits {
			m.Implicits[k] = v
		}
		for k, v := range ti.Selections {
			m.Selections[k] = v
		}
		for k, v := range ti.Scopes {
			m.Scopes[k] = v
		}
	}
	mergedInfoCache[key] = m
	return m
}

// namedFrom finds a named type of package pkg inside t (its name), "" when there is none.
func namedFrom(t types.Type, pkg *types.Package) string {
	seen := map[types.Type]bool{}
	var walk func(t types.Type) string
	walk = func(t types.Type) string {
		if t == nil || seen[t] {
			return ""
		}
		seen[t] = true
		switch x := t.(type) {
		case *types.Named:
			if x.Obj().Pkg() == pkg && x.TypeArgs().Len() == 0 {
				return x.Obj().Name()
			}
			for i := 0; i < x.TypeArgs().Len(); i++ {
				if r := walk(x.TypeArgs().At(i)); r != "" {
					return r
				}
			}
		case *types.Alias:
			if x.Obj().Pkg() == pkg {
				return x.Obj().Name()
			}
			return walk(types.Unalias(x))
		case *types.Pointer:
			return walk(x.Elem())
		case *types.Slice:
			return walk(x.Elem())
		case *types.Array:
			return walk(x.Elem())
		case *types.Chan:
			return walk(x.Elem())
		case *types.Map:
			if r := walk(x.Key()); r != "" {
				return r
			}
			return walk(x.Elem())
		case *types.Signature:
			for i := 0; i < x.Params().Len(); i++ {
				if r := walk(x.Params().At(i).Type()); r != "" {
					return r
				}
			}
			for i := 0; i < x.Results().Len(); i++ {
				if r := walk(x.Results().At(i).Type()); r != "" {
					return r
				}
			}
		}
		return ""
	}
	return walk(t)
}

// forwardPointers undoes "hand out a pointer to the field instead of the field": a local pointer p with exactly one
// definition `p = &E` (E a variable or a chain of field selections whose root variables are never reassigned), which is
// otherwise only dereferenced (`*p`, `p.f`), is replaced at every use by E itself. `*p = v` becomes `E = v`. One
// variable per function and round; chains (p = &q.f with q = &x) disappear over successive rounds.
func forwardPointers(p *Prog, pk *packages.Package, touched map[string]bool) (map[*ast.File][]inlineEdit, []string) {
	out := map[*ast.File][]inlineEdit{}
	var done []string
	info := pk.TypesInfo
	for _, file := range pk.Syntax {
		tf := p.Fset.File(file.Pos())
		if tf == nil || isGenerated(tf.Name()) || strings.HasSuffix(tf.Name(), "_test.go") {
			continue
		}
		src, err := p.ReadAbs(tf.Name())
		if err != nil {
			continue
		}
		text := func(n ast.Node) string { return string(src[tf.Offset(n.Pos()):tf.Offset(n.End())]) }
		for _, d := range file.Decls {
			fd, ok := d.(*ast.FuncDecl)
			if !ok || fd.Body == nil || !touched[funcKey(pk, fd)] {
				continue
			}
			chosen := map[*types.Var]bool{}
			// definitions and plain assignments per variable
			type def struct {
				stmt ast.Stmt
				rhs  ast.Expr
			}
			defs := map[*types.Var][]def{}
			assigned := map[*types.Var]int{} // assignments other than the declaration (and range clauses)
			var order []*types.Var
			note := func(lhs ast.Expr, rhs ast.Expr, st ast.Stmt, isDecl bool) {
				id, isId := ast.Unparen(lhs).(*ast.Ident)
				if !isId {
					return
				}
				var obj types.Object = info.Defs[id]
				if obj == nil {
					obj = info.Uses[id]
				}
				v, isV := obj.(*types.Var)
				if !isV || v.IsField() {
					return
				}
				if rhs != nil {
					if _, seen := defs[v]; !seen {
						order = append(order, v)
					}
					defs[v] = append(defs[v], def{st, rhs})
				}
				if !isDecl {
					assigned[v]++
				}
			}
			ast.Inspect(fd.Body, func(n ast.Node) bool {
				switch t := n.(type) {
				case *ast.AssignStmt:
					for i, l := range t.Lhs {
						var r ast.Expr
						if len(t.Lhs) == len(t.Rhs) {
							r = t.Rhs[i]
						}
						note(l, r, t, t.Tok == token.DEFINE && identDef(info, l))
						if r == nil {
							if v := varOf(info, l); v != nil {
								assigned[v] += 2
							}
						}
					}
				case *ast.DeclStmt:
					if gd, isG := t.Decl.(*ast.GenDecl); isG && gd.Tok == token.VAR {
						for _, sp := range gd.Specs {
							if vs, isVS := sp.(*ast.ValueSpec); isVS {
								for i, nm := range vs.Names {
									var r ast.Expr
									if len(vs.Values) == len(vs.Names) {
										r = vs.Values[i]
									}
									note(nm, r, t, true)
								}
							}
						}
					}
				case *ast.IncDecStmt:
					if v := varOf(info, t.X); v != nil {
						assigned[v] += 2
					}
				}
				return true
			})
			// a local function variable bound once to a method value (`decode := dec.Decode`) and only ever called:
			// the receiver is kept in a local of its own and the calls become method calls again
			for _, v := range order {
				if _, isFn := v.Type().Underlying().(*types.Signature); !isFn || len(defs[v]) != 1 || assigned[v] > 0 {
					continue
				}
				df := defs[v][0]
				ds, isDecl := df.stmt.(*ast.DeclStmt)
				sel, isSel := ast.Unparen(df.rhs).(*ast.SelectorExpr)
				if !isDecl || !isSel {
					continue
				}
				if sl := info.Selections[sel]; sl == nil || sl.Kind() != types.MethodVal {
					continue
				}
				if gd := ds.Decl.(*ast.GenDecl); len(gd.Specs) != 1 || len(gd.Specs[0].(*ast.ValueSpec).Names) != 1 {
					continue
				}
				recvName := v.Name() + "_recv"
				clash := false
				ast.Inspect(fd, func(n ast.Node) bool {
					if id, isId := n.(*ast.Ident); isId && id.Name == recvName {
						clash = true
					}
					return !clash
				})
				if clash {
					continue
				}
				var edits []inlineEdit
				var stack []ast.Node
				bad := false
				ast.Inspect(fd.Body, func(n ast.Node) bool {
					if n == nil {
						stack = stack[:len(stack)-1]
						return true
					}
					if id, isId := n.(*ast.Ident); isId && info.Uses[id] == types.Object(v) {
						parent := stack[len(stack)-1]
						if call, isCall := parent.(*ast.CallExpr); isCall && call.Fun == ast.Expr(id) {
							edits = append(edits, inlineEdit{tf.Offset(id.Pos()), tf.Offset(id.End()), recvName + "." + sel.Sel.Name})
						} else if as, isAs := parent.(*ast.AssignStmt); isAs && len(as.Lhs) == 1 && len(as.Rhs) == 1 && as.Rhs[0] == ast.Expr(id) {
							if l, isL := as.Lhs[0].(*ast.Ident); !isL || l.Name != "_" {
								bad = true
							} else {
								edits = append(edits, inlineEdit{tf.Offset(as.Pos()), tf.Offset(as.End()), "_ = " + recvName})
							}
						} else {
							bad = true
						}
					}
					stack = append(stack, n)
					return true
				})
				if bad || len(edits) == 0 {
					continue
				}
				edits = append(edits, inlineEdit{tf.Offset(ds.Pos()), tf.Offset(ds.End()), recvName + " := " + text(sel.X) + "\n_ = " + recvName})
				out[file] = append(out[file], edits...)
				done = append(done, funcKey(pk, fd)+" <- method value "+v.Name()+" = "+text(sel)+" (receiver kept, calls direct)")
				chosen[v] = true
			}
		nextVar:
			for _, v := range order {
				if _, isPtr := v.Type().Underlying().(*types.Pointer); !isPtr || len(defs[v]) != 1 {
					continue
				}
				df := defs[v][0]
				if os.Getenv("SOPVERIF_DEBUG") != "" {
					fmt.Fprintf(os.Stderr, "forwardPointers cand %s %s assigned=%d\n", funcKey(pk, fd), v.Name(), assigned[v])
				}
				u, isU := ast.Unparen(df.rhs).(*ast.UnaryExpr)
				if !isU || u.Op != token.AND {
					continue
				}
				// E: identifiers and field selections only; every root variable is never reassigned
				target := ast.Unparen(u.X)
				okE := true
				ast.Inspect(target, func(n ast.Node) bool {
					if n == nil {
						return true
					}
					switch t := n.(type) {
					case *ast.Ident:
						if rv := varOf(info, t); rv != nil && !rv.IsField() {
							if assigned[rv] > 0 && len(defs[rv]) > 0 && !(assigned[rv] == 1 && len(defs[rv]) == 1) {
								okE = false
							}
							if assigned[rv] > 1 {
								okE = false
							}
						}
					case *ast.SelectorExpr, *ast.ParenExpr:
					default:
						okE = false
					}
					return okE
				})
				ast.Inspect(target, func(n ast.Node) bool {
					if id, isId := n.(*ast.Ident); isId {
						if rv := varOf(info, id); rv != nil && chosen[rv] {
							okE = false // depends on a pointer that is forwarded in this round: next round
						}
					}
					return true
				})
				if !okE {
					continue
				}
				// a definition by assignment (not declaration) counts once in `assigned`: nothing else may assign p
				if assigned[v] > 1 {
					continue
				}
				etext := "(" + text(target) + ")"
				var edits []inlineEdit
				var stack []ast.Node
				bad := false
				ast.Inspect(fd.Body, func(n ast.Node) bool {
					if n == nil {
						stack = stack[:len(stack)-1]
						return true
					}
					if id, isId := n.(*ast.Ident); isId && info.Uses[id] == types.Object(v) {
						parent := stack[len(stack)-1]
						switch pt := parent.(type) {
						case *ast.StarExpr:
							edits = append(edits, inlineEdit{tf.Offset(pt.Pos()), tf.Offset(pt.End()), etext})
						case *ast.SelectorExpr:
							if pt.X == ast.Expr(id) {
								edits = append(edits, inlineEdit{tf.Offset(id.Pos()), tf.Offset(id.End()), etext})
							} else {
								bad = true
							}
						case *ast.AssignStmt:
							// the defining assignment itself (p on the left)
							onLeft := false
							for _, l := range pt.Lhs {
								if l == ast.Expr(id) {
									onLeft = true
								}
							}
							if !onLeft || ast.Stmt(pt) != df.stmt {
								bad = true
							}
						default:
							bad = true
						}
					}
					stack = append(stack, n)
					return true
				})
				if os.Getenv("SOPVERIF_DEBUG") != "" {
					fmt.Fprintf(os.Stderr, "forwardPointers %s %s bad=%v edits=%d\n", funcKey(pk, fd), v.Name(), bad, len(edits))
				}
				if bad || len(edits) == 0 {
					continue nextVar
				}
				if ds, isDecl := df.stmt.(*ast.DeclStmt); isDecl && len(ds.Decl.(*ast.GenDecl).Specs) == 1 && len(ds.Decl.(*ast.GenDecl).Specs[0].(*ast.ValueSpec).Names) == 1 {
					// `var p = &E` with nothing left that uses p: the declaration goes (taking the address of E would
					// otherwise stay in the code for no reason)
					edits = append(edits, inlineEdit{tf.Offset(df.stmt.Pos()), tf.Offset(df.stmt.End()), ""})
				} else {
					// keep the (now unused) pointer variable alive
					edits = append(edits, inlineEdit{tf.Offset(df.stmt.End()), tf.Offset(df.stmt.End()), "\n_ = " + v.Name()})
				}
				out[file] = append(out[file], edits...)
				done = append(done, funcKey(pk, fd)+" <- pointer "+v.Name()+" = &"+text(target)+" (forwarded)")
				chosen[v] = true
			}
		}
	}
	return out, done
}

func varOf(info *types.Info, e ast.Expr) *types.Var {
	id, ok := ast.Unparen(e).(*ast.Ident)
	if !ok {
		return nil
	}
	var obj types.Object = info.Defs[id]
	if obj == nil {
		obj = info.Uses[id]
	}
	v, _ := obj.(*types.Var)
	return v
}

func identDef(info *types.Info, e ast.Expr) bool {
	id, ok := ast.Unparen(e).(*ast.Ident)
	return ok && info.Defs[id] != nil
}
