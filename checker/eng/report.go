package eng

import (
	"encoding/json"
	"fmt"
	"go/token"
	"os"
	"path/filepath"
	"sort"
	"strings"
	"time"
)

type Status string

const (
	Discharged Status = "discharged"
	Violated   Status = "violated"
	Undecided  Status = "undecided"
)

// Obligation is one decided (or undecided) instance of a rule.
type Obligation struct {
	Rule      string `json:"rule"`
	Construct string `json:"construct"`
	Key       string `json:"key"` // rule|construct : stable, position-free
	Pos       string `json:"pos"`
	Status    Status `json:"status"`
	Detail    string `json:"detail"`
	Known     bool   `json:"known_finding,omitempty"`
}

type RuleInfo struct {
	ID        string `json:"id"`
	Kind      string `json:"kind"`
	Text      string `json:"text"`
	Min       int    `json:"min_instances"`
	Instances int    `json:"instances"`
	Violated  int    `json:"violated"`
	Undecided int    `json:"undecided"`
	Status    string `json:"status"`
}

// Ctx collects the obligations of one property check.
type Ctx struct {
	P     *Prog
	Prop  string
	Tier  string
	Rules []*RuleCtx
	Funcs map[string]bool // functions analysed (keys)
	Notes []string
	Extra map[string]any
}

type RuleCtx struct {
	C    *Ctx
	Info RuleInfo
	Obs  []*Obligation
	seen map[string]int
}

func NewCtx(p *Prog, prop, tier string) *Ctx {
	return &Ctx{P: p, Prop: prop, Tier: tier, Funcs: map[string]bool{}, Extra: map[string]any{}}
}

// Rule opens a rule; min is the number of instances confirmed by hand on the pinned tree.
func (c *Ctx) Rule(id, kind, text string, min int) *RuleCtx {
	r := &RuleCtx{C: c, Info: RuleInfo{ID: id, Kind: kind, Text: text, Min: min}, seen: map[string]int{}}
	c.Rules = append(c.Rules, r)
	return r
}

func (c *Ctx) Touch(f *Func) {
	if f != nil {
		c.Funcs[f.Key] = true
	}
}

func (r *RuleCtx) add(st Status, construct string, pos token.Pos, detail string) {
	key := r.Info.ID + "|" + construct
	if n := r.seen[key]; n > 0 {
		// same construct evaluated twice (e.g. two accesses in one function): disambiguate with an ordinal
		key = fmt.Sprintf("%s#%d", key, n+1)
	}
	r.seen[r.Info.ID+"|"+construct]++
	r.Obs = append(r.Obs, &Obligation{Rule: r.Info.ID, Construct: construct, Key: key, Pos: r.C.P.Rel(pos), Status: st, Detail: detail})
}

func (r *RuleCtx) Ok(construct string, pos token.Pos, detail string) {
	r.add(Discharged, construct, pos, detail)
}
func (r *RuleCtx) Bad(construct string, pos token.Pos, detail string) {
	r.add(Violated, construct, pos, detail)
}
func (r *RuleCtx) Unknown(construct string, pos token.Pos, detail string) {
	r.add(Undecided, construct, pos, detail)
}

// Check records a discharged obligation when cond holds, a violation otherwise.
func (r *RuleCtx) Check(cond bool, construct string, pos token.Pos, okDetail, badDetail string) bool {
	if cond {
		r.Ok(construct, pos, okDetail)
	} else {
		r.Bad(construct, pos, badDetail)
	}
	return cond
}

// Need resolves an anchor; a nil anchor makes the rule undecided.
func (r *RuleCtx) NeedFunc(key string) *Func {
	f := r.C.P.Func(key)
	if f == nil {
		r.Unknown("anchor:"+key, token.NoPos, "anchor function not found: "+key)
		return nil
	}
	r.C.Touch(f)
	return f
}

func (r *RuleCtx) NeedObj(what string, obj any) bool {
	isNil := obj == nil
	if !isNil {
		// typed nils
		switch v := obj.(type) {
		case interface{ Pos() token.Pos }:
			defer func() {
				if recover() != nil {
					isNil = true
				}
			}()
			_ = v.Pos()
		}
	}
	if isNil {
		r.Unknown("anchor:"+what, token.NoPos, "anchor not found: "+what)
		return false
	}
	return true
}

// KnownFinding is an entry of /verif/known_findings.json.
type KnownFinding struct {
	Property string `json:"property"`
	Key      string `json:"key"`
	Status   string `json:"status"` // known | fixed
	Commit   string `json:"commit,omitempty"`
	Summary  string `json:"summary"`
	Repro    string `json:"repro,omitempty"`
}

func LoadKnown(path string) ([]KnownFinding, error) {
	b, err := os.ReadFile(path)
	if err != nil {
		if os.IsNotExist(err) {
			return nil, nil
		}
		return nil, err
	}
	var k []KnownFinding
	if err := json.Unmarshal(b, &k); err != nil {
		return nil, fmt.Errorf("%s: %w", path, err)
	}
	return k, nil
}

// Result of Finish.
type Result struct {
	Violations int
	Lines      []string
}

// Finish applies min-instance guards and known findings, writes the evidence file and the
// violation replay files, and prints the interface lines.
func (c *Ctx) Finish(verifDir string, known []KnownFinding, seed int64, start time.Time, extraAssumptions []string, explanation string) Result {
	res := Result{}
	knownByKey := map[string]KnownFinding{}
	for _, k := range known {
		if k.Property == c.Prop && k.Status == "known" {
			knownByKey[k.Key] = k
		}
	}
	var all []*Obligation
	for _, r := range c.Rules {
		r.Info.Instances = len(r.Obs)
		if len(r.Obs) < r.Info.Min {
			r.Unknown("min-instances", token.NoPos, fmt.Sprintf("rule matched %d instances, fewer than the %d confirmed on the pinned tree: the rule would pass vacuously", len(r.Obs), r.Info.Min))
		}
		for _, o := range r.Obs {
			switch o.Status {
			case Violated:
				if _, ok := knownByKey[o.Key]; ok {
					o.Known = true
				} else {
					r.Info.Violated++
				}
			case Undecided:
				r.Info.Undecided++
			}
			all = append(all, o)
		}
		switch {
		case r.Info.Violated > 0:
			r.Info.Status = "violated"
		case r.Info.Undecided > 0:
			r.Info.Status = "undecided"
		default:
			r.Info.Status = "ok"
		}
	}
	evDir := filepath.Join(verifDir, "evidence")
	vioDir := filepath.Join(evDir, "violations")
	_ = os.MkdirAll(vioDir, 0o755)
	// remove stale replay files of this property
	if old, _ := filepath.Glob(filepath.Join(vioDir, c.Prop+"-*.json")); len(old) > 0 {
		for _, f := range old {
			_ = os.Remove(f)
		}
	}
	nv := 0
	discharged := 0
	var knownLines []map[string]string
	for _, o := range all {
		switch {
		case o.Status == Discharged:
			discharged++
		case o.Known:
			k := knownByKey[o.Key]
			line := fmt.Sprintf("KNOWN-FINDING: property=%s %s at %s: %s", c.Prop, o.Key, o.Pos, k.Summary)
			res.Lines = append(res.Lines, line)
			knownLines = append(knownLines, map[string]string{"key": o.Key, "pos": o.Pos, "summary": k.Summary})
		default:
			nv++
			path := filepath.Join(vioDir, fmt.Sprintf("%s-%d.json", c.Prop, nv))
			rule := c.ruleInfo(o.Rule)
			b, _ := json.MarshalIndent(map[string]any{
				"property": c.Prop, "rule": o.Rule, "rule_kind": rule.Kind, "rule_text": rule.Text,
				"construct": o.Construct, "key": o.Key, "pos": o.Pos, "status": o.Status, "detail": o.Detail,
			}, "", " ")
			_ = os.WriteFile(path, b, 0o644)
			res.Lines = append(res.Lines, fmt.Sprintf("VIOLATION property=%s replay=%s", c.Prop, path))
			res.Lines = append(res.Lines, fmt.Sprintf("  %s [%s] %s at %s: %s", o.Status, o.Rule, o.Construct, o.Pos, o.Detail))
		}
	}
	res.Violations = nv

	// evidence
	var rules []RuleInfo
	for _, r := range c.Rules {
		rules = append(rules, r.Info)
	}
	distinct := map[string]bool{}
	for _, o := range all {
		distinct[o.Rule+"|"+o.Construct] = true
	}
	var samples []any
	perRule := map[string]int{}
	for _, o := range all {
		if perRule[o.Rule] < 2 {
			perRule[o.Rule]++
			samples = append(samples, o)
		}
	}
	for _, o := range all {
		if o.Status != Discharged && len(samples) < 200 {
			samples = append(samples, o)
		}
	}
	var fns []string
	for k := range c.Funcs {
		fns = append(fns, k)
	}
	sort.Strings(fns)
	cov := map[string]any{
		"explanation":         explanation,
		"obligations":         len(all),
		"discharged":          discharged,
		"evaluations":         len(all),
		"distinct_nontrivial": len(distinct),
		"rule":                "one obligation per (rule, construct): construct = function / field access / call site / table row resolved by object identity on the type-checked program; distinct = distinct (rule, construct) pairs; every obligation is non-trivial (it names a construct of /repo and the rule decided it)",
		"samples":             samples,
		"exhaustive":          true,
		"rules":               rules,
		"functions_analysed":  fns,
		"packages_product":    len(c.P.All),
		"packages_total":      c.P.NAll,
		"known_findings":      knownLines,
		"checker_cmd":         "bin/sopverif check --property " + c.Prop + " --tier " + c.Tier,
		"trusted_base":        []string{"go/types, go/cfg, go/packages (x/tools v0.29.0)", "the rule tables in /verif/checker/rules"},
	}
	for k, v := range c.Extra {
		cov[k] = v
	}
	assumptions := append([]string{
		"structural necessary conditions are decided, not the behaviour itself (level: other)",
		"lock identity is (struct type, mutex field): a lock taken on one instance is not distinguished from another instance",
		"third-party code (client-go, cron, gojq, go-openapi, yaml, prometheus, x/time/rate, the OS, bash) behaves as documented",
	}, extraAssumptions...)
	ev := map[string]any{
		"property_id": c.Prop,
		"tier":        c.Tier,
		"seed":        seed,
		"level":       "other",
		"coverage":    cov,
		"assumptions": assumptions,
		"wall_s":      time.Since(start).Seconds(),
		"violations":  nv,
		"notes":       c.Notes,
	}
	b, _ := json.MarshalIndent(ev, "", " ")
	_ = os.WriteFile(filepath.Join(evDir, c.Prop+".json"), b, 0o644)
	return res
}

func (c *Ctx) ruleInfo(id string) RuleInfo {
	for _, r := range c.Rules {
		if r.Info.ID == id {
			return r.Info
		}
	}
	return RuleInfo{}
}

// Summary renders a one-line-per-rule report.
func (c *Ctx) Summary() string {
	var sb strings.Builder
	for _, r := range c.Rules {
		fmt.Fprintf(&sb, "  %-9s %-10s instances=%-3d min=%-3d violated=%d undecided=%d  [%s] %s\n", r.Info.ID, r.Info.Status, r.Info.Instances, r.Info.Min, r.Info.Violated, r.Info.Undecided, r.Info.Kind, firstLine(r.Info.Text))
	}
	return sb.String()
}

func firstLine(s string) string {
	if i := strings.IndexByte(s, '\n'); i >= 0 {
		return s[:i]
	}
	if len(s) > 100 {
		return s[:100] + "..."
	}
	return s
}
