package eng

import (
	"go/ast"
	"go/token"
	"go/types"
)

// ElemLoop is the normal form of a loop that visits every element of one slice exactly once, in one direction.
// Recognised shapes (B is the slice expression):
//
//	for _, v := range B            ascending, element v
//	for i := range B               ascending, element B[i]
//	for i, v := range B            ascending, element v or B[i]
//	for _, v := range slices.Backward(B)   descending (also with index)
//	for i := c; i < len(B)+c; i++          ascending, element B[i-c]   (also `<= len(B)+c-1`)
//	for i := len(B)-1+c; i >= c; i--       descending, element B[i-c]  (also `> c-1`)
//	for r := B; len(r) > 0; r = r[1:]      ascending, element r[0] (r[k]: k positions ahead)
//	for r := B; len(r) > 0; r = r[:len(r)-1]   descending, element r[len(r)-1]
//
// A loop whose bounds skip an element, whose index variable is assigned in the body, or whose shape is not listed is
// not an ElemLoop (ok=false): callers treat that as "cannot show that every element is visited in order".
type ElemLoop struct {
	Stmt   ast.Stmt
	Base   ast.Expr // the slice expression B
	Desc   bool
	Body   *ast.BlockStmt
	info   *types.Info
	value  types.Object          // range value variable (nil if none)
	index  types.Object          // index variable (nil if none)
	off    int64                 // element = B[index - off]
	alias  map[types.Object]bool // body locals defined once as `x := <element>`
	window types.Object          // the shrinking sub-slice variable of the last two shapes (nil otherwise)
}

// IsElem reports whether e denotes the element of the current iteration: the range value variable, or B[i-off].
func (l *ElemLoop) IsElem(e ast.Expr) bool {
	e = ast.Unparen(e)
	if id, isIdent := e.(*ast.Ident); isIdent && l.alias != nil {
		if o := l.info.ObjectOf(id); o != nil && l.alias[o] {
			return true
		}
	}
	if l.value != nil {
		if o := SelObj(l.info, e); o != nil && o == l.value {
			if _, isIdent := e.(*ast.Ident); isIdent {
				return true
			}
		}
	}
	ix, ok := e.(*ast.IndexExpr)
	if ok && l.window != nil {
		k, isW := l.windowOffset(ix)
		return isW && k == 0
	}
	if !ok || l.index == nil || !sameExpr(l.info, ix.X, l.Base) {
		return false
	}
	v, k, ok := varPlusConst(l.info, ix.Index)
	return ok && v == l.index && k == -l.off
}

// windowOffset: ix indexes the window variable; the distance (in index order of B) from the current element.
func (l *ElemLoop) windowOffset(ix *ast.IndexExpr) (int64, bool) {
	id, ok := ast.Unparen(ix.X).(*ast.Ident)
	if !ok || l.info.ObjectOf(id) != l.window {
		return 0, false
	}
	if !l.Desc {
		k, isC := ConstInt(l.info, ix.Index)
		return k, isC && k >= 0
	}
	b, c, isL := lenPlusConst(l.info, ix.Index)
	if !isL || c > -1 {
		return 0, false
	}
	if bid, isId := ast.Unparen(b).(*ast.Ident); !isId || l.info.ObjectOf(bid) != l.window {
		return 0, false
	}
	return c + 1, true // r[len(r)-1] is the element, r[len(r)-2] the one before it
}

// Offset reports that e is B[i+k] for the loop's slice B and returns the distance of that element from the element of
// the current iteration in index order (0: the current element, +1: the element with the next higher index).
func (l *ElemLoop) Offset(e ast.Expr) (int64, bool) {
	ix, ok := ast.Unparen(e).(*ast.IndexExpr)
	if ok && l.window != nil {
		return l.windowOffset(ix)
	}
	if !ok || l.index == nil || !sameExpr(l.info, ix.X, l.Base) {
		return 0, false
	}
	v, k, ok := varPlusConst(l.info, ix.Index)
	if !ok || v != l.index {
		return 0, false
	}
	return k + l.off, true
}

// IsPos reports whether e evaluates to the position (index in B) of the element of the current iteration.
func (l *ElemLoop) IsPos(e ast.Expr) bool {
	if l.index == nil {
		return false
	}
	v, k, ok := varPlusConst(l.info, e)
	return ok && v == l.index && k == -l.off
}

// ElemVar returns the range value variable, if the loop has one.
func (l *ElemLoop) ElemVar() types.Object { return l.value }

// sameExpr: structural equality of two side-effect-free selector/ident expressions by resolved objects.
func sameExpr(info *types.Info, a, b ast.Expr) bool {
	a, b = ast.Unparen(a), ast.Unparen(b)
	switch x := a.(type) {
	case *ast.Ident:
		y, ok := b.(*ast.Ident)
		return ok && info.ObjectOf(x) != nil && info.ObjectOf(x) == info.ObjectOf(y)
	case *ast.SelectorExpr:
		y, ok := b.(*ast.SelectorExpr)
		return ok && info.ObjectOf(x.Sel) != nil && info.ObjectOf(x.Sel) == info.ObjectOf(y.Sel) && sameExpr(info, x.X, y.X)
	case *ast.StarExpr:
		y, ok := b.(*ast.StarExpr)
		return ok && sameExpr(info, x.X, y.X)
	}
	return false
}

// varPlusConst decomposes `v`, `v + c`, `v - c`, `c + v` into (v, c).
func varPlusConst(info *types.Info, e ast.Expr) (types.Object, int64, bool) {
	e = ast.Unparen(e)
	if id, ok := e.(*ast.Ident); ok {
		if o := info.ObjectOf(id); o != nil {
			if _, isVar := o.(*types.Var); isVar {
				return o, 0, true
			}
		}
		return nil, 0, false
	}
	b, ok := e.(*ast.BinaryExpr)
	if !ok || (b.Op != token.ADD && b.Op != token.SUB) {
		return nil, 0, false
	}
	if c, isC := ConstInt(info, b.Y); isC {
		if v, k, ok := varPlusConst(info, b.X); ok {
			if b.Op == token.ADD {
				return v, k + c, true
			}
			return v, k - c, true
		}
	}
	if c, isC := ConstInt(info, b.X); isC && b.Op == token.ADD {
		if v, k, ok := varPlusConst(info, b.Y); ok {
			return v, k + c, true
		}
	}
	return nil, 0, false
}

// lenPlusConst decomposes `len(B)`, `len(B) + c`, `len(B) - c`, `c + len(B)` into (B, c).
func lenPlusConst(info *types.Info, e ast.Expr) (ast.Expr, int64, bool) {
	e = ast.Unparen(e)
	if call, ok := e.(*ast.CallExpr); ok {
		if id, ok := ast.Unparen(call.Fun).(*ast.Ident); ok && id.Name == "len" && len(call.Args) == 1 {
			if _, isBuiltin := info.ObjectOf(id).(*types.Builtin); isBuiltin {
				return call.Args[0], 0, true
			}
		}
		return nil, 0, false
	}
	b, ok := e.(*ast.BinaryExpr)
	if !ok || (b.Op != token.ADD && b.Op != token.SUB) {
		return nil, 0, false
	}
	if c, isC := ConstInt(info, b.Y); isC {
		if x, k, ok := lenPlusConst(info, b.X); ok {
			if b.Op == token.ADD {
				return x, k + c, true
			}
			return x, k - c, true
		}
	}
	if c, isC := ConstInt(info, b.X); isC && b.Op == token.ADD {
		if x, k, ok := lenPlusConst(info, b.Y); ok {
			return x, k + c, true
		}
	}
	return nil, 0, false
}

// assignedIn reports whether obj is assigned (or inc/dec'd, or has its address taken) inside n.
func assignedIn(info *types.Info, n ast.Node, obj types.Object) bool {
	found := false
	ast.Inspect(n, func(m ast.Node) bool {
		switch t := m.(type) {
		case *ast.AssignStmt:
			for _, l := range t.Lhs {
				if id, ok := ast.Unparen(l).(*ast.Ident); ok && info.ObjectOf(id) == obj {
					found = true
				}
			}
		case *ast.IncDecStmt:
			if id, ok := ast.Unparen(t.X).(*ast.Ident); ok && info.ObjectOf(id) == obj {
				found = true
			}
		case *ast.UnaryExpr:
			if t.Op == token.AND {
				if id, ok := ast.Unparen(t.X).(*ast.Ident); ok && info.ObjectOf(id) == obj {
					found = true
				}
			}
		}
		return !found
	})
	return found
}

// ElemLoopOf normalises s. ok=false when s is not one of the recognised whole-slice loops.
func ElemLoopOf(info *types.Info, s ast.Stmt) (*ElemLoop, bool) {
	l, ok := elemLoopOf(info, s)
	if !ok {
		return nil, false
	}
	// body locals that name the element: `x := B[i]` / `x := v`, assigned exactly once
	count := map[types.Object]int{}
	var defs []*ast.AssignStmt
	ast.Inspect(l.Body, func(n ast.Node) bool {
		switch t := n.(type) {
		case *ast.AssignStmt:
			for _, lh := range t.Lhs {
				if id, ok := ast.Unparen(lh).(*ast.Ident); ok {
					if o := info.ObjectOf(id); o != nil {
						count[o]++
					}
				}
			}
			if t.Tok == token.DEFINE && len(t.Lhs) == 1 && len(t.Rhs) == 1 {
				defs = append(defs, t)
			}
		case *ast.IncDecStmt:
			if id, ok := ast.Unparen(t.X).(*ast.Ident); ok {
				if o := info.ObjectOf(id); o != nil {
					count[o] += 2
				}
			}
		case *ast.UnaryExpr:
			if t.Op == token.AND {
				if id, ok := ast.Unparen(t.X).(*ast.Ident); ok {
					if o := info.ObjectOf(id); o != nil {
						count[o] += 2
					}
				}
			}
		}
		return true
	})
	for _, d := range defs {
		id, ok := d.Lhs[0].(*ast.Ident)
		if !ok {
			continue
		}
		o := info.ObjectOf(id)
		rhs := ast.Unparen(d.Rhs[0])
		if u, isU := rhs.(*ast.UnaryExpr); isU && u.Op == token.AND {
			rhs = u.X // `x := &B[i]`: a pointer to the element names the element (x.f is B[i].f)
		}
		if o == nil || count[o] != 1 || !l.IsElem(rhs) {
			continue
		}
		if l.alias == nil {
			l.alias = map[types.Object]bool{}
		}
		l.alias[o] = true
	}
	return l, true
}

func elemLoopOf(info *types.Info, s ast.Stmt) (*ElemLoop, bool) {
	switch t := s.(type) {
	case *ast.RangeStmt:
		l := &ElemLoop{Stmt: s, Base: t.X, Body: t.Body, info: info}
		if c, ok := ast.Unparen(t.X).(*ast.CallExpr); ok {
			// slices.Backward(B): descending over B; any other call: ascending over its (unnamed) result
			if fn, isFn := CalleeOf(info, c).(*types.Func); isFn && fn.Name() == "Backward" && fn.Pkg() != nil && fn.Pkg().Path() == "slices" && len(c.Args) == 1 {
				l.Desc = true
				l.Base = c.Args[0]
			}
		}
		// only slices and arrays (maps have no order, channels/funcs/ints are not element loops)
		if tv, ok := info.Types[l.Base]; ok {
			switch u := tv.Type.Underlying().(type) {
			case *types.Slice, *types.Array:
			case *types.Pointer:
				if _, isArr := u.Elem().Underlying().(*types.Array); !isArr {
					return nil, false
				}
			default:
				return nil, false
			}
		} else {
			return nil, false
		}
		if id, ok := t.Key.(*ast.Ident); ok && id.Name != "_" {
			l.index = info.ObjectOf(id)
		}
		if id, ok := t.Value.(*ast.Ident); ok && id.Name != "_" {
			l.value = info.ObjectOf(id)
		}
		if l.index != nil && assignedIn(info, t.Body, l.index) {
			l.index = nil // a reassigned copy no longer names the position
		}
		if l.value != nil && assignedIn(info, t.Body, l.value) {
			l.value = nil
		}
		return l, true
	case *ast.ForStmt:
		init, ok := t.Init.(*ast.AssignStmt)
		if !ok || len(init.Lhs) != 1 || len(init.Rhs) != 1 || init.Tok != token.DEFINE {
			return nil, false
		}
		iv, ok := init.Lhs[0].(*ast.Ident)
		if !ok {
			return nil, false
		}
		idx := info.ObjectOf(iv)
		if wl, isW := windowLoopOf(info, t, idx, init.Rhs[0]); isW {
			return wl, true
		}
		post, ok := t.Post.(*ast.IncDecStmt)
		if !ok || idx == nil {
			return nil, false
		}
		if id, ok := ast.Unparen(post.X).(*ast.Ident); !ok || info.ObjectOf(id) != idx {
			return nil, false
		}
		cond, ok := ast.Unparen(t.Cond).(*ast.BinaryExpr)
		if !ok {
			return nil, false
		}
		// normalise the condition to `idx OP rhs`
		op, lhs, rhs := cond.Op, cond.X, cond.Y
		if id, ok := ast.Unparen(lhs).(*ast.Ident); !ok || info.ObjectOf(id) != idx {
			// `rhs OP idx` form
			if id2, ok2 := ast.Unparen(rhs).(*ast.Ident); ok2 && info.ObjectOf(id2) == idx {
				lhs, rhs = rhs, lhs
				switch op {
				case token.LSS:
					op = token.GTR
				case token.LEQ:
					op = token.GEQ
				case token.GTR:
					op = token.LSS
				case token.GEQ:
					op = token.LEQ
				default:
					return nil, false
				}
			} else {
				return nil, false
			}
		}
		if assignedIn(info, t.Body, idx) {
			return nil, false
		}
		l := &ElemLoop{Stmt: s, Body: t.Body, info: info, index: idx}
		if post.Tok == token.INC {
			c0, isC := ConstInt(info, init.Rhs[0])
			if !isC {
				return nil, false
			}
			base, d, ok := lenPlusConst(info, rhs)
			if !ok {
				return nil, false
			}
			switch op {
			case token.LSS: // i < len+d : last i = len+d-1
			case token.LEQ: // i <= len+d : last i = len+d
				d++
			default:
				return nil, false
			}
			// indices c0 .. len+d-1 ; element offset c0 ; full coverage iff d == c0
			if d != c0 {
				return nil, false
			}
			l.Base, l.off = base, c0
			return l, true
		}
		if post.Tok == token.DEC {
			base, c1, ok := lenPlusConst(info, init.Rhs[0])
			if !ok {
				return nil, false
			}
			c2, isC := ConstInt(info, rhs)
			if !isC {
				return nil, false
			}
			switch op {
			case token.GEQ: // i >= c2
			case token.GTR: // i > c2  => i >= c2+1
				c2++
			default:
				return nil, false
			}
			// indices len+c1 .. c2 ; offset c2 ; full coverage iff len+c1-c2 == len-1
			if c1-c2 != -1 {
				return nil, false
			}
			l.Base, l.off, l.Desc = base, c2, true
			return l, true
		}
	}
	return nil, false
}

// windowLoopOf recognises `for r := B; len(r) > 0; r = r[1:]` and `for r := B; len(r) > 0; r = r[:len(r)-1]`.
func windowLoopOf(info *types.Info, t *ast.ForStmt, w types.Object, base ast.Expr) (*ElemLoop, bool) {
	if w == nil || t.Cond == nil || t.Post == nil {
		return nil, false
	}
	if _, isSlice := w.Type().Underlying().(*types.Slice); !isSlice {
		return nil, false
	}
	isW := func(e ast.Expr) bool {
		id, ok := ast.Unparen(e).(*ast.Ident)
		return ok && info.ObjectOf(id) == w
	}
	// the condition: len(r) > 0, len(r) != 0, len(r) >= 1, 0 < len(r)
	cond, ok := ast.Unparen(t.Cond).(*ast.BinaryExpr)
	if !ok {
		return nil, false
	}
	op, x, y := cond.Op, cond.X, cond.Y
	if _, isC := ConstInt(info, x); isC {
		x, y = y, x
		switch op {
		case token.LSS:
			op = token.GTR
		case token.LEQ:
			op = token.GEQ
		case token.NEQ:
		default:
			return nil, false
		}
	}
	b, c, isL := lenPlusConst(info, x)
	k, isK := ConstInt(info, y)
	if !isL || c != 0 || !isW(b) || !isK {
		return nil, false
	}
	if !((op == token.GTR && k == 0) || (op == token.NEQ && k == 0) || (op == token.GEQ && k == 1)) {
		return nil, false
	}
	post, ok := t.Post.(*ast.AssignStmt)
	if !ok || post.Tok != token.ASSIGN || len(post.Lhs) != 1 || len(post.Rhs) != 1 || !isW(post.Lhs[0]) {
		return nil, false
	}
	sl, ok := ast.Unparen(post.Rhs[0]).(*ast.SliceExpr)
	if !ok || !isW(sl.X) || sl.Slice3 {
		return nil, false
	}
	l := &ElemLoop{Stmt: t, Base: base, Body: t.Body, info: info, window: w}
	switch {
	case sl.Low != nil && sl.High == nil:
		if k, isC := ConstInt(info, sl.Low); !isC || k != 1 {
			return nil, false
		}
	case sl.Low == nil && sl.High != nil:
		hb, hc, isH := lenPlusConst(info, sl.High)
		if !isH || hc != -1 || !isW(hb) {
			return nil, false
		}
		l.Desc = true
	default:
		return nil, false
	}
	if assignedIn(info, t.Body, w) {
		return nil, false
	}
	return l, true
}
