package eng

import (
	"go/ast"
	"go/token"
	"go/types"
	"sort"
)

// Provenance (kind D) on the typed AST: Origins(e) is the set of objects, constants and callees an
// expression may be data-dependent on, following local variables through *all* their assignments in the
// enclosing declared function (flow-insensitive: an over-approximation of "may depend on").

type OriginSet struct {
	Objs   map[types.Object]bool // variables, parameters, fields, functions (callees), package vars
	Consts map[string]bool       // exact constant values
	Convs  []*ast.CallExpr       // conversions passed through
	Lits   []*ast.FuncLit
	Nodes  int
}

func newOriginSet() *OriginSet {
	return &OriginSet{Objs: map[types.Object]bool{}, Consts: map[string]bool{}}
}

func (o *OriginSet) Has(obj types.Object) bool { return obj != nil && o.Objs[obj] }

func (o *OriginSet) HasConst(v string) bool { return o.Consts[v] }

func (o *OriginSet) Names() []string {
	var out []string
	for k := range o.Objs {
		out = append(out, k.Name())
	}
	sort.Strings(out)
	return out
}

// HasCallTo reports whether a call to pkgPath.name (function or method name) is among the origins.
func (o *OriginSet) HasCallTo(pkgPath, name string) bool {
	for k := range o.Objs {
		if fn, ok := k.(*types.Func); ok && fn.Name() == name && fn.Pkg() != nil && fn.Pkg().Path() == pkgPath {
			return true
		}
	}
	return false
}

type flowCtx struct {
	p       *Prog
	info    *types.Info
	root    ast.Node // declared function body (whole), assignments are searched here
	set     *OriginSet
	seenVar map[*types.Var]bool
	depth   int // look-through depth for repo callees
}

// Origins computes the origin set of expression e that occurs inside function f.
func (p *Prog) Origins(f *Func, e ast.Expr, callDepth int) *OriginSet {
	c := &flowCtx{p: p, info: f.Pkg.TypesInfo, root: f.Decl, set: newOriginSet(), seenVar: map[*types.Var]bool{}, depth: callDepth}
	c.expr(e)
	return c.set
}

func (c *flowCtx) expr(e ast.Expr) {
	if e == nil {
		return
	}
	c.set.Nodes++
	if c.set.Nodes > 20000 {
		return
	}
	e = ast.Unparen(e)
	if tv, ok := c.info.Types[e]; ok && tv.Value != nil {
		c.set.Consts[tv.Value.ExactString()] = true
		// constant identifiers also count as objects
		if id, ok := e.(*ast.Ident); ok {
			if o := c.info.Uses[id]; o != nil {
				c.set.Objs[o] = true
			}
		}
		if s, ok := e.(*ast.SelectorExpr); ok {
			if o := c.info.Uses[s.Sel]; o != nil {
				c.set.Objs[o] = true
			}
		}
		return
	}
	switch t := e.(type) {
	case *ast.Ident:
		obj := c.info.Uses[t]
		if obj == nil {
			obj = c.info.Defs[t]
		}
		if obj == nil {
			return
		}
		c.set.Objs[obj] = true
		if v, ok := obj.(*types.Var); ok && !v.IsField() {
			c.localVar(v)
		}
		if _, ok := obj.(*types.Nil); ok {
			c.set.Consts["nil"] = true
		}
	case *ast.SelectorExpr:
		if o := c.info.Uses[t.Sel]; o != nil {
			c.set.Objs[o] = true
		}
		if _, isPkg := c.info.Uses[identOf(t.X)].(*types.PkgName); !isPkg {
			c.expr(t.X)
		}
	case *ast.CallExpr:
		if tv, ok := c.info.Types[t.Fun]; ok && tv.IsType() {
			c.set.Convs = append(c.set.Convs, t)
			for _, a := range t.Args {
				c.expr(a)
			}
			return
		}
		callee := CalleeOf(c.info, t)
		if callee != nil {
			c.set.Objs[callee] = true
		}
		if s, ok := ast.Unparen(t.Fun).(*ast.SelectorExpr); ok {
			if _, isPkg := c.info.Uses[identOf(s.X)].(*types.PkgName); !isPkg {
				c.expr(s.X)
			}
		} else if _, ok := ast.Unparen(t.Fun).(*ast.Ident); !ok {
			c.expr(t.Fun)
		}
		for _, a := range t.Args {
			c.expr(a)
		}
		if fn, ok := callee.(*types.Func); ok && c.depth > 0 {
			if cf := c.p.FuncOf(fn); cf != nil && cf.Decl.Body != nil {
				sub := &flowCtx{p: c.p, info: cf.Pkg.TypesInfo, root: cf.Decl, set: c.set, seenVar: c.seenVar, depth: c.depth - 1}
				inspectNoLit(cf.Decl.Body, func(m ast.Node) bool {
					if r, ok := m.(*ast.ReturnStmt); ok {
						for _, x := range r.Results {
							sub.expr(x)
						}
					}
					return true
				})
			}
		}
	case *ast.CompositeLit:
		for _, el := range t.Elts {
			if kv, ok := el.(*ast.KeyValueExpr); ok {
				if id, ok := kv.Key.(*ast.Ident); ok {
					if v, ok := c.info.Uses[id].(*types.Var); ok && v.IsField() {
						// field key: not a data source
						c.expr(kv.Value)
						continue
					}
				}
				c.expr(kv.Key)
				c.expr(kv.Value)
			} else {
				c.expr(el)
			}
		}
	case *ast.UnaryExpr:
		c.expr(t.X)
	case *ast.BinaryExpr:
		c.expr(t.X)
		c.expr(t.Y)
	case *ast.StarExpr:
		c.expr(t.X)
	case *ast.IndexExpr:
		c.expr(t.X)
		c.expr(t.Index)
	case *ast.SliceExpr:
		c.expr(t.X)
		c.expr(t.Low)
		c.expr(t.High)
		c.expr(t.Max)
	case *ast.TypeAssertExpr:
		c.expr(t.X)
	case *ast.KeyValueExpr:
		c.expr(t.Key)
		c.expr(t.Value)
	case *ast.FuncLit:
		c.set.Lits = append(c.set.Lits, t)
	}
}

func identOf(e ast.Expr) *ast.Ident {
	id, _ := ast.Unparen(e).(*ast.Ident)
	return id
}

func (c *flowCtx) localVar(v *types.Var) {
	if c.seenVar[v] {
		return
	}
	c.seenVar[v] = true
	if v.Pkg() != nil && v.Parent() == v.Pkg().Scope() {
		return // package-level variable: a source of its own
	}
	isV := func(e ast.Expr) bool {
		id := identOf(e)
		if id == nil {
			return false
		}
		return c.info.Defs[id] == v || c.info.Uses[id] == v
	}
	baseIsV := func(e ast.Expr) bool {
		for {
			switch t := ast.Unparen(e).(type) {
			case *ast.SelectorExpr:
				e = t.X
				continue
			case *ast.IndexExpr:
				e = t.X
				continue
			case *ast.StarExpr:
				e = t.X
				continue
			}
			break
		}
		return isV(e)
	}
	// stores through the variable (v.f = x, v[k] = x) feed it only when v is a local aggregate that is being
	// built up in this function: not for pointers (receivers, shared objects) and not for parameters.
	_, isPtr := v.Type().Underlying().(*types.Pointer)
	aggregate := !isPtr && !c.isParam(v)
	ast.Inspect(c.root, func(m ast.Node) bool {
		switch t := m.(type) {
		case *ast.AssignStmt:
			for i, l := range t.Lhs {
				if isV(l) || (aggregate && t.Tok == token.ASSIGN && baseIsV(l)) {
					if len(t.Lhs) == len(t.Rhs) {
						c.expr(t.Rhs[i])
					} else {
						for _, r := range t.Rhs {
							c.expr(r)
						}
					}
				}
			}
		case *ast.ValueSpec:
			for i, nm := range t.Names {
				if c.info.Defs[nm] == v {
					if len(t.Values) == len(t.Names) {
						c.expr(t.Values[i])
					} else {
						for _, r := range t.Values {
							c.expr(r)
						}
					}
				}
			}
		case *ast.RangeStmt:
			if (t.Key != nil && isV(t.Key)) || (t.Value != nil && isV(t.Value)) {
				c.expr(t.X)
			}
		case *ast.TypeSwitchStmt:
			if as, ok := t.Assign.(*ast.AssignStmt); ok && len(as.Lhs) == 1 {
				// implicit objects per clause
				for _, cl := range t.Body.List {
					if c.info.Implicits[cl] == v {
						c.expr(as.Rhs[0])
					}
				}
			}
		case *ast.CallExpr:
			// append-style mutation through pointer args is ignored
		}
		return true
	})
}

// AssignedExprs returns the right-hand sides assigned to variable v inside root (all bodies).
func AssignedExprs(info *types.Info, root ast.Node, v *types.Var) []ast.Expr {
	var out []ast.Expr
	ast.Inspect(root, func(m ast.Node) bool {
		switch t := m.(type) {
		case *ast.AssignStmt:
			for i, l := range t.Lhs {
				id := identOf(l)
				if id == nil || (info.Defs[id] != v && info.Uses[id] != v) {
					continue
				}
				if len(t.Lhs) == len(t.Rhs) {
					out = append(out, t.Rhs[i])
				} else {
					out = append(out, t.Rhs...)
				}
			}
		case *ast.ValueSpec:
			for i, nm := range t.Names {
				if info.Defs[nm] == v && len(t.Values) == len(t.Names) {
					out = append(out, t.Values[i])
				}
			}
		}
		return true
	})
	return out
}

func (c *flowCtx) isParam(v *types.Var) bool {
	fd, ok := c.root.(*ast.FuncDecl)
	if !ok {
		return false
	}
	check := func(fl *ast.FieldList) bool {
		if fl == nil {
			return false
		}
		for _, f := range fl.List {
			for _, nm := range f.Names {
				if c.info.Defs[nm] == v {
					return true
				}
			}
		}
		return false
	}
	return check(fd.Recv) || check(fd.Type.Params)
}
