package eng

import (
	"bytes"
	"go/ast"
	"go/constant"
	"go/printer"
	"go/token"
	"go/types"
	"strings"
)

// Short prints a node on one line, truncated.
func Short(fset *token.FileSet, n ast.Node) string {
	var buf bytes.Buffer
	_ = printer.Fprint(&buf, fset, n)
	s := strings.Join(strings.Fields(buf.String()), " ")
	if len(s) > 110 {
		s = s[:107] + "..."
	}
	return s
}

// Src prints a node completely (single line).
func Src(fset *token.FileSet, n ast.Node) string {
	var buf bytes.Buffer
	_ = printer.Fprint(&buf, fset, n)
	return strings.Join(strings.Fields(buf.String()), " ")
}

// UsesObj reports whether expression/statement n mentions obj (not descending into literals unless deep).
func UsesObj(info *types.Info, n ast.Node, obj types.Object, deep bool) bool {
	found := false
	walker := func(m ast.Node) bool {
		if found {
			return false
		}
		switch t := m.(type) {
		case *ast.Ident:
			if info.Uses[t] == obj || info.Defs[t] == obj {
				found = true
			}
		}
		return !found
	}
	if deep {
		ast.Inspect(n, func(m ast.Node) bool {
			if m == nil {
				return false
			}
			return walker(m)
		})
	} else {
		inspectNoLit(n, walker)
	}
	return found
}

// SelObj returns the object a selector or identifier expression resolves to.
func SelObj(info *types.Info, e ast.Expr) types.Object {
	switch t := ast.Unparen(e).(type) {
	case *ast.Ident:
		if o := info.Uses[t]; o != nil {
			return o
		}
		return info.Defs[t]
	case *ast.SelectorExpr:
		return info.Uses[t.Sel]
	}
	return nil
}

// IsField reports whether e is a selector that resolves to the field fld.
func IsField(info *types.Info, e ast.Expr, fld *types.Var) bool {
	if fld == nil {
		return false
	}
	s, ok := ast.Unparen(e).(*ast.SelectorExpr)
	return ok && info.Uses[s.Sel] == fld
}

// MentionsField reports whether n contains a selector resolving to fld.
func MentionsField(info *types.Info, n ast.Node, fld *types.Var, deep bool) bool {
	found := false
	w := func(m ast.Node) bool {
		if s, ok := m.(*ast.SelectorExpr); ok && info.Uses[s.Sel] == fld {
			found = true
		}
		return !found
	}
	if deep {
		ast.Inspect(n, func(m ast.Node) bool { return m != nil && w(m) })
	} else {
		inspectNoLit(n, w)
	}
	return found
}

// ConstStr returns the string value of a constant string expression.
func ConstStr(info *types.Info, e ast.Expr) (string, bool) {
	tv, ok := info.Types[e]
	if !ok || tv.Value == nil || tv.Value.Kind() != constant.String {
		return "", false
	}
	return constant.StringVal(tv.Value), true
}

// ConstInt returns the int64 value of a constant integer expression.
func ConstInt(info *types.Info, e ast.Expr) (int64, bool) {
	tv, ok := info.Types[e]
	if !ok || tv.Value == nil || tv.Value.Kind() != constant.Int {
		return 0, false
	}
	return constant.Int64Val(tv.Value)
}

// IsNil reports whether e is the predeclared nil.
func IsNil(info *types.Info, e ast.Expr) bool {
	tv, ok := info.Types[ast.Unparen(e)]
	return ok && tv.IsNil()
}

// EqAtom decomposes a fact into (lhs, rhs, equal) when it is an equality test (==, != or a switch case).
func EqAtom(f Fact) (ast.Expr, ast.Expr, bool, bool) {
	if f.Y != nil {
		return f.X, f.Y, f.Pos, true
	}
	b, ok := ast.Unparen(f.X).(*ast.BinaryExpr)
	if !ok {
		return nil, nil, false, false
	}
	switch b.Op {
	case token.EQL:
		return b.X, b.Y, f.Pos, true
	case token.NEQ:
		return b.X, b.Y, !f.Pos, true
	}
	return nil, nil, false, false
}

// FuncFullName renders pkgpath.Name or (recv).Name for a function object.
func FuncFullName(fn *types.Func) string {
	if fn == nil {
		return "<nil>"
	}
	return fn.FullName()
}

// IsPkgFunc reports whether obj is the function pkgPath.name.
func IsPkgFunc(obj types.Object, pkgPath, name string) bool {
	fn, ok := obj.(*types.Func)
	if !ok || fn.Pkg() == nil {
		return false
	}
	if fn.Pkg().Path() != pkgPath || fn.Name() != name {
		return false
	}
	sig := fn.Type().(*types.Signature)
	return sig.Recv() == nil
}

// IsMethod reports whether obj is method `name` on a (pointer to) named type pkgPath.typ.
func IsMethod(obj types.Object, pkgPath, typ, name string) bool {
	fn, ok := obj.(*types.Func)
	if !ok || fn.Name() != name {
		return false
	}
	sig := fn.Type().(*types.Signature)
	if sig.Recv() == nil {
		return false
	}
	t := sig.Recv().Type()
	if p, ok := t.(*types.Pointer); ok {
		t = p.Elem()
	}
	n, ok := t.(*types.Named)
	if !ok || n.Obj().Pkg() == nil {
		return false
	}
	return n.Obj().Pkg().Path() == pkgPath && n.Obj().Name() == typ
}

// RecvNamed returns the named receiver type of a method object.
func RecvNamed(fn *types.Func) *types.Named {
	sig, ok := fn.Type().(*types.Signature)
	if !ok || sig.Recv() == nil {
		return nil
	}
	t := sig.Recv().Type()
	if p, ok := t.(*types.Pointer); ok {
		t = p.Elem()
	}
	n, _ := t.(*types.Named)
	return n
}

// StmtsOf flattens a block into its statement list (for simple structural walks).
func StmtsOf(b *ast.BlockStmt) []ast.Stmt {
	if b == nil {
		return nil
	}
	return b.List
}

// EnclosingStmts returns the chain of statements from the body down to the one containing pos
// (outermost first), without entering function literals.
func EnclosingStmts(body *ast.BlockStmt, pos token.Pos) []ast.Node {
	var chain []ast.Node
	var cur ast.Node = body
	for {
		var next ast.Node
		ast.Inspect(cur, func(m ast.Node) bool {
			if m == nil || next != nil {
				return false
			}
			if m == cur {
				return true
			}
			if _, ok := m.(*ast.FuncLit); ok {
				if m.Pos() <= pos && pos < m.End() {
					next = m
				}
				return false
			}
			if st, ok := m.(ast.Stmt); ok && m.Pos() <= pos && pos < m.End() {
				next = st
				return false
			}
			if m.Pos() <= pos && pos < m.End() {
				return true
			}
			return false
		})
		if next == nil {
			return chain
		}
		if _, ok := next.(*ast.FuncLit); ok {
			return chain
		}
		chain = append(chain, next)
		cur = next
	}
}

// LoopOf returns the innermost for/range statement of body that contains pos (not crossing literals).
func LoopOf(body *ast.BlockStmt, pos token.Pos) ast.Stmt {
	var best ast.Stmt
	for _, s := range EnclosingStmts(body, pos) {
		switch s.(type) {
		case *ast.ForStmt, *ast.RangeStmt:
			best = s.(ast.Stmt)
		}
	}
	return best
}

// IsAscendingRange reports whether s is `for ... := range X` (ascending by language definition),
// or a three-clause loop `for i := 0; i < n; i++`.
func IsAscendingLoop(info *types.Info, s ast.Stmt) bool {
	switch t := s.(type) {
	case *ast.RangeStmt:
		// slices.Backward / custom iterators are not ascending
		if c, ok := ast.Unparen(t.X).(*ast.CallExpr); ok {
			if fn, ok := CalleeOf(info, c).(*types.Func); ok && fn.Name() == "Backward" {
				return false
			}
		}
		return true
	case *ast.ForStmt:
		l, ok := ElemLoopOf(info, t)
		return ok && !l.Desc
	}
	return false
}

// IsDescendingLoop reports `for i := len(x)-1; i >= 0; i--` or `for ... range slices.Backward(x)`.
func IsDescendingLoop(info *types.Info, s ast.Stmt) bool {
	switch t := s.(type) {
	case *ast.RangeStmt:
		if c, ok := ast.Unparen(t.X).(*ast.CallExpr); ok {
			if fn, ok := CalleeOf(info, c).(*types.Func); ok && fn.Name() == "Backward" && fn.Pkg() != nil && fn.Pkg().Path() == "slices" {
				return true
			}
		}
		return false
	case *ast.ForStmt:
		l, ok := ElemLoopOf(info, t)
		return ok && l.Desc
	}
	return false
}
