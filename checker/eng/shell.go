package eng

// shell.go - extractor "kind J" (DESIGN.md appendix E): a purpose-built bash tokenizer and structure
// extractor, sufficient for frameworks/shell/hook.sh, frameworks/shell/context.sh and shell_lib.sh. No shell
// parser is installed on the machine. It FAILS CLOSED: a construct it does not know (here-documents, array
// literals, process substitution, select/coproc/time, ${!x}, `;&`, `|&`, $".." ...) is a *ShError, which
// the rules turn into an undecided obligation.

import (
	"fmt"
	"go/token"
	"path/filepath"
	"regexp"
	"strings"
)

type ShPartKind int

const (
	ShLit    ShPartKind = iota // unquoted literal text
	ShSQ                       // '...' or one backslash-escaped character
	ShAnsi                     // $'...' (decoded)
	ShDQ                       // "..." (Parts)
	ShParam                    // $x ${x...}
	ShCmdSub                   // $(...) or `...` (List)
	ShArith                    // $((...)) (Text)
)

// ShPart is one piece of a word.
type ShPart struct {
	Kind     ShPartKind
	Pos      token.Pos
	Text     string // Lit/SQ/Ansi: value; Arith: expression; Param: raw operator+operand (":-", "//$'\n'/, ")
	Name     string // Param: parameter name ("1", "@", "HANDLERS")
	Prefix   string // Param: "#" (length)
	Index    string // Param: array subscript
	Backtick bool
	Parts    []*ShPart // DQ: content; Param: the parsed operand
	List     *ShList   // CmdSub
}

type ShWord struct {
	Pos   token.Pos
	Parts []*ShPart
}

type ShAssign struct {
	Pos    token.Pos
	Name   string
	Append bool
	Value  *ShWord
}

type ShRedir struct {
	Pos    token.Pos
	Fd, Op string
	Target *ShWord
}

// ShCmd is a command. Kind: simple if elif for forarith while until case subshell group func cond arith.
type ShCmd struct {
	Kind    string
	Pos     token.Pos
	Assigns []*ShAssign // simple
	Words   []*ShWord   // simple: command+arguments; for: the list; case: the subject; cond: the test words
	Redirs  []*ShRedir
	Name    string  // func: name; for: loop variable
	HasIn   bool    // for
	Cond    *ShList // if / elif / while / until
	Body    *ShList // then-branch, loop body, arm-less compound: subshell, group
	Elifs   []*ShCmd
	Else    *ShList
	Arms    []*ShArm
	Raw     string // arith, forarith
	Func    *ShCmd // func: the body (a compound command)
}

type ShArm struct {
	Pos      token.Pos
	Patterns []*ShWord
	Body     *ShList
}

type ShList struct{ Items []*ShAndOr }

// ShAndOr is pipeline {(&& | ||) pipeline}; Sep is the separator that followed it (";", "&", "\n", "").
type ShAndOr struct {
	Pipes []*ShPipe
	Ops   []string
	Sep   string
}

type ShPipe struct {
	Neg  bool
	Cmds []*ShCmd
}

type ShFile struct {
	Rel   string
	Src   []byte
	List  *ShList
	Funcs map[string]*ShCmd
	Order []string // function names in source order
}

type ShError struct {
	Pos token.Pos
	Msg string
}

func (e *ShError) Error() string { return e.Msg }

// ParseShell reads a repository file through the overlay and parses it.
func ParseShell(p *Prog, rel string) (f *ShFile, err error) {
	src, rerr := p.ReadFile(rel)
	if rerr != nil {
		return nil, &ShError{Msg: rerr.Error()}
	}
	tf := p.Fset.AddFile(filepath.Join(p.Dir, rel), -1, len(src))
	tf.SetLinesForContent(src)
	f = &ShFile{Rel: rel, Src: src, Funcs: map[string]*ShCmd{}}
	ps := &shParser{src: src, end: len(src), tf: tf, file: f}
	defer func() {
		if r := recover(); r != nil {
			se, ok := r.(*ShError)
			if !ok {
				panic(r)
			}
			f, err = nil, se
		}
	}()
	f.List = ps.parseList()
	if t := ps.peek(); t.kind != tEOF {
		ps.fail(t.off, "unexpected %s at top level", ps.text(t))
	}
	return f, nil
}

// ---------------------------------------------------------------- lexer

const (
	tWord = iota
	tOp
	tNL
	tEOF
)

type shTok struct {
	kind  int
	op    string
	word  *ShWord
	off   int
	after int  // source offset right after the token
	ioNum bool // digits immediately followed by < or >
}

func (t *shTok) is(ops ...string) bool {
	for _, o := range ops {
		if t.kind == tOp && t.op == o {
			return true
		}
	}
	return false
}

// res returns the text of a token that is one unquoted literal ("" otherwise): reserved words, names.
func (t *shTok) res() string {
	if t.kind == tWord && len(t.word.Parts) == 1 && t.word.Parts[0].Kind == ShLit {
		return t.word.Parts[0].Text
	}
	return ""
}

type shParser struct {
	src      []byte
	pos, end int
	tf       *token.File
	file     *ShFile
	peeked   *shTok
}

func (p *shParser) sub(pos, end int) *shParser {
	return &shParser{src: p.src, pos: pos, end: end, tf: p.tf, file: p.file}
}

func (p *shParser) fail(off int, format string, a ...any) {
	off = min(off, p.tf.Size())
	panic(&ShError{Pos: p.tf.Pos(off), Msg: fmt.Sprintf("%s:%d: ", filepath.Base(p.tf.Name()), p.tf.Line(p.tf.Pos(off))) + fmt.Sprintf(format, a...)})
}

func (p *shParser) text(t *shTok) string {
	switch t.kind {
	case tNL:
		return "newline"
	case tEOF:
		return "end of input"
	}
	return "`" + string(p.src[t.off:t.after]) + "`"
}

func (p *shParser) at(i int) byte {
	if i < p.end {
		return p.src[i]
	}
	return 0
}

var shOps = []string{"<<<", "<<-", ";;&", "<<", ";;", ";&", "&&", "||", "|&", "&>", ">>", ">&", "<&", ">|", "<>", ";", "&", "|", "(", ")", "<", ">"}

func isMeta(c byte) bool { return strings.IndexByte(" \t\n;&|()<>", c) >= 0 }

func (p *shParser) peek() *shTok {
	if p.peeked == nil {
		p.peeked = p.lex()
	}
	return p.peeked
}

func (p *shParser) next() *shTok {
	t := p.peek()
	p.peeked = nil
	return t
}

func (p *shParser) lex() *shTok {
	for {
		if c := p.at(p.pos); c == ' ' || c == '\t' {
			p.pos++
		} else if c == '\\' && p.at(p.pos+1) == '\n' {
			p.pos += 2
		} else {
			break
		}
	}
	if p.at(p.pos) == '#' {
		for p.pos < p.end && p.src[p.pos] != '\n' {
			p.pos++
		}
	}
	off := p.pos
	if p.pos >= p.end {
		return &shTok{kind: tEOF, off: off, after: off}
	}
	if p.src[p.pos] == '\n' {
		p.pos++
		return &shTok{kind: tNL, off: off, after: p.pos}
	}
	for _, op := range shOps {
		if strings.HasPrefix(string(p.src[p.pos:min(p.end, p.pos+3)]), op) {
			p.pos += len(op)
			return &shTok{kind: tOp, op: op, off: off, after: p.pos}
		}
	}
	w := &ShWord{Pos: p.tf.Pos(off), Parts: p.parts(isMeta, false)}
	if len(w.Parts) == 0 {
		p.fail(off, "unexpected character %q", p.src[off])
	}
	t := &shTok{kind: tWord, word: w, off: off, after: p.pos}
	t.ioNum = t.res() != "" && strings.Trim(t.res(), "0123456789") == "" && (p.at(p.pos) == '<' || p.at(p.pos) == '>')
	return t
}

// parts reads word parts until stop(c) holds for an unquoted character (which is not consumed).
// inDQ: inside double quotes (only $ ` \ are special).
func (p *shParser) parts(stop func(byte) bool, inDQ bool) []*ShPart {
	var out []*ShPart
	lit := func(off int, s string) {
		if n := len(out); n > 0 && out[n-1].Kind == ShLit {
			out[n-1].Text += s
		} else {
			out = append(out, &ShPart{Kind: ShLit, Pos: p.tf.Pos(off), Text: s})
		}
	}
	for p.pos < p.end && !stop(p.src[p.pos]) {
		c, off := p.src[p.pos], p.pos
		switch {
		case c == '\r' || c == 0:
			p.fail(off, "control character in the source")
		case c == '\\':
			n := p.at(off + 1)
			p.pos += 2
			switch {
			case off+1 >= p.end:
				p.fail(off, "trailing backslash")
			case n == '\n': // line continuation
			case inDQ && strings.IndexByte("$`\"\\", n) < 0:
				lit(off, "\\")
				p.pos--
			case inDQ:
				lit(off, string(n))
			default:
				out = append(out, &ShPart{Kind: ShSQ, Pos: p.tf.Pos(off), Text: string(n)})
			}
		case c == '\'' && !inDQ:
			e := off + 1 + strings.IndexByte(string(p.src[off+1:p.end]), '\'')
			if e <= off {
				p.fail(off, "unterminated single quote")
			}
			out = append(out, &ShPart{Kind: ShSQ, Pos: p.tf.Pos(off), Text: string(p.src[off+1 : e])})
			p.pos = e + 1
		case c == '"' && !inDQ:
			p.pos++
			dq := &ShPart{Kind: ShDQ, Pos: p.tf.Pos(off), Parts: p.parts(func(c byte) bool { return c == '"' }, true)}
			if p.at(p.pos) != '"' {
				p.fail(off, "unterminated double quote")
			}
			p.pos++
			out = append(out, dq)
		case c == '$':
			if d := p.dollar(inDQ); d != nil {
				out = append(out, d)
			} else {
				lit(off, "$")
			}
		case c == '`':
			e := off + 1 + strings.IndexByte(string(p.src[off+1:p.end]), '`')
			if e <= off || strings.IndexByte(string(p.src[off:e]), '\\') >= 0 {
				p.fail(off, "unterminated backquote, or a backslash inside backquotes (not supported)")
			}
			sub := p.sub(off+1, e)
			l := sub.parseList()
			if t := sub.peek(); t.kind != tEOF {
				p.fail(t.off, "unexpected %s inside backquotes", p.text(t))
			}
			out = append(out, &ShPart{Kind: ShCmdSub, Pos: p.tf.Pos(off), List: l, Backtick: true})
			p.pos = e + 1
		default:
			lit(off, string(c))
			p.pos++
		}
	}
	return out
}

var ansiEsc = map[byte]string{'n': "\n", 't': "\t", 'r': "\r", '\\': "\\", '\'': "'", '"': "\"", 'a': "\a", 'e': "\x1b"}

func isNameByte(c byte) bool {
	return c == '_' || c >= 'a' && c <= 'z' || c >= 'A' && c <= 'Z' || c >= '0' && c <= '9'
}

// dollar parses the expansion that starts at p.pos ('$'); nil means a literal dollar sign.
func (p *shParser) dollar(inDQ bool) *ShPart {
	off, n := p.pos, p.at(p.pos+1)
	d := &ShPart{Pos: p.tf.Pos(off)}
	switch {
	case n == '\'' && !inDQ:
		d.Kind = ShAnsi
		for p.pos += 2; p.at(p.pos) != '\''; p.pos++ {
			c := p.at(p.pos)
			if p.pos >= p.end {
				p.fail(off, "unterminated $'")
			}
			if c == '\\' {
				p.pos++
				v, ok := ansiEsc[p.at(p.pos)]
				if !ok {
					p.fail(p.pos, "escape \\%c in $'..' is not supported", p.at(p.pos))
				}
				d.Text += v
			} else {
				d.Text += string(c)
			}
		}
		p.pos++
	case n == '"' && !inDQ:
		p.fail(off, "locale string $\"..\" is not supported")
	case n == '(' && p.at(off+2) == '(':
		p.pos += 3
		d.Kind, d.Text = ShArith, p.arith(off)
	case n == '(':
		sub := p.sub(off+2, p.end)
		d.Kind, d.List = ShCmdSub, sub.parseList()
		if t := sub.next(); !t.is(")") {
			p.fail(t.off, "unexpected %s inside $( )", p.text(t))
		}
		p.pos = sub.pos
	case n == '{':
		p.braceParam(d)
	case isNameByte(n) && (n < '0' || n > '9'):
		for p.pos++; isNameByte(p.at(p.pos)); p.pos++ {
		}
		d.Kind, d.Name = ShParam, string(p.src[off+1:p.pos])
	case n != 0 && strings.IndexByte("0123456789@*#?$!-", n) >= 0:
		p.pos += 2
		d.Kind, d.Name = ShParam, string(n)
	default:
		p.pos++
		return nil
	}
	return d
}

// arith scans an arithmetic expression up to the closing "))" (p.pos is after the opening).
func (p *shParser) arith(off int) string {
	for start, depth := p.pos, 0; p.pos < p.end; p.pos++ {
		switch c := p.src[p.pos]; {
		case c == '(':
			depth++
		case c == ')' && depth == 0 && p.at(p.pos+1) == ')':
			p.pos += 2
			return string(p.src[start : p.pos-2])
		case c == ')':
			depth--
		case c == '`' || c == '\'' || c == '"' || c == '\\' || c == '$' && p.at(p.pos+1) == '(':
			p.fail(p.pos, "quoting or command substitution inside an arithmetic expression is not supported")
		}
	}
	p.fail(off, "unterminated arithmetic expression")
	return ""
}

var shBraceRe = regexp.MustCompile(`^\$\{(#?)([A-Za-z_][A-Za-z0-9_]*|[0-9]+|[@*#?$!-])(\[[^\]\[$` + "`" + `"'\n]*\])?`)

// braceParam parses ${[#]name[subscript][operator operand]} at p.pos.
func (p *shParser) braceParam(d *ShPart) {
	off := p.pos
	m := shBraceRe.FindSubmatch(p.src[off:p.end])
	if m == nil || string(m[2]) == "!" && p.at(off+len(m[0])) != '}' {
		p.fail(off, "unsupported parameter expansion (indirect ${!..}, computed subscript, ...)")
	}
	d.Kind, d.Prefix, d.Name = ShParam, string(m[1]), string(m[2])
	if len(m[3]) > 0 {
		d.Index = string(m[3][1 : len(m[3])-1])
	}
	p.pos = off + len(m[0])
	s := p.pos
	d.Parts = p.parts(func(c byte) bool { return c == '}' }, false)
	if p.at(p.pos) != '}' || d.Prefix == "#" && p.pos > s {
		p.fail(off, "unterminated or unsupported ${ } expansion")
	}
	d.Text = string(p.src[s:p.pos])
	p.pos++
}

// ---------------------------------------------------------------- parser

var shClosers = map[string]bool{"then": true, "else": true, "elif": true, "fi": true, "do": true, "done": true, "esac": true, "}": true}
var shRedirOps = map[string]bool{"<": true, ">": true, ">>": true, ">&": true, "<&": true, "<<<": true, "&>": true, ">|": true, "<>": true}

func (p *shParser) skipNL() {
	for p.peek().kind == tNL {
		p.next()
	}
}

// expect consumes a reserved word (or, for ")", the operator).
func (p *shParser) expect(word string) {
	if t := p.next(); t.res() != word && !t.is(word) {
		p.fail(t.off, "expected `%s`, found %s", word, p.text(t))
	}
}

func (p *shParser) listEnd(t *shTok) bool {
	return t.kind == tEOF || t.is(")", ";;", ";&", ";;&") || shClosers[t.res()]
}

func (p *shParser) parseList() *ShList {
	l := &ShList{}
	for {
		p.skipNL()
		if p.listEnd(p.peek()) {
			return l
		}
		ao := &ShAndOr{Pipes: []*ShPipe{p.parsePipe()}}
		for p.peek().is("&&", "||") {
			ao.Ops = append(ao.Ops, p.next().op)
			p.skipNL()
			ao.Pipes = append(ao.Pipes, p.parsePipe())
		}
		l.Items = append(l.Items, ao)
		switch t := p.peek(); {
		case t.is(";", "&"):
			ao.Sep = p.next().op
		case t.kind == tNL:
			ao.Sep = "\n"
		case !p.listEnd(t):
			p.fail(t.off, "unexpected %s after a command", p.text(t))
		}
	}
}

func (p *shParser) parsePipe() *ShPipe {
	pl := &ShPipe{}
	if p.peek().res() == "!" {
		p.next()
		pl.Neg = true
	}
	for {
		pl.Cmds = append(pl.Cmds, p.parseCommand())
		if !p.peek().is("|") {
			return pl
		}
		p.next()
		p.skipNL()
	}
}

func (p *shParser) parseCommand() *ShCmd {
	t := p.peek()
	c := &ShCmd{Pos: p.tf.Pos(t.off)}
	switch r := t.res(); {
	case t.is("(") && p.at(t.after) == '(':
		p.next()
		p.pos++
		c.Kind, c.Raw = "arith", p.arith(t.off)
	case t.is("("):
		p.next()
		c.Kind, c.Body = "subshell", p.parseList()
		p.expect(")")
	case r == "{":
		p.next()
		c.Kind, c.Body = "group", p.parseList()
		p.expect("}")
	case r == "if":
		for x := c; p.peek().res() == "if" || p.peek().res() == "elif"; x = new(ShCmd) {
			x.Kind, x.Pos = p.peek().res(), p.tf.Pos(p.next().off)
			x.Cond = p.parseList()
			p.expect("then")
			x.Body = p.parseList()
			if x != c {
				c.Elifs = append(c.Elifs, x)
			}
		}
		if p.peek().res() == "else" {
			p.next()
			c.Else = p.parseList()
		}
		p.expect("fi")
	case r == "while" || r == "until":
		p.next()
		c.Kind, c.Cond = r, p.parseList()
		p.expect("do")
		c.Body = p.parseList()
		p.expect("done")
	case r == "for":
		p.next()
		p.parseFor(c)
	case r == "case":
		p.next()
		p.parseCase(c)
	case r == "[[":
		c.Kind = "cond"
		for p.next(); p.peek().res() != "]]"; {
			switch u := p.next(); {
			case u.kind == tWord:
				c.Words = append(c.Words, u.word)
			case u.is("&&", "||", "(", ")", "<", ">"):
				c.Words = append(c.Words, &ShWord{Pos: p.tf.Pos(u.off), Parts: []*ShPart{{Kind: ShLit, Pos: p.tf.Pos(u.off), Text: u.op}}})
			case u.kind != tNL:
				p.fail(u.off, "unexpected %s inside [[ ]]", p.text(u))
			}
		}
		p.next()
	case r == "function":
		p.next()
		n := p.next()
		if n.res() == "" {
			p.fail(n.off, "function name expected, found %s", p.text(n))
		}
		if p.peek().is("(") {
			p.next()
			p.expect(")")
		}
		p.funcBody(c, n.res(), n.off)
		return c
	case shClosers[r] || r == "in" || r == "]]" || r == "select" || r == "coproc" || r == "time" || r == "!":
		p.fail(t.off, "unexpected or unsupported reserved word `%s`", r)
	default:
		p.parseSimple(c) // fails when the token cannot start a command
		return c
	}
	for p.peek().ioNum || p.peek().kind == tOp && strings.ContainsAny(p.peek().op, "<>") { // redirections of a compound command
		c.Redirs = append(c.Redirs, p.parseRedir())
	}
	return c
}

func (p *shParser) funcBody(c *ShCmd, name string, off int) {
	p.skipNL()
	if t := p.peek(); !t.is("(") && !map[string]bool{"{": true, "if": true, "while": true, "until": true, "for": true, "case": true, "[[": true}[t.res()] {
		p.fail(t.off, "compound command expected as the body of function %s", name)
	}
	c.Kind, c.Name, c.Func = "func", name, p.parseCommand()
	if p.file.Funcs[name] != nil {
		p.fail(off, "function %s is defined twice", name)
	}
	p.file.Funcs[name], p.file.Order = c, append(p.file.Order, name)
}

var shNameRe = regexp.MustCompile(`^[A-Za-z_][A-Za-z0-9_]*$`)

func (p *shParser) parseFor(c *ShCmd) {
	t := p.next()
	if t.is("(") && p.at(t.after) == '(' {
		p.pos++
		c.Kind, c.Raw = "forarith", p.arith(t.off)
	} else {
		if !shNameRe.MatchString(t.res()) {
			p.fail(t.off, "loop variable expected after `for`, found %s", p.text(t))
		}
		c.Kind, c.Name = "for", t.res()
		if p.peek().res() == "in" {
			p.next()
			c.HasIn = true
			for p.peek().kind == tWord {
				c.Words = append(c.Words, p.next().word)
			}
		}
	}
	if p.peek().is(";") {
		p.next()
	}
	p.skipNL()
	p.expect("do")
	c.Body = p.parseList()
	p.expect("done")
}

func (p *shParser) parseCase(c *ShCmd) {
	t := p.next()
	if t.kind != tWord {
		p.fail(t.off, "word expected after `case`, found %s", p.text(t))
	}
	c.Kind, c.Words = "case", []*ShWord{t.word}
	p.skipNL()
	p.expect("in")
	for p.skipNL(); p.peek().res() != "esac"; p.skipNL() {
		arm := &ShArm{Pos: p.tf.Pos(p.peek().off)}
		if p.peek().is("(") {
			p.next()
		}
		for sep := "|"; sep == "|"; {
			u, v := p.next(), p.next()
			if u.kind != tWord || !v.is("|", ")") {
				p.fail(u.off, "case pattern list expected, found %s %s", p.text(u), p.text(v))
			}
			arm.Patterns, sep = append(arm.Patterns, u.word), v.op
		}
		arm.Body = p.parseList()
		c.Arms = append(c.Arms, arm)
		if t = p.peek(); t.is(";;") {
			p.next()
		} else if t.res() != "esac" {
			p.fail(t.off, "`;;` or `esac` expected, found %s (`;&` and `;;&` are not supported)", p.text(t))
		}
	}
	p.next()
}

func (p *shParser) parseRedir() *ShRedir {
	t := p.next()
	r := &ShRedir{Pos: p.tf.Pos(t.off)}
	if t.ioNum {
		r.Fd = t.res()
		t = p.next()
	}
	w := p.next()
	if t.kind != tOp || !shRedirOps[t.op] || w.kind != tWord {
		p.fail(t.off, "unsupported redirection %s %s (here-documents and process substitution are not supported)", p.text(t), p.text(w))
	}
	r.Op, r.Target = t.op, w.word
	return r
}

var shAssignRe = regexp.MustCompile(`^([A-Za-z_][A-Za-z0-9_]*)(\[[^\]]*\])?(\+?)=`)

// ShSplitAssign splits a word of the form NAME=value (also NAME+=value, NAME[i]=value); used for assignment
// words and for the arguments of the declaration builtins (export, local, declare, typeset, readonly).
func ShSplitAssign(w *ShWord) *ShAssign {
	if len(w.Parts) == 0 || w.Parts[0].Kind != ShLit {
		return nil
	}
	m := shAssignRe.FindStringSubmatch(w.Parts[0].Text)
	if m == nil {
		return nil
	}
	a := &ShAssign{Pos: w.Pos, Name: m[1] + m[2], Append: m[3] == "+", Value: &ShWord{Pos: w.Pos}}
	if rest := w.Parts[0].Text[len(m[0]):]; rest != "" {
		a.Value.Parts = append(a.Value.Parts, &ShPart{Kind: ShLit, Pos: w.Parts[0].Pos + token.Pos(len(m[0])), Text: rest})
	}
	a.Value.Parts = append(a.Value.Parts, w.Parts[1:]...)
	return a
}

func (p *shParser) parseSimple(c *ShCmd) {
	c.Kind = "simple"
	for {
		t := p.peek()
		switch {
		case t.ioNum || t.kind == tOp && strings.ContainsAny(t.op, "<>"):
			c.Redirs = append(c.Redirs, p.parseRedir())
		case t.kind == tWord:
			p.next()
			a := ShSplitAssign(t.word)
			if a != nil && (strings.Contains(a.Name, "[") || len(a.Value.Parts) == 0 && p.at(t.after) == '(') {
				p.fail(t.off, "array assignment is not supported")
			}
			if a != nil && len(c.Words) == 0 {
				c.Assigns = append(c.Assigns, a)
			} else {
				c.Words = append(c.Words, t.word)
			}
		case t.is("(") && len(c.Words) == 1 && len(c.Assigns)+len(c.Redirs) == 0 && len(c.Words[0].Parts) == 1 && c.Words[0].Parts[0].Kind == ShLit:
			p.next() // name () compound-command
			p.expect(")")
			name := c.Words[0].Parts[0].Text
			c.Words = nil
			p.funcBody(c, name, t.off)
			return
		case t.is("(") || len(c.Words)+len(c.Assigns)+len(c.Redirs) == 0:
			p.fail(t.off, "unexpected %s", p.text(t))
		default:
			return
		}
	}
}

// ---------------------------------------------------------------- traversal helpers for the rules

// Lit returns the value of a word that contains no expansion.
func (w *ShWord) Lit() (string, bool) { return litOf(w.Parts) }

func litOf(parts []*ShPart) (string, bool) {
	s := ""
	for _, p := range parts {
		switch p.Kind {
		case ShLit, ShSQ, ShAnsi:
			s += p.Text
		case ShDQ:
			t, ok := litOf(p.Parts)
			if !ok {
				return "", false
			}
			s += t
		default:
			return "", false
		}
	}
	return s, true
}

// CmdName returns the literal command name of a simple command ("" when absent or computed).
func (c *ShCmd) CmdName() string {
	if c.Kind != "simple" || len(c.Words) == 0 {
		return ""
	}
	s, _ := c.Words[0].Lit()
	return s
}

// Lists returns the command lists nested in a compound command (conditions, bodies, branches, arms).
func (c *ShCmd) Lists() []*ShList {
	ls := []*ShList{c.Cond, c.Body}
	for _, e := range c.Elifs {
		ls = append(ls, e.Cond, e.Body)
	}
	ls = append(ls, c.Else)
	for _, a := range c.Arms {
		ls = append(ls, a.Body)
	}
	var out []*ShList
	for _, l := range ls {
		if l != nil {
			out = append(out, l)
		}
	}
	return out
}

// AllWords returns every word of the command itself: assigned values, words, case patterns, redirection targets.
func (c *ShCmd) AllWords() []*ShWord {
	var ws []*ShWord
	for _, a := range c.Assigns {
		ws = append(ws, a.Value)
	}
	ws = append(ws, c.Words...)
	for _, a := range c.Arms {
		ws = append(ws, a.Patterns...)
	}
	for _, r := range c.Redirs {
		ws = append(ws, r.Target)
	}
	return ws
}

// ShExpansions visits the expansions of a word at this word's level: it descends into double quotes and
// into ${..} operands, not into the commands of a command substitution. quoted: inside double quotes.
func ShExpansions(parts []*ShPart, quoted bool, visit func(p *ShPart, quoted bool)) {
	for _, p := range parts {
		switch p.Kind {
		case ShDQ:
			ShExpansions(p.Parts, true, visit)
		case ShParam:
			visit(p, quoted)
			ShExpansions(p.Parts, quoted, visit)
		case ShCmdSub, ShArith:
			visit(p, quoted)
		}
	}
}

// ShWalk visits every command of a list in source order, including function bodies and the commands inside
// command substitutions. fn is the name of the enclosing function ("" at top level).
func ShWalk(l *ShList, fn string, visit func(c *ShCmd, fn string)) {
	var walk func(c *ShCmd, fn string)
	walk = func(c *ShCmd, fn string) {
		visit(c, fn)
		for _, w := range c.AllWords() {
			ShExpansions(w.Parts, false, func(p *ShPart, _ bool) {
				if p.Kind == ShCmdSub {
					ShWalk(p.List, fn, visit)
				}
			})
		}
		for _, sub := range c.Lists() {
			ShWalk(sub, fn, visit)
		}
		if c.Func != nil {
			walk(c.Func, c.Name)
		}
	}
	for _, ao := range l.Items {
		for _, pl := range ao.Pipes {
			for _, c := range pl.Cmds {
				walk(c, fn)
			}
		}
	}
}
